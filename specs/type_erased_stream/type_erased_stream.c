/* C13 / C02: unifex::type_erase<Values...>(stream) -- include/unifex/type_erased_stream.hpp.
 *
 *   consumer side                                     heap-allocated concrete stream (behind std::unique_ptr<stream_base>)
 *   next_sender::_op  NOP { refCount_, stream_, receiver_ = _next_receiver{consumer receiver, &NOP} }
 *        start()  ---- virtual start_next(receiver_, token) ---->  CS: activate next_ = connect(next(inner), next_receiver_wrapper NW{receiver, CS, token}); start
 *        consumer <--- _next_receiver::set_xxx (refCount_ election) <--- NW::set_xxx: deactivate next_ (NW lives in it), then forward
 *   cleanup_sender::_op COP { stream_, receiver_ } -- start_cleanup --> CS: activate cleanup_ ... CW::set_xxx: deactivate cleanup_, forward
 *
 * M1 on refCount_ (initial 1) under rely/guarantee, the election of DESIGN A.1 with ONE child:
 *   c = refCount_, ki = the inner party (inner next() completion, or start_next's catch handler) still owns its unit,
 *   a = the stop callback is between its fetch_add and its fetch_sub, e = elected (somebody's fetch_sub returned 1 and completes the
 *   consumer), z = dead increment 0 -> 1 by a late callback, f = the callback has fired.
 * Sequential part: slot ghosts of union { next_, cleanup_ } (NONE / ALIVE / STARTED / COMPLETING), exactly-once and ordering
 * obligations inside the event stubs, dead-object snapshot after every call that may have completed the consumer.
 * Bodies marked @BODY / @EXPR are extracted from /repo on every run; everything else here is specification. */
#include <stddef.h>
#include <stdint.h>

struct cstream { int stream_; };                                           /* _stream<Stream>::type: the inner stream (token) + union { next_, cleanup_ } (ghost) */
struct next_op;
struct next_rcv { struct next_op* op_; int receiver_; };                   /* _next_receiver<Receiver>::type : next_receiver_base */
struct next_op { int8_t refCount_; struct cstream* stream_; struct next_rcv receiver_; };   /* next_sender::_op<Receiver>::type : next_op_base */
struct cleanup_rcv { int receiver_; };                                     /* _cleanup_receiver<Receiver>::type */
struct cleanup_op { struct cstream* stream_; struct cleanup_rcv receiver_; };
struct next_wrapper { struct next_rcv* receiver_; struct cstream* stream_; int stopToken_; };
struct cleanup_wrapper { struct cleanup_rcv* receiver_; struct cstream* stream_; int stopToken_; };
struct cancel_callback { struct next_op* op_; };

enum { SL_next_, SL_cleanup_, SL_N };
enum { LS_NONE, LS_ALIVE, LS_STARTED, LS_COMPLETING };
enum { K_next, K_cleanup };
enum { W_next_receiver_wrapper, W_cleanup_receiver_wrapper };
enum { CH_NONE, CH_VALUE, CH_ERROR, CH_DONE };
enum { ROLE_NONE, ROLE_INNER, ROLE_CB };
enum { TOK_NONE = 0, TOK_NEVER = 1, TOK_SOURCE = 2 };
#define PAY_NONE 0

struct pst_g { _Bool ki, a, e, z, f; };
struct pst { int c; struct pst_g g; };

struct vf_ghost {
  struct pst_g p;                       /* protocol ghost of refCount_ (shared with the environment) */
  int role; unsigned mine;              /* the verified call: which party it is, how many units of refCount_ it owns */
  _Bool started;                        /* start() of the consumer-side next operation has been entered */
  unsigned incs, decs; int inc_old, dec_old; _Bool elected;
  unsigned completed; int channel, payload;              /* completion of the consumer's receiver */
  void* completed_on;
  unsigned rcv_calls; int rcv_ch, rcv_pay; void* rcv_self;   /* calls of the erased receiver's virtual set_xxx */
  uint8_t slot[SL_N]; unsigned acts[SL_N], deacts[SL_N], starts[SL_N];
  int running;                          /* the inner operation whose completion callback is being verified (-1: none) */
  _Bool wrapper_dead;                   /* that operation was destroyed, and the wrapper (its receiver) with it */
  unsigned throws; int cur_exc; _Bool copy_threw;
  int wrapped, wrapped_from;
  void* w_rcv; void* w_strm; int w_tok; int w_slot;      /* what the wrapper of the connected inner operation was initialised with */
  unsigned sn_calls, sc_calls; void* sn_rcv; void* sn_strm; int sn_tok;   /* start_next / start_cleanup calls */
  unsigned stop_inner; _Bool stop_possible, asked_stop_possible;
  _Bool dead; int8_t s_ref; int s_nr, s_cs, s_tok, s_cr;
};
static struct vf_ghost G;
static struct cstream CS;
static struct next_op NOP;
static struct cleanup_op COP;
static struct next_wrapper NW;
static struct cleanup_wrapper CW;
static struct cancel_callback CANCEL;

static void vf_guar(void* p, int64_t o, int64_t n);
#define VF_G(p, o, n) vf_guar((void*)(p), (int64_t)(o), (int64_t)(n))
#include "vf.h"
static _Bool vf_nb(void) { return VF_nondet_bool() ? 1 : 0; }
static int8_t vf_i8(void) { int8_t v; return v; }
static int vf_fresh_tok(void) { int t = VF_nondet_int(); __CPROVER_assume(t != PAY_NONE); return t; }

/* member initialiser of refCount_, as written in the class (a member without initialiser is left nondeterministic) */
#define REFCOUNT_INIT_INTO(lv) do { int8_t vf_r /*@EXPR refcount_init*/; (lv) = vf_r; } while (0)

/* ---------------- protocol predicates ---------------- */
#define B(x) ((x) != 0)
#define I(x) ((x) ? 1 : 0)
#define INV_(c, ki, a, e, z, f) ( ((e) ? (!(ki) && !(a) && (c) == I(z)) : ((c) == I(ki) + I(a) && (c) >= 1)) && (!(a) || (f)) && (!(z) || ((f) && (e))) )
#define INV(s) INV_((s).c, (s).g.ki, (s).g.a, (s).g.e, (s).g.z, (s).g.f)
#define INV_NOW INV_(NOP.refCount_, G.p.ki, G.p.a, G.p.e, G.p.z, G.p.f)
#define SAME_CB(o, n) (B((n).g.a) == B((o).g.a) && B((n).g.z) == B((o).g.z) && B((n).g.f) == B((o).g.f))
/* the steps a party may take (guarantee) */
#define STEP_INNER_DONE(o, n) ((o).g.ki && !(n).g.ki && (n).c == (o).c - 1 && !(o).g.e && B((n).g.e) == ((o).c == 1) && SAME_CB(o, n))
#define STEP_CB_ENTER(o, n) (!(o).g.f && (n).g.f && B((n).g.ki) == B((o).g.ki) && B((n).g.e) == B((o).g.e) \
  && ((o).c == 0 ? ((n).c == 1 && (n).g.z && B((n).g.a) == B((o).g.a)) : ((n).c == (o).c + 1 && !(o).g.a && (n).g.a && B((n).g.z) == B((o).g.z))))
#define STEP_CB_EXIT(o, n) ((o).g.a && !(n).g.a && (n).c == (o).c - 1 && !(o).g.e && B((n).g.e) == ((o).c == 1) && B((n).g.ki) == B((o).g.ki) && B((n).g.z) == B((o).g.z) && B((n).g.f) == B((o).g.f))
/* rely of a call of party `role`: any state satisfying Inv that the OTHER parties' steps can reach */
#define RELY_(o, n, role, started) ( INV(n) \
  && (!(o).g.ki ? !(n).g.ki : 1) && (!(o).g.e || (n).g.e) && (!(o).g.f || (n).g.f) && (!(o).g.z || (n).g.z) \
  && (!((o).g.f && !(o).g.a) || !(n).g.a)                                   /* C03: a callback that has returned does not run again */ \
  && ((started) || B((n).g.ki) == B((o).g.ki))                             /* the inner operation does nothing before start() */ \
  && ((role) != ROLE_INNER || B((n).g.ki) == B((o).g.ki))                  /* I am the inner party: nobody else releases my unit */ \
  && ((role) != ROLE_CB || SAME_CB(o, n)) )                                /* I am the callback: nobody else plays it */
#define RELY(o, n) RELY_(o, n, G.role, G.started)

static struct pst pst_now(void) { struct pst s; s.c = NOP.refCount_; s.g = G.p; return s; }
static void vf_env(void) {
  struct pst o = pst_now(), n;
  n.c = vf_i8(); n.g.ki = vf_nb(); n.g.a = vf_nb(); n.g.e = vf_nb(); n.g.z = vf_nb(); n.g.f = vf_nb();
  __CPROVER_assume(RELY(o, n));
  NOP.refCount_ = (int8_t)n.c; G.p = n.g;
}
#define DEAD_MSG "C02: nothing is touched once the consumer may have been completed (it may destroy the operation, or call next() again re-using the same storage)"
static void vf_interfere(void) {
  VF_P(!G.dead, "atomic access: " DEAD_MSG);
  if (!G.dead) vf_env();
}
/* the consumer was (or, after an unelected release, may concurrently be) completed: every object is arbitrary from here on */
static void vf_die(void) {
  NOP.refCount_ = vf_i8(); NOP.receiver_.receiver_ = VF_nondet_int(); CS.stream_ = VF_nondet_int(); NW.stopToken_ = VF_nondet_int(); COP.receiver_.receiver_ = VF_nondet_int();
  G.s_ref = NOP.refCount_; G.s_nr = NOP.receiver_.receiver_; G.s_cs = CS.stream_; G.s_tok = NW.stopToken_; G.s_cr = COP.receiver_.receiver_;
  G.dead = 1;
}
#define UNTOUCHED (!G.dead || (NOP.refCount_ == G.s_ref && NOP.receiver_.receiver_ == G.s_nr && CS.stream_ == G.s_cs && NW.stopToken_ == G.s_tok && COP.receiver_.receiver_ == G.s_cr \
   && NOP.stream_ == &CS && NOP.receiver_.op_ == &NOP && COP.stream_ == &CS))

static void vf_guar(void* p, int64_t o, int64_t n) {
  struct pst s0 = pst_now(), s1 = s0;
  VF_P(!G.dead, "atomic write: " DEAD_MSG);
  VF_P(p == (void*)&NOP.refCount_, "the only atomic of the group is refCount_");
  s1.c = (int)n;
  if (n == o + 1) {
    VF_P(G.role == ROLE_CB && G.mine == 0 && G.incs == 0, "guarantee: refCount_ is incremented only by the stop callback, once, while it owns no unit");
    s1.g.f = 1; if (o == 0) s1.g.z = 1; else s1.g.a = 1;
    VF_P(STEP_CB_ENTER(s0, s1), "guarantee: the increment is the callback's enter step (at most once per registration)");
    G.incs++; G.inc_old = (int)o; if (o != 0) G.mine = 1;
    G.p = s1.g;
  } else {
    VF_P(n == o - 1, "guarantee: refCount_ only moves by one");
    VF_P(G.mine == 1 && G.decs == 0, "guarantee / C13: a unit of refCount_ is released exactly once, by a party that owns one (each signal of the inner next() is forwarded once)");
    s1.g.e = (o == 1);
    if (G.role == ROLE_CB) {
      s1.g.a = 0; VF_P(STEP_CB_EXIT(s0, s1), "guarantee: the callback's decrement is its exit step");
      VF_P(G.stop_inner == 1, "C13: the stop request is forwarded to the inner stream (stopSource_.request_stop()) before the callback releases its unit");
    } else {
      s1.g.ki = 0; VF_P(G.role == ROLE_INNER && STEP_INNER_DONE(s0, s1), "guarantee: the inner party's decrement is its done step");
      VF_P(G.slot[SL_next_] == LS_NONE, "C02: the inner next operation is destroyed BEFORE the inner party releases its unit (whoever is elected completes a consumer that may re-use the storage at once)");
    }
    G.decs++; G.dec_old = (int)o; G.mine = 0; if (o == 1) G.elected = 1;
    G.p = s1.g;
    /* not elected: the other party completes the consumer at any time from now on */
    if (o != 1 && G.started) { vf_die(); G.s_ref = (int8_t)n; }     /* (the RMW macro stores n after this hook) */
  }
}

/* ---------------- ghost hooks at function entry (instrumentation only) ---------------- */
#define VF_RCV_ENTER(self, ch, pay) do { G.rcv_calls++; G.rcv_ch = (ch); G.rcv_pay = (pay); G.rcv_self = (void*)(self); } while (0)
#define VF_SN_ENTER(self, rcv, tok) do { G.sn_calls++; G.sn_strm = (void*)(self); G.sn_rcv = (void*)(rcv); G.sn_tok = (tok); } while (0)
#define VF_SC_ENTER(self, rcv) do { G.sc_calls++; G.sn_strm = (void*)(self); G.sn_rcv = (void*)(rcv); G.sn_tok = TOK_NONE; } while (0)
#define VF_OP_START_ENTER(self) do { VF_P(!G.started, "caller obligation: start() is called once"); G.started = 1; } while (0)
/* every read of a member of the wrapper: the wrapper is the receiver stored INSIDE the inner operation */
#define VF_W(w) (*({ VF_P(!G.dead, "wrapper: " DEAD_MSG); \
  VF_P(!G.wrapper_dead, "C02: the receiver wrapper lives inside the inner operation state: none of its members is read after deactivate_union_member destroyed that operation"); &(w); }))

/* ---------------- event stubs ---------------- */
/* completion of the consumer's receiver of next(): unifex::set_xxx(std::move(receiver_), ...) in _next_receiver */
static void vf_consumer_completed(struct next_rcv* self, int ch, int pay) {
  VF_P(self == &NOP.receiver_, "the consumer's own receiver is completed");
  VF_P(!G.dead, "completion: " DEAD_MSG);
  VF_P(G.completed == 0, "C13/C01: each next() completes the consumer at most once");
  VF_P(G.elected, "C13/C01: the consumer is completed only by the party whose fetch_sub returned 1");
  VF_P(G.started, "C01: no completion before start()");
  VF_P(G.role == ROLE_INNER ? G.slot[SL_next_] == LS_NONE : !G.p.ki, "C02: the inner next operation has been destroyed when the consumer is completed (destroy happens-before completion)");
  VF_P(ch == G.rcv_ch && pay == G.rcv_pay, "C13: the consumer gets the signal the erased receiver was called with, payload unchanged");
  G.completed++; G.channel = ch; G.payload = pay; G.completed_on = (void*)self;
  vf_die();
}
static void EV_consumer_set_value(struct next_rcv* self, int v) { VF_CANARY("consumer set_value reachable"); vf_consumer_completed(self, CH_VALUE, v); }
static void EV_consumer_set_done(struct next_rcv* self) { VF_CANARY("consumer set_done reachable"); vf_consumer_completed(self, CH_DONE, PAY_NONE); }
static void EV_consumer_set_error(struct next_rcv* self, int ex) { VF_CANARY("consumer set_error reachable"); vf_consumer_completed(self, CH_ERROR, ex); }
/* completion of the consumer's receiver of cleanup() */
static void vf_cconsumer_completed(struct cleanup_rcv* self, int ch, int pay) {
  VF_P(self == &COP.receiver_, "the cleanup consumer's own receiver is completed");
  VF_P(!G.dead, "cleanup completion: " DEAD_MSG);
  VF_P(G.completed == 0, "C13: cleanup() completes the consumer exactly once");
  VF_P(G.slot[SL_cleanup_] == LS_NONE && G.slot[SL_next_] == LS_NONE, "C13/C02: the consumer's result of cleanup() is delivered only after the inner cleanup finished and its operation state was destroyed");
  VF_P(ch == G.rcv_ch && pay == G.rcv_pay, "C13: the cleanup consumer gets the signal the erased receiver was called with");
  G.completed++; G.channel = ch; G.payload = pay; G.completed_on = (void*)self;
  vf_die();
}
static void EV_cconsumer_set_done(struct cleanup_rcv* self) { vf_cconsumer_completed(self, CH_DONE, PAY_NONE); }
static void EV_cconsumer_set_error(struct cleanup_rcv* self, int ex) { vf_cconsumer_completed(self, CH_ERROR, ex); }

/* deactivate_union_member(strm.next_ / strm.cleanup_) */
static void EV_deactivate(struct cstream* strm, int s) {
  VF_P(strm == &CS && !G.dead, "deactivate: " DEAD_MSG);
  VF_P(s == SL_next_ || s == SL_cleanup_, "a member of union { next_, cleanup_ }");
  if (!(s == SL_next_ || s == SL_cleanup_)) return;
  VF_P(G.slot[s] != LS_NONE, "C02: an inner operation state is destroyed exactly once, and only if it was constructed");
  VF_P(G.slot[s] != LS_STARTED && G.slot[s] != LS_ALIVE, "C02: an inner operation state is never destroyed before that operation has completed");
  VF_P(s == G.running, "C02: an inner operation is destroyed only by its OWN completion callback (the right union member)");
  VF_P(G.rcv_calls == 0, "C02: the inner operation is destroyed BEFORE the erased receiver is called (never after: the consumer may already have re-used the storage)");
  G.slot[s] = LS_NONE; G.deacts[s]++;
  if (s == G.running) G.wrapper_dead = 1;
}
/* the by-value lambda parameters of next_receiver_wrapper::set_value: copy of the element, may throw */
static _Bool EV_copy_values(struct next_wrapper* self, int* values) {
  VF_P(self == &NW && !G.dead, "copy of the element: " DEAD_MSG);
  VF_P(G.slot[SL_next_] == LS_COMPLETING, "C02: the element is copied out while the inner operation (which may own the referenced objects) is still alive");
  if (vf_nb()) { G.copy_threw = 1; G.throws++; G.cur_exc = vf_fresh_tok(); return 1; }
  return 0;
}
static int vf_current_exception(void) {
  VF_P(G.throws > 0, "std::current_exception() is read inside a handler, after a may-throw event threw");
  return G.cur_exc;
}
static int EV_make_exception_ptr(int e) { G.wrapped_from = e; G.wrapped = vf_fresh_tok(); return G.wrapped; }
/* activate_union_member_with(slot, [&]{ return connect(next|cleanup(stream_), wrapper{receiver, *this[, stopToken]}); }) */
static _Bool EV_connect(struct cstream* strm, int s, int kind, int wtype, void* rcv, struct cstream* wstrm, int tok) {
  VF_P(strm == &CS && !G.dead, "connect: " DEAD_MSG);
  VF_P((s == SL_next_ && kind == K_next && wtype == W_next_receiver_wrapper) || (s == SL_cleanup_ && kind == K_cleanup && wtype == W_cleanup_receiver_wrapper),
       "C13: next(inner) is connected into next_ with the next wrapper, cleanup(inner) into cleanup_ with the cleanup wrapper (whose completion destroys that member)");
  VF_P(G.slot[SL_next_] == LS_NONE && G.slot[SL_cleanup_] == LS_NONE, "C02: a union member is activated only while NO member of the union is alive");
  VF_P(G.rcv_calls == 0 && G.acts[SL_next_] + G.acts[SL_cleanup_] == 0 && G.throws == 0, "C13: one inner operation per start_next / start_cleanup (forwarded exactly once)");
  VF_P(wstrm == strm, "the wrapper refers to the concrete stream whose union member it will destroy");
  G.w_rcv = rcv; G.w_strm = (void*)wstrm; G.w_tok = tok; G.w_slot = s;
  if (vf_nb()) { G.throws++; G.cur_exc = vf_fresh_tok(); return 1; }          /* strong guarantee: the member stays inactive */
  if (s == SL_next_ || s == SL_cleanup_) { G.slot[s] = LS_ALIVE; G.acts[s]++; }
  return 0;
}
/* start(slot.get()): the inner operation may complete inline, the consumer be completed and everything re-used before it returns */
static void EV_start(struct cstream* strm, int s) {
  VF_P(strm == &CS && !G.dead, "start of the inner operation: " DEAD_MSG);
  VF_P((s == SL_next_ || s == SL_cleanup_) && G.slot[s == SL_cleanup_ ? SL_cleanup_ : SL_next_] == LS_ALIVE, "C13: exactly the inner operation that was just connected is started, once");
  if (s == SL_next_ || s == SL_cleanup_) { G.slot[s] = LS_STARTED; G.starts[s]++; }
  vf_die();
}
/* stopSource_.request_stop(): the inner operation observes the request; it may complete synchronously inside */
static void EV_stop_inner(struct next_op* self) {
  VF_P(self == &NOP && !G.dead, "stopSource_.request_stop(): " DEAD_MSG);
  VF_P(G.mine == 1, "the stop request is forwarded while the callback pins the operation with the unit it owns");
  VF_P(G.stop_inner == 0, "stop is forwarded once");
  G.stop_inner++;
  vf_env();
}
static _Bool EV_consumer_stop_possible(struct next_op* self) {
  VF_P(self == &NOP && !G.dead, "get_stop_token(consumer): " DEAD_MSG);
  G.asked_stop_possible = 1;
  return G.stop_possible;
}

/* ---------------- contracts ---------------- */
#define A_ALL G, NOP, COP, CS, NW, CW
#define OBJS_OK (NOP.stream_ == &CS && NOP.receiver_.op_ == &NOP && COP.stream_ == &CS && NW.receiver_ == &NOP.receiver_ && NW.stream_ == &CS && CW.receiver_ == &COP.receiver_ && CW.stream_ == &CS && CANCEL.op_ == &NOP)
#define ZERO_SLOT_EVENTS (G.acts[0] == 0 && G.acts[1] == 0 && G.deacts[0] == 0 && G.deacts[1] == 0 && G.starts[0] == 0 && G.starts[1] == 0)
#define FRESH (ZERO_SLOT_EVENTS && G.incs == 0 && G.decs == 0 && !G.elected && G.completed == 0 && G.rcv_calls == 0 && G.throws == 0 && !G.copy_threw && !G.dead \
   && !G.wrapper_dead && G.sn_calls == 0 && G.sc_calls == 0 && G.stop_inner == 0)
/* a party that owns one unit of refCount_ and is about to release it */
#define REL_PROTO (INV_NOW && !G.p.e && G.mine == 1 && G.decs == 0 && !G.elected && G.completed == 0 && !G.dead && (G.started || G.p.ki) \
   && ((G.role == ROLE_INNER && G.p.ki && G.started) || (G.role == ROLE_CB && G.p.a && G.p.f && G.stop_inner == 1)))
#define REL_POST (G.decs == 1 && G.mine == 0 && B(G.elected) == (G.dec_old == 1) && UNTOUCHED && (G.dead || INV_NOW) && (G.dec_old != 1 || (G.p.e && !G.p.ki && !G.p.a)))
/* "the erased receiver was called once with (ch, pay)": the consumer is completed iff this call was elected, then with exactly that signal */
#define FORWARDED(self_, ch, pay) (G.rcv_calls == 1 && G.rcv_self == (void*)(self_) && G.rcv_ch == (ch) && G.rcv_pay == (pay))
#define NEXT_RCV_POST(ch, pay) (REL_POST && G.completed == (G.elected ? 1u : 0u) && (G.completed == 1 ==> (G.channel == (ch) && G.payload == (pay) && G.completed_on == (void*)&NOP.receiver_)) \
   && B(G.dead) == (G.completed == 1 || G.started))

#define KEEP(x) ((x) == __CPROVER_old(x))
/* what a call of an erased receiver leaves alone (it is replaced by its contract in the callers' units) */
#define RCV_FRAME (KEEP(G.slot[0]) && KEEP(G.slot[1]) && KEEP(G.acts[0]) && KEEP(G.acts[1]) && KEEP(G.deacts[0]) && KEEP(G.deacts[1]) && KEEP(G.starts[0]) && KEEP(G.starts[1]) \
   && KEEP(G.wrapper_dead) && KEEP(G.throws) && KEEP(G.copy_threw) && KEEP(G.cur_exc) && KEEP(G.wrapped) && KEEP(G.wrapped_from) && KEEP(G.started) && KEEP(G.stop_inner) \
   && KEEP(G.incs) && KEEP(G.inc_old) && KEEP(G.sn_calls) && KEEP(G.sc_calls) && KEEP(G.sn_rcv) && KEEP(G.sn_strm) && KEEP(G.sn_tok) && KEEP(G.w_rcv) && KEEP(G.w_strm) && KEEP(G.w_tok) && KEEP(G.w_slot) \
   && KEEP(G.running) && KEEP(G.asked_stop_possible) && KEEP(G.stop_possible))
#define START_FRAME (KEEP(G.started) && KEEP(G.asked_stop_possible) && KEEP(G.stop_possible) && KEEP(G.incs) && KEEP(G.stop_inner) && KEEP(G.running))

_Bool next_op_base_complete(struct next_op* self)
__CPROVER_requires(self == &NOP && OBJS_OK && REL_PROTO && (G.role != ROLE_INNER || G.slot[SL_next_] == LS_NONE))
__CPROVER_assigns(A_ALL)
__CPROVER_ensures(REL_POST && G.completed == 0 && B(__CPROVER_return_value) == (G.dec_old == 1) && (__CPROVER_return_value == 0 || __CPROVER_return_value == 1))   /* "last caller owns result delivery" */
__CPROVER_ensures(B(G.dead) == (!G.elected && G.started))
/*@BODY complete*/

void next_rcv_set_value(struct next_rcv* self, int values)
__CPROVER_requires(self == &NOP.receiver_ && OBJS_OK && REL_PROTO && G.role == ROLE_INNER)
__CPROVER_requires(G.rcv_calls == 0 && G.slot[SL_next_] == LS_NONE) /*P*/   /* called once per inner signal, after the inner next operation was destroyed */
__CPROVER_assigns(A_ALL)
__CPROVER_ensures(FORWARDED(self, CH_VALUE, values) && NEXT_RCV_POST(CH_VALUE, values) && RCV_FRAME)
/*@BODY nr_set_value*/

void next_rcv_set_done(struct next_rcv* self)
__CPROVER_requires(self == &NOP.receiver_ && OBJS_OK && REL_PROTO)
__CPROVER_requires(G.rcv_calls == 0 && (G.role != ROLE_INNER || G.slot[SL_next_] == LS_NONE)) /*P*/
__CPROVER_assigns(A_ALL)
__CPROVER_ensures(FORWARDED(self, CH_DONE, PAY_NONE) && NEXT_RCV_POST(CH_DONE, PAY_NONE) && RCV_FRAME)
/*@BODY nr_set_done*/

void next_rcv_set_error(struct next_rcv* self, int ex)
__CPROVER_requires(self == &NOP.receiver_ && OBJS_OK && REL_PROTO && G.role == ROLE_INNER)
__CPROVER_requires(G.rcv_calls == 0 && G.slot[SL_next_] == LS_NONE) /*P*/
__CPROVER_assigns(A_ALL)
__CPROVER_ensures(FORWARDED(self, CH_ERROR, ex) && NEXT_RCV_POST(CH_ERROR, ex) && RCV_FRAME)
/*@BODY nr_set_error*/

/* cleanup(): no election -- the erased cleanup receiver completes the consumer directly */
#define CRCV_PRE (OBJS_OK && G.completed == 0 && !G.dead)
#define CRCV_POST(ch, pay) (G.completed == 1 && G.channel == (ch) && G.payload == (pay) && G.completed_on == (void*)&COP.receiver_ && G.dead && UNTOUCHED)
void cleanup_rcv_set_done(struct cleanup_rcv* self)
__CPROVER_requires(self == &COP.receiver_ && CRCV_PRE)
__CPROVER_requires(G.rcv_calls == 0 && G.slot[SL_cleanup_] == LS_NONE && G.slot[SL_next_] == LS_NONE) /*P*/   /* once, after the inner cleanup operation was destroyed */
__CPROVER_assigns(A_ALL)
__CPROVER_ensures(FORWARDED(self, CH_DONE, PAY_NONE) && CRCV_POST(CH_DONE, PAY_NONE) && RCV_FRAME)
/*@BODY cr_set_done*/

void cleanup_rcv_set_error(struct cleanup_rcv* self, int ex)
__CPROVER_requires(self == &COP.receiver_ && CRCV_PRE)
__CPROVER_requires(G.rcv_calls == 0 && G.slot[SL_cleanup_] == LS_NONE && G.slot[SL_next_] == LS_NONE) /*P*/
__CPROVER_assigns(A_ALL)
__CPROVER_ensures(FORWARDED(self, CH_ERROR, ex) && CRCV_POST(CH_ERROR, ex) && RCV_FRAME)
/*@BODY cr_set_error*/

/* ---- receivers of the inner next(): destroy the inner operation (and with it this wrapper), THEN forward the signal unchanged ---- */
#define WR_PRE(s) (OBJS_OK && FRESH && G.running == (s) && G.slot[s] == LS_COMPLETING && G.slot[1 - (s)] == LS_NONE)
#define WR_FRAME(s) (G.deacts[s] == 1 && G.deacts[1 - (s)] == 0 && G.acts[0] == 0 && G.acts[1] == 0 && G.starts[0] == 0 && G.starts[1] == 0 && G.slot[s] == LS_NONE && G.slot[1 - (s)] == LS_NONE \
   && G.wrapper_dead && G.dead && UNTOUCHED)
void next_wrapper_set_value(struct next_wrapper* self, int values)
__CPROVER_requires(self == &NW && WR_PRE(SL_next_) && REL_PROTO && G.role == ROLE_INNER)
__CPROVER_assigns(A_ALL)
__CPROVER_ensures(WR_FRAME(SL_next_))                                     /* the inner next operation is destroyed exactly once, nothing else */
__CPROVER_ensures(!G.copy_threw ==> (FORWARDED(&NOP.receiver_, CH_VALUE, values) && G.throws == 0))      /* the element is forwarded unchanged */
__CPROVER_ensures(G.copy_threw ==> (FORWARDED(&NOP.receiver_, CH_ERROR, G.cur_exc) && G.throws == 1))   /* a throwing copy becomes set_error(current_exception), once */
/*@BODY nw_set_value*/

void next_wrapper_set_done(struct next_wrapper* self)
__CPROVER_requires(self == &NW && WR_PRE(SL_next_) && REL_PROTO && G.role == ROLE_INNER)
__CPROVER_assigns(A_ALL)
__CPROVER_ensures(WR_FRAME(SL_next_) && FORWARDED(&NOP.receiver_, CH_DONE, PAY_NONE) && G.throws == 0)
/*@BODY nw_set_done*/

void next_wrapper_set_error(struct next_wrapper* self, int ex)
__CPROVER_requires(self == &NW && WR_PRE(SL_next_) && REL_PROTO && G.role == ROLE_INNER)
__CPROVER_assigns(A_ALL)
__CPROVER_ensures(WR_FRAME(SL_next_) && FORWARDED(&NOP.receiver_, CH_ERROR, ex) && G.throws == 0)
__CPROVER_ensures(G.wrapped == __CPROVER_old(G.wrapped) && G.wrapped_from == __CPROVER_old(G.wrapped_from))
/*@BODY nw_set_error*/

void next_wrapper_set_error_generic(struct next_wrapper* self, int error)
__CPROVER_requires(self == &NW && WR_PRE(SL_next_) && REL_PROTO && G.role == ROLE_INNER)
__CPROVER_assigns(A_ALL)
__CPROVER_ensures(WR_FRAME(SL_next_) && FORWARDED(&NOP.receiver_, CH_ERROR, G.wrapped) && G.wrapped_from == error && G.throws == 0)   /* type-erased into an exception_ptr made from THIS error */
/*@BODY nw_set_error_generic*/

void cleanup_wrapper_set_done(struct cleanup_wrapper* self)
__CPROVER_requires(self == &CW && WR_PRE(SL_cleanup_) && G.completed == 0)
__CPROVER_assigns(A_ALL)
__CPROVER_ensures(WR_FRAME(SL_cleanup_) && FORWARDED(&COP.receiver_, CH_DONE, PAY_NONE) && G.completed == 1 && G.channel == CH_DONE)
/*@BODY cw_set_done*/

void cleanup_wrapper_set_error(struct cleanup_wrapper* self, int ex)
__CPROVER_requires(self == &CW && WR_PRE(SL_cleanup_) && G.completed == 0)
__CPROVER_assigns(A_ALL)
__CPROVER_ensures(WR_FRAME(SL_cleanup_) && FORWARDED(&COP.receiver_, CH_ERROR, ex) && G.completed == 1 && G.channel == CH_ERROR && G.payload == ex)
__CPROVER_ensures(G.wrapped == __CPROVER_old(G.wrapped) && G.wrapped_from == __CPROVER_old(G.wrapped_from))
/*@BODY cw_set_error*/

void cleanup_wrapper_set_error_generic(struct cleanup_wrapper* self, int error)
__CPROVER_requires(self == &CW && WR_PRE(SL_cleanup_) && G.completed == 0)
__CPROVER_assigns(A_ALL)
__CPROVER_ensures(WR_FRAME(SL_cleanup_) && FORWARDED(&COP.receiver_, CH_ERROR, G.wrapped) && G.wrapped_from == error && G.completed == 1 && G.channel == CH_ERROR && G.payload == G.wrapped)
/*@BODY cw_set_error_generic*/

/* ---- the concrete stream ---- */
#define CS_PRE (OBJS_OK && FRESH && G.running == -1 && G.slot[SL_next_] == LS_NONE && G.slot[SL_cleanup_] == LS_NONE)
#define HANDED_TO(s) (G.acts[s] == 1 && G.starts[s] == 1 && G.slot[s] == LS_STARTED && G.slot[1 - (s)] == LS_NONE && G.acts[1 - (s)] == 0 && G.starts[1 - (s)] == 0 && G.w_slot == (s))
#define NOTHING_ALIVE (G.slot[0] == LS_NONE && G.slot[1] == LS_NONE && G.acts[0] == 0 && G.acts[1] == 0 && G.starts[0] == 0 && G.starts[1] == 0)
void cstream_start_next(struct cstream* self, struct next_rcv* receiver, int stopToken)
__CPROVER_requires(self == &CS && receiver == &NOP.receiver_ && CS_PRE && REL_PROTO && G.role == ROLE_INNER)
__CPROVER_assigns(A_ALL)
__CPROVER_ensures(G.sn_calls == 1 && G.sc_calls == 0 && G.sn_strm == (void*)self && G.sn_rcv == (void*)receiver && G.sn_tok == stopToken)
__CPROVER_ensures(G.throws == 0 ==> (HANDED_TO(SL_next_) && G.rcv_calls == 0 && G.w_rcv == (void*)receiver && G.w_strm == (void*)self && G.w_tok == stopToken))   /* next() forwarded once to the inner stream, with the consumer's erased receiver and the stop token it was given */
__CPROVER_ensures(G.throws != 0 ==> (G.throws == 1 && NOTHING_ALIVE && FORWARDED(receiver, CH_ERROR, G.cur_exc)))    /* a throwing connect becomes set_error exactly once, no operation left alive */
__CPROVER_ensures(G.deacts[0] == 0 && G.deacts[1] == 0 && G.dead && UNTOUCHED && START_FRAME)
/*@BODY start_next*/

void cstream_start_cleanup(struct cstream* self, struct cleanup_rcv* receiver)
__CPROVER_requires(self == &CS && receiver == &COP.receiver_ && CS_PRE)
__CPROVER_assigns(A_ALL)
__CPROVER_ensures(G.sc_calls == 1 && G.sn_calls == 0 && G.sn_strm == (void*)self && G.sn_rcv == (void*)receiver)
__CPROVER_ensures(G.throws == 0 ==> (HANDED_TO(SL_cleanup_) && G.rcv_calls == 0 && G.completed == 0 && G.w_rcv == (void*)receiver && G.w_strm == (void*)self))   /* cleanup() forwarded to the inner stream's cleanup exactly once */
__CPROVER_ensures(G.throws != 0 ==> (G.throws == 1 && NOTHING_ALIVE && FORWARDED(receiver, CH_ERROR, G.cur_exc) && G.completed == 1 && G.channel == CH_ERROR))
__CPROVER_ensures(G.deacts[0] == 0 && G.deacts[1] == 0 && G.dead && UNTOUCHED && START_FRAME)
/*@BODY start_cleanup*/

/* ~type() {}: no discriminator -- correct exactly because nothing is alive whenever the owner may destroy the stream */
void cstream_dtor(struct cstream* self)
__CPROVER_requires(self == &CS && CS_PRE)
__CPROVER_assigns(A_ALL)
__CPROVER_ensures(ZERO_SLOT_EVENTS && G.slot[0] == LS_NONE && G.slot[1] == LS_NONE && G.rcv_calls == 0 && G.completed == 0 && !G.dead)
/*@BODY cs_dtor*/

/* ---- consumer-side operations ---- */
void next_op_start(struct next_op* self)
__CPROVER_requires(self == &NOP && CS_PRE && !G.started && !G.asked_stop_possible && INV_NOW && !G.p.e && G.p.ki && G.mine == 1 && G.role == ROLE_INNER)
__CPROVER_assigns(A_ALL)
__CPROVER_ensures(G.started && G.sn_calls == 1 && G.sc_calls == 0 && G.sn_strm == (void*)&CS && G.sn_rcv == (void*)&NOP.receiver_)     /* next() is forwarded to the concrete stream exactly once */
__CPROVER_ensures(G.asked_stop_possible && G.sn_tok == (G.stop_possible ? TOK_SOURCE : TOK_NEVER))      /* C13: a stop request of the consumer can reach the inner stream */
__CPROVER_ensures(G.dead && UNTOUCHED && G.incs == 0 && G.stop_inner == 0)
/*@BODY nop_start*/

#define CB_PRE (OBJS_OK && FRESH && INV_NOW && G.role == ROLE_CB && G.mine == 0 && !G.p.f && !G.p.a && (G.started || G.p.ki))
#define CB_POST (G.incs == 1 && UNTOUCHED && (G.dead || INV_NOW) \
   && (G.inc_old == 0 ==> (G.decs == 0 && G.stop_inner == 0 && G.completed == 0 && G.rcv_calls == 0 && !G.dead && G.mine == 0)) /* set_* already called: nothing but the dead increment */ \
   && (G.inc_old != 0 ==> (G.stop_inner == 1 && FORWARDED(&NOP.receiver_, CH_DONE, PAY_NONE) && NEXT_RCV_POST(CH_DONE, PAY_NONE))))
void next_op_request_stop(struct next_op* self)
__CPROVER_requires(self == &NOP && CB_PRE)
__CPROVER_assigns(A_ALL)
__CPROVER_ensures(CB_POST)
/*@BODY nop_request_stop*/

void cancel_callback_call(struct cancel_callback* self)
__CPROVER_requires(self == &CANCEL && CB_PRE)
__CPROVER_assigns(A_ALL)
__CPROVER_ensures(CB_POST)
/*@BODY cancel_call*/

void cleanup_op_start(struct cleanup_op* self)
__CPROVER_requires(self == &COP && CS_PRE)
__CPROVER_assigns(A_ALL)
__CPROVER_ensures(G.sc_calls == 1 && G.sn_calls == 0 && G.sn_strm == (void*)&CS && G.sn_rcv == (void*)&COP.receiver_ && G.dead && UNTOUCHED)   /* cleanup() forwarded exactly once */
/*@BODY cop_start*/

/* ---------------- harnesses ---------------- */
static void h_havoc(void) {
  G.p.ki = vf_nb(); G.p.a = vf_nb(); G.p.e = vf_nb(); G.p.z = vf_nb(); G.p.f = vf_nb();
  G.role = VF_nondet_int(); G.mine = VF_nondet_u32(); G.started = vf_nb();
  G.incs = VF_nondet_u32(); G.decs = VF_nondet_u32(); G.inc_old = VF_nondet_int(); G.dec_old = VF_nondet_int(); G.elected = vf_nb();
  G.completed = VF_nondet_u32(); G.channel = CH_NONE; G.payload = PAY_NONE; G.completed_on = NULL;
  G.rcv_calls = VF_nondet_u32(); G.rcv_ch = CH_NONE; G.rcv_pay = PAY_NONE; G.rcv_self = NULL;
  G.slot[0] = VF_nondet_u8(); G.slot[1] = VF_nondet_u8(); G.acts[0] = VF_nondet_u32(); G.acts[1] = VF_nondet_u32(); G.deacts[0] = VF_nondet_u32(); G.deacts[1] = VF_nondet_u32();
  G.starts[0] = VF_nondet_u32(); G.starts[1] = VF_nondet_u32(); G.running = VF_nondet_int(); G.wrapper_dead = vf_nb();
  G.throws = VF_nondet_u32(); G.cur_exc = PAY_NONE; G.copy_threw = vf_nb(); G.wrapped = PAY_NONE; G.wrapped_from = PAY_NONE;
  G.w_rcv = NULL; G.w_strm = NULL; G.w_tok = TOK_NONE; G.w_slot = -1; G.sn_calls = VF_nondet_u32(); G.sc_calls = VF_nondet_u32(); G.sn_rcv = NULL; G.sn_strm = NULL; G.sn_tok = TOK_NONE;
  G.stop_inner = VF_nondet_u32(); G.stop_possible = vf_nb(); G.asked_stop_possible = vf_nb(); G.dead = vf_nb();
  NOP.refCount_ = vf_i8(); NOP.stream_ = &CS; NOP.receiver_.op_ = &NOP; NOP.receiver_.receiver_ = VF_nondet_int();
  COP.stream_ = &CS; COP.receiver_.receiver_ = VF_nondet_int(); CS.stream_ = VF_nondet_int();
  NW.receiver_ = &NOP.receiver_; NW.stream_ = &CS; NW.stopToken_ = VF_nondet_int(); CW.receiver_ = &COP.receiver_; CW.stream_ = &CS; CW.stopToken_ = TOK_NONE; CANCEL.op_ = &NOP;
}
static int h_tok(void) { return vf_fresh_tok(); }
void h_complete(void) {
  h_havoc(); _Bool last = next_op_base_complete(&NOP);
  VF_CANARY("after complete()");
  if (last) { VF_CANARY("complete() can return true"); } else { VF_CANARY("complete() can return false (the other party delivers)"); }
  if (G.role == ROLE_CB) { VF_CANARY("complete() from the stop callback"); }
}
void h_nr_set_value(void) {
  h_havoc(); next_rcv_set_value(&NOP.receiver_, h_tok());
  VF_CANARY("after erased set_value");
  if (G.completed) { VF_CANARY("the value reaches the consumer"); } else { VF_CANARY("the value is overtaken by the stop callback"); }
}
void h_nr_set_done(void) {
  h_havoc(); next_rcv_set_done(&NOP.receiver_);
  VF_CANARY("after erased set_done");
  if (G.role == ROLE_CB && G.completed) { VF_CANARY("the stop callback completes the consumer with done"); }
  if (G.role == ROLE_CB && !G.completed) { VF_CANARY("the stop callback leaves delivery to the inner completion"); }
  if (G.role == ROLE_INNER && G.completed) { VF_CANARY("done reaches the consumer"); }
}
void h_nr_set_error(void) { h_havoc(); next_rcv_set_error(&NOP.receiver_, h_tok()); VF_CANARY("after erased set_error"); if (G.completed) { VF_CANARY("the error reaches the consumer"); } }
void h_cr_set_done(void) { h_havoc(); cleanup_rcv_set_done(&COP.receiver_); VF_CANARY("after erased cleanup set_done"); }
void h_cr_set_error(void) { h_havoc(); cleanup_rcv_set_error(&COP.receiver_, h_tok()); VF_CANARY("after erased cleanup set_error"); }
void h_nw_set_value(void) {
  h_havoc(); next_wrapper_set_value(&NW, h_tok());
  VF_CANARY("after wrapper set_value");
  if (G.copy_threw) { VF_CANARY("the copy of the element can throw"); } else { VF_CANARY("the element is forwarded"); }
}
void h_nw_set_done(void) { h_havoc(); next_wrapper_set_done(&NW); VF_CANARY("after wrapper set_done"); }
void h_nw_set_error(void) { h_havoc(); next_wrapper_set_error(&NW, h_tok()); VF_CANARY("after wrapper set_error"); }
void h_nw_set_error_generic(void) { h_havoc(); next_wrapper_set_error_generic(&NW, h_tok()); VF_CANARY("after wrapper set_error (generic)"); }
void h_cw_set_done(void) { h_havoc(); cleanup_wrapper_set_done(&CW); VF_CANARY("after cleanup wrapper set_done"); }
void h_cw_set_error(void) { h_havoc(); cleanup_wrapper_set_error(&CW, h_tok()); VF_CANARY("after cleanup wrapper set_error"); }
void h_cw_set_error_generic(void) { h_havoc(); cleanup_wrapper_set_error_generic(&CW, h_tok()); VF_CANARY("after cleanup wrapper set_error (generic)"); }
void h_start_next(void) {
  h_havoc(); cstream_start_next(&CS, &NOP.receiver_, VF_nondet_bool() ? TOK_SOURCE : TOK_NEVER);
  VF_CANARY("after start_next");
  if (G.throws) { VF_CANARY("connect(next(inner)) can throw"); } else { VF_CANARY("the inner next() can be started"); }
}
void h_start_cleanup(void) {
  h_havoc(); cstream_start_cleanup(&CS, &COP.receiver_);
  VF_CANARY("after start_cleanup");
  if (G.throws) { VF_CANARY("connect(cleanup(inner)) can throw"); } else { VF_CANARY("the inner cleanup() can be started"); }
}
void h_cs_dtor(void) { h_havoc(); cstream_dtor(&CS); VF_CANARY("after the concrete stream's destructor"); }
void h_nop_start(void) {
  h_havoc(); next_op_start(&NOP);
  VF_CANARY("after next op start()");
  if (G.stop_possible) { VF_CANARY("stoppable consumer"); } else { VF_CANARY("unstoppable consumer"); }
  if (G.p.f) { VF_CANARY("the stop callback may already have fired before start()"); }
}
void h_request_stop(void) {
  h_havoc(); next_op_request_stop(&NOP);
  VF_CANARY("after request_stop()");
  if (G.inc_old == 0) { VF_CANARY("late callback: set_* already called"); }
  if (G.inc_old != 0 && G.completed) { VF_CANARY("the callback completes the consumer with done"); }
  if (G.inc_old != 0 && !G.completed) { VF_CANARY("the callback leaves delivery to the inner completion"); }
  if (!G.started) { VF_CANARY("callback before start()"); }
}
void h_cancel_call(void) { h_havoc(); cancel_callback_call(&CANCEL); VF_CANARY("after cancel_callback::operator()"); }
void h_cop_start(void) { h_havoc(); cleanup_op_start(&COP); VF_CANARY("after cleanup op start()"); }

/* ---------------- M4 lemmas over the contracts' predicates ---------------- */
static struct pst l_nondet(void) { struct pst s; s.c = vf_i8(); s.g.ki = vf_nb(); s.g.a = vf_nb(); s.g.e = vf_nb(); s.g.z = vf_nb(); s.g.f = vf_nb(); return s; }
/* every guarantee step preserves Inv; exactly one election over the life of the operation; an elected callback means the inner party
 * had already released its unit (which it does only after destroying the inner operation: guarantee check in vf_guar) */
void lemma_election(void) {
  struct pst o = l_nondet(), n = l_nondet(); int t = VF_nondet_int();
  __CPROVER_assume(INV(o));
  __CPROVER_assume(t == 0 ? STEP_INNER_DONE(o, n) : t == 1 ? STEP_CB_ENTER(o, n) : t == 2 ? STEP_CB_EXIT(o, n) : 0);
  VF_CANARY("lemma premises satisfiable");
  if (t == 0) { VF_CANARY("inner done step enabled"); } if (t == 1) { VF_CANARY("callback enter step enabled"); } if (t == 2) { VF_CANARY("callback exit step enabled"); }
  if (t == 1 && o.c == 0) { VF_CANARY("dead increment enabled"); }
  VF_P(INV(n), "lemma: every step preserves the protocol invariant");
  VF_P(!o.g.e || n.g.e, "lemma: the election is never undone");
  VF_P((!o.g.e && n.g.e) ==> (o.c == 1 && n.c == 0 && (t == 0 || t == 2)), "lemma C01/C13: the election is the unique 1 -> 0 transition of refCount_ by a party that owned a unit");
  VF_P(o.g.e ==> (t == 1 && o.c == 0), "lemma: after the election only the dead increment of a late callback is possible (no second completion)");
  VF_P((!o.g.e && n.g.e && t == 2) ==> !o.g.ki, "lemma C02: when the stop callback is elected the inner party has already released its unit -- the inner next operation was destroyed before");
  VF_P((!n.g.e && !n.g.ki) ==> n.g.a, "lemma C13: no lost completion -- if the inner party is done and nobody was elected, a callback is still running and will be");
  VF_P(n.c >= 0 && n.c <= 2, "lemma: refCount_ stays within 0..2 (std::atomic_char cannot overflow)");
}
/* every step of one party is admitted by the rely of the other */
void lemma_rely(void) {
  struct pst o = l_nondet(), n = l_nondet(); int t = VF_nondet_int(); _Bool started = vf_nb();
  __CPROVER_assume(INV(o));
  __CPROVER_assume(t == 0 ? (STEP_INNER_DONE(o, n) && started) : t == 1 ? STEP_CB_ENTER(o, n) : t == 2 ? STEP_CB_EXIT(o, n) : 0);
  VF_CANARY("lemma premises satisfiable");
  if (t == 0) { VF_P(RELY_(o, n, ROLE_CB, started), "lemma: the inner party's done step is admitted by the callback's rely"); VF_CANARY("inner step"); }
  else { VF_P(RELY_(o, n, ROLE_INNER, started), "lemma: the callback's steps are admitted by the inner party's rely"); VF_CANARY("callback step"); }
  VF_P(RELY_(o, o, ROLE_INNER, started) && RELY_(o, o, ROLE_CB, started), "lemma: the rely is reflexive");
}
/* initial state + textual ownership facts */
static const char VF_OWNER_DECL[] = /*@EXPR owner_decl*/;
static const char VF_BASE_DTOR[] = /*@EXPR base_dtor*/;
static const char VF_OWNER_WANT[] = "std::unique_ptr<stream_base> stream_";
void lemma_init(void) {
  struct pst i; REFCOUNT_INIT_INTO(i.c); i.g.ki = 1; i.g.a = 0; i.g.e = 0; i.g.z = 0; i.g.f = 0;
  VF_CANARY("lemma_init reachable");
  VF_P(i.c == 1, "lemma: refCount_ starts at 1: the unit of the inner party");
  VF_P(INV(i), "lemma: the initial state satisfies the protocol invariant");
#define EQ1(k) (VF_OWNER_DECL[k] == VF_OWNER_WANT[k])
#define EQ8(k) (EQ1(k) && EQ1(k + 1) && EQ1(k + 2) && EQ1(k + 3) && EQ1(k + 4) && EQ1(k + 5) && EQ1(k + 6) && EQ1(k + 7))
  _Static_assert(sizeof(VF_OWNER_WANT) == 37, "length of the expected declaration");
  _Bool same = sizeof(VF_OWNER_DECL) == sizeof(VF_OWNER_WANT) && EQ8(0) && EQ8(8) && EQ8(16) && EQ8(24) && EQ1(32) && EQ1(33) && EQ1(34) && EQ1(35);
  VF_P(same, "C02: the erased stream owns the concrete stream through std::unique_ptr<stream_base> (deleted exactly once; a moved-from erased stream holds nothing)");
  VF_P(sizeof(VF_BASE_DTOR) == sizeof("virtual"), "C02: stream_base has a virtual destructor (the delete through stream_base* destroys the concrete stream and the inner stream it holds)");
}
