import re

H = 'include/unifex/type_erased_stream.hpp'
TYPE = r'struct _stream<Values\.\.\.>::type final \{'
OPBASE = [TYPE, r'struct next_op_base \{']
NRCV = [TYPE, r'struct _next_receiver final \{', r'struct type final : next_receiver_base \{']
CRCV = [TYPE, r'struct _cleanup_receiver final \{', r'struct type final : cleanup_receiver_base \{']
CONC = [TYPE, r'template <typename Stream>\s*struct _stream final \{', r'struct type final : stream_base \{']
NWR = CONC + [r'struct next_receiver_wrapper final \{']
CWR = CONC + [r'struct cleanup_receiver_wrapper final \{']
NOPC = [TYPE, r'struct next_sender final \{', r'struct type final : next_op_base \{']
CANCEL = NOPC + [r'struct cancel_callback final \{']
COPC = [TYPE, r'struct cleanup_sender final \{', r'struct _op final \{', r'struct type final \{']

BAL = r'(?:[^{}]|\{[^{}]*\})*'          # one nested brace level
# UNIFEX_TRY { A } UNIFEX_CATCH(...) { B }  ->  { A' } if (0) { <label of A's may-throw stub>: ; B }   (DESIGN 3.1 last row, spec level)
TRY = [(r'UNIFEX_TRY\s*\{(' + BAL + r'?goto (vf_catch_\w+);' + BAL + r')\}\s*UNIFEX_CATCH\s*\(\.\.\.\)\s*\{', r'{\1} if (0) { \2: ;')]


def hook(text):
    """ghost instrumentation at function entry (no statement of the body is changed)"""
    return [(r'\A\{', '{ ' + text)]


# ---- consumer-side erased receivers: _next_receiver<Receiver>::type / _cleanup_receiver<Receiver>::type --------------------------
def nrcv_ctx(ch, pay):
    return dict(cls='next_rcv', members=['op_', 'receiver_'], methods=[], obj_methods={'complete': 'next_op_base_complete'}, pre=[
        (r'unifex::set_value\(std::move\(receiver_\), \(Values&&\)values\.\.\.\)', 'EV_consumer_set_value(this, values)'),
        (r'unifex::set_done\(std::move\(receiver_\)\)', 'EV_consumer_set_done(this)'),
        (r'unifex::set_error\(std::move\(receiver_\), std::move\(ex\)\)', 'EV_consumer_set_error(this, ex)'),
    ], post=hook('VF_RCV_ENTER(self, %s, %s);' % (ch, pay)))


def crcv_ctx(ch, pay):
    return dict(cls='cleanup_rcv', members=['receiver_'], methods=[], pre=[
        (r'unifex::set_done\(std::move\(receiver_\)\)', 'EV_cconsumer_set_done(this)'),
        (r'unifex::set_error\(std::move\(receiver_\), std::move\(ex\)\)', 'EV_cconsumer_set_error(this, ex)'),
    ], post=hook('VF_RCV_ENTER(self, %s, %s);' % (ch, pay)))


# ---- the receivers given to the inner stream's next() / cleanup() operations (they live INSIDE those operations) -------------------
def wr_ctx(cls, rcv):
    return dict(cls=cls, members=['receiver_', 'stream_', 'stopToken_'], methods=[], pre=[
        # a local reference bound to a reference member is a copy of the pointer (the wrapper is not read through it later)
        (r'auto& (\w+) = (receiver_|stream_);', r'__auto_type \1 = \2;'),
        (r'unifex::deactivate_union_member\((\w+)\.(next_|cleanup_)\)', r'EV_deactivate(\1, SL_\2)'),
        # the immediately-invoked lambda `[&](Values... values) { B }((Values&&)values...)`: its by-value parameters are the copy of the
        # element taken before the inner operation is destroyed (may throw); B is kept verbatim
        (r'(?s)\[&\]\(Values\.\.\. values\) \{([^{}]*)\}\(\(Values&&\)values\.\.\.\);', r'if (EV_copy_values(this, &values)) goto vf_catch_copy; {\1}'),
        # virtual dispatch on next_receiver_base& / cleanup_receiver_base&: direct call of the concrete implementation
        (r'(\w+)\.set_value\(\(Values&&\)values\.\.\.\)', rcv + r'_set_value(\1, values)'),
        (r'(\w+)\.set_done\(\)', rcv + r'_set_done(\1)'),
        (r'(\w+)\.set_error\(std::current_exception\(\)\)', rcv + r'_set_error(\1, vf_current_exception())'),
        (r'(\w+)\.set_error\(std::move\(ex\)\)', rcv + r'_set_error(\1, ex)'),
        (r'std::move\(\*this\)\.set_error\(make_exception_ptr\(\(Error&&?\)error\)\)', cls + r'_set_error(this, EV_make_exception_ptr(error))'),
    ] + TRY, post=[(r'\bself->(receiver_|stream_|stopToken_)\b', r'VF_W(self)->\1')])


# ---- the heap-allocated concrete stream: _stream<Stream>::type ------------------------------------------------------------------
def _connect(m):
    args = [a.strip() for a in m.group(4).split(',')]
    args = ['this' if a == '*this' else a for a in args]
    while len(args) < 3:
        args.append('TOK_NONE')
    return 'if (EV_connect(this, SL_%s, K_%s, W_%s, %s)) goto vf_catch_connect;' % (m.group(1), m.group(2), m.group(3), ', '.join(args))


def cs_ctx(rcv, enter):
    return dict(cls='cstream', members=[], methods=[], pre=[
        (r'(?s)unifex::activate_union_member_with\(\s*(next_|cleanup_),\s*\[&\]\s*\{\s*return connect\(\s*(next|cleanup)\(stream_\),\s*'
         r'(next_receiver_wrapper|cleanup_receiver_wrapper)\{([^{}]*)\}\);\s*\}\);', _connect),
        (r'(?<![\w:.>])start\((next_|cleanup_)\.get\(\)\)', r'EV_start(this, SL_\1)'),
        (r'receiver\.set_error\(std::current_exception\(\)\)', rcv + r'_set_error(receiver, vf_current_exception())'),
    ] + TRY, post=hook(enter) if enter else [])


# ---- consumer-side operations: next_sender::_op<Receiver>::type / cleanup_sender::_op<Receiver>::type ------------------------------
nop_ctx = dict(cls='next_op', members=['refCount_', 'stream_', 'receiver_'], methods=[], atomic=['refCount_'], pre=[
    (r'next_op_base::refCount_', 'refCount_'),
    (r'stopSource_\.request_stop\(\)', 'EV_stop_inner(this)'),
    (r'get_stop_token\(receiver_\.receiver_\)\.stop_possible\(\)', 'EV_consumer_stop_possible(this)'),
    (r'stopSource_\.get_token\(\)', 'TOK_SOURCE'),
    (r'inplace_stop_token\{\}', 'TOK_NEVER'),
    # virtual dispatch on stream_base&: direct call of the concrete stream
    (r'stream_\.start_next\(\s*receiver_,', 'cstream_start_next(stream_, &receiver_,'),
    (r'receiver_\.set_done\(\)', 'next_rcv_set_done(&receiver_)'),
])
cancel_ctx = dict(cls='cancel_callback', members=['op_'], methods=[], pre=[(r'op_\.request_stop\(\)', 'next_op_request_stop(op_)')])
cop_ctx = dict(cls='cleanup_op', members=['stream_', 'receiver_'], methods=[], pre=[
    (r'stream_\.start_cleanup\(receiver_\)', 'cstream_start_cleanup(stream_, &receiver_)')])
base_ctx = dict(cls='next_op_base', members=['refCount_'], methods=[], atomic=['refCount_'])


def X(sig, within, ctx, **kw):
    return dict(file=H, sig=sig, within=within, ctx=ctx, **kw)


NW_CTX = wr_ctx('next_wrapper', 'next_rcv')
CW_CTX = wr_ctx('cleanup_wrapper', 'cleanup_rcv')

SPEC = dict(
    properties=['C13', 'C02'],
    ctx={},
    extracts={
        # the reference count that elects who completes the consumer of one next(): inner completion vs stop callback
        'refcount_init': dict(file=H, kind='expr', sig=r'std::atomic_char refCount_\s*(\{[^}]*\}|=[^;]*|);', within=OPBASE,
                              ctx=dict(post=[(r'(?s)^(.*)$', lambda m: ('= ' + m.group(1)) if m.group(1).startswith('{') else m.group(1))])),
        'complete': X(r'bool complete\(\) noexcept', OPBASE, base_ctx),
        'nr_set_value': X(r'void set_value\(Values&&\.\.\. values\) noexcept override', NRCV, nrcv_ctx('CH_VALUE', 'values')),
        'nr_set_done': X(r'void set_done\(\) noexcept override', NRCV, nrcv_ctx('CH_DONE', 'PAY_NONE')),
        'nr_set_error': X(r'void set_error\(std::exception_ptr ex\) noexcept override', NRCV, nrcv_ctx('CH_ERROR', 'ex')),
        'cr_set_done': X(r'void set_done\(\) noexcept override', CRCV, crcv_ctx('CH_DONE', 'PAY_NONE')),
        'cr_set_error': X(r'void set_error\(std::exception_ptr ex\) noexcept override', CRCV, crcv_ctx('CH_ERROR', 'ex')),
        # receivers of the inner next() / cleanup()
        'nw_set_value': X(r'void set_value\(Values&&\.\.\. values\) && noexcept', NWR, NW_CTX),
        'nw_set_done': X(r'void set_done\(\) && noexcept', NWR, NW_CTX),
        'nw_set_error': X(r'void set_error\(std::exception_ptr ex\) && noexcept', NWR, NW_CTX),
        'nw_set_error_generic': X(r'void set_error\(Error&& error\) && noexcept', NWR, NW_CTX),
        'cw_set_done': X(r'void set_done\(\) && noexcept', CWR, CW_CTX),
        'cw_set_error': X(r'void set_error\(std::exception_ptr ex\) && noexcept', CWR, CW_CTX),
        'cw_set_error_generic': X(r'void set_error\(Error&& error\) && noexcept', CWR, CW_CTX),
        # the concrete stream
        'start_next': X(r'void start_next\(\s*next_receiver_base& receiver,\s*inplace_stop_token stopToken\) noexcept override', CONC,
                        cs_ctx('next_rcv', 'VF_SN_ENTER(self, receiver, stopToken);')),
        'start_cleanup': X(r'void start_cleanup\(cleanup_receiver_base& receiver\) noexcept override', CONC,
                           cs_ctx('cleanup_rcv', 'VF_SC_ENTER(self, receiver);')),
        'cs_dtor': X(r'~type\(\)', CONC, cs_ctx('next_rcv', None)),
        # the consumer-side operations
        'nop_start': X(r'void start\(\) noexcept', NOPC, dict(nop_ctx, post=hook('VF_OP_START_ENTER(self);'))),
        'nop_request_stop': X(r'void request_stop\(\) noexcept', NOPC, nop_ctx),
        'cancel_call': X(r'void operator\(\)\(\) noexcept', CANCEL, cancel_ctx),
        'cop_start': X(r'void start\(\) noexcept', COPC, cop_ctx),
        # ownership of the concrete stream by the erased stream: textual facts (std::unique_ptr gives delete-exactly-once and an empty
        # moved-from source; the base needs a virtual destructor for the delete through stream_base*)
        'owner_decl': dict(file=H, kind='expr', sig=r'(?s)\}\s*;\s*((?:[\w:]+<stream_base>|stream_base\s*\*)\s*stream_)\s*;\s*template <typename ConcreteStream>', within=TYPE,
                           ctx=dict(post=[(r'(?s)^(.*)$', lambda m: '"' + re.sub(r'\s+', ' ', m.group(1)) + '"')])),
        'base_dtor': dict(file=H, kind='expr', sig=r'((?:virtual\s+)?)~stream_base\(\)', within=[TYPE, r'struct stream_base \{'],
                          ctx=dict(post=[(r'(?s)^(.*)$', lambda m: '"' + m.group(1).strip() + '"')])),
    },
    closed_world=[
        dict(file=H, within=TYPE, members=['refCount_', 'next_', 'cleanup_'],
             allow=[r'std::atomic_char refCount_\s*(?:=?[^;]*);',
                    r'(?s)union \{\s*manual_lifetime<next_operation_t<Stream, next_receiver_wrapper>> next_;\s*manual_lifetime<cleanup_operation_t<Stream, cleanup_receiver_wrapper>>\s*cleanup_;\s*\};']),
    ],
    units=[
        # M1 on refCount_
        dict(name='op_base_complete', harness='h_complete', enforce='next_op_base_complete'),
        dict(name='erased_next_receiver_set_value', harness='h_nr_set_value', enforce='next_rcv_set_value'),
        dict(name='erased_next_receiver_set_done', harness='h_nr_set_done', enforce='next_rcv_set_done'),
        dict(name='erased_next_receiver_set_error', harness='h_nr_set_error', enforce='next_rcv_set_error'),
        dict(name='next_op_request_stop', harness='h_request_stop', enforce='next_op_request_stop'),
        dict(name='cancel_callback_call', harness='h_cancel_call', enforce='cancel_callback_call', replace=['next_op_request_stop']),
        dict(name='next_op_start', harness='h_nop_start', enforce='next_op_start', replace=['cstream_start_next']),
        dict(name='cleanup_op_start', harness='h_cop_start', enforce='cleanup_op_start', replace=['cstream_start_cleanup']),
        dict(name='erased_cleanup_receiver_set_done', harness='h_cr_set_done', enforce='cleanup_rcv_set_done'),
        dict(name='erased_cleanup_receiver_set_error', harness='h_cr_set_error', enforce='cleanup_rcv_set_error'),
        # the concrete stream and the receivers of the inner operations
        dict(name='start_next', harness='h_start_next', enforce='cstream_start_next', replace=['next_rcv_set_error']),
        dict(name='start_cleanup', harness='h_start_cleanup', enforce='cstream_start_cleanup', replace=['cleanup_rcv_set_error']),
        dict(name='concrete_stream_dtor', harness='h_cs_dtor', enforce='cstream_dtor'),
        dict(name='next_wrapper_set_value', harness='h_nw_set_value', enforce='next_wrapper_set_value', replace=['next_rcv_set_value', 'next_rcv_set_error']),
        dict(name='next_wrapper_set_done', harness='h_nw_set_done', enforce='next_wrapper_set_done', replace=['next_rcv_set_done']),
        dict(name='next_wrapper_set_error', harness='h_nw_set_error', enforce='next_wrapper_set_error', replace=['next_rcv_set_error']),
        dict(name='next_wrapper_set_error_generic', harness='h_nw_set_error_generic', enforce='next_wrapper_set_error_generic', replace=['next_wrapper_set_error']),
        dict(name='cleanup_wrapper_set_done', harness='h_cw_set_done', enforce='cleanup_wrapper_set_done', replace=['cleanup_rcv_set_done']),
        dict(name='cleanup_wrapper_set_error', harness='h_cw_set_error', enforce='cleanup_wrapper_set_error', replace=['cleanup_rcv_set_error']),
        dict(name='cleanup_wrapper_set_error_generic', harness='h_cw_set_error_generic', enforce='cleanup_wrapper_set_error_generic', replace=['cleanup_wrapper_set_error']),
        # M4
        dict(name='lemma_election', harness='lemma_election', mode='lemma'),
        dict(name='lemma_rely', harness='lemma_rely', mode='lemma'),
        dict(name='lemma_init_and_ownership', harness='lemma_init', mode='lemma'),
    ],
    assumptions=[
        'stream concept, inner stream: each inner next() / cleanup() operation completes exactly once, only after it was started, through exactly one of its receiver\'s set_value / set_error / set_done (next) or set_done / set_error (cleanup); it may do so inline inside start(); it does not touch its own operation state after calling its receiver',
        'stream concept, consumer: at most one next() or cleanup() of the erased stream is outstanding at a time (start_next / start_cleanup are entered with nothing alive in union { next_, cleanup_ }); the consumer destroys its next/cleanup operation only before start() or after it was completed; it may re-use everything (call next() again, re-using the same storage) as soon as it is completed -- hence everything is a dead object after the completion',
        'the stop callback registered on the consumer\'s token is invoked at most once per registration and its destructor (run by the destructor of the consumer-side next operation) returns only after a concurrent invocation returned (C03, group stop_token): the callback may therefore still touch refCount_ after the consumer was completed on another thread (the dead increment 0 -> 1)',
        'OBSERVATION (C04 wording, not part of C13/C02): the consumer-side next operation never deregisters its stop callback before completing the consumer; the registration made in the constructor lives until the operation is destroyed, and a late callback is made harmless by the refCount_ election (fetch_add returned 0 -> return). A consumer that destroys its stop source before the completed operation would see a live registration',
        'when the stop callback wins the election the consumer gets set_done although the inner next() completed with a value or an error (that signal is dropped): admitted by C13 ("a stop request ends the sequence early ... without duplicating or inventing elements")',
        'atomics sequentially consistent (memory orders dropped: fetch_add relaxed, fetch_sub acq_rel)',
        'activate_union_member_with has the strong exception guarantee (a throwing connect leaves the union member un-activated); unifex::start() and the destructors of the inner operations do not throw; make_exception_ptr does not throw',
        'stopSource_.request_stop() may complete the inner next() synchronously: modelled as an environment step inside EV_stop_inner; the token handed to the inner stream (stopSource_.get_token() iff the consumer\'s token can be stopped) is checked, the inner stream\'s reaction to it is not reached',
        'virtual dispatch (next_receiver_base / cleanup_receiver_base / stream_base) is modelled as a direct call of the one concrete implementation in this header; std::unique_ptr<stream_base> and std::make_unique are trusted (delete exactly once, moved-from source empty): only the member\'s declared type and the virtual base destructor are checked textually',
        'constructor of the consumer-side next operation (mem-initialisers only: stopSource_, receiver_, stopCallback_ registered last; the callback may run inline there) is not extracted: covered by the request_stop unit with start() not yet called',
        'the receivers given to the inner operations live INSIDE those operations: every read of a wrapper member is checked to happen before deactivate_union_member destroys the inner operation (defect found by this group and repaired in /repo: probes/native/type_erased_stream_wrapper_read_after_destroy.cpp)',
    ],
    drops=['memory orders', 'template genericity (Values..., Receiver, Stream: one symbolic instantiation; payloads are integer tokens: "unchanged" means the token delivered is the token received)',
           'virtual dispatch -> direct call of the concrete implementation (receiver_.set_xxx -> next_rcv_/cleanup_rcv_set_xxx, stream_.start_next/start_cleanup -> cstream_start_next/start_cleanup)',
           'UNIFEX_TRY / UNIFEX_CATCH -> goto vf_catch_* at the may-throw stubs (EV_copy_values: copy of the element into the lambda parameter; EV_connect: connect of the inner next()/cleanup())',
           'the immediately-invoked lambda in next_receiver_wrapper::set_value -> EV_copy_values followed by the lambda body (source text)',
           'activate_union_member_with(slot, [&]{ return connect(next|cleanup(stream_), wrapper{...}); }) -> EV_connect (slot, which stream operation, wrapper type and its initialisers kept); deactivate_union_member -> EV_deactivate; start(slot.get()) -> EV_start',
           'unifex::set_value/set_error/set_done(std::move(receiver_), ...) on the consumer\'s receiver -> EV_consumer_* / EV_cconsumer_*',
           'stopSource_ (request_stop / get_token), get_stop_token(consumer).stop_possible(), inplace_stop_token{} -> EV_stop_inner, TOK_SOURCE, EV_consumer_stop_possible, TOK_NEVER',
           'receiver queries (get_stop_token / get_scheduler / visit_continuations forwarding), sender traits, connect() of next_sender / cleanup_sender, the type_erase CPO, constructors'],
)
