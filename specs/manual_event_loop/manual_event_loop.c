/* C06: manual_event_loop (source/manual_event_loop.cpp, include/unifex/manual_event_loop.hpp).
 * Monitor (mutex_ + cv_) protecting a FIFO list head_/tail_ and the stop_ flag.  M2: the protected
 * state is a window rebuilt by concrete choice at every acquire (other threads ran) and checked
 * against the monitor invariant at every release. */
#include <stddef.h>
struct task_base { struct task_base* next_; };
enum { REL_NONE, REL_UNCHANGED, REL_POPPED, REL_APPENDED };
struct vf_ghost {
  /* protected state as established by the last acquire */
  struct task_base* acq_head; struct task_base* acq_tail; struct task_base* acq_head_next; struct task_base* acq_wt_next;
  _Bool acq_stop;
  /* what the last release left behind */
  int rel_kind; _Bool rel_empty; _Bool rel_stop;
  unsigned pops, appends;
  unsigned exec;            /* executions of a dequeued task by this call (per loop iteration) */
  struct task_base* exec_task;
  _Bool dead; struct task_base snap;   /* the executed task may have destroyed itself */
  _Bool t_queued;           /* the operand task T is in the queue (enqueue requires it is not) */
  /* execute_impl */
  unsigned completed, value, done, polls; _Bool stop_seen;
};
static struct vf_ghost G;
#include "vf.h"
#include "vf_monitor.h"
static void vf_interfere(void) {}

struct context { struct vf_mutex mutex_; struct vf_cv cv_; struct task_base* head_; struct task_base* tail_; _Bool stop_; };
struct op { struct task_base base; int receiver_; struct context* loop_; };
static struct context S;
static struct task_base W0, W1, WT;
static struct op OPT;          /* the operand operation; its task_base sub-object is the operand task T */
#define T (OPT.base)
static char vf_opaque_obj;
#define OPAQUE ((struct task_base*)&vf_opaque_obj)
static _Bool VF_CFG_stop_never_possible;

/* the node that stands for "whatever task is at the head now": a fresh object after each execution */
#define HP (G.exec ? &W1 : &W0)

/* ---- acquire: other threads may have enqueued / dequeued / requested stop: any shape the
 * monitor invariant allows; stop_ is monotone ---- */
static void window_build(void) {
  struct task_base* hp = HP;
  S.stop_ = G.acq_stop ? 1 : VF_nondet_bool();
  WT.next_ = NULL;
  if (VF_nondet_bool()) { S.head_ = NULL; S.tail_ = NULL; }
  else {
    S.head_ = hp;
    if (VF_nondet_bool()) { hp->next_ = NULL; S.tail_ = hp; }
    else { hp->next_ = VF_nondet_bool() ? &WT : OPAQUE; S.tail_ = &WT; }
  }
  G.acq_head = S.head_; G.acq_tail = S.tail_; G.acq_head_next = (S.head_ != NULL) ? S.head_->next_ : NULL; G.acq_wt_next = WT.next_;
  G.acq_stop = S.stop_;
}
static void vf_monitor_enter(struct vf_mutex* m) { window_build(); }

#define UNCHANGED (S.head_ == G.acq_head && S.tail_ == G.acq_tail && WT.next_ == G.acq_wt_next && (G.acq_head == NULL || G.acq_head->next_ == G.acq_head_next))
static void vf_monitor_exit(struct vf_mutex* m) {
  _Bool unchanged = UNCHANGED;
  /* head popped: new head is the old head's successor; emptied queue has tail_ == NULL; the rest untouched */
  _Bool popped = G.acq_head != NULL && S.head_ == G.acq_head_next && (S.head_ == NULL ? S.tail_ == NULL : S.tail_ == G.acq_tail) && WT.next_ == G.acq_wt_next
               && (G.acq_head == G.acq_tail ? S.head_ == NULL : 1);
  /* T appended: T is the new tail with no successor, the old tail links to it, the head is unchanged (or is T if the queue was empty) */
  if (S.tail_ == &T) G.t_queued = 1;
  _Bool appended = S.tail_ == &T && T.next_ == NULL
               && (G.acq_head == NULL ? S.head_ == &T
                                      : (S.head_ == G.acq_head && G.acq_tail->next_ == &T && (G.acq_tail == G.acq_head || G.acq_head->next_ == G.acq_head_next)));
  VF_P(unchanged || popped || appended, "monitor invariant restored at release: the FIFO list is unchanged, has lost exactly its head, or has gained exactly one node at its tail");
  VF_P(!G.acq_stop || S.stop_, "stop_ never reverts");
  G.rel_kind = appended ? REL_APPENDED : (unchanged ? REL_UNCHANGED : REL_POPPED);
  if (appended) G.appends++;
  if (popped && !unchanged && !appended) G.pops++;
  G.rel_empty = (S.head_ == NULL); G.rel_stop = S.stop_;
}
static void vf_cv_wait_check(struct vf_cv* cv, struct vf_mutex* m) {
  VF_CANARY("cv_.wait reachable");
  VF_P(S.head_ == NULL && !S.stop_, "run() blocks only while the queue is empty and stop was not requested, checked under the lock (no lost wake-up, no item stranded)");
}

/* the dequeued task runs: outside the lock, exactly once, and it is the task that was at the head */
static void EV_execute(struct task_base* t) {
  VF_CANARY("task execution reachable");
  VF_P(!S.mutex_.held, "tasks are executed outside the lock");
  VF_P(G.rel_kind == REL_POPPED && t == G.acq_head, "the task executed is the one popped from the head of the queue (FIFO)");
  VF_P(G.exec == 0, "a dequeued task is executed exactly once");
  G.exec_task = t; G.exec++;
  /* its completion may destroy the operation state */
  struct task_base f; t->next_ = f.next_; G.dead = 1; G.snap = *t;
}

/* ---------------- functions under contract ---------------- */
#define ENTRY(self) ((self) == &S && !S.mutex_.held && S.mutex_.acquired == 0 && S.mutex_.released == 0 && G.pops == 0 && G.appends == 0 && G.exec == 0 && !G.dead && G.rel_kind == REL_NONE \
                     && S.cv_.notify_one == 0 && S.cv_.notify_all == 0 && S.cv_.waits == 0)

void context_enqueue(struct context* self, struct task_base* task)
__CPROVER_requires(!G.t_queued) /*P*/ /* an operation is handed to the loop at most once */
__CPROVER_requires((self) == &S && !S.mutex_.held && task == &T)
__CPROVER_requires(ENTRY(self))
__CPROVER_assigns(S, OPT.base, W0, W1, WT, G)
__CPROVER_ensures(!S.mutex_.held && S.mutex_.acquired == 1 && S.mutex_.released == 1)
__CPROVER_ensures(G.rel_kind == REL_APPENDED && G.appends == 1 && G.pops == 0) /* the task is appended at the tail, exactly once; nothing else changes (FIFO order of enqueue) */
__CPROVER_ensures((G.acq_head == NULL) ==> (S.cv_.notify_one + S.cv_.notify_all >= 1)) /* enqueue into an empty queue wakes a sleeping run() (no lost wake-up) */
__CPROVER_ensures(G.exec == 0 && G.completed == __CPROVER_old(G.completed) && G.t_queued) /* enqueue never runs the task inline */
/*@BODY enqueue*/

void context_stop(struct context* self)
__CPROVER_requires(ENTRY(self))
__CPROVER_assigns(S, OPT.base, W0, W1, WT, G)
__CPROVER_ensures(!S.mutex_.held && S.mutex_.acquired == 1 && S.mutex_.released == 1)
__CPROVER_ensures(G.rel_kind == REL_UNCHANGED && G.rel_stop) /* sets the flag, leaves the queue alone (accepted items are still run) */
__CPROVER_ensures(S.cv_.notify_all >= 1) /* every sleeping run() is woken */
/*@BODY stop*/

/* cut-point invariant of both loops of run(): lock held, protected state exactly as the last acquire found it */
#define RUN_INV (S.mutex_.held && UNCHANGED && S.stop_ == G.acq_stop)
/* run() returns only having seen, under the lock, an empty queue with stop requested */
#define RET_POST (!S.mutex_.held && G.rel_kind == REL_UNCHANGED && G.rel_empty && G.rel_stop)

static int run__loop1(struct context* self) {   /* summary of: while (head_ == nullptr) { if (stop_) return; cv_.wait(lock); } */
  VF_P(RUN_INV, "cut point (wait loop head): lock held, queue consistent");
  window_build();
  if (VF_nondet_bool()) { S.head_ = NULL; S.tail_ = NULL; S.stop_ = 1; S.mutex_.held = 0; G.rel_kind = REL_UNCHANGED; G.rel_empty = 1; G.rel_stop = 1; return VF_X_RETURN; }
  __CPROVER_assume(RUN_INV && !(/*@LOOPCOND run.loop1.cond*/));
  return VF_X_CONTINUE;
}
#define VF_LOOP1 if (run__loop1(self) == VF_X_RETURN) return VF_X_RETURN
static int run__loop0(struct context* self) {   /* summary of: while (true) { ... } : the only way out is the return inside */
  VF_P(RUN_INV, "cut point (run loop head): lock held, queue consistent");
  S.head_ = NULL; S.tail_ = NULL; S.stop_ = 1; S.mutex_.held = 0; G.rel_kind = REL_UNCHANGED; G.rel_empty = 1; G.rel_stop = 1;
  __CPROVER_assume(!(/*@LOOPCOND run.loop0.cond*/) || 1);
  return VF_X_RETURN;
}
#define VF_LOOP0 if (run__loop0(self) == VF_X_RETURN) return

void context_run(struct context* self)
__CPROVER_requires(ENTRY(self))
__CPROVER_assigns(S, OPT.base, W0, W1, WT, G)
__CPROVER_ensures(RET_POST) /* run() returns only after observing, under the lock, an empty queue and a stop request: an item accepted before stop() is never dropped */
/*@BODY run*/

int run__loop1_body(struct context* self)
__CPROVER_requires(self == &S && RUN_INV && (/*@LOOPCOND run.loop1.cond*/) && G.exec == 0 && !G.dead)
__CPROVER_assigns(S, OPT.base, W0, W1, WT, G)
__CPROVER_ensures(__CPROVER_return_value == VF_X_RETURN || __CPROVER_return_value == VF_X_CONTINUE)
__CPROVER_ensures(__CPROVER_return_value == VF_X_RETURN ==> RET_POST)
__CPROVER_ensures(__CPROVER_return_value == VF_X_CONTINUE ==> RUN_INV)
__CPROVER_ensures(G.exec == 0 && G.pops == __CPROVER_old(G.pops))
/*@LOOPBODY run.loop1.body*/

int run__loop0_body(struct context* self)
__CPROVER_requires(self == &S && RUN_INV && (/*@LOOPCOND run.loop0.cond*/) && G.exec == 0 && G.pops == 0 && !G.dead)
__CPROVER_assigns(S, OPT.base, W0, W1, WT, G)
__CPROVER_ensures(__CPROVER_return_value == VF_X_RETURN || __CPROVER_return_value == VF_X_CONTINUE)
__CPROVER_ensures(__CPROVER_return_value == VF_X_RETURN ==> (RET_POST && G.exec == 0 && G.pops == 0))
__CPROVER_ensures(__CPROVER_return_value == VF_X_CONTINUE ==> (RUN_INV && G.exec == 1 && G.pops == 1)) /* one iteration = pop the head, run it once, re-lock */
__CPROVER_ensures(!G.dead || (W0.next_ == G.snap.next_)) /* the executed task may be gone: never touched afterwards */
/*@LOOPBODY run.loop0.body*/

/* ---- the operation: start() enqueues; execute_impl completes with done iff stop was requested ---- */
static _Bool EV_stop_requested(struct op* self) { G.polls++; _Bool r = VF_nondet_bool(); if (r) G.stop_seen = 1; return r; }
static void EV_set_value(struct op* self) { VF_CANARY("set_value reachable"); VF_P(G.completed == 0, "exactly one completion signal"); VF_P(!G.stop_seen, "done is delivered instead of value when stop was requested first"); G.completed++; G.value++; }
static void EV_set_done(struct op* self) { VF_CANARY("set_done reachable"); VF_P(G.completed == 0, "exactly one completion signal"); VF_P(G.stop_seen, "done only when a stop request was observed"); G.completed++; G.done++; }

void op_execute_impl(struct task_base* t)
__CPROVER_requires(t == &OPT.base && G.completed == 0 && G.value == 0 && G.done == 0 && G.polls == 0 && !G.stop_seen)
__CPROVER_assigns(G)
__CPROVER_ensures(G.completed == 1) /* each executed schedule operation completes exactly once */
__CPROVER_ensures(VF_CFG_stop_never_possible ==> G.value == 1)
__CPROVER_ensures(!VF_CFG_stop_never_possible ==> (G.polls == 1 && (G.done == 1) == G.stop_seen))
/*@BODY execute_impl*/

void op_start(struct op* self)
__CPROVER_requires(self == &OPT && OPT.loop_ == &S && ENTRY(&S) && !G.t_queued && G.completed == 0)
__CPROVER_assigns(S, OPT.base, W0, W1, WT, G)
__CPROVER_ensures(G.appends == 1 && G.rel_kind == REL_APPENDED) /* start() hands the operation to the loop, once */
__CPROVER_ensures(G.exec == 0 && G.completed == 0) /* never completes inline: nothing is delivered by start() itself */
/*@BODY op_start*/

/* ---------------- harnesses ---------------- */
static void h_init(void) {
  S.mutex_.held = 0; S.mutex_.acquired = 0; S.mutex_.released = 0; S.cv_.notify_one = 0; S.cv_.notify_all = 0; S.cv_.waits = 0;
  S.head_ = /*@EXPR head_init*/; S.tail_ = /*@EXPR tail_init*/; S.stop_ = /*@EXPR stop_init*/;
  T.next_ = /*@EXPR task_next_init*/;
  G.acq_stop = VF_nondet_bool();   /* stop may already have been requested before this call */
  G.rel_kind = REL_NONE; G.pops = 0; G.appends = 0; G.exec = 0; G.dead = 0; G.t_queued = 0;
  G.completed = 0; G.value = 0; G.done = 0; G.polls = 0; G.stop_seen = 0;
}
void h_enqueue(void) { h_init(); context_enqueue(&S, &T); VF_CANARY("after enqueue"); if (G.acq_head == NULL) { VF_CANARY("enqueue into an empty queue"); } else { VF_CANARY("enqueue into a non-empty queue"); } }
void h_stop(void) { h_init(); context_stop(&S); VF_CANARY("after stop"); }
void h_run(void) { h_init(); context_run(&S); VF_CANARY("after run"); }
void h_run_loop1_body(void) { struct context* self = &S; h_init(); S.mutex_.held = 1; window_build(); __CPROVER_assume(/*@LOOPCOND run.loop1.cond*/); int r = run__loop1_body(&S); if (r == VF_X_RETURN) { VF_CANARY("wait loop can return (stop)"); } else { VF_CANARY("wait loop can wait"); } }
void h_run_loop0_body(void) {
  h_init(); S.mutex_.held = 1; window_build();
  int r = run__loop0_body(&S);
  if (r == VF_X_CONTINUE) { VF_CANARY("run loop body can execute a task"); VF_P(G.exec_task == &W0, "the executed task is the head the iteration found"); }
  else { VF_CANARY("run loop body can return"); }
}
void h_execute_impl(void) { h_init(); VF_CFG_stop_never_possible = VF_nondet_bool(); op_execute_impl(&OPT.base); VF_CANARY("after execute_impl"); }
void h_op_start(void) { h_init(); OPT.loop_ = &S; op_start(&OPT); VF_CANARY("after start"); }

/* ---------------- M4 lemmas ---------------- */
void lemma_mel(void) {
  h_init();
  VF_P(S.head_ == NULL && S.tail_ == NULL && !S.stop_, "lemma: a fresh context is an empty queue with stop not requested");
  VF_P(T.next_ == NULL, "lemma: a fresh task is unlinked");
  VF_CANARY("lemma reachable");
}
