CPP = 'source/manual_event_loop.cpp'
H = 'include/unifex/manual_event_loop.hpp'
CTX = r'class context \{'
OP = r'class _op<Receiver>::type final : task_base \{'
ctx = dict(
    cls='context',
    members=['mutex_', 'cv_', 'head_', 'tail_', 'stop_'],
    pre=[(r'(\w+)->execute\(\)', r'EV_execute(\1)')],
)
op_ctx = dict(
    cls='op', members=[],
    pre=[(r'auto& self = \*static_cast<type\*>\(t\);', 'struct op* self = (struct op*)t;'),
         (r'is_stop_never_possible_v<stop_token_type>', 'VF_CFG_stop_never_possible'),
         (r'get_stop_token\(self\.receiver_\)\.stop_requested\(\)', 'EV_stop_requested(self)'),
         (r'unifex::set_value\(std::move\(self\.receiver_\)\)', 'EV_set_value(self)'),
         (r'unifex::set_done\(std::move\(self\.receiver_\)\)', 'EV_set_done(self)'),
         (r'loop_->enqueue\(this\)', 'context_enqueue(self->loop_, (struct task_base*)self)')],
)
SPEC = dict(
    properties=['C06'],
    ctx=ctx,
    extracts={
        'head_init': dict(file=H, kind='expr', sig=r'task_base\* head_ = ([^;]*);'),
        'tail_init': dict(file=H, kind='expr', sig=r'task_base\* tail_ = ([^;]*);'),
        'stop_init': dict(file=H, kind='expr', sig=r'bool stop_ = ([^;]*);'),
        'task_next_init': dict(file=H, kind='expr', sig=r'task_base\* next_ = ([^;]*);'),
        'run': dict(file=CPP, sig=r'void context::run\(\)', outline={0: 'VF_LOOP0;', 1: 'VF_LOOP1;'}),
        'stop': dict(file=CPP, sig=r'void context::stop\(\)'),
        'enqueue': dict(file=CPP, sig=r'void context::enqueue\(task_base\* task\)'),
        'execute_impl': dict(file=H, sig=r'static void execute_impl\(task_base\* t\) noexcept', within=OP, ctx=op_ctx),
        'op_start': dict(file=H, sig=r'inline void _op<Receiver>::type::start\(\) noexcept', ctx=op_ctx),
    },
    closed_world=[
        dict(file=CPP, members=['head_', 'tail_', 'stop_']),
        dict(file=H, members=['head_', 'tail_', 'stop_'], within=CTX,
             allow=[r'task_base\* head_ = nullptr;', r'task_base\* tail_ = nullptr;', r'bool stop_ = false;']),
    ],
    units=[
        dict(name='enqueue', harness='h_enqueue', enforce='context_enqueue'),
        dict(name='stop', harness='h_stop', enforce='context_stop'),
        dict(name='run', harness='h_run', enforce='context_run'),
        dict(name='run_outer_body', harness='h_run_loop0_body', enforce='run__loop0_body'),
        dict(name='run_wait_body', harness='h_run_loop1_body', enforce='run__loop1_body'),
        dict(name='execute_impl', harness='h_execute_impl', enforce='op_execute_impl'),
        dict(name='op_start', harness='h_op_start', enforce='op_start', replace=['context_enqueue']),
        dict(name='lemma_mel', harness='lemma_mel', mode='lemma'),
    ],
    assumptions=[
        'std::mutex + std::condition_variable behave as a monitor (mutual exclusion; wait releases and re-acquires; spurious wake-ups allowed; a notify issued after the state change reaches a thread already waiting)',
        'an operation is enqueued at most once at a time (start() is called once per operation state)',
        'M2 meta-argument: window_build() enumerates every shape the queue invariant allows (empty / one node / head .. tail with an opaque middle); appending to the tail of a FIFO list and popping its head preserve FIFO order',
        'thread identity of the completion (it happens on the thread inside run()) is not expressed; the task is executed by run() outside the lock, exactly once',
        'single_thread_context (std::thread ownership around run()) is not reached',
    ],
    drops=['std::unique_lock RAII release made explicit at every exit', 'task->execute() (function pointer into the operation) -> event stub EV_execute, which may destroy the task',
           'receiver completion signals and the stop-token query in execute_impl -> event stubs; if constexpr(is_stop_never_possible) -> both branches (symbolic config)'],
)
