/* C02 / C05 / C01 (scoped): five small sender building blocks whose whole content is "who constructs / destroys / frees what,
 * exactly once, in which order" and "which channel, which payload":
 *   (AL) include/unifex/allocate.hpp        _op<Operation, Allocator>::type  constructor / destructor / start
 *   (VS) include/unifex/variant_sender.hpp  _op<Ops...>::type                constructor / destructor / start
 *   (IV) include/unifex/into_variant.hpp    _receiver<..>::type              set_value / set_error / set_done
 *   (JU) include/unifex/just.hpp            _op<Receiver, Values...>::type   start
 *   (LW) include/unifex/let_value_with.hpp  _operation<..>::type             start, mem-initializer list, member declaration order
 * Bodies marked @BODY / @EXPR are extracted from /repo on every run; everything else here is specification.
 * Sequential code, no atomics: no interference; the content is in the event stubs EV_* and their ghosts. */
#include <stddef.h>
#include <stdint.h>

/* ---------------- objects ---------------- */
struct al_inner { int dummy; };                                    /* (AL) the inner operation state (connect result) living in the heap block */
struct al_op { struct al_inner* op_; int allocator_; };            /* (AL) allocator_ is a token: the identity of the allocator object */
enum { VS_NALT = 3 };
struct vs_slot { int dummy; };                                     /* (VS) one manual_lifetime<Ops> alternative */
struct vs_variant { int index; };
struct vs_op { struct vs_variant variantOp_; };
struct iv_rcv { int receiver_; };                                  /* (IV) */
struct ju_op { int values_; int receiver_; };                      /* (JU) */
struct lw_op { int stateFactory_; int func_; int state_; int innerOp_; };   /* (LW) */

/* (AL) the object count the constructor passes to allocator_traits::allocate, as written in the source */
#define AL_COUNT ((size_t)(/*@EXPR al_count*/))
/* allocator_traits<X>: the TYPE the traits are taken of, as a token (allocator_t = Allocator rebound to Operation) */
enum { TR_none = 0, TR_allocator_t = 7, TR_Allocator = 8 };
enum { LS_EMPTY, LS_ALIVE, LS_STARTED };
enum { CH_NONE, CH_VALUE, CH_ERROR, CH_DONE };
#define PAY_EXCEPTION (-1)
enum { M_stateFactory_, M_func_, M_state_, M_innerOp_, M_N };       /* (LW) members, named as in the class */
enum { ARG_stateFactory = 11, ARG_func = 12, ARG_r = 13 };         /* (LW) constructor parameters, named as in the constructor */
enum { M_stateFactory = 101, M_func = 102, M_r = 103 };            /* (LW) a constructor PARAMETER written where a member is expected (it has been moved from by then): never a valid member */

/* (AL) life-cycle state of one allocate operation */
struct al_st { _Bool block, inner, started, completed; unsigned allocs, deallocs, constructs, destructs, starts; };
/* (VS) life-cycle state of one variant_sender operation: state of the ACTIVE alternative + counts */
struct vs_st { uint8_t act; _Bool completed; unsigned constructs, destructs, starts; };

struct vf_ghost {
  _Bool in_ctor, in_dtor;
  /* AL */
  struct al_st al; _Bool al_threw, al_alloc_threw, al_connect_threw;
  int al_alloc_id; int al_traits; size_t al_n; int al_rcv_alloc;
  _Bool al_dead; struct al_op al_snap;
  /* VS */
  struct vs_st vs; uint8_t vs_other[VS_NALT];        /* vs_other[i]: state of alternative i when it is NOT the active one (must stay LS_EMPTY) */
  int vs_active; unsigned vs_visits, vs_gets; _Bool vs_threw; _Bool vs_dead; int vs_snap;
  /* IV */
  unsigned iv_completed, iv_built; int iv_channel, iv_payload, iv_src, iv_tok; _Bool iv_threw, iv_rcv_threw, iv_dead; int iv_snap;
  /* JU */
  unsigned ju_completed, ju_moves, ju_sv_calls; int ju_channel, ju_payload, ju_values0; _Bool ju_rcv_threw, ju_dead; struct ju_op ju_snap;
  /* LW */
  _Bool lw_alive[M_N]; unsigned lw_constructs[M_N], lw_destructs[M_N]; int lw_order[M_N + 4];
  unsigned lw_state_calls, lw_succ_calls, lw_starts; _Bool lw_threw, lw_started, lw_completed, lw_dead; struct lw_op lw_snap;
};
static struct vf_ghost G;
static struct al_op AOP;  static struct al_inner BLK;
static struct vs_op VOP;  static struct vs_slot VSLOT[VS_NALT];
static struct iv_rcv IVR;
static struct ju_op JOP;
static struct lw_op LOP;
static int H_SENDER, H_RECEIVER;                      /* the sender / receiver handed to a constructor */
static int ALT_connect_result_Sender_Receiver;        /* (VS) index of manual_lifetime<connect_result_t<Sender, Receiver>> among the alternatives: symbolic */

#include "vf.h"
static void vf_interfere(void) {}
#define IMP(a, b) (!(a) || (b))
/* a constructor body without the scope guard: nothing to run on the exceptional edge (the guard macro is (re)defined by the extracted text) */
#define VF_GUARD_freeOnError() ((void)0)

/* =====================================================================================================================
 * (AL) allocate: heap block + inner operation
 * ===================================================================================================================== */
#define AL_NOTHING(s)   (!(s).block && !(s).inner && !(s).started && !(s).completed && (s).allocs == 0 && (s).deallocs == 0 && (s).constructs == 0 && (s).destructs == 0 && (s).starts == 0)
#define AL_LIVE(s)      ((s).block && (s).inner && (s).allocs == 1 && (s).deallocs == 0 && (s).constructs == 1 && (s).destructs == 0)
#define AL_UNSTARTED(s) (AL_LIVE(s) && !(s).started && !(s).completed && (s).starts == 0)
#define AL_RUNNING(s)   (AL_LIVE(s) && (s).started && !(s).completed && (s).starts == 1)
#define AL_COMPLETED(s) (AL_LIVE(s) && (s).started && (s).completed && (s).starts == 1)
#define AL_DESTRUCTIBLE(s) (AL_UNSTARTED(s) || AL_COMPLETED(s))                     /* the owner may destroy the operation: never started, or the inner operation has completed */
#define AL_RELEASED(s)  (!(s).block && !(s).inner && (s).allocs == (s).deallocs && (s).constructs == (s).destructs)   /* every allocation freed, every construction destroyed */
#define AL_OBJ_OK       (AOP.op_ == &BLK && AOP.allocator_ == G.al_alloc_id && G.al_traits == TR_allocator_t && G.al_n == AL_COUNT)

static int EV_get_allocator(int r) {
  VF_P(r == H_RECEIVER, "allocate: the allocator is obtained from the receiver the operation is connected to (get_allocator(r))");
  return G.al_rcv_alloc;
}
static struct al_inner* EV_allocate(struct al_op* self, int traits, int* alloc, size_t n) {
  VF_P(self == &AOP && alloc == &AOP.allocator_, "allocate: storage is allocated through the operation's own allocator_ member");
  VF_P(traits == TR_allocator_t, "allocate: storage is allocated through allocator_traits of the allocator REBOUND to the inner operation type");
  VF_P(G.in_ctor && G.al.allocs == 0 && !G.al.block, "C02: one heap block per operation, allocated by the constructor");
  VF_P(n >= 1, "allocate: storage for (at least) the one inner operation that is constructed in it");
  if (VF_nondet_bool()) { G.al_threw = 1; G.al_alloc_threw = 1; return NULL; }      /* std::bad_alloc: nothing allocated */
  G.al.allocs++; G.al.block = 1; G.al_alloc_id = *alloc; G.al_traits = traits; G.al_n = n;
  return &BLK;
}
static void EV_deallocate(struct al_op* self, int traits, int* alloc, struct al_inner* p, size_t n) {
  VF_P(self == &AOP, "allocate: the operation frees its own block");
  VF_P(G.al.block && p == &BLK, "C02: the heap block is deallocated exactly once (and it is the block that was allocated)");
  VF_P(!G.al.inner, "C02: the block is never deallocated before the inner operation in it was destroyed (or while it is alive)");
  VF_P(alloc == &AOP.allocator_ && *alloc == G.al_alloc_id, "C02: the block is deallocated through the SAME allocator object that allocated it");
  VF_P(traits == G.al_traits, "C02: the block is deallocated through allocator_traits of the same (rebound) allocator type that allocated it");
  VF_P(n == G.al_n, "C02: the size passed to deallocate equals the size that was allocated");
  G.al.block = 0; G.al.deallocs++;
}
/* ::new (storage) Operation(connect(s, r)) */
static struct al_inner* EV_connect_inner(struct al_op* self, void* storage, int s, int r) {
  VF_P(self == &AOP && G.in_ctor, "allocate: the inner operation is connected by the constructor");
  VF_P(G.al.block && storage == (void*)&BLK, "C02: the inner operation is constructed in the storage that was just allocated");
  VF_P(!G.al.inner && G.al.constructs == 0, "C02: the inner operation is constructed once");
  VF_P(s == H_SENDER && r == H_RECEIVER, "C05: what is connected is the wrapped sender with the receiver passed to connect (nothing in between)");
  if (VF_nondet_bool()) { G.al_threw = 1; G.al_connect_threw = 1; return NULL; }    /* connect throws: nothing constructed */
  G.al.inner = 1; G.al.constructs++;
  return (struct al_inner*)storage;
}
static void EV_destroy_inner(struct al_op* self, struct al_inner* p) {
  VF_P(self == &AOP && G.in_dtor, "allocate: the inner operation is destroyed by the destructor");
  VF_P(G.al.inner && p == &BLK, "C02: the inner operation is destroyed exactly once (and it is the one that was constructed)");
  VF_P(G.al.block, "C02: the inner operation is destroyed while its storage still exists (destroy, THEN deallocate)");
  VF_P(!G.al.started || G.al.completed, "C02: a started inner operation is never destroyed before it has completed");
  G.al.inner = 0; G.al.destructs++;
}
static void vf_al_may_be_gone(void) {
  struct al_op f; f.op_ = VF_nondet_bool() ? &BLK : NULL; f.allocator_ = VF_nondet_int();
  AOP = f; G.al_snap = f; G.al_dead = 1;
}
#define AL_UNTOUCHED_IF_DEAD (!G.al_dead || (AOP.op_ == G.al_snap.op_ && AOP.allocator_ == G.al_snap.allocator_))
#define VF_AL_ALIVE(o) ({ VF_P(!G.al_dead, "C02: the allocate operation is not accessed after the inner operation was started (it may have completed and the receiver destroyed us)"); (o); })
static void EV_al_start_inner(struct al_op* op, struct al_inner* p) {
  VF_P(op == &AOP && !G.al_dead && !G.in_ctor && !G.in_dtor, "allocate: start() forwards to the inner operation");
  VF_P(G.al.inner && p == &BLK, "C02: the operation that is started is the constructed inner operation");
  VF_P(!G.al.started && G.al.starts == 0, "C01: the inner operation is started exactly once");
  G.al.started = 1; G.al.starts++;
  if (VF_nondet_bool()) { G.al.completed = 1; vf_al_may_be_gone(); }     /* it may complete inline: the receiver may destroy the allocate operation right there */
}

/* mem-initializer list of the constructor: allocator_(<extracted>); op_ has no initializer (indeterminate) */
static void al_op_meminit(struct al_op* self, int s, int r) {
  self->op_ = VF_nondet_bool() ? &BLK : NULL;
  self->allocator_ = /*@EXPR al_alloc_init*/;
}

void al_op_ctor(struct al_op* self, int s, int r)
__CPROVER_requires(self == &AOP && s == H_SENDER && r == H_RECEIVER && G.in_ctor && !G.in_dtor)
__CPROVER_requires(AL_NOTHING(G.al) && !G.al_threw && !G.al_alloc_threw && !G.al_connect_threw && !G.al_dead && G.al_traits == TR_none && AOP.allocator_ == G.al_rcv_alloc)
__CPROVER_assigns(G, AOP)
__CPROVER_ensures(!G.al_threw ==> (AL_UNSTARTED(G.al) && AL_OBJ_OK))                                  /* success: one block, one inner operation in it, op_ points at it */
__CPROVER_ensures(!G.al_threw ==> G.al_alloc_id == G.al_rcv_alloc)                                   /* ... allocated with the receiver's allocator */
__CPROVER_ensures(G.al_threw ==> (AL_RELEASED(G.al) && G.al.constructs == 0 && G.al.destructs == 0))  /* C02: the constructor threw: nothing leaked -- the block (if any) was deallocated exactly once, nothing is alive */
__CPROVER_ensures(G.al_threw ==> (G.al.allocs == (G.al_alloc_threw ? 0 : 1) && (G.al_alloc_threw || G.al_connect_threw)))
__CPROVER_ensures(G.al.starts == 0 && !G.al.started && !G.al_dead)                                    /* C01: nothing is started by connect */
__CPROVER_ensures(AOP.allocator_ == __CPROVER_old(AOP.allocator_))
/*@BODY al_ctor*/

void al_op_dtor(struct al_op* self)
__CPROVER_requires(self == &AOP && G.in_dtor && !G.in_ctor && !G.al_dead && AL_DESTRUCTIBLE(G.al) && AL_OBJ_OK)
__CPROVER_assigns(G, AOP)
__CPROVER_ensures(AL_RELEASED(G.al) && G.al.destructs == 1 && G.al.deallocs == 1)                     /* C02: inner operation destroyed once, block freed once (order / allocator / size: in the stubs) */
__CPROVER_ensures(G.al.starts == __CPROVER_old(G.al.starts) && G.al.allocs == 1 && G.al.constructs == 1)
/*@BODY al_dtor*/

void al_op_start(struct al_op* op)
__CPROVER_requires(op == &AOP && !G.in_dtor && !G.in_ctor && !G.al_dead && AL_UNSTARTED(G.al) && AL_OBJ_OK)
__CPROVER_assigns(G, AOP)
__CPROVER_ensures(AL_RUNNING(G.al) || AL_COMPLETED(G.al))                                           /* C01: the inner operation was started exactly once; nothing destroyed / freed by start */
__CPROVER_ensures(AL_UNTOUCHED_IF_DEAD && (G.al_dead || AL_OBJ_OK) && IMP(G.al_dead, G.al.completed))
/*@BODY al_start*/

/* =====================================================================================================================
 * (VS) variant_sender operation: std::variant<manual_lifetime<Ops>...> variantOp_
 * ===================================================================================================================== */
#define VS_IDX_OK(i)    ((i) >= 0 && (i) < VS_NALT)
#define VS_OTHERS_EMPTY (G.vs_other[0] == LS_EMPTY && G.vs_other[1] == LS_EMPTY && G.vs_other[2] == LS_EMPTY)
#define VS_NOTHING(s)   ((s).act == LS_EMPTY && !(s).completed && (s).constructs == 0 && (s).destructs == 0 && (s).starts == 0)
#define VS_UNSTARTED(s) ((s).act == LS_ALIVE && !(s).completed && (s).constructs == 1 && (s).destructs == 0 && (s).starts == 0)
#define VS_RUNNING(s)   ((s).act == LS_STARTED && !(s).completed && (s).constructs == 1 && (s).destructs == 0 && (s).starts == 1)
#define VS_COMPLETED(s) ((s).act == LS_STARTED && (s).completed && (s).constructs == 1 && (s).destructs == 0 && (s).starts == 1)
#define VS_DESTRUCTIBLE(s) (VS_UNSTARTED(s) || VS_COMPLETED(s))
#define VS_RELEASED(s)  ((s).act == LS_EMPTY && (s).constructs == (s).destructs)
#define VS_OBJ_OK       (VS_IDX_OK(G.vs_active) && VOP.variantOp_.index == G.vs_active)
#define VF_VS_ALIVE(o) ({ VF_P(!G.vs_dead, "C02: the variant operation is not accessed after the active child was started (it may have completed and the receiver destroyed us)"); (o); })
#define VS_UNTOUCHED_IF_DEAD (!G.vs_dead || VOP.variantOp_.index == G.vs_snap)

/* which manual_lifetime<> the stub was handed: the active alternative, or another one */
static uint8_t* vf_vs_state_of(struct vs_slot* slot) {
  if (VS_IDX_OK(G.vs_active) && slot == &VSLOT[G.vs_active]) return &G.vs.act;
  if (slot == &VSLOT[0]) return &G.vs_other[0];
  if (slot == &VSLOT[1]) return &G.vs_other[1];
  return &G.vs_other[2];
}
/* std::get<manual_lifetime<op_t>>(variantOp_) */
static struct vs_slot* EV_variant_get(struct vs_op* self, struct vs_variant* v, int alt) {
  VF_P(self == &VOP && v == &VOP.variantOp_, "variant_sender: the operation's own variantOp_");
  VF_P(VS_IDX_OK(alt) && v->index == alt, "C02: std::get<manual_lifetime<op_t>> names exactly the alternative the mem-initializer put in place (otherwise std::bad_variant_access)");
  G.vs_gets++;
  return &VSLOT[VS_IDX_OK(alt) ? alt : 0];
}
/* manual_lifetime<op_t>::construct_with([&] { return connect(sender, receiver); }) */
static _Bool EV_ml_construct_with_connect(struct vs_op* self, struct vs_slot* slot, int sender, int receiver) {
  VF_P(self == &VOP && G.in_ctor, "variant_sender: the child operation is connected by the constructor");
  VF_P(VS_IDX_OK(G.vs_active) && slot == &VSLOT[G.vs_active], "C02: the child operation is constructed in the ACTIVE alternative of the variant");
  VF_P(G.vs.act == LS_EMPTY && VS_OTHERS_EMPTY && G.vs.constructs == 0, "C02: one child operation, constructed once, into storage in which nothing is alive");
  VF_P(sender == H_SENDER && receiver == H_RECEIVER, "C05: the child is the chosen sender connected to the receiver passed in (nothing in between: all three channels arrive unchanged)");
  if (VF_nondet_bool()) { G.vs_threw = 1; return 1; }                             /* connect throws: strong guarantee, nothing constructed */
  *vf_vs_state_of(slot) = LS_ALIVE; G.vs.constructs++;
  return 0;
}
/* std::visit(visitor, variantOp_): the visitor is called once, with the active alternative */
static struct vs_slot* EV_variant_visit(struct vs_op* self, struct vs_variant* v) {
  VF_P(self == &VOP && v == &VOP.variantOp_, "variant_sender: the operation's own variantOp_ is visited");
  VF_P(VS_IDX_OK(v->index) && v->index == G.vs_active, "variant_sender: the variant holds the alternative chosen at construction (never valueless)");
  G.vs_visits++;
  return &VSLOT[VS_IDX_OK(G.vs_active) ? G.vs_active : 0];
}
static void EV_ml_destruct(struct vs_slot* slot) {
  uint8_t* st = vf_vs_state_of(slot);
  VF_P(G.in_dtor, "variant_sender: the child operation is destroyed by the destructor only");
  VF_P(st == &G.vs.act, "C02: the destructor destroys exactly the ACTIVE alternative's operation");
  VF_P(*st != LS_EMPTY, "C02: the child operation is destroyed exactly once, and only if it was constructed");
  VF_P(*st == LS_ALIVE || G.vs.completed, "C02: a started child operation is never destroyed before it has completed");
  *st = LS_EMPTY; G.vs.destructs++;
}
static struct vs_slot* EV_ml_get(struct vs_slot* slot) {
  VF_P(*vf_vs_state_of(slot) != LS_EMPTY, "C02: manual_lifetime::get() only on a constructed operation (nothing read uninitialised)");
  return slot;
}
static void EV_vs_start(struct vs_slot* slot) {
  uint8_t* st = vf_vs_state_of(slot);
  VF_P(!G.in_ctor && !G.in_dtor && !G.vs_dead, "variant_sender: start() forwards to the child");
  VF_P(st == &G.vs.act && *st == LS_ALIVE && G.vs.starts == 0, "C01: start() starts exactly the active alternative's operation, exactly once");
  *st = LS_STARTED; G.vs.starts++;
  if (VF_nondet_bool()) { G.vs.completed = 1; VOP.variantOp_.index = VF_nondet_int(); G.vs_snap = VOP.variantOp_.index; G.vs_dead = 1; }
}

/* mem-initializer: variantOp_(std::in_place_type_t<manual_lifetime<connect_result_t<Sender, Receiver>>>{}) -- the alternative is
 * emplaced, the manual_lifetime<> in it holds no object */
static void vs_op_meminit(struct vs_op* self) { self->variantOp_.index = /*@EXPR vs_variant_init*/; }

void vs_op_ctor(struct vs_op* self, int sender, int receiver)
__CPROVER_requires(self == &VOP && sender == H_SENDER && receiver == H_RECEIVER && G.in_ctor && !G.in_dtor && !G.vs_dead && !G.vs_threw)
__CPROVER_requires(VS_OBJ_OK && VS_NOTHING(G.vs) && VS_OTHERS_EMPTY && G.vs_visits == 0 && G.vs_gets == 0 && VS_IDX_OK(ALT_connect_result_Sender_Receiver))
__CPROVER_assigns(G, VOP)
__CPROVER_ensures(!G.vs_threw ==> VS_UNSTARTED(G.vs))                            /* exactly one child operation alive, in the active alternative */
__CPROVER_ensures(G.vs_threw ==> VS_NOTHING(G.vs))                               /* C02: connect threw: nothing constructed, nothing to destroy */
__CPROVER_ensures(VS_OTHERS_EMPTY && VS_OBJ_OK && !G.vs_dead && G.vs_gets == 1)   /* the discriminator is what the mem-initializer chose; C01: nothing started */
/*@BODY vs_ctor*/

void vs_op_dtor(struct vs_op* self)
__CPROVER_requires(self == &VOP && G.in_dtor && !G.in_ctor && !G.vs_dead && VS_OBJ_OK && VS_DESTRUCTIBLE(G.vs) && VS_OTHERS_EMPTY && G.vs_visits == 0)
__CPROVER_assigns(G, VOP)
__CPROVER_ensures(VS_RELEASED(G.vs) && G.vs.destructs == 1 && VS_OTHERS_EMPTY)   /* C02: exactly the active alternative's operation was destroyed, exactly once */
__CPROVER_ensures(G.vs.starts == __CPROVER_old(G.vs.starts) && G.vs_visits == 1)
/*@BODY vs_dtor*/

void vs_op_start(struct vs_op* self)
__CPROVER_requires(self == &VOP && !G.in_dtor && !G.in_ctor && !G.vs_dead && VS_OBJ_OK && VS_UNSTARTED(G.vs) && VS_OTHERS_EMPTY && G.vs_visits == 0)
__CPROVER_assigns(G, VOP)
__CPROVER_ensures((VS_RUNNING(G.vs) || VS_COMPLETED(G.vs)) && VS_OTHERS_EMPTY && G.vs_visits == 1)   /* C01/C05: the active child was started once; nothing destroyed */
__CPROVER_ensures(VS_UNTOUCHED_IF_DEAD && (G.vs_dead || VS_OBJ_OK) && IMP(G.vs_dead, G.vs.completed))
/*@BODY vs_start*/

/* =====================================================================================================================
 * (IV) into_variant receiver
 * ===================================================================================================================== */
#define IV_UNCOMPLETED (G.iv_completed == 0 && G.iv_channel == CH_NONE && !G.iv_dead)
#define IV_FINAL(ch, pay) (G.iv_completed == 1 && G.iv_channel == (ch) && G.iv_payload == (pay))
#define IV_UNTOUCHED_IF_DEAD (!G.iv_dead || IVR.receiver_ == G.iv_snap)
/* VariantType(std::make_tuple(values...)) */
static int EV_iv_make_variant(struct iv_rcv* self, int values) {
  VF_P(self == &IVR && !G.iv_dead, "into_variant: the receiver is alive");
  VF_P(G.iv_completed == 0 && G.iv_built == 0, "C05: ONE variant value is built per set_value, before anything is delivered");
  G.iv_built++;
  if (VF_nondet_bool()) { G.iv_threw = 1; return 0; }                             /* copying / moving a value throws */
  G.iv_src = values; G.iv_tok = VF_nondet_int();
  return G.iv_tok;
}
static void vf_iv_pre(struct iv_rcv* self, int* rcv) {
  VF_P(self == &IVR && rcv == &IVR.receiver_ && !G.iv_dead, "into_variant: the signal goes to the wrapped receiver, which has not been completed / moved from yet");
  VF_P(G.iv_completed == 0, "C01: the wrapped receiver is completed at most once");
}
static void vf_iv_final(int ch, int pay) {
  G.iv_completed++; G.iv_channel = ch; G.iv_payload = pay;
  IVR.receiver_ = VF_nondet_int(); G.iv_snap = IVR.receiver_; G.iv_dead = 1;     /* the downstream receiver may destroy the whole operation, this receiver included */
}
static _Bool EV_iv_set_value(struct iv_rcv* self, int* rcv, int v) {
  vf_iv_pre(self, rcv);
  VF_P(G.iv_built == 1 && !G.iv_threw && v == G.iv_tok, "C05: the value delivered is the one variant that was built (a single value)");
  if (VF_nondet_bool()) { G.iv_rcv_threw = 1; return 1; }                         /* a throwing downstream set_value leaves the receiver un-completed */
  vf_iv_final(CH_VALUE, v);
  return 0;
}
static void EV_iv_set_error(struct iv_rcv* self, int* rcv, int e) { vf_iv_pre(self, rcv); vf_iv_final(CH_ERROR, e); }
static void EV_iv_set_done(struct iv_rcv* self, int* rcv) { vf_iv_pre(self, rcv); vf_iv_final(CH_DONE, 0); }

#define IV_PRE (self == &IVR && IV_UNCOMPLETED /* protocol state */ && G.iv_built == 0 && !G.iv_threw && !G.iv_rcv_threw /* per-call ghosts */)
void iv_rcv_set_value(struct iv_rcv* self, int values)
__CPROVER_requires(IV_PRE)
__CPROVER_assigns(G, IVR)
__CPROVER_ensures(G.iv_built == 1 && IV_UNTOUCHED_IF_DEAD)
__CPROVER_ensures((!G.iv_threw && !G.iv_rcv_threw) ==> (IV_FINAL(CH_VALUE, G.iv_tok) && G.iv_src == values))   /* C05: values -> ONE variant value built from exactly these values, on the value channel */
__CPROVER_ensures((G.iv_threw || G.iv_rcv_threw) ==> (IV_UNCOMPLETED && IVR.receiver_ == __CPROVER_old(IVR.receiver_)))   /* C02/C05: a throwing construction (or downstream set_value) propagates with the receiver intact and un-completed: the predecessor's set_error call is then the single completion */
/*@BODY iv_set_value*/

void iv_rcv_set_error(struct iv_rcv* self, int error)
__CPROVER_requires(IV_PRE)
__CPROVER_assigns(G, IVR)
__CPROVER_ensures(IV_FINAL(CH_ERROR, error) && G.iv_built == 0 && IV_UNTOUCHED_IF_DEAD)                        /* C05: an error arrives unchanged, on the error channel, exactly once */
/*@BODY iv_set_error*/

void iv_rcv_set_done(struct iv_rcv* self)
__CPROVER_requires(IV_PRE)
__CPROVER_assigns(G, IVR)
__CPROVER_ensures(IV_FINAL(CH_DONE, 0) && G.iv_built == 0 && IV_UNTOUCHED_IF_DEAD)                             /* C05: done stays done */
/*@BODY iv_set_done*/

/* =====================================================================================================================
 * (JU) just(values...)::start
 * ===================================================================================================================== */
#define JU_UNTOUCHED_IF_DEAD (!G.ju_dead || (JOP.values_ == G.ju_snap.values_ && JOP.receiver_ == G.ju_snap.receiver_))
#define VF_JU_ALIVE(o) ({ VF_P(!G.ju_dead, "C02: the just operation is not accessed after it delivered its completion signal"); (o); })
/* std::apply(f, std::move(values_)) */
static int EV_ju_apply_moved(struct ju_op* self, int* tup) {
  VF_P(self == &JOP && tup == &JOP.values_, "just: the stored values");
  VF_P(G.ju_moves == 0 && G.ju_completed == 0, "C02/C05: the stored values are moved out of the operation exactly once, before any completion");
  G.ju_moves++;
  return *tup;
}
static void vf_ju_pre(struct ju_op* self, int* rcv) {
  VF_P(self == &JOP && rcv == &JOP.receiver_ && !G.ju_dead, "just: the signal goes to the operation's receiver");
  VF_P(G.ju_completed == 0, "C01: the receiver is completed at most once");
}
static void vf_ju_final(int ch, int pay) {
  G.ju_completed++; G.ju_channel = ch; G.ju_payload = pay;
  struct ju_op f; f.values_ = VF_nondet_int(); f.receiver_ = VF_nondet_int();
  JOP = f; G.ju_snap = f; G.ju_dead = 1;                                          /* the receiver may destroy the operation right there */
}
static _Bool EV_ju_set_value(struct ju_op* self, int* rcv, int values) {
  vf_ju_pre(self, rcv);
  VF_P(G.ju_sv_calls == 0, "just: set_value is attempted once");
  VF_P(G.ju_moves == 1 && values == G.ju_values0, "C05: the values arrive unmodified: exactly the stored values, moved once");
  G.ju_sv_calls++;
  if (VF_nondet_bool()) { G.ju_rcv_threw = 1; return 1; }                         /* the receiver's set_value (or a value move inside it) throws: receiver un-completed */
  vf_ju_final(CH_VALUE, values);
  return 0;
}
static void EV_ju_set_error(struct ju_op* self, int* rcv, int tok) {
  vf_ju_pre(self, rcv);
  VF_P(G.ju_rcv_threw, "C05: just never produces an error of its own: set_error only for an exception thrown while delivering the value");
  vf_ju_final(CH_ERROR, tok);
}

void ju_op_start(struct ju_op* self)
__CPROVER_requires(self == &JOP && G.ju_completed == 0 && G.ju_moves == 0 && G.ju_sv_calls == 0 && G.ju_channel == CH_NONE && !G.ju_rcv_threw && !G.ju_dead && JOP.values_ == G.ju_values0)
__CPROVER_assigns(G, JOP)
__CPROVER_ensures(G.ju_completed == 1)                                                                      /* C01: exactly one completion signal on every path */
__CPROVER_ensures(!G.ju_rcv_threw ==> (G.ju_channel == CH_VALUE && G.ju_payload == G.ju_values0))            /* C05: set_value(values...) with the stored values */
__CPROVER_ensures(G.ju_rcv_threw ==> (G.ju_channel == CH_ERROR && G.ju_payload == PAY_EXCEPTION))            /* C05: a throwing delivery is turned into set_error(current_exception) */
__CPROVER_ensures(G.ju_moves == 1 && G.ju_sv_calls == 1 && JU_UNTOUCHED_IF_DEAD && G.ju_dead)
/*@BODY ju_start*/

/* =====================================================================================================================
 * (LW) let_value_with operation
 * ===================================================================================================================== */
#define LW_ALL_ALIVE (G.lw_alive[M_stateFactory_] && G.lw_alive[M_func_] && G.lw_alive[M_state_] && G.lw_alive[M_innerOp_])
#define LW_NONE_ALIVE (!G.lw_alive[M_stateFactory_] && !G.lw_alive[M_func_] && !G.lw_alive[M_state_] && !G.lw_alive[M_innerOp_])
#define LW_EACH_CONSTRUCTS(n) (G.lw_constructs[M_stateFactory_] == (n) && G.lw_constructs[M_func_] == (n) && G.lw_constructs[M_state_] == (n) && G.lw_constructs[M_innerOp_] == (n))
#define LW_EACH_DESTRUCTS(n) (G.lw_destructs[M_stateFactory_] == (n) && G.lw_destructs[M_func_] == (n) && G.lw_destructs[M_state_] == (n) && G.lw_destructs[M_innerOp_] == (n))
#define LW_BALANCED (G.lw_constructs[M_stateFactory_] == G.lw_destructs[M_stateFactory_] && G.lw_constructs[M_func_] == G.lw_destructs[M_func_] \
  && G.lw_constructs[M_state_] == G.lw_destructs[M_state_] && G.lw_constructs[M_innerOp_] == G.lw_destructs[M_innerOp_])
#define LW_UNTOUCHED_IF_DEAD (!G.lw_dead || (LOP.stateFactory_ == G.lw_snap.stateFactory_ && LOP.func_ == G.lw_snap.func_ && LOP.state_ == G.lw_snap.state_ && LOP.innerOp_ == G.lw_snap.innerOp_))
#define LW_M_OK(m) ((m) >= 0 && (m) < M_N)

static _Bool vf_lw_construct(struct lw_op* self, int m) {
  VF_P(self == &LOP && G.in_ctor && LW_M_OK(m), "let_value_with: members are constructed by the constructor");
  if (!LW_M_OK(m)) return 1;
  VF_P(!G.lw_alive[m] && G.lw_constructs[m] == 0, "C02: every member is constructed exactly once");
  if (VF_nondet_bool()) { G.lw_threw = 1; return 1; }                             /* the copy / factory / connect throws: strong guarantee for this member */
  G.lw_alive[m] = 1; G.lw_constructs[m]++;
  return 0;
}
/* member(static_cast<F2&&>(arg)) */
static _Bool EV_lw_forward_construct(struct lw_op* self, int m, int arg) {
  VF_P((m == M_stateFactory_ && arg == ARG_stateFactory) || (m == M_func_ && arg == ARG_func), "C05: the state factory and the successor factory passed in are each stored in their own member");
  return vf_lw_construct(self, m);
}
/* state_(static_cast<StateFactory&&>(stateFactory_)()) */
static _Bool EV_lw_invoke_state_factory(struct lw_op* self, int m, int f) {
  VF_P(m == M_state_, "C02: the state factory's result is constructed in place in state_ (it is never moved afterwards: the inner operation refers to it)");
  VF_P(f == M_stateFactory_ && G.lw_alive[M_stateFactory_], "C02: the STORED state factory is invoked, after it was constructed (nothing read uninitialised)");
  VF_P(G.lw_state_calls == 0, "C05: the state factory is invoked exactly once");
  G.lw_state_calls++;
  return vf_lw_construct(self, m);
}
/* innerOp_(connect(static_cast<SuccessorFactory&&>(func_)(state_), (Receiver2&&)r)) */
static _Bool EV_lw_invoke_successor_and_connect(struct lw_op* self, int m, int f, int st, int r) {
  VF_P(m == M_innerOp_, "C02: the inner operation is constructed in place in innerOp_ by the constructor");
  VF_P(f == M_func_ && G.lw_alive[M_func_], "C02: the STORED successor factory is invoked, after it was constructed");
  VF_P(st == M_state_ && G.lw_alive[M_state_], "C02/C05: the successor factory is handed a reference to state_ AFTER state_ was constructed (nothing read uninitialised)");
  VF_P(r == ARG_r, "C05: the successor is connected to the receiver passed to connect: its three channels arrive unchanged");
  VF_P(G.lw_succ_calls == 0, "C05: the successor factory is invoked exactly once");
  G.lw_succ_calls++;
  return vf_lw_construct(self, m);
}
static void vf_lw_destroy_member(struct lw_op* self, int m) {
  VF_P(self == &LOP && LW_M_OK(m), "let_value_with: a member of the operation");
  if (!LW_M_OK(m)) return;
  VF_P(G.lw_alive[m], "C02: a member is destroyed exactly once, and only if it was constructed");
  if (m == M_state_) VF_P(!G.lw_alive[M_innerOp_], "C02: destruction order: the inner operation (which refers to state_) is destroyed BEFORE state_");
  if (m == M_innerOp_) VF_P(!G.lw_started || G.lw_completed, "C02: a started inner operation is never destroyed before it has completed");
  G.lw_alive[m] = 0; G.lw_destructs[m]++;
}
static void EV_lw_start_inner(struct lw_op* self, int* inner) {
  VF_P(self == &LOP && inner == &LOP.innerOp_ && !G.lw_dead && !G.in_ctor && !G.in_dtor, "let_value_with: start() forwards to innerOp_");
  VF_P(G.lw_alive[M_innerOp_] && G.lw_alive[M_state_], "C02: the inner operation is started while it and the state it refers to are alive");
  VF_P(!G.lw_started && G.lw_starts == 0, "C01: the inner operation is started exactly once");
  G.lw_started = 1; G.lw_starts++;
  if (VF_nondet_bool()) {
    G.lw_completed = 1;
    struct lw_op f; f.stateFactory_ = VF_nondet_int(); f.func_ = VF_nondet_int(); f.state_ = VF_nondet_int(); f.innerOp_ = VF_nondet_int();
    LOP = f; G.lw_snap = f; G.lw_dead = 1;
  }
}

void lw_op_start(struct lw_op* self)
__CPROVER_requires(self == &LOP && !G.in_ctor && !G.in_dtor && !G.lw_dead && LW_ALL_ALIVE && !G.lw_started && !G.lw_completed && G.lw_starts == 0 && LW_EACH_CONSTRUCTS(1) && LW_EACH_DESTRUCTS(0))
__CPROVER_assigns(G, LOP)
__CPROVER_ensures(G.lw_starts == 1 && G.lw_started && LW_ALL_ALIVE && LW_EACH_DESTRUCTS(0) && LW_EACH_CONSTRUCTS(1))   /* C01: the inner operation is started exactly once, nothing destroyed */
__CPROVER_ensures(LW_UNTOUCHED_IF_DEAD && IMP(G.lw_dead, G.lw_completed))
/*@BODY lw_start*/

/* ONE mem-initializer of the constructor, selected by member: the extracted mem-initializer list, each entry guarded by VF_MEMINIT */
static _Bool lw_meminit(struct lw_op* self, int vf_member) {
  _Bool vf_found = 0;
#define VF_MEMINIT(m, ev) if (vf_member == M_##m) { vf_found = 1; if (ev) return 1; }
  /*@EXPR lw_meminit*/
#undef VF_MEMINIT
  VF_P(vf_found, "C02: every member of the operation has a mem-initializer (none is left to a default that reads nothing / connects nothing)");
  return 0;
}
#define LW_DESTROY_STEP if (vf_n > 0) { vf_n--; vf_lw_destroy_member(self, G.lw_order[vf_n]); }
#define LW_DESTROY_ALL_REVERSE LW_DESTROY_STEP LW_DESTROY_STEP LW_DESTROY_STEP LW_DESTROY_STEP LW_DESTROY_STEP LW_DESTROY_STEP LW_DESTROY_STEP LW_DESTROY_STEP

/* the constructor = the language rule over the two extracted texts: members are constructed in DECLARATION order (lw_members), each by
 * its mem-initializer (lw_meminit); a throwing initializer destroys the members constructed so far in reverse order; the body is `{}` */
void lw_op_ctor(struct lw_op* self)
__CPROVER_requires(self == &LOP && G.in_ctor && !G.in_dtor && !G.lw_dead && !G.lw_threw && LW_NONE_ALIVE && LW_EACH_CONSTRUCTS(0) && LW_EACH_DESTRUCTS(0)
  && G.lw_state_calls == 0 && G.lw_succ_calls == 0 && G.lw_starts == 0 && !G.lw_started && !G.lw_completed)
__CPROVER_assigns(G)
__CPROVER_ensures(!G.lw_threw ==> (LW_ALL_ALIVE && LW_EACH_CONSTRUCTS(1) && LW_EACH_DESTRUCTS(0) && G.lw_state_calls == 1 && G.lw_succ_calls == 1))   /* C05/C02: state factory once, successor factory + connect once, everything constructed in place */
__CPROVER_ensures(G.lw_threw ==> (LW_NONE_ALIVE && LW_BALANCED && G.lw_state_calls <= 1 && G.lw_succ_calls <= 1))                                    /* C02: a throwing factory / connect leaks nothing */
__CPROVER_ensures(G.lw_starts == 0 && !G.lw_started)                                                                                                  /* C01: nothing is started by connect */
{
  int vf_n = 0;
#define VF_MEMBER(m) if (!G.lw_threw && vf_n < M_N + 4) { if (!lw_meminit(self, M_##m)) { G.lw_order[vf_n] = M_##m; vf_n++; } else { G.lw_threw = 1; } }
  /*@EXPR lw_members*/
#undef VF_MEMBER
  if (G.lw_threw) { LW_DESTROY_ALL_REVERSE }
}

/* the implicit destructor: all members, in reverse declaration order */
void lw_op_dtor(struct lw_op* self)
__CPROVER_requires(self == &LOP && G.in_dtor && !G.in_ctor && !G.lw_dead && LW_ALL_ALIVE && LW_EACH_CONSTRUCTS(1) && LW_EACH_DESTRUCTS(0) && (!G.lw_started || G.lw_completed))
__CPROVER_assigns(G)
__CPROVER_ensures(LW_NONE_ALIVE && LW_EACH_DESTRUCTS(1) && LW_EACH_CONSTRUCTS(1) && G.lw_starts == __CPROVER_old(G.lw_starts))   /* C02: every member destroyed exactly once (inner operation before state_: in the stub) */
{
  int vf_n = 0;
#define VF_MEMBER(m) if (vf_n < M_N + 4) { G.lw_order[vf_n] = M_##m; vf_n++; }
  /*@EXPR lw_members*/
#undef VF_MEMBER
  LW_DESTROY_ALL_REVERSE
}

/* =====================================================================================================================
 * harnesses
 * ===================================================================================================================== */
static int h_token(void) { int t = VF_nondet_int(); __CPROVER_assume(t > 0); return t; }
static void h_reset(void) {
  struct vf_ghost z = {0};
  G = z;
  G.al_traits = TR_none; G.al_rcv_alloc = VF_nondet_int(); G.iv_channel = CH_NONE; G.ju_channel = CH_NONE;
  H_SENDER = h_token(); H_RECEIVER = h_token(); __CPROVER_assume(H_SENDER != H_RECEIVER);
}
/* ---- AL ---- */
enum { H_AL_UNSTARTED, H_AL_RUNNING, H_AL_COMPLETED };
static void h_al_live(int st) {
  h_reset();
  G.al.block = 1; G.al.inner = 1; G.al.allocs = 1; G.al.constructs = 1;
  if (st != H_AL_UNSTARTED) { G.al.started = 1; G.al.starts = 1; }
  if (st == H_AL_COMPLETED) G.al.completed = 1;
  G.al_alloc_id = G.al_rcv_alloc; G.al_traits = TR_allocator_t; G.al_n = AL_COUNT;
  AOP.op_ = &BLK; AOP.allocator_ = G.al_alloc_id;
}
void h_al_ctor(void) {
  h_reset(); G.in_ctor = 1;
  al_op_meminit(&AOP, H_SENDER, H_RECEIVER);
  al_op_ctor(&AOP, H_SENDER, H_RECEIVER);
  VF_CANARY("after allocate's constructor");
  if (G.al_alloc_threw) { VF_CANARY("allocate: the allocation can throw"); }
  if (G.al_connect_threw) { VF_CANARY("allocate: connect can throw after the block was allocated"); }
  if (!G.al_threw) { VF_CANARY("allocate: constructor succeeds"); }
}
void h_al_dtor(void) {
  _Bool k = VF_nondet_bool();
  h_al_live(k ? H_AL_COMPLETED : H_AL_UNSTARTED); G.in_dtor = 1;
  al_op_dtor(&AOP);
  VF_CANARY("after allocate's destructor");
  if (k) { VF_CANARY("allocate: destructor after the inner operation completed"); } else { VF_CANARY("allocate: destructor of a never-started operation"); }
}
void h_al_start(void) {
  h_al_live(H_AL_UNSTARTED);
  al_op_start(&AOP);
  VF_CANARY("after allocate's start");
  if (G.al_dead) { VF_CANARY("allocate: the inner operation can complete inside start"); } else { VF_CANARY("allocate: the inner operation can stay pending"); }
}
/* ---- VS ---- */
static void h_vs_common(void) {
  h_reset();
  int a = VF_nondet_int(); __CPROVER_assume(VS_IDX_OK(a));
  ALT_connect_result_Sender_Receiver = a;
}
static void h_vs_live(_Bool completed) {
  h_vs_common();
  G.vs_active = ALT_connect_result_Sender_Receiver; VOP.variantOp_.index = G.vs_active;
  G.vs.constructs = 1;
  if (completed) { G.vs.act = LS_STARTED; G.vs.starts = 1; G.vs.completed = 1; } else { G.vs.act = LS_ALIVE; }
}
void h_vs_ctor(void) {
  h_vs_common(); G.in_ctor = 1;
  vs_op_meminit(&VOP); G.vs_active = VOP.variantOp_.index;
  vs_op_ctor(&VOP, H_SENDER, H_RECEIVER);
  VF_CANARY("after the variant operation's constructor");
  if (G.vs_threw) { VF_CANARY("variant_sender: connect can throw"); } else { VF_CANARY("variant_sender: child connected"); }
  if (G.vs_active == 0) { VF_CANARY("variant_sender: first alternative"); }
  if (G.vs_active == VS_NALT - 1) { VF_CANARY("variant_sender: last alternative"); }
}
void h_vs_dtor(void) {
  _Bool k = VF_nondet_bool();
  h_vs_live(k); G.in_dtor = 1;
  vs_op_dtor(&VOP);
  VF_CANARY("after the variant operation's destructor");
  if (k) { VF_CANARY("variant_sender: destructor after the child completed"); } else { VF_CANARY("variant_sender: destructor of a never-started operation"); }
  if (G.vs_active == 1) { VF_CANARY("variant_sender: destructor with the middle alternative active"); }
}
void h_vs_start(void) {
  h_vs_live(0);
  vs_op_start(&VOP);
  VF_CANARY("after the variant operation's start");
  if (G.vs_dead) { VF_CANARY("variant_sender: the child can complete inside start"); } else { VF_CANARY("variant_sender: the child can stay pending"); }
}
/* ---- IV ---- */
static void h_iv(void) { h_reset(); IVR.receiver_ = H_RECEIVER; }
void h_iv_set_value(void) {
  h_iv(); int v = h_token();
  iv_rcv_set_value(&IVR, v);
  VF_CANARY("after into_variant set_value");
  if (G.iv_threw) { VF_CANARY("into_variant: building the variant can throw"); }
  if (G.iv_rcv_threw) { VF_CANARY("into_variant: the downstream set_value can throw"); }
  if (G.iv_completed == 1) { VF_CANARY("into_variant: value delivered"); }
}
void h_iv_set_error(void) { h_iv(); iv_rcv_set_error(&IVR, h_token()); VF_CANARY("after into_variant set_error"); }
void h_iv_set_done(void) { h_iv(); iv_rcv_set_done(&IVR); VF_CANARY("after into_variant set_done"); }
/* ---- JU ---- */
void h_ju_start(void) {
  h_reset(); JOP.values_ = h_token(); JOP.receiver_ = H_RECEIVER; G.ju_values0 = JOP.values_;
  ju_op_start(&JOP);
  VF_CANARY("after just's start");
  if (G.ju_rcv_threw) { VF_CANARY("just: the receiver's set_value can throw -> set_error"); } else { VF_CANARY("just: value delivered"); }
}
/* ---- LW ---- */
static void h_lw_live(_Bool completed) {
  h_reset();
  G.lw_alive[M_stateFactory_] = 1; G.lw_alive[M_func_] = 1; G.lw_alive[M_state_] = 1; G.lw_alive[M_innerOp_] = 1;
  G.lw_constructs[M_stateFactory_] = 1; G.lw_constructs[M_func_] = 1; G.lw_constructs[M_state_] = 1; G.lw_constructs[M_innerOp_] = 1;
  G.lw_state_calls = 1; G.lw_succ_calls = 1;
  if (completed) { G.lw_started = 1; G.lw_completed = 1; G.lw_starts = 1; }
  LOP.stateFactory_ = VF_nondet_int(); LOP.func_ = VF_nondet_int(); LOP.state_ = VF_nondet_int(); LOP.innerOp_ = VF_nondet_int();
}
void h_lw_start(void) {
  h_lw_live(0);
  lw_op_start(&LOP);
  VF_CANARY("after let_value_with's start");
  if (G.lw_dead) { VF_CANARY("let_value_with: the inner operation can complete inside start"); } else { VF_CANARY("let_value_with: the inner operation can stay pending"); }
}
void h_lw_ctor(void) {
  h_reset(); G.in_ctor = 1;
  lw_op_ctor(&LOP);
  VF_CANARY("after let_value_with's constructor");
  if (!G.lw_threw) { VF_CANARY("let_value_with: constructor succeeds"); }
  if (G.lw_threw && G.lw_constructs[M_stateFactory_] == 0) { VF_CANARY("let_value_with: storing the state factory can throw"); }
  if (G.lw_threw && G.lw_state_calls == 1 && G.lw_constructs[M_state_] == 0) { VF_CANARY("let_value_with: the state factory can throw"); }
  if (G.lw_threw && G.lw_succ_calls == 1) { VF_CANARY("let_value_with: the successor factory / connect can throw (state_ is unwound)"); }
}
void h_lw_dtor(void) {
  _Bool k = VF_nondet_bool();
  h_lw_live(k); G.in_dtor = 1;
  lw_op_dtor(&LOP);
  VF_CANARY("after let_value_with's destructor");
  if (k) { VF_CANARY("let_value_with: destructor after completion"); } else { VF_CANARY("let_value_with: destructor of a never-started operation"); }
}

/* =====================================================================================================================
 * M4 lemmas over the contracts
 * ===================================================================================================================== */
static struct al_st h_al_sym(void) {
  struct al_st s; s.block = VF_nondet_bool(); s.inner = VF_nondet_bool(); s.started = VF_nondet_bool(); s.completed = VF_nondet_bool();
  s.allocs = VF_nondet_u32(); s.deallocs = VF_nondet_u32(); s.constructs = VF_nondet_u32(); s.destructs = VF_nondet_u32(); s.starts = VF_nondet_u32();
  return s;
}
/* allocate: constructor (ok | threw); start (pending | completed inline); the inner operation's later completion; destructor.
 * Every sequence the owner may perform ends with allocs == deallocs and constructs == destructs. */
void lemma_al_lifecycle(void) {
  struct al_st a = h_al_sym(), b = h_al_sym();
  int step = VF_nondet_int();
  _Bool en =
      step == 0 ? (AL_NOTHING(a) && (AL_UNSTARTED(b) || (AL_RELEASED(b) && b.constructs == 0)))       /* constructor: its two postconditions */
    : step == 1 ? (AL_UNSTARTED(a) && (AL_RUNNING(b) || AL_COMPLETED(b)))                               /* start() */
    : step == 2 ? (AL_RUNNING(a) && AL_COMPLETED(b))                                                    /* the pending inner operation completes (C01 of the child) */
    : step == 3 ? (AL_DESTRUCTIBLE(a) && AL_RELEASED(b) && b.destructs == 1 && b.deallocs == 1 && b.allocs == 1 && b.constructs == 1)   /* destructor */
    : 0;
  __CPROVER_assume(en);
  VF_CANARY("lemma_al_lifecycle premises satisfiable");
  if (step == 3) { VF_CANARY("lemma_al_lifecycle: destructor step"); }
  VF_P(IMP(step == 0, AL_DESTRUCTIBLE(b) || AL_RELEASED(b)), "lemma: after the constructor either nothing is owned (it threw) or the operation may be destroyed at once");
  VF_P(IMP(step == 1 || step == 2, AL_RUNNING(b) || AL_DESTRUCTIBLE(b)), "lemma: after start the operation is either still running (may not be destroyed) or satisfies the destructor's precondition");
  VF_P(IMP(step == 3, b.allocs == b.deallocs && b.constructs == b.destructs && !b.block && !b.inner), "lemma: at the end of life every allocation is freed and every constructed inner operation destroyed, exactly once");
  VF_P(IMP(AL_RUNNING(a), !AL_DESTRUCTIBLE(a)), "lemma: a running inner operation is never destructible (destroyed only after it completed)");
  VF_P(TR_allocator_t != TR_Allocator && TR_allocator_t != TR_none, "lemma: the allocator type tokens are distinct");
}
void lemma_vs_lifecycle(void) {
  struct vs_st a, b;
  a.act = VF_nondet_u8(); a.completed = VF_nondet_bool(); a.constructs = VF_nondet_u32(); a.destructs = VF_nondet_u32(); a.starts = VF_nondet_u32();
  b.act = VF_nondet_u8(); b.completed = VF_nondet_bool(); b.constructs = VF_nondet_u32(); b.destructs = VF_nondet_u32(); b.starts = VF_nondet_u32();
  int step = VF_nondet_int();
  _Bool en =
      step == 0 ? (VS_NOTHING(a) && (VS_UNSTARTED(b) || VS_NOTHING(b)))
    : step == 1 ? (VS_UNSTARTED(a) && (VS_RUNNING(b) || VS_COMPLETED(b)))
    : step == 2 ? (VS_RUNNING(a) && VS_COMPLETED(b))
    : step == 3 ? (VS_DESTRUCTIBLE(a) && VS_RELEASED(b) && b.destructs == 1 && b.constructs == 1)
    : 0;
  __CPROVER_assume(en);
  VF_CANARY("lemma_vs_lifecycle premises satisfiable");
  VF_P(IMP(step == 0, VS_DESTRUCTIBLE(b) || VS_RELEASED(b)), "lemma: after the constructor either nothing was constructed (it threw) or the operation may be destroyed at once");
  VF_P(IMP(step == 1 || step == 2, VS_RUNNING(b) || VS_DESTRUCTIBLE(b)), "lemma: after start the operation is running or satisfies the destructor's precondition");
  VF_P(IMP(step == 3, b.constructs == b.destructs && b.act == LS_EMPTY), "lemma: at the end of life the one constructed child operation was destroyed exactly once");
  VF_P(IMP(VS_RUNNING(a), !VS_DESTRUCTIBLE(a)), "lemma: a running child is never destructible");
}
/* into_variant: set_value's exceptional postcondition is set_error's precondition, and the two together are one completion on the error channel */
void lemma_iv_throw(void) {
  G.iv_completed = VF_nondet_u32(); G.iv_channel = VF_nondet_int(); G.iv_payload = VF_nondet_int(); G.iv_dead = VF_nondet_bool();
  G.iv_threw = VF_nondet_bool(); G.iv_rcv_threw = VF_nondet_bool();
  /* postcondition of iv_rcv_set_value on the exceptional edge */
  __CPROVER_assume((G.iv_threw || G.iv_rcv_threw) && IV_UNCOMPLETED);
  VF_CANARY("lemma_iv_throw premises satisfiable");
  VF_P(IV_UNCOMPLETED, "lemma: after a throwing set_value the wrapped receiver satisfies the protocol precondition of set_error (un-completed, not moved from)");
  /* postcondition of iv_rcv_set_error(PAY_EXCEPTION), the predecessor's reaction to the exception */
  G.iv_completed += 1; G.iv_channel = CH_ERROR; G.iv_payload = PAY_EXCEPTION;
  VF_P(IV_FINAL(CH_ERROR, PAY_EXCEPTION), "lemma: throwing construction + the predecessor's set_error(current_exception) = exactly one completion, on the error channel");
  VF_P(CH_VALUE != CH_ERROR && CH_ERROR != CH_DONE && CH_VALUE != CH_DONE && CH_NONE != CH_VALUE && CH_NONE != CH_ERROR && CH_NONE != CH_DONE, "lemma: channel tags are distinct");
}
