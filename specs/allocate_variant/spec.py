import re

# ---------------------------------------------------------------------------------------------------------------------
# allocate_variant: allocate (heap block + inner operation life cycle), variant_sender operation, into_variant receiver,
# just start(), let_value_with operation.  done_as_optional / just_from / defer have NO body of their own (they are
# compositions: see `assumptions`), so nothing is extracted from them.
# ---------------------------------------------------------------------------------------------------------------------
H_AL = 'include/unifex/allocate.hpp'
H_VS = 'include/unifex/variant_sender.hpp'
H_IV = 'include/unifex/into_variant.hpp'
H_JU = 'include/unifex/just.hpp'
H_LW = 'include/unifex/let_value_with.hpp'

AL_NS, AL_OP = r'namespace _alloc \{', r'class _op<Operation, Allocator>::type \{'
VS_NS, VS_OP = r'namespace _variant_sender \{', r'struct _op<Ops\.\.\.>::type \{'
IV_NS, IV_RCV = r'namespace _into_variant \{', r'struct _receiver<Receiver, VariantType>::type \{'
JU_NS, JU_OP = r'namespace _just \{', r'struct _op<Receiver, Values\.\.\.>::type \{'
LW_NS, LW_OP = r'namespace _let_v_w \{', r'struct _operation<StateFactory, SuccessorFactory, Receiver>::type \{'


# scope_guard g = [&]() noexcept { B };  ->  armed flag + VF_GUARD_g() (run once if armed); g.release() disarms.  The guard's
# destructor is written out on the exceptional edge (at the may-throw stub that follows it) and at the end of the function.
# (general rule missing from the global table, DESIGN 3.1 lists it; same spec-level rule as spawn_detached / let_error_done)
def _guard(m):
    body = re.sub(r'\s+', ' ', m.group(2)).strip()
    n = m.group(1)
    return '_Bool %s_armed = 1;\n#undef VF_GUARD_%s\n#define VF_GUARD_%s() do { if (%s_armed) { %s_armed = 0; %s } } while (0)\n' % (n, n, n, n, n, body)


# an exception raised where no try block encloses it, in a noexcept function, is std::terminate: if the body has no handler
# label (the try / catch was removed), the may-throw stubs' `goto vf_catch` lands on VF_terminate()
def _catch_fallback(m):
    b = m.group(0)
    if 'vf_catch:' in b:
        return b
    return b[:b.rindex('}')] + ' if (0) { vf_catch: VF_terminate(); } }'


TRY_CATCH = [(r'UNIFEX_TRY\s*\{', '{'),
             (r'\}\s*UNIFEX_CATCH\s*\(\.\.\.\)\s*\{', '} if (0) { vf_catch: ;')]

# ---------------- allocate.hpp _op<Operation, Allocator>::type ----------------
al_common = [
    # `using allocator_traits = std::allocator_traits<allocator_t>;`: the traits class is kept as a token naming the allocator TYPE
    (r'using (\w+) = std::allocator_traits<(\w+)>;', r'enum { \1 = TR_\2 };'),
    (r'std::allocator_traits<(\w+)>::deallocate\(', r'EV_deallocate(this, TR_\1, &'),
    (r'\ballocator_traits::deallocate\(', r'EV_deallocate(this, allocator_traits, &'),
]
al_ctor_ctx = dict(
    cls='al_op', members=['op_', 'allocator_'], methods=[],
    pre=al_common + [
        # allocation may throw std::bad_alloc: the exception leaves the constructor (`return` = unwinding; no guard exists yet)
        (r'Operation\* (\w+) = allocator_traits::allocate\(([^;]*)\);', r'struct al_inner* \1 = EV_allocate(this, allocator_traits, &\2); if (G.al_threw) return;'),
        (r'(?s)scope_guard (\w+) = \[&\]\(\) noexcept \{\s*([^{};]*;)\s*\};', _guard),
        # ::new (static_cast<void*>(op)) Operation(connect((Sender&&)s, (Receiver&&)r)): connect + in-place construction of the
        # inner operation in the allocated storage, one may-throw event (strong guarantee); an exception runs the guard and leaves
        (r'(?s)::new \(static_cast<void\*>\((\w+)\)\)\s*Operation\(connect\(\(Sender &&\) (\w+), \(Receiver &&\) (\w+)\)\)',
         r'({ struct al_inner* vf_p = EV_connect_inner(this, (void*)(\1), \2, \3); if (G.al_threw) { VF_GUARD_freeOnError(); return; } vf_p; })'),
        (r'\b(\w+)\.release\(\);', r'\1_armed = 0;'),
        # the guard's destructor at the end of the constructor
        (r'(?s)\}\s*$', ' VF_GUARD_freeOnError(); }'),
    ],
)
al_dtor_ctx = dict(
    cls='al_op', members=['op_', 'allocator_'], methods=[],
    pre=al_common + [(r'(\w+)->~Operation\(\)', r'EV_destroy_inner(this, \1)')],
)
al_start_ctx = dict(
    cls='al_op', members=[], methods=[],
    pre=[(r'(?<![\w:.>])start\(\*(\w+)\.op_\)', r'EV_al_start_inner(\1, \1->op_)')],
    # instrumentation only (no statement changed): every access to the operation asserts that it still exists
    post=[(r'\bop->', 'VF_AL_ALIVE(op)->')],
)
al_init_ctx = dict(pre=[(r'\bget_allocator\((\w+)\)', r'EV_get_allocator(\1)')])

# ---------------- variant_sender.hpp _op<Ops...>::type ----------------
# std::visit([](auto& op) [noexcept] { B }, variantOp_);  ->  { struct vs_slot* vf_alt = EV_variant_visit(this, &variantOp_); B[op := (*vf_alt)] }
# (generic lambda instantiated for the active alternative; block-scoped, so two visits in one body do not clash)
def _visit(m):
    name, body, var = m.group(1), m.group(2), m.group(3)
    body = re.sub(r'(?<![\w.>])' + name + r'\b', '(*vf_alt)', body)
    return '{ struct vs_slot* vf_alt = EV_variant_visit(this, &%s); %s }' % (var, body)


VS_VISIT = (r'(?s)std::visit\(\s*\[\]\(auto& (\w+)\)\s*(?:noexcept\s*)?\{\s*([^{}]*?)\s*\},\s*(\w+)\);', _visit)
vs_ctx = dict(
    cls='vs_op', members=['variantOp_'], methods=[],
    obj_methods={'destruct': 'EV_ml_destruct', 'get': 'EV_ml_get'},
    pre=[
        # the alternative TYPE manual_lifetime<connect_result_t<S, R>> is kept as a token (the index of that alternative: symbolic)
        (r'using (\w+) = connect_result_t<(\w+), (\w+)>;', r'int \1 = ALT_connect_result_\2_\3;'),
        # std::get<manual_lifetime<op_t>>(variantOp_).construct_with([&]() noexcept(..) { return connect((Sender&&)sender, (Receiver&&)receiver); })
        (r'(?s)std::get<manual_lifetime<(\w+)>>\((\w+)\)\s*\.construct_with\(\[&\]\(\) noexcept\(\s*is_nothrow_connectable_v<Sender, Receiver>\) \{\s*'
         r'return unifex::connect\(\s*static_cast<Sender&&>\((\w+)\), static_cast<Receiver&&>\((\w+)\)\);\s*\}\);',
         r'if (EV_ml_construct_with_connect(this, EV_variant_get(this, &\2, \1), \3, \4)) return;'),
        VS_VISIT,
        (r'unifex::start\(', 'EV_vs_start('),
    ],
    post=[(r'\bself->variantOp_\b', 'VF_VS_ALIVE(self)->variantOp_')],
)
vs_init_ctx = dict(pre=[(r'(?s)std::in_place_type_t<\s*manual_lifetime<connect_result_t<(\w+), (\w+)>>>\{\}', r'ALT_connect_result_\1_\2')])

# ---------------- into_variant.hpp _receiver<Receiver, VariantType>::type ----------------
iv_ctx = dict(
    cls='iv_rcv', members=['receiver_'], methods=[],
    pre=[
        # set_value(receiver_, VariantType(std::make_tuple(values...))): the variant is built first (may throw: the exception leaves
        # set_value before the receiver was touched), then delivered (a throwing downstream set_value leaves it un-completed)
        (r'(?s)unifex::set_value\(\s*\(Receiver&&\)\s*\(?(\w+)\)?,\s*VariantType\(std::make_tuple\(\(Values&&\)\((\w+)\)\.\.\.\)\)\);',
         r'{ int vf_variant = EV_iv_make_variant(this, \2); if (G.iv_threw) return; if (EV_iv_set_value(this, &\1, vf_variant)) return; }'),
        (r'(?s)unifex::set_error\(\s*\(Receiver&&\)\s*\(?(\w+)\)?,\s*\(Error&&\)\((\w+)\)\);', r'EV_iv_set_error(this, &\1, \2);'),
        (r'(?s)unifex::set_done\(\s*\(Receiver&&\)\s*\(?(\w+)\)?\);', r'EV_iv_set_done(this, &\1);'),
    ],
)

# ---------------- just.hpp _op<Receiver, Values...>::type::start ----------------
ju_ctx = dict(
    cls='ju_op', members=['values_', 'receiver_'], methods=[],
    pre=[
        # std::apply([&](Values&&... values) { B }, std::move(values_)): the tuple is handed over as an rvalue, once; B inlined
        (r'(?s)std::apply\(\s*\[&\]\(Values&&\.\.\. (\w+)\) \{\s*([^{}]*?)\s*\},\s*std::move\((\w+)\)\);', r'{ int \1 = EV_ju_apply_moved(this, &\3); \2 }'),
        (r'(?s)unifex::set_value\(\(Receiver &&\) (\w+), \(Values &&\) (\w+)\.\.\.\);', r'if (EV_ju_set_value(this, &\1, \2)) goto vf_catch;'),
        (r'(?s)unifex::set_error\(\(Receiver &&\) (\w+), std::current_exception\(\)\);', r'EV_ju_set_error(this, &\1, PAY_EXCEPTION);'),
    ] + TRY_CATCH,
    post=[(r'\bself->', 'VF_JU_ALIVE(self)->'), (r'(?s)^.+$', _catch_fallback)],
)

# ---------------- let_value_with.hpp _operation<StateFactory, SuccessorFactory, Receiver>::type ----------------
lw_start_ctx = dict(cls='lw_op', members=['innerOp_'], methods=[], pre=[(r'unifex::start\((\w+)\)', r'EV_lw_start_inner(this, &\1)')])
# the constructor is ONLY a mem-initializer list (its body is `{}`): each initializer becomes one guarded statement
#   VF_MEMINIT(member, <event>)   executed when the language constructs that member (declaration order, template lw_op_ctor)
lw_meminit_ctx = dict(pre=[
    (r'(?s),?\s*(\w+)\(static_cast<(?:StateFactory2|SuccessorFactory2)&&>\((\w+)\)\)', r' VF_MEMINIT(\1, EV_lw_forward_construct(self, M_\1, ARG_\2))'),
    (r'(?s),?\s*(\w+)\(static_cast<StateFactory&&>\((\w+)\)\(\)\)', r' VF_MEMINIT(\1, EV_lw_invoke_state_factory(self, M_\1, M_\2))'),
    (r'(?s),?\s*(\w+)\(unifex::connect\(\s*static_cast<SuccessorFactory&&>\((\w+)\)\((\w+)\),\s*static_cast<Receiver2&&>\((\w+)\)\)\)',
     r' VF_MEMINIT(\1, EV_lw_invoke_successor_and_connect(self, M_\1, M_\2, M_\3, ARG_\4))'),
])
# the non-static data members in declaration order: `T name;` -> VF_MEMBER(name)
lw_members_ctx = dict(pre=[(r'(?s)\s*[^;]+?\b(\w+)\s*;', r' VF_MEMBER(\1)')])

SPEC = dict(
    properties=['C02', 'C05', 'C01'],
    ctx={},
    extracts={
        # allocate
        'al_alloc_init': dict(file=H_AL, kind='expr', sig=r'explicit type\(Sender&& s, Receiver&& r\)\s*:\s*allocator_\(([^{]*)\)\s*\{', within=[AL_NS, AL_OP], ctx=al_init_ctx),
        'al_count': dict(file=H_AL, kind='expr', sig=r'allocator_traits::allocate\(allocator_, ([^(),;]*)\);', within=[AL_NS, AL_OP]),
        'al_ctor': dict(file=H_AL, sig=r'explicit type\(Sender&& s, Receiver&& r\)', within=[AL_NS, AL_OP], ctx=al_ctor_ctx),
        'al_dtor': dict(file=H_AL, sig=r'~type\(\)', within=[AL_NS, AL_OP], ctx=al_dtor_ctx),
        'al_start': dict(file=H_AL, sig=r'friend void tag_invoke\(tag_t<start>, operation& op\) noexcept', within=[AL_NS, AL_OP], ctx=al_start_ctx),
        # variant_sender
        'vs_variant_init': dict(file=H_VS, kind='expr', sig=r'(?s):\s*variantOp_\((std::in_place_type_t<[^{}]*>\{\})\)\s*\{', within=[VS_NS, VS_OP], ctx=vs_init_ctx),
        'vs_ctor': dict(file=H_VS, sig=r'(?<![~\w])type\(Sender&& sender, Receiver&& receiver\) noexcept', within=[VS_NS, VS_OP], ctx=vs_ctx),
        'vs_dtor': dict(file=H_VS, sig=r'~type\(\)', within=[VS_NS, VS_OP], ctx=vs_ctx),
        'vs_start': dict(file=H_VS, sig=r'void start\(\) & noexcept', within=[VS_NS, VS_OP], ctx=vs_ctx),
        # into_variant
        'iv_set_value': dict(file=H_IV, sig=r'void set_value\(Values&&\.\.\. values\) &&', within=[IV_NS, IV_RCV], ctx=iv_ctx),
        'iv_set_error': dict(file=H_IV, sig=r'void set_error\(Error&& error\) && noexcept', within=[IV_NS, IV_RCV], ctx=iv_ctx),
        'iv_set_done': dict(file=H_IV, sig=r'void set_done\(\) && noexcept', within=[IV_NS, IV_RCV], ctx=iv_ctx),
        # just
        'ju_start': dict(file=H_JU, sig=r'void start\(\) & noexcept', within=[JU_NS, JU_OP], ctx=ju_ctx),
        # let_value_with
        'lw_start': dict(file=H_LW, sig=r'void start\(\) & noexcept', within=[LW_NS, LW_OP], ctx=lw_start_ctx),
        'lw_meminit': dict(file=H_LW, kind='expr', sig=r'(?s)type\(StateFactory2&& stateFactory, SuccessorFactory2&& func, Receiver2&& r\)\s*:(.*?)\{\}', within=[LW_NS, LW_OP], ctx=lw_meminit_ctx),
        'lw_members': dict(file=H_LW, kind='expr', sig=r'(?s)void start\(\) & noexcept \{[^{}]*\}(.*)\}\s*$', within=[LW_NS, LW_OP], ctx=lw_members_ctx),
    },
    closed_world=[
        dict(file=H_AL, within=AL_OP, members=['op_', 'allocator_'], allow=[r'Operation\* op_;', r'UNIFEX_NO_UNIQUE_ADDRESS allocator_t allocator_;']),
        dict(file=H_VS, within=VS_OP, members=['variantOp_'], allow=[r'std::variant<manual_lifetime<Ops>\.\.\.> variantOp_;']),
    ],
    units=[
        dict(name='allocate_op_ctor', harness='h_al_ctor', enforce='al_op_ctor'),
        dict(name='allocate_op_dtor', harness='h_al_dtor', enforce='al_op_dtor'),
        dict(name='allocate_op_start', harness='h_al_start', enforce='al_op_start'),
        dict(name='lemma_al_lifecycle', harness='lemma_al_lifecycle', mode='lemma'),
        dict(name='variant_op_ctor', harness='h_vs_ctor', enforce='vs_op_ctor'),
        dict(name='variant_op_dtor', harness='h_vs_dtor', enforce='vs_op_dtor'),
        dict(name='variant_op_start', harness='h_vs_start', enforce='vs_op_start'),
        dict(name='lemma_vs_lifecycle', harness='lemma_vs_lifecycle', mode='lemma'),
        dict(name='into_variant_set_value', harness='h_iv_set_value', enforce='iv_rcv_set_value'),
        dict(name='into_variant_set_error', harness='h_iv_set_error', enforce='iv_rcv_set_error'),
        dict(name='into_variant_set_done', harness='h_iv_set_done', enforce='iv_rcv_set_done'),
        dict(name='lemma_iv_throw', harness='lemma_iv_throw', mode='lemma'),
        dict(name='just_start', harness='h_ju_start', enforce='ju_op_start'),
        dict(name='let_value_with_start', harness='h_lw_start', enforce='lw_op_start'),
        dict(name='let_value_with_ctor', harness='h_lw_ctor', enforce='lw_op_ctor'),
        dict(name='let_value_with_dtor', harness='h_lw_dtor', enforce='lw_op_dtor'),
    ],
    assumptions=[
        # what is NOT a body
        'done_as_optional.hpp has no body to put a contract on: done_as_optional(s) is the composition let_done(then(s, [](auto&&... ts) { return optional_t{std::in_place, ts...}; }), []() noexcept { return just(optional_t{}); }) with optional_t = std::optional<non_void_t<decay_t<single value type of s>>>; its channel map (value v -> value(optional(v)); done -> value(nullopt); error unchanged) is the composition of then (group then, if present), let_done (group let_error_done) and just (unit just_start here); NOT verified as a unit (no textual-structure unit was written)',
        'just_from.hpp has no body: just_from(f) is then(just(), f); defer.hpp has no body: defer(f) is let_value(just(), f); both reduce to just_start here plus the then / let_value groups; NOT verified as units',
        # allocate
        'allocate: std::allocator_traits<A>::allocate either throws (nothing allocated) or returns storage for n objects; deallocate does not throw; the allocator objects are tokens (an int identity); constructing the rebound allocator_t from get_allocator(r) keeps the allocator\'s identity (C12 not reached)',
        'allocate: `::new (p) Operation(connect(s, r))` is one may-throw event with the strong guarantee (connect throws -> nothing constructed in the block; guaranteed copy elision: no separate move of the operation state)',
        'allocate: caller obligations: start() is called at most once, on a constructed operation; the operation is destroyed only before start() or after the inner operation has completed (C01/C02 of the owner); the inner operation completes at most once and may do so inline inside start(), after which the receiver may destroy the allocate operation',
        'allocate: when the constructor throws, the language destroys the already constructed member allocator_ and ~type() does not run',
        # variant_sender
        'variant_sender: std::variant / std::visit / std::get are modelled by stubs: visit calls the visitor exactly once with the active alternative (the variant is never valueless: manual_lifetime<> alternatives are trivially constructible and the variant is never assigned), std::get<T> throws unless T is the active alternative; the variant is modelled with 3 alternatives and a symbolic index for manual_lifetime<connect_result_t<Sender, Receiver>>',
        'variant_sender: manual_lifetime::construct_with has the strong exception guarantee; manual_lifetime::destruct / get and unifex::start do not throw; the constructor is noexcept(is_nothrow_connectable_v): the exception specification is dropped (a throwing connect is explored in every configuration); an exception leaves the constructor, ~type() does not run, the in-place manual_lifetime alternative holds no object',
        'variant_sender: caller obligations as for allocate (destroyed only unstarted or after the active child completed); the sender-side std::visit in connect() (which alternative of senderVariant_ is connected) is not extracted: the operation is constructed for whichever sender the visit passes in',
        # into_variant
        'into_variant: VariantType(std::make_tuple(values...)) is one may-throw event that yields one value; when it throws, the exception propagates out of the (non-noexcept) set_value to the predecessor, which must then call set_error(current_exception) on the same, still un-completed receiver (receiver contract; done e.g. by just_start here): the "set_error once" half of the property is the predecessor\'s try/catch + the extracted set_error, chained by lemma_iv_throw',
        'into_variant: a throwing downstream set_value leaves the downstream receiver un-completed; payloads are tokens (identity only); receiver queries and visit_continuations are forwarding one-liners, not extracted',
        # just
        'just: std::apply(f, std::move(values_)) invokes f once with the tuple\'s elements as rvalues (no copy is made by apply itself); the receiver\'s set_value may throw, leaving it un-completed; set_error does not throw; the receiver may destroy the operation inside a completion signal',
        # let_value_with
        'let_value_with: the constructor has an empty body and the destructor is implicit: units let_value_with_ctor / let_value_with_dtor run the language rule (non-static data members are constructed in DECLARATION order, each by its mem-initializer; on a throwing initializer the already constructed members are destroyed in reverse order; the implicit destructor destroys all members in reverse declaration order) written in the template over two EXTRACTED texts: the mem-initializer list and the member declaration list; the rule itself is trusted, the two texts are the verified input',
        'let_value_with: invoking a factory and connect may throw (strong guarantee per member); forwarding StateFactory / SuccessorFactory may throw; the successor factory and connect of one initializer are one event',
        'sequential code: no atomics, vf_interfere is empty',
    ],
    drops=[
        'template genericity (Operation, Allocator, Sender, Receiver, Ops..., Values..., StateFactory, SuccessorFactory); senders, receivers, values, errors, allocators are int tokens',
        'allocate: `using allocator_traits = std::allocator_traits<allocator_t>` -> `enum { allocator_traits = TR_allocator_t }` (the traits TYPE is kept as a token and compared between allocate and deallocate); scope_guard freeOnError -> armed flag + VF_GUARD_freeOnError() on the exceptional edge of the placement new and at the end of the constructor; freeOnError.release() -> disarm; placement new + connect -> EV_connect_inner; op_->~Operation() -> EV_destroy_inner; start(*op.op_) -> EV_al_start_inner; reference parameter `operation& op` -> pointer',
        'allocate: mem-initializer allocator_(get_allocator(r)) -> EV_get_allocator(r) (extracted as an expression, run by the harness before the constructor body)',
        'variant_sender: std::visit([](auto& op) { B }, variantOp_) -> { struct vs_slot* vf_alt = EV_variant_visit(self, &variantOp_); B[op := *vf_alt] } (generic lambda instantiated for the active alternative only); std::get<manual_lifetime<op_t>>(variantOp_).construct_with(connect lambda) -> EV_ml_construct_with_connect(EV_variant_get(..)); op.destruct() / op.get() -> EV_ml_destruct / EV_ml_get; conditional noexcept dropped; mem-initializer variantOp_(std::in_place_type_t<manual_lifetime<connect_result_t<Sender, Receiver>>>{}) -> the alternative token (extracted as an expression)',
        'into_variant: rvalue-qualified member functions, perfect forwarding casts; VariantType(std::make_tuple(...)) -> EV_iv_make_variant',
        'just: UNIFEX_TRY / UNIFEX_CATCH -> goto vf_catch at the may-throw stub EV_ju_set_value (a body without handler: the exception reaches std::terminate); std::apply + lambda inlined; std::current_exception() -> PAY_EXCEPTION',
        'let_value_with: mem-initializer list -> VF_MEMINIT(member, event) statements; member declarations -> VF_MEMBER(name) list; the types of the members are dropped',
        'sender types, connect() customisations (tag_invoke), blocking / sender_traits queries and the CPO objects are not extracted',
    ],
)
