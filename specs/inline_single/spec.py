# C06 / C01: inline_scheduler's schedule operation and single_thread_context (a manual_event_loop plus the thread that runs it)
HI = 'include/unifex/inline_scheduler.hpp'
HS = 'include/unifex/single_thread_context.hpp'
OP = r'struct _op<Receiver>::type final \{'
CTX = r'class context \{'

op_ctx = dict(cls='iop', members=['receiver_'], methods=[],
              pre=[(r'UNIFEX_TRY\s*\{', '{'), (r'\}\s*UNIFEX_CATCH\s*\(\.\.\.\)\s*\{', '} if (0) { vf_catch:'),
                   (r'is_stop_never_possible_v<stop_token_type>', 'VF_CFG_never'),
                   (r'get_stop_token\(receiver_\)\.stop_requested\(\)', 'EV_stop_requested(this)'),
                   (r'unifex::set_value\(\(Receiver &&\) receiver_\);', 'if (EV_set_value(this)) goto vf_catch;'),
                   (r'unifex::set_done\(\(Receiver &&\) receiver_\);', 'if (EV_set_done(this)) goto vf_catch;'),
                   (r'unifex::set_error\(\(Receiver &&\) receiver_, std::current_exception\(\)\)', 'EV_set_error(this)')])
stc_ctx = dict(cls='stc', members=['loop_', 'thread_'], methods=[],
               pre=[(r'loop_\.stop\(\)', 'EV_loop_stop(this)'), (r'thread_\.join\(\)', 'EV_thread_join(this)'),
                    (r'return loop_\.get_scheduler\(\);', 'return EV_loop_scheduler(this);')])
# member initialisers `loop_(), thread_([this] { loop_.run(); })` and the member declarations (declaration order = construction order)
init_ctx = dict(pre=[(r'^loop_\(\)', 'EV_loop_ctor(self)'), (r'thread_\(\[this\] \{ loop_\.run\(\); \}\)', 'EV_thread_ctor_running_loop(self)')])
decl_ctx = dict(pre=[(r'manual_event_loop loop_;', 'EV_decl(M_LOOP), '), (r'std::thread thread_;', 'EV_decl(M_THREAD), ')])

SPEC = dict(
    properties=['C06', 'C01'],
    ctx=dict(),
    extracts={
        'op_start': dict(file=HI, sig=r'void start\(\) noexcept', within=OP, ctx=op_ctx),
        'stc_dtor': dict(file=HS, sig=r'~context\(\)', within=CTX, ctx=stc_ctx),
        'stc_get_scheduler': dict(file=HS, sig=r'auto get_scheduler\(\) noexcept', within=CTX, ctx=stc_ctx),
        'stc_init': dict(file=HS, kind='expr', sig=r'context\(\) : (.*?) \{\}', within=CTX, ctx=init_ctx),
        'stc_decls': dict(file=HS, kind='expr', sig=r'(?s)class context \{\s*((?:(?:manual_event_loop loop_|std::thread thread_);\s*){2})', ctx=decl_ctx),
    },
    units=[
        dict(name='inline_op_start', harness='h_op_start', enforce='iop_start'),
        dict(name='stc_dtor', harness='h_stc_dtor', enforce='stc_dtor'),
        dict(name='stc_get_scheduler', harness='h_stc_get_scheduler', enforce='stc_get_scheduler'),
        dict(name='lemma_stc_construction', harness='lemma_stc_construction', mode='lemma'),
    ],
    assumptions=[
        'manual_event_loop::run() returns once stop() has been called and the queue has drained, and every accepted item is executed before that (group manual_event_loop); std::thread::join() returns when the thread function returned',
        'a receiver\'s set_value / set_done may throw only before it has taken the completion (the receiver contract: a throwing set_value is followed by set_error); set_error does not throw',
        'member construction order = declaration order and destruction is the reverse (C++ rule); the declarations and the mem-initialiser list are extracted as expressions and evaluated in that order, the bodies of manual_event_loop\'s constructor / destructor are in group manual_event_loop',
        'schedule_with_subscheduler, any_scheduler: compositions / type erasure without a body of their own; not reached',
    ],
    drops=['(Receiver &&) casts, noexcept', 'the receiver is an opaque int; its stop token is the event stub EV_stop_requested', 'std::thread -> a joinable flag and event stubs', 'get_thread_id()'],
)
