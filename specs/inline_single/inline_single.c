/* C06 / C01: inline_scheduler's schedule operation; single_thread_context = manual_event_loop + the thread running it. */
#include <stddef.h>
enum { M_LOOP = 0, M_THREAD = 1, M_N };
struct iop { int receiver_; };
struct stc { int loop_; int thread_; };
struct vf_ghost {
  /* inline operation */
  unsigned values, dones, errors, polls; _Bool stop_seen, threw; _Bool dead;
  /* single_thread_context */
  unsigned decls; unsigned decl_pos[M_N]; _Bool declared[M_N];
  unsigned loop_ctors, thread_ctors, stops, joins; _Bool joinable, loop_alive, running;
};
static struct vf_ghost G;
static _Bool VF_CFG_never;   /* the receiver's stop token type can never be stopped (if constexpr branch) */
#include "vf.h"
static void vf_interfere(void) {}
static struct iop OP;
static struct stc S;

/* ---------------- inline_scheduler operation ---------------- */
#define NCOMPL (G.values + G.dones + G.errors)
static _Bool EV_stop_requested(struct iop* self) {
  VF_P(self == &OP && !G.dead && NCOMPL == 0, "the stop token is queried on the live, not yet completed operation");
  VF_P(!VF_CFG_never, "a token that can never be stopped is not polled");
  G.polls++; _Bool r = VF_nondet_bool(); if (r) G.stop_seen = 1; return r;
}
/* set_value / set_done may throw, but only before taking the completion; once taken the receiver may destroy the operation */
static _Bool EV_set_value(struct iop* self) {
  VF_P(self == &OP && !G.dead && NCOMPL == 0, "exactly one completion (value)");
  VF_P(!G.stop_seen, "a schedule operation whose stop token reported stop completes with done, not value");
  if (VF_nondet_bool()) { G.threw = 1; return 1; }
  G.values++; G.dead = 1; return 0;
}
static _Bool EV_set_done(struct iop* self) {
  VF_P(self == &OP && !G.dead && NCOMPL == 0, "exactly one completion (done)");
  VF_P(G.stop_seen, "done only because a stop request was observed");
  if (VF_nondet_bool()) { G.threw = 1; return 1; }
  G.dones++; G.dead = 1; return 0;
}
static void EV_set_error(struct iop* self) {
  VF_P(self == &OP && !G.dead && NCOMPL == 0, "exactly one completion (error)");
  VF_P(G.threw, "the error channel is used only for an exception escaping the receiver's set_value / set_done");
  G.errors++; G.dead = 1;
}

void iop_start(struct iop* self)
__CPROVER_requires(self == &OP && !G.dead && NCOMPL == 0 && G.polls == 0 && !G.stop_seen && !G.threw)
__CPROVER_assigns(G)
__CPROVER_ensures(NCOMPL == 1)                                                /* C06/C01: completes exactly once, inline, before start() returns */
__CPROVER_ensures(G.polls <= 1 && (VF_CFG_never ==> G.polls == 0))
__CPROVER_ensures(!G.threw ==> (G.errors == 0 && G.dones == (G.stop_seen ? 1u : 0u)))   /* done iff stop was requested when start() polled */
__CPROVER_ensures(G.threw ==> G.errors == 1)
/*@BODY op_start*/

/* ---------------- single_thread_context ---------------- */
static int EV_decl(int m) { VF_P(m >= 0 && m < M_N && !G.declared[m], "each member declared once"); G.declared[m] = 1; G.decl_pos[m] = G.decls++; return 0; }
static int EV_loop_ctor(struct stc* self) { VF_P(self == &S && G.loop_ctors == 0, "the loop is constructed once"); G.loop_ctors++; G.loop_alive = 1; return 0; }
static int EV_thread_ctor_running_loop(struct stc* self) {
  VF_P(self == &S && G.thread_ctors == 0, "one thread runs the loop");
  G.thread_ctors++; G.joinable = 1; G.running = 1; return 0;
}
static void EV_loop_stop(struct stc* self) {
  VF_P(self == &S && G.loop_alive, "stop() on the live loop");
  G.stops++;
}
/* join returns when run() returned: run() returns only after stop() */
static void EV_thread_join(struct stc* self) {
  VF_P(self == &S && G.joinable, "join() on a joinable thread, once (std::system_error / std::terminate otherwise)");
  VF_P(G.stops >= 1, "the loop is told to stop before its thread is joined (join() would block forever)");
  G.joins++; G.joinable = 0; G.running = 0;
}
static int EV_loop_scheduler(struct stc* self) { VF_P(self == &S && G.loop_alive, "the scheduler of this context's own loop"); return 1; }

void stc_dtor(struct stc* self)
__CPROVER_requires(self == &S && G.loop_alive && G.joinable && G.running && G.stops == 0 && G.joins == 0)
__CPROVER_assigns(G)
__CPROVER_ensures(G.stops == 1 && G.joins == 1)
__CPROVER_ensures(!G.joinable && !G.running)          /* the member destructor ~thread() that follows does not std::terminate; no thread touches loop_ when ~manual_event_loop() runs */
/*@BODY stc_dtor*/

int stc_get_scheduler(struct stc* self)
__CPROVER_requires(self == &S && G.loop_alive)
__CPROVER_assigns()
__CPROVER_ensures(__CPROVER_return_value == 1)
/*@BODY stc_get_scheduler*/

static void h_zero(void) {
  G.values = 0; G.dones = 0; G.errors = 0; G.polls = 0; G.stop_seen = 0; G.threw = 0; G.dead = 0;
  G.decls = 0; G.decl_pos[0] = 0; G.decl_pos[1] = 0; G.declared[0] = 0; G.declared[1] = 0;
  G.loop_ctors = 0; G.thread_ctors = 0; G.stops = 0; G.joins = 0; G.joinable = 0; G.loop_alive = 0; G.running = 0;
}
void h_op_start(void) {
  h_zero(); VF_CFG_never = VF_nondet_bool();
  iop_start(&OP);
  VF_CANARY("after inline start");
  if (G.values) { VF_CANARY("value"); } if (G.dones) { VF_CANARY("done"); } if (G.errors) { VF_CANARY("error after a throwing receiver"); }
  if (VF_CFG_never) { VF_CANARY("unstoppable receiver"); }
}
void h_stc_dtor(void) {
  h_zero(); G.loop_alive = 1; G.joinable = 1; G.running = 1;
  stc_dtor(&S);
  VF_CANARY("after ~context");
}
void h_stc_get_scheduler(void) { h_zero(); G.loop_alive = 1; stc_get_scheduler(&S); VF_CANARY("after get_scheduler"); }
/* construction: members in declaration order, each with its initialiser from the mem-initialiser list */
void lemma_stc_construction(void) {
  h_zero();
  struct stc* self = &S;
  (void)(/*@EXPR stc_decls*/ 0);
  VF_P(G.declared[M_LOOP] && G.declared[M_THREAD], "lemma: both members declared");
  VF_P(G.decl_pos[M_LOOP] < G.decl_pos[M_THREAD], "lemma: loop_ is declared before thread_: it is constructed before the thread that runs it starts, and destroyed after that thread's handle");
  (void)(/*@EXPR stc_init*/);
  VF_P(G.loop_ctors == 1 && G.thread_ctors == 1 && G.joinable, "lemma: the constructor creates the loop and exactly one thread that runs it");
  VF_CANARY("lemma_stc_construction reachable");
}
