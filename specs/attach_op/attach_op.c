/* C01 / C04: the v1 async_scope attach operation (include/unifex/v1/async_scope.hpp, _attach_op_base / _attach_receiver).
 *
 * M1 on refcount_ under rely/guarantee, ghost after DESIGN Appendix A.1 (v1 attach variant):
 *   c = refcount_ (initially 1 = the attached child), k = the child has not released its unit,
 *   a1 / a2 = stop callback 1 (scope token) / 2 (receiver token) is between its successful CAS 1->2 and its
 *   fetch_sub, f1 / f2 = that callback has been invoked, e = the election happened (some fetch_sub returned 1).
 * A callback takes a unit only by CAS 1->2, so a callback that arrives after the election (0) or while another
 * callback holds its unit next to the child's (2) returns without touching anything.
 * Bodies marked @BODY / @EXPR are extracted from /repo on every run; everything else is specification. */
#include <stddef.h>
#include <stdint.h>

struct attach_op { size_t refcount_; int receiver_; };
struct stop_callback { struct attach_op* op_; };
struct attach_receiver { struct attach_op* op_; };

enum { ROLE_NONE, ROLE_CHILD, ROLE_CB };
enum { CB_STOKEN = 1, CB_RECEIVER = 2 };
enum { CH_NONE, CH_VALUE, CH_ERROR, CH_ERROR_EXCEPTION, CH_DONE };
enum { CB_NONE_, CB_REGISTERED, CB_EXEC_ME, CB_DESTRUCTED };   /* state of one registration */

struct pst_g { _Bool k, a1, a2, f1, f2, e; };
struct pst { size_t c; struct pst_g g; };

struct vf_ghost {
  struct pst_g p;            /* protocol ghost (shared with the environment) */
  _Bool started;             /* the child has been started */
  int role; int cbi;         /* the verified call: who it is; which callback (1 / 2) if it is one */
  unsigned mine;             /* units of refcount_ it owns */
  int my_kind;
  unsigned cas_ok, decs; size_t dec_old;
  _Bool elected;             /* my fetch_sub returned 1 */
  unsigned completed; int channel;
  int cb_state1, cb_state2; unsigned cb_constructs, cb_destructs;
  unsigned stopped_children, starts;
  unsigned inline_runs, inline_took, inline_stopped;   /* callbacks run inline by construct: how many, how many took a unit, how many forwarded stop */
  _Bool dv_threw;
  _Bool dead; struct attach_op snap;
};
static struct vf_ghost G;
static struct attach_op OP;
static struct stop_callback SCB;
static struct attach_receiver RCV;

static void vf_guar(void* p, uint64_t o, uint64_t n);
#define VF_G(p, o, n) vf_guar((void*)(p), (uint64_t)(o), (uint64_t)(n))
#include "vf.h"
/* an uninitialised _Bool may hold any byte in CBMC: normalise */
static _Bool vf_nb(void) { return VF_nondet_bool() ? 1 : 0; }

#define refcount_INIT (/*@EXPR refcount_init*/)

/* ---------------- protocol predicates ---------------- */
#define B(x) ((x) != 0)   /* a havocked _Bool may hold any byte: compare truth values only */
#define I(x) ((x) ? (size_t)1 : (size_t)0)
#define INV_(c, k, a1, a2, f1, f2, e) ( \
     ((e) ? (!(k) && !(a1) && !(a2) && (c) == 0) : ((c) == I(k) + I(a1) + I(a2) && (c) >= 1 && (c) <= 2)) \
  && (!(a1) || (f1)) && (!(a2) || (f2)) )
#define INV(s) INV_((s).c, (s).g.k, (s).g.a1, (s).g.a2, (s).g.f1, (s).g.f2, (s).g.e)
#define INV_NOW INV_(OP.refcount_, G.p.k, G.p.a1, G.p.a2, G.p.f1, G.p.f2, G.p.e)
#define A_OF(s, i) ((i) == 1 ? (s).g.a1 : (s).g.a2)
#define F_OF(s, i) ((i) == 1 ? (s).g.f1 : (s).g.f2)
#define SAME_CB1(o, n) (B((n).g.a1) == B((o).g.a1) && B((n).g.f1) == B((o).g.f1))
#define SAME_CB2(o, n) (B((n).g.a2) == B((o).g.a2) && B((n).g.f2) == B((o).g.f2))
/* the steps any party may take (guarantee) */
#define STEP_CHILD_DONE(o, n) ((o).g.k && !(n).g.k && (n).c == (o).c - 1 && B((n).g.e) == ((o).c == 1) && !(o).g.e && SAME_CB1(o, n) && SAME_CB2(o, n))
/* callback i performs its CAS (at most once per registration): takes a unit iff the count is exactly 1 */
#define STEP_CB_INVOKE(o, n, i) (!F_OF(o, i) && F_OF(n, i) && !A_OF(o, i) && B((n).g.k) == B((o).g.k) && B((n).g.e) == B((o).g.e) \
  && ((i) == 1 ? SAME_CB2(o, n) : SAME_CB1(o, n)) \
  && ((o).c == 1 ? ((n).c == 2 && A_OF(n, i)) : ((n).c == (o).c && !A_OF(n, i))))
#define STEP_CB_EXIT(o, n, i) (A_OF(o, i) && !A_OF(n, i) && B(F_OF(n, i)) == B(F_OF(o, i)) && (n).c == (o).c - 1 && B((n).g.e) == ((o).c == 1) && !(o).g.e && B((n).g.k) == B((o).g.k) \
  && ((i) == 1 ? SAME_CB2(o, n) : SAME_CB1(o, n)))

/* rely of a call with role R (callback index cbi) owning `mine` units */
#define RELY_(o, n, role, cbi, mine, started, reg1, reg2) ( INV(n) \
  && ((reg1) || (B((n).g.f1) == B((o).g.f1) && B((n).g.a1) == B((o).g.a1)))   /* a callback that is not registered (yet / any more) is not invoked */ \
  && ((reg2) || (B((n).g.f2) == B((o).g.f2) && B((n).g.a2) == B((o).g.a2))) \
  && (!(o).g.k ? !(n).g.k : 1) && (!(o).g.e || (n).g.e) && (!(o).g.f1 || (n).g.f1) && (!(o).g.f2 || (n).g.f2) \
  && (!((o).g.f1 && !(o).g.a1) || !(n).g.a1 || ((role) == ROLE_CB && (cbi) == 1))   /* C03: a callback that has returned does not run again */ \
  && (!((o).g.f2 && !(o).g.a2) || !(n).g.a2 || ((role) == ROLE_CB && (cbi) == 2)) \
  && ((started) || B((n).g.k) == B((o).g.k))                                  /* the child does not signal before it is started */ \
  && ((role) != ROLE_CHILD || (mine) == 0 || (n).g.k)                          /* nobody consumes my unit */ \
  && ((role) != ROLE_CB || (B(A_OF(n, cbi)) == ((mine) == 1) && B(F_OF(n, cbi)) == B(F_OF(o, cbi))))   /* I am callback cbi: nobody else plays it */ )
#define RELY(o, n) RELY_(o, n, G.role, G.cbi, G.mine, G.started, G.cb_state1 != CB_NONE_, G.cb_state2 != CB_NONE_)

static struct pst pst_now(void) { struct pst s; s.c = OP.refcount_; s.g = G.p; return s; }
static void pst_set(struct pst s) { OP.refcount_ = s.c; G.p = s.g; }
static struct pst pst_nondet(void) {
  struct pst n; n.c = VF_nondet_size_t();
  n.g.k = vf_nb(); n.g.a1 = vf_nb(); n.g.a2 = vf_nb(); n.g.f1 = vf_nb(); n.g.f2 = vf_nb(); n.g.e = vf_nb();
  return n;
}
static void vf_env(void) {
  struct pst o = pst_now(), n = pst_nondet();
  __CPROVER_assume(RELY(o, n));
  pst_set(n);
}
#define DEAD_MSG "no access to the operation after it may have been destroyed (completion delivered, or unit given up without being elected)"
static void vf_interfere(void) {
  VF_P(!G.dead, "atomic access: " DEAD_MSG);
  if (!G.dead) vf_env();
}
static void vf_die(void) {
  struct attach_op f; f.refcount_ = VF_nondet_size_t(); f.receiver_ = VF_nondet_int();
  OP = f; G.snap = f; G.dead = 1;
}
#define UNTOUCHED (!G.dead || (OP.refcount_ == G.snap.refcount_ && OP.receiver_ == G.snap.receiver_))
#define A_NOW(i) ((i) == 1 ? G.p.a1 : G.p.a2)
#define F_NOW(i) ((i) == 1 ? G.p.f1 : G.p.f2)
#define MY_CB_STATE (G.cbi == 1 ? G.cb_state1 : G.cb_state2)
#define OTHER_CB_STATE (G.cbi == 1 ? G.cb_state2 : G.cb_state1)

static void vf_guar(void* p, uint64_t o, uint64_t n) {
  struct pst s0 = pst_now(), s1 = s0;
  VF_P(!G.dead, "atomic write: " DEAD_MSG);
  if (p == (void*)&OP.refcount_) {
    s1.c = (size_t)n;
    if (n == o + 1) {
      VF_P(G.role == ROLE_CB && G.mine == 0 && (G.cbi == 1 || G.cbi == 2), "guarantee: refcount_ is incremented only by a stop callback, while it owns no unit");
      if (G.cbi == 1) { s1.g.a1 = 1; s1.g.f1 = 1; } else { s1.g.a2 = 1; s1.g.f2 = 1; }
      VF_P(STEP_CB_INVOKE(s0, s1, G.cbi), "guarantee: the increment is a callback's CAS 1 -> 2, once per registration (never from 0 = after the election, never from 2)");
      G.cas_ok++; G.mine = 1;
      G.p = s1.g;
    } else {
      VF_P(G.mine == 1, "guarantee: a unit of refcount_ is released only by a party that owns one (the child that has not signalled yet / a stop callback after its CAS)");
      VF_P(G.role != ROLE_CB || G.stopped_children >= 1, "C04: request_stop() forwards the stop request to the child between its CAS and its decrement");
      s1.g.e = (o == 1);
      if (G.role == ROLE_CB) { if (G.cbi == 1) s1.g.a1 = 0; else s1.g.a2 = 0; VF_P(STEP_CB_EXIT(s0, s1, G.cbi), "guarantee: a callback's decrement is its cb_exit step"); }
      else { s1.g.k = 0; VF_P(G.role == ROLE_CHILD && STEP_CHILD_DONE(s0, s1), "guarantee: the child's decrement is its child_done step"); }
      G.decs++; G.dec_old = (size_t)o; G.mine = 0; if (o == 1) G.elected = 1;
      G.p = s1.g;
      /* not elected: the remaining owners may finish and the receiver may destroy the operation at any time
       * (not before the child has been started: it pins the operation) */
      if (o != 1 && G.started) { vf_die(); G.snap.refcount_ = (size_t)n; }
    }
  } else {
    VF_P(0, "atomic write to an unexpected location");
  }
}

/* ---------------- event stubs (C++-only callees) ---------------- */
void stop_callback_call(struct stop_callback* self);

/* xCallback_.construct(token, stop_callback{this}): registers; if the token is already stopped the callback runs
 * inline, on this thread, inside the constructor */
static void EV_cb_construct(struct attach_op* self, int which) {
  VF_P(!G.dead, "callback construct: " DEAD_MSG);
  VF_P((which == CB_STOKEN ? G.cb_state1 : G.cb_state2) == CB_NONE_, "each stop callback is constructed at most once");
  VF_P(G.completed == 0 && !G.started, "the stop callbacks are registered before the child is started (afterwards the operation may already be gone)");
  G.cb_constructs++;
  if (which == CB_STOKEN) G.cb_state1 = CB_REGISTERED; else G.cb_state2 = CB_REGISTERED;
  if (VF_nondet_bool()) {
    VF_CANARY("a stop callback can run inline inside construct");
    int r = G.role, ci = G.cbi; G.role = ROLE_CB; G.cbi = which;
    G.cas_ok = 0; G.decs = 0; G.stopped_children = 0;   /* per-call counters now describe the inline callback */
    if (which == CB_STOKEN) G.cb_state1 = CB_EXEC_ME; else G.cb_state2 = CB_EXEC_ME;
    stop_callback_call(&SCB);
    G.role = r; G.cbi = ci;
    G.inline_runs++; G.inline_took += G.cas_ok; G.inline_stopped += G.stopped_children;
    G.cas_ok = 0; G.decs = 0; G.stopped_children = 0;
    if (which == CB_STOKEN) { if (G.cb_state1 == CB_EXEC_ME) G.cb_state1 = CB_REGISTERED; } else { if (G.cb_state2 == CB_EXEC_ME) G.cb_state2 = CB_REGISTERED; }
  }
}
static void EV_cb_destruct(struct attach_op* self, int which) {
  VF_P(!G.dead, "callback destruct: " DEAD_MSG);
  VF_P(G.completed == 0, "C04: the stop callbacks are deregistered BEFORE the receiver is completed");
  int st = (which == CB_STOKEN ? G.cb_state1 : G.cb_state2);
  VF_P(st == CB_REGISTERED || st == CB_EXEC_ME, "each stop callback is destructed exactly once, after it was constructed");
  VF_P(G.elected, "only the elected completer deregisters the stop callbacks (until then stop requests must reach the child)");
  if (which == CB_STOKEN) G.cb_state1 = CB_DESTRUCTED; else G.cb_state2 = CB_DESTRUCTED;
  G.cb_destructs++;
}
/* unifex::start(op.op_): the child may complete synchronously and the receiver may destroy the operation */
static void EV_start_child(struct attach_op* self) {
  VF_P(!G.dead, "start(child): " DEAD_MSG);
  VF_P(!G.started, "the child is started once");
  VF_P(G.cb_state1 == CB_REGISTERED && G.cb_state2 == CB_REGISTERED, "C04: both stop callbacks are registered before the child is started");
  G.started = 1; G.starts++;
  vf_env();
  vf_die();
}
/* stopSource_.stop_requested(): true once anybody asked the children to stop (this call or another party) */
static _Bool EV_children_stop_requested(struct attach_op* self) {
  VF_P(!G.dead, "stopSource_.stop_requested(): " DEAD_MSG);
  return G.stopped_children > 0 ? 1 : VF_nondet_bool();
}
static void EV_stop_children(struct attach_op* self) {
  VF_P(!G.dead, "stopSource_.request_stop(): " DEAD_MSG);
  VF_P(G.mine == 1, "C04: the child is told to stop while the caller pins the operation with a unit it owns (not after giving it up)");
  G.stopped_children++;
  vf_env();
}
static void vf_complete(int* r, int ch) {
  VF_P(G.completed == 0, "C01: at most one completion signal per operation");
  VF_P(!G.dead, "completion signal: " DEAD_MSG);
  VF_P(G.elected && r == &OP.receiver_, "C01: the receiver is completed only by the caller that got it from try_complete() (its fetch_sub returned 1)");
  VF_P(G.cb_state1 != CB_REGISTERED && G.cb_state2 != CB_REGISTERED, "C04: both stop callbacks are deregistered (destructed) before the receiver is completed");
  G.completed++; G.channel = ch;
  vf_die();   /* the receiver may destroy the operation */
}
static void EV_set_done(int* r) { VF_CANARY("set_done reachable"); vf_complete(r, CH_DONE); }
static void EV_set_error(int* r) { VF_CANARY("set_error reachable"); vf_complete(r, CH_ERROR); }
static void EV_set_error_exception(int* r) { VF_CANARY("set_error(current_exception) reachable"); vf_complete(r, CH_ERROR_EXCEPTION); }
static _Bool EV_set_value(int* r) {
  VF_CANARY("set_value reachable");
  if (VF_nondet_bool()) {
    VF_P(G.completed == 0 && !G.dead && G.elected && r == &OP.receiver_ && G.cb_state1 != CB_REGISTERED && G.cb_state2 != CB_REGISTERED, "C01/C04: set_value attempted only by the elected completer, once, after deregistration");
    G.dv_threw = 1;
    return 1;
  }
  vf_complete(r, CH_VALUE);
  return 0;
}

/* ---------------- contracts ---------------- */
#define A_TRY_COMPLETE OP, G.p, G.dead, G.snap, G.cb_state1, G.cb_state2, G.cb_destructs, G.mine, G.decs, G.dec_old, G.elected
#define A_COMPLETE A_TRY_COMPLETE, G.completed, G.channel, G.dv_threw
#define A_REQUEST_STOP A_COMPLETE, G.cas_ok, G.stopped_children

#define FRESH_DEC (G.decs == 0 && !G.elected && G.completed == 0 && !G.dead && !G.dv_threw && G.cb_destructs == 0)
#define FRESH_CALL (G.cas_ok == 0 && FRESH_DEC)
#define OWNER_PRE (FRESH_DEC && INV_NOW && G.mine == 1 \
   && ((G.role == ROLE_CHILD && G.p.k && G.started && G.cb_state1 == CB_REGISTERED && G.cb_state2 == CB_REGISTERED) \
    || (G.role == ROLE_CB && (G.cbi == 1 || G.cbi == 2) && A_NOW(G.cbi) && F_NOW(G.cbi) && MY_CB_STATE == CB_EXEC_ME && (OTHER_CB_STATE == CB_REGISTERED || (OTHER_CB_STATE == CB_NONE_ && !G.started && G.p.k)) && G.stopped_children >= 1)))
#define CHILD_PRE (FRESH_CALL && INV_NOW && G.mine == 1 && G.role == ROLE_CHILD && G.p.k && G.started && G.cb_state1 == CB_REGISTERED && G.cb_state2 == CB_REGISTERED && G.stopped_children == 0)
/* a callback that has just been invoked and has not made its CAS yet (f clear), holding nothing; the other registration exists (constructed, or not yet: start() constructs 1 then 2) */
#define CALLBACK_PRE (FRESH_CALL && INV_NOW && G.role == ROLE_CB && (G.cbi == 1 || G.cbi == 2) && G.mine == 0 && !F_NOW(G.cbi) && !A_NOW(G.cbi) \
   && MY_CB_STATE == CB_EXEC_ME && (OTHER_CB_STATE == CB_REGISTERED || (OTHER_CB_STATE == CB_NONE_ && !G.started && G.p.k)) && G.stopped_children == 0)
/* try_complete (C01-5): exactly one decrement; the caller gets the receiver iff that decrement returned 1 -- exactly one
 * caller ever does (lemma_election); the winner has deregistered both callbacks (C04) and the operation is still alive;
 * a loser must not touch the operation any more */
#define TRY_POST(rv) (G.decs == 1 && G.mine == 0 && ((rv) == NULL || (rv) == &OP.receiver_) && (((rv) != NULL) == (G.dec_old == 1)) && B(G.elected) == ((rv) != NULL) \
   && ((rv) != NULL ==> (G.p.e && !G.p.k && !G.dead && G.cb_state1 == CB_DESTRUCTED && G.cb_state2 == CB_DESTRUCTED && G.cb_destructs == 2)) \
   && ((rv) == NULL ==> (G.cb_destructs == 0 && B(G.dead) == B(G.started))) && UNTOUCHED && (G.dead || INV_NOW) && (G.role != ROLE_CB || !A_NOW(G.cbi)))
#define TRY_FRAME ((__CPROVER_return_value != NULL || (G.cb_state1 == __CPROVER_old(G.cb_state1) && G.cb_state2 == __CPROVER_old(G.cb_state2))) \
   && (G.started || G.role != ROLE_CB || B(G.p.k) == B(__CPROVER_old(G.p.k))) && (!__CPROVER_old(G.p.f1) || G.p.f1) && (!__CPROVER_old(G.p.f2) || G.p.f2) \
   && (__CPROVER_old(G.cb_state1) != CB_NONE_ || B(G.p.f1) == B(__CPROVER_old(G.p.f1))) && (__CPROVER_old(G.cb_state2) != CB_NONE_ || B(G.p.f2) == B(__CPROVER_old(G.p.f2))))
/* a party that releases its unit and completes the receiver if elected */
#define RELEASE_POST(ch) (G.decs == 1 && G.mine == 0 && G.completed <= 1 && ((G.completed == 1) == (G.dec_old == 1)) \
   && (G.completed == 1 ==> (G.elected && G.channel == (ch) && G.cb_state1 == CB_DESTRUCTED && G.cb_state2 == CB_DESTRUCTED && G.cb_destructs == 2)) \
   && (G.completed == 0 ==> G.cb_destructs == 0) && (G.dec_old != 1 || (G.p.e && !G.p.k)) && B(G.elected) == (G.dec_old == 1) && (G.role != ROLE_CB || !A_NOW(G.cbi)) && B(G.dead) == (G.completed == 1 || G.started) && UNTOUCHED && (G.dead || INV_NOW))
#define CALLBACK_POST (G.cas_ok <= 1 && UNTOUCHED && (G.dead || INV_NOW) && !G.dv_threw && (G.cas_ok == 0 || F_NOW(G.cbi)) && !A_NOW(G.cbi) && B(G.elected) == (G.completed == 1) \
   && (G.cas_ok == 0 ==> (G.decs == 0 && G.stopped_children == 0 && G.completed == 0 && !G.dead && G.cb_destructs == 0 && G.mine == 0)) \
   && (G.cas_ok == 1 ==> (G.stopped_children == 1 && RELEASE_POST(CH_DONE))))
#define CALLBACK_FRAME ((G.completed == 1 || (G.cb_state1 == __CPROVER_old(G.cb_state1) && G.cb_state2 == __CPROVER_old(G.cb_state2))) \
   && (G.started || B(G.p.k) == B(__CPROVER_old(G.p.k))) && (!__CPROVER_old(G.p.f1) || G.p.f1) && (!__CPROVER_old(G.p.f2) || G.p.f2) \
   && (__CPROVER_old(G.cb_state1) != CB_NONE_ || B(G.p.f1) == B(__CPROVER_old(G.p.f1))) && (__CPROVER_old(G.cb_state2) != CB_NONE_ || B(G.p.f2) == B(__CPROVER_old(G.p.f2))))

int* attach_op_try_complete(struct attach_op* self)
__CPROVER_requires(self == &OP && OWNER_PRE) /*P*/
__CPROVER_assigns(A_TRY_COMPLETE)
__CPROVER_ensures(TRY_POST(__CPROVER_return_value))
__CPROVER_ensures(TRY_FRAME)
/*@BODY try_complete*/

void attach_op_request_stop(struct attach_op* self)
__CPROVER_requires(self == &OP && CALLBACK_PRE)
__CPROVER_assigns(A_REQUEST_STOP)
__CPROVER_ensures(CALLBACK_POST)
__CPROVER_ensures(CALLBACK_FRAME)
/*@BODY request_stop*/

void stop_callback_call(struct stop_callback* self)
__CPROVER_requires(self == &SCB && SCB.op_ == &OP && CALLBACK_PRE)
__CPROVER_assigns(A_REQUEST_STOP)
__CPROVER_ensures(CALLBACK_POST)
__CPROVER_ensures(CALLBACK_FRAME)
/*@BODY stop_callback_call*/

void attach_op_construct_stop_callbacks(struct attach_op* self)
__CPROVER_requires(self == &OP && FRESH_CALL && INV_NOW && G.role == ROLE_NONE && G.mine == 0 && !G.started && G.starts == 0 && G.stopped_children == 0)
__CPROVER_requires(G.cb_state1 == CB_NONE_ && G.cb_state2 == CB_NONE_ && G.cb_constructs == 0 && G.inline_runs == 0 && G.inline_took == 0 && G.inline_stopped == 0)
__CPROVER_requires(OP.refcount_ == refcount_INIT && G.p.k && !G.p.a1 && !G.p.a2 && !G.p.f1 && !G.p.f2 && !G.p.e) /* freshly constructed (lemma_init) */
__CPROVER_assigns(A_REQUEST_STOP, G.role, G.cbi, G.cb_constructs, G.inline_runs, G.inline_took, G.inline_stopped)
__CPROVER_ensures(G.completed == 0 && !G.dead && INV_NOW && G.p.k) /* C01: nothing is delivered before the child is started */
__CPROVER_ensures(G.cb_constructs == 2 && G.cb_state1 == CB_REGISTERED && G.cb_state2 == CB_REGISTERED && G.cb_destructs == 0) /* C04: registered on both tokens */
__CPROVER_ensures(G.role == ROLE_NONE && G.mine == 0 && G.cas_ok == 0 && G.decs == 0 && G.stopped_children == 0)
__CPROVER_ensures(G.inline_runs <= 2 && G.inline_stopped == G.inline_took) /* C04: a stop request that arrived before start() is forwarded to the (not yet started) child's token */
/*@BODY construct_stop_callbacks*/

void attach_op_start(struct attach_op* op)
__CPROVER_requires(op == &OP && FRESH_CALL && INV_NOW && G.role == ROLE_NONE && G.mine == 0 && !G.started && G.starts == 0 && G.stopped_children == 0)
__CPROVER_requires(G.cb_state1 == CB_NONE_ && G.cb_state2 == CB_NONE_ && G.cb_constructs == 0 && G.inline_runs == 0 && G.inline_took == 0 && G.inline_stopped == 0)
__CPROVER_requires(OP.refcount_ == refcount_INIT && G.p.k && !G.p.a1 && !G.p.a2 && !G.p.f1 && !G.p.f2 && !G.p.e)
__CPROVER_assigns(A_REQUEST_STOP, G.role, G.cbi, G.cb_constructs, G.inline_runs, G.inline_took, G.inline_stopped, G.started, G.starts)
__CPROVER_ensures(G.completed == 0) /* C01: start() itself delivers nothing; a completion during start() comes from the child's own completion */
__CPROVER_ensures(G.cb_constructs == 2 && G.cb_state1 == CB_REGISTERED && G.cb_state2 == CB_REGISTERED && G.cb_destructs == 0)
__CPROVER_ensures(G.starts == 1 && G.started && G.dead && UNTOUCHED) /* nothing touched after the child was started */
__CPROVER_ensures(G.inline_stopped == G.inline_took) /* C04 */
/*@BODY start*/

void attach_receiver_set_value(struct attach_receiver* self)
__CPROVER_requires(self == &RCV && RCV.op_ == &OP && CHILD_PRE)
__CPROVER_assigns(A_COMPLETE)
__CPROVER_ensures(RELEASE_POST(G.dv_threw ? CH_ERROR_EXCEPTION : CH_VALUE)) /* a throwing set_value turns into set_error(current_exception) on the same receiver */
/*@BODY ar_set_value*/

void attach_receiver_set_error(struct attach_receiver* self)
__CPROVER_requires(self == &RCV && RCV.op_ == &OP && CHILD_PRE)
__CPROVER_assigns(A_COMPLETE)
__CPROVER_ensures(RELEASE_POST(CH_ERROR))
/*@BODY ar_set_error*/

void attach_receiver_set_done(struct attach_receiver* self)
__CPROVER_requires(self == &RCV && RCV.op_ == &OP && CHILD_PRE)
__CPROVER_assigns(A_COMPLETE)
__CPROVER_ensures(RELEASE_POST(CH_DONE))
/*@BODY ar_set_done*/

/* ---------------- harnesses ---------------- */
static void h_havoc(void) {
  pst_set(pst_nondet()); OP.receiver_ = VF_nondet_int();
  G.started = vf_nb(); G.role = VF_nondet_int(); G.cbi = VF_nondet_int(); G.mine = VF_nondet_u32(); G.my_kind = VF_nondet_int();
  G.cas_ok = VF_nondet_u32(); G.decs = VF_nondet_u32(); G.dec_old = VF_nondet_size_t();
  G.elected = vf_nb(); G.completed = VF_nondet_u32(); G.channel = CH_NONE;
  G.cb_state1 = VF_nondet_int(); G.cb_state2 = VF_nondet_int(); G.cb_constructs = VF_nondet_u32(); G.cb_destructs = VF_nondet_u32();
  G.stopped_children = VF_nondet_u32(); G.starts = VF_nondet_u32(); G.inline_runs = VF_nondet_u32(); G.inline_took = VF_nondet_u32(); G.inline_stopped = VF_nondet_u32(); G.dv_threw = vf_nb();
  G.dead = vf_nb(); G.snap = OP;
  SCB.op_ = &OP; RCV.op_ = &OP;
}
void h_try_complete(void) {
  h_havoc(); int* r = attach_op_try_complete(&OP);
  VF_CANARY("after try_complete");
  if (r) { VF_CANARY("try_complete can hand out the receiver"); } else { VF_CANARY("try_complete can return null"); }
  if (r && G.role == ROLE_CB) { VF_CANARY("a stop callback can be the completer"); }
  if (r && G.role == ROLE_CHILD) { VF_CANARY("the child can be the completer"); }
}
void h_request_stop(void) {
  h_havoc(); attach_op_request_stop(&OP);
  VF_CANARY("after request_stop");
  if (G.cas_ok == 0) { VF_CANARY("request_stop can lose the CAS (already complete, or second callback)"); }
  if (G.completed) { VF_CANARY("request_stop can complete with done"); } else if (G.cas_ok) { VF_CANARY("request_stop can be a non-last owner"); }
}
void h_stop_callback_call(void) { h_havoc(); stop_callback_call(&SCB); VF_CANARY("after stop_callback::operator()"); }
void h_construct(void) { h_havoc(); attach_op_construct_stop_callbacks(&OP); VF_CANARY("after construct_stop_callbacks"); if (G.inline_took) { VF_CANARY("construct with a token already stopped"); } if (G.inline_runs == 2) { VF_CANARY("both callbacks can run inline"); } }
void h_start(void) { h_havoc(); attach_op_start(&OP); VF_CANARY("after start"); }
void h_ar_set_value(void) { h_havoc(); attach_receiver_set_value(&RCV); VF_CANARY("after receiver set_value"); if (G.completed) { VF_CANARY("set_value can complete"); } else { VF_CANARY("set_value can lose to a stop callback"); } if (G.dv_threw) { VF_CANARY("set_value can throw"); } }
void h_ar_set_error(void) { h_havoc(); attach_receiver_set_error(&RCV); VF_CANARY("after receiver set_error"); if (G.completed) { VF_CANARY("set_error can complete"); } }
void h_ar_set_done(void) { h_havoc(); attach_receiver_set_done(&RCV); VF_CANARY("after receiver set_done"); if (G.completed) { VF_CANARY("set_done can complete"); } }

/* ---------------- M4 lemmas over the contracts' predicates ---------------- */
static int vf_step(struct pst o, struct pst n, int step) {
  switch (step) {
  case 0: return STEP_CHILD_DONE(o, n);
  case 1: return STEP_CB_INVOKE(o, n, 1);
  case 2: return STEP_CB_INVOKE(o, n, 2);
  case 3: return STEP_CB_EXIT(o, n, 1);
  default: return STEP_CB_EXIT(o, n, 2);
  }
}
void lemma_election(void) {
  struct pst o = pst_nondet(), n = pst_nondet();
  int step = VF_nondet_int();
  __CPROVER_assume(step >= 0 && step <= 4);
  __CPROVER_assume(INV(o));
  VF_P((!o.g.k && !o.g.a1 && !o.g.a2) ==> o.g.e, "lemma: the child signalled and no callback holds a unit => the election has happened (no lost completion)");
  VF_P(o.c <= 2, "lemma: the count stays within 0..2 (the code's own assertion expected == 0 || expected == 2 after a failed CAS from 1)");
  __CPROVER_assume(vf_step(o, n, step));
  VF_CANARY("lemma_election premises satisfiable");
  if (step == 0) { VF_CANARY("child_done enabled"); } if (step == 1) { VF_CANARY("cb1 invoke enabled"); } if (step == 4) { VF_CANARY("cb2 exit enabled"); }
  _Bool dec = (step == 0 || step == 3 || step == 4);
  VF_P(INV(n), "lemma: Inv is inductive for child_done / callback invoke (CAS 1->2 or no-op) / cb_exit");
  VF_P((!o.g.e && n.g.e) ==> (dec && o.c == 1 && n.c == 0), "lemma: the election is the count's transition 1 -> 0 by a real owner's decrement");
  VF_P((dec && o.c == 1) ==> (!o.g.e && n.g.e), "lemma: the decrement that returns 1 is the election: exactly one caller gets the receiver");
  VF_P(o.g.e ==> (!dec && n.c == 0 && n.g.e && !n.g.a1 && !n.g.a2), "lemma: after the election no decrement is enabled and a late callback takes nothing (CAS from 0 fails)");
}
void lemma_rely(void) {
  struct pst o = pst_nondet(), n = pst_nondet();
  int step = VF_nondet_int();
  int roleB = VF_nondet_int(), cbiB = VF_nondet_int(); unsigned mineB = VF_nondet_u32(); _Bool started = vf_nb();
  __CPROVER_assume(step >= 0 && step <= 4 && roleB >= ROLE_NONE && roleB <= ROLE_CB && (cbiB == 1 || cbiB == 2) && mineB <= 1);
  __CPROVER_assume(INV(o) && vf_step(o, n, step));
  _Bool a_is_child = (step == 0); int a_cb = (step == 1 || step == 3) ? 1 : (step == 2 || step == 4) ? 2 : 0;
  __CPROVER_assume(!(a_is_child && roleB == ROLE_CHILD) && !(a_cb != 0 && roleB == ROLE_CB && cbiB == a_cb));   /* the stepping party A is not B */
  __CPROVER_assume(roleB != ROLE_CHILD || mineB == 0 || o.g.k);
  __CPROVER_assume(roleB != ROLE_CB || B(A_OF(o, cbiB)) == (mineB == 1));
  __CPROVER_assume(!a_is_child || started);
  _Bool reg1 = vf_nb(), reg2 = vf_nb();
  __CPROVER_assume((a_cb != 1 || reg1) && (a_cb != 2 || reg2));   /* a callback acts only while it is registered */
  VF_CANARY("lemma_rely premises satisfiable");
  VF_P(RELY_(o, n, roleB, cbiB, mineB, started, reg1, reg2), "lemma: every guarantee step of a party is allowed by the rely of every other party");
}
void lemma_init(void) {
  struct pst s; s.c = refcount_INIT;
  s.g.k = 1; s.g.a1 = 0; s.g.a2 = 0; s.g.f1 = 0; s.g.f2 = 0; s.g.e = 0;
  VF_CANARY("lemma_init reachable");
  VF_P(INV(s), "lemma: a freshly constructed attach operation satisfies Inv with the child pending (refcount_ initialiser)");
  VF_P(s.c == 1, "lemma: refcount_ starts at 1 (the attached child)");
}
