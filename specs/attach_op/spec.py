H = 'include/unifex/v1/async_scope.hpp'
BASE = r'struct _attach_op_base<Receiver>::type \{'
RCVCLS = r'struct _attach_receiver<Receiver>::type final \{'
OPCLS = r'struct _attach_op<Sender, Receiver>::type final\s*: _attach_op_base<Receiver>::type \{'
CBCLS = r'struct stop_callback \{'

# UNIFEX_TRY { A } UNIFEX_CATCH(...) { B }  ->  { A' } if (0) { vf_catch: ; B }   (DESIGN 3.1, last row; not in the global table yet)
TRY_CATCH = [(r'UNIFEX_TRY\s*\{', '{'),
             (r'\}\s*UNIFEX_CATCH\s*\(\.\.\.\)\s*\{', '} if (0) { vf_catch: ;')]

base_ctx = dict(
    cls='attach_op',
    members=['refcount_', 'receiver_'],
    methods=['try_complete', 'request_stop', 'construct_stop_callbacks'],
    pre=[
        (r'stokenCallback_\.construct\(stoken_, stop_callback\{this\}\)', 'EV_cb_construct(self, CB_STOKEN)'),
        (r'receiverCallback_\.construct\(get_stop_token\(receiver_\), stop_callback\{this\}\)', 'EV_cb_construct(self, CB_RECEIVER)'),
        (r'receiverCallback_\.destruct\(\)', 'EV_cb_destruct(self, CB_RECEIVER)'),
        (r'stokenCallback_\.destruct\(\)', 'EV_cb_destruct(self, CB_STOKEN)'),
        (r'stopSource_\.stop_requested\(\)', 'EV_children_stop_requested(self)'),
        (r'stopSource_\.request_stop\(\)', 'EV_stop_children(self)'),
        (r'unifex::set_done\(std::move\(\*receiver\)\)', 'EV_set_done(receiver)'),
    ],
)
cb_ctx = dict(cls='stop_callback', members=['op_'], methods=[], obj_methods={'request_stop': 'attach_op_request_stop'}, pre=[])
rcv_ctx = dict(
    cls='attach_receiver',
    members=['op_'],
    methods=[],
    obj_methods={'try_complete': 'attach_op_try_complete'},
    pre=TRY_CATCH + [
        (r'unifex::set_value\(std::move\(\*receiver\), std::move\(values\)\.\.\.\);', 'if (EV_set_value(receiver)) goto vf_catch;'),
        (r'unifex::set_error\(std::move\(\*receiver\), std::current_exception\(\)\)', 'EV_set_error_exception(receiver)'),
        (r'unifex::set_error\(std::move\(\*receiver\), std::move\(e\)\)', 'EV_set_error(receiver)'),
        (r'unifex::set_done\(std::move\(\*receiver\)\)', 'EV_set_done(receiver)'),
    ],
)
start_ctx = dict(
    cls='attach_op', members=[], methods=[],
    obj_methods={'construct_stop_callbacks': 'attach_op_construct_stop_callbacks'},
    pre=[(r'unifex::start\(op\.op_\)', 'EV_start_child(op)'), (r'\bop\.', 'op->')],
)

SPEC = dict(
    properties=['C01', 'C04'],
    ctx={},
    extracts={
        'refcount_init': dict(file=H, kind='expr', sig=r'std::atomic<std::size_t> refcount_\{([^}]*)\}', ctx=base_ctx),
        'construct_stop_callbacks': dict(file=H, sig=r'void construct_stop_callbacks\(\) noexcept', within=BASE, ctx=base_ctx),
        'request_stop': dict(file=H, sig=r'void request_stop\(\) noexcept', within=BASE, ctx=base_ctx),
        'try_complete': dict(file=H, sig=r'Receiver\* try_complete\(\) noexcept', within=BASE, ctx=base_ctx),
        'stop_callback_call': dict(file=H, sig=r'void operator\(\)\(\) noexcept', within=[BASE, CBCLS], ctx=cb_ctx),
        'start': dict(file=H, sig=r'friend void tag_invoke\(tag_t<start>, type& op\) noexcept', within=OPCLS, ctx=start_ctx),
        'ar_set_value': dict(file=H, sig=r'void set_value\(T\.\.\. values\) noexcept', within=RCVCLS, ctx=rcv_ctx),
        'ar_set_error': dict(file=H, sig=r'void set_error\(E e\) noexcept', within=RCVCLS, ctx=rcv_ctx),
        'ar_set_done': dict(file=H, sig=r'void set_done\(\) noexcept', within=RCVCLS, ctx=rcv_ctx),
    },
    closed_world=[
        dict(file=H, members=['refcount_', 'stokenCallback_', 'receiverCallback_', 'stopSource_'], within=BASE,
             allow=[r'std::atomic<std::size_t> refcount_\{', r'inplace_stop_source stopSource_;',
                    r'manual_lifetime<stoken_callback_t> stokenCallback_;',
                    r'(?s)UNIFEX_NO_UNIQUE_ADDRESS manual_lifetime<receiver_callback_t>\s*receiverCallback_;']),
    ],
    units=[
        dict(name='try_complete', harness='h_try_complete', enforce='attach_op_try_complete'),
        dict(name='request_stop', harness='h_request_stop', enforce='attach_op_request_stop', replace=['attach_op_try_complete']),
        dict(name='stop_callback_call', harness='h_stop_callback_call', enforce='stop_callback_call', replace=['attach_op_request_stop']),
        dict(name='construct_stop_callbacks', harness='h_construct', enforce='attach_op_construct_stop_callbacks', replace=['stop_callback_call']),
        dict(name='start', harness='h_start', enforce='attach_op_start', replace=['attach_op_construct_stop_callbacks']),
        dict(name='receiver_set_value', harness='h_ar_set_value', enforce='attach_receiver_set_value', replace=['attach_op_try_complete']),
        dict(name='receiver_set_error', harness='h_ar_set_error', enforce='attach_receiver_set_error', replace=['attach_op_try_complete']),
        dict(name='receiver_set_done', harness='h_ar_set_done', enforce='attach_receiver_set_done', replace=['attach_op_try_complete']),
        dict(name='lemma_election', harness='lemma_election', mode='lemma'),
        dict(name='lemma_rely', harness='lemma_rely', mode='lemma'),
        dict(name='lemma_init', harness='lemma_init', mode='lemma'),
    ],
    assumptions=[
        'the attached child completes exactly once and not before it has been started (C01 for the child), through exactly one of the attach receiver\'s set_value/set_error/set_done',
        'each of the two stop callbacks (scope token, receiver token) is invoked at most once per registration, and destruct() returns only after a concurrent invocation has returned (C03, group stop_token)',
        'atomics sequentially consistent (memory orders dropped)',
        'payload arguments of set_value/set_error dropped; a throwing receiver set_value leaves the receiver un-completed (the library then calls set_error on it)',
        'stopSource_.request_stop() may complete the child synchronously: modelled as an environment step inside EV_stop_children; the child operation itself is not reached',
        'the operation may be destroyed by the receiver as soon as a completion signal was delivered, and by another owner as soon as the verified call gave up its unit without being elected (after the child has been started)',
        'the async_scope side of attach (nest / record_done) is property C08, not this group',
    ],
    drops=['memory orders', 'template genericity (Sender, Receiver)', 'payload arguments of completion signals',
           'stokenCallback_/receiverCallback_.construct(...) -> EV_cb_construct (may run the callback inline), unifex::start(op.op_) -> EV_start_child',
           'UNIFEX_TRY/UNIFEX_CATCH -> goto vf_catch at the may-throw stub EV_set_value'],
)
