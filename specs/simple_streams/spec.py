RG = 'include/unifex/range_stream.hpp'
SG = 'include/unifex/single.hpp'
NV = 'include/unifex/never.hpp'
RGS = r'struct stream \{'
SNOP = r'struct _next_op<Sender, Receiver>::type \{'
SGS = r'struct _stream<Sender>::type \{'
NXS = r'struct next_sender \{'
NVS = r'struct stream \{'

rg_ctx = dict(cls='rg_op', members=['stream_', 'receiver_'], methods=[], pre=[
    # the payload expression (stream_.next_++) is kept: it is evaluated before the call, as in C++
    (r'unifex::set_value\(std::move\(receiver_\),\s*([^;]*)\);', r'EV_rg_set_value(this, \1);'),
    (r'unifex::set_done\(std::move\(receiver_\)\);', 'EV_rg_set_done(this);'),
    (r'\bstream_\.', 'stream_->'),         # reference member -> pointer
])
done_ctx = dict(cls='', members=[], methods=[], pre=[(r'\bjust_done\(\)', 'EV_just_done()')])

snop_ctx = dict(cls='sn_op', members=['done_'], methods=[], pre=[
    (r'(?s)unifex::activate_union_member_with\(\s*(innerOp_),\s*\[&\]\s*\{\s*return unifex::connect\([^;]*;\s*\}\s*\);', r'if (EV_activate(this, SL_\1)) return;'),
    (r'unifex::deactivate_union_member\(\s*(innerOp_)\s*\)', r'EV_deactivate(this, SL_\1)'),
    (r'(receiver_)\.~Receiver\(\)', r'EV_destruct(this, SL_\1)'),
    (r'unifex::start\(\s*(innerOp_)\.get\(\)\s*\)', r'EV_start(this, SL_\1)'),
    (r'unifex::set_done\(std::move\(receiver_\)\)', 'EV_set_done(this)'),
    # mem-initialiser lists (extracted as expressions): receiver_(fwd(receiver)) constructs the union member, done_(b) sets the discriminator
    (r'(receiver_)\(\(Receiver2 &&\) receiver\)\s*,', r'if (EV_construct(this, SL_\1)) return;'),
    (r'(?<![\w.>])done_\((\w+)\)', r'done_ = \1'),
], post=[(r'\bself->', 'VF_ALIVE(self)->')])

sgs_ctx = dict(cls='', members=[], methods=[], pre=[
    # scope_guard g{[&]() noexcept { B }}; return E;   ->   { auto rv = E; B return rv; }   (the guard runs when the function is left)
    (r'(?s)scope_guard g\{\[&\]\(\) noexcept \{(.*?)\}\};\s*return ([^;]*);', r'{ __auto_type vf_rv = \2; \1 return vf_rv; }'),
    (r'next_sender\{std::move\(s\.sender_\)\}', 'EV_optional_move(&s->sender_)'),
    (r's\.sender_\.reset\(\)', 'EV_optional_reset(&s->sender_)'),
])
nxs_ctx = dict(cls='sg_next_sender', members=['sender_'], methods=[], pre=[
    (r'if \((!?)sender_\)', r'if (\1EV_optional_has(&sender_))'),
    (r'(?s)return next_operation<Sender, Receiver>\{\s*\*std::move\(sender_\),\s*\(Receiver &&\) receiver\};', 'return EV_make_op_with_sender(EV_optional_take(&sender_));'),
    (r'(?s)return next_operation<Sender, Receiver>\{\s*\(Receiver &&\) receiver\};', 'return EV_make_op_done();'),
])

SPEC = dict(
    properties=['C13', 'C02'],
    ctx={},
    extracts={
        # ---- range_stream
        'rg_next_init1': dict(file=RG, kind='expr', sig=r'explicit stream\(int max\) : next_\(([^()]*)\), max_\(max\) \{\}', within=RGS),
        'rg_max_init1': dict(file=RG, kind='expr', sig=r'explicit stream\(int max\) : next_\([^()]*\), max_\(([^()]*)\) \{\}', within=RGS),
        'rg_next_init2': dict(file=RG, kind='expr', sig=r'explicit stream\(int start, int max\) : next_\(([^()]*)\), max_\(max\) \{\}', within=RGS),
        'rg_max_init2': dict(file=RG, kind='expr', sig=r'explicit stream\(int start, int max\) : next_\([^()]*\), max_\(([^()]*)\) \{\}', within=RGS),
        'rg_start': dict(file=RG, sig=r'void _op<Receiver>::type::start\(\) noexcept', ctx=rg_ctx),
        'rg_cleanup': dict(file=RG, sig=r'tag_invoke\(tag_t<cleanup>, stream&\) noexcept', within=RGS, ctx=done_ctx),
        # ---- single
        'sn_ctor_done_inits': dict(file=SG, kind='expr', sig=r'explicit type\(Receiver2&& receiver\)\s*:\s*(receiver_\(\(Receiver2 &&\) receiver\)\s*,\s*done_\(\w+\))\s*\{\}', within=SNOP, ctx=snop_ctx),
        'sn_ctor_done': dict(file=SG, sig=r'explicit type\(Receiver2&& receiver\)', within=SNOP, ctx=snop_ctx),
        'sn_ctor_sender_inits': dict(file=SG, kind='expr', sig=r'explicit type\(Sender&& sender, Receiver&& receiver\) : (done_\(\w+\)) \{', within=SNOP, ctx=snop_ctx),
        'sn_ctor_sender': dict(file=SG, sig=r'explicit type\(Sender&& sender, Receiver&& receiver\)', within=SNOP, ctx=snop_ctx),
        'sn_dtor': dict(file=SG, sig=r'~type\(\)', within=SNOP, ctx=snop_ctx),
        'sn_start': dict(file=SG, sig=r'void start\(\) noexcept', within=SNOP, ctx=snop_ctx),
        'sg_next': dict(file=SG, sig=r'friend next_sender tag_invoke\(tag_t<next>, type& s\)', within=SGS, ctx=sgs_ctx),
        'sg_connect': dict(file=SG, sig=r'auto connect\(Receiver&& receiver\)', within=[SGS, NXS], ctx=nxs_ctx),
        'sg_cleanup': dict(file=SG, sig=r'tag_invoke\(tag_t<cleanup>, type&\) noexcept', within=SGS, ctx=done_ctx),
        # ---- never_stream
        'nv_next_can_send_void': dict(file=NV, kind='expr', sig=r'friend constexpr sender<(\w+)> tag_invoke\(tag_t<next>, stream&\) noexcept', within=NVS),
        'nv_cleanup': dict(file=NV, sig=r'tag_invoke\(tag_t<cleanup>, stream&\) noexcept', within=NVS, ctx=done_ctx),
    },
    closed_world=[
        dict(file=RG, members=['next_', 'max_'], within=r'namespace _range \{',
             allow=[r'int next_;', r'int max_;', r'explicit stream\(int max\) : next_\([^()]*\), max_\([^()]*\) \{\}', r'explicit stream\(int start, int max\) : next_\([^()]*\), max_\([^()]*\) \{\}']),
        dict(file=SG, members=['done_', 'innerOp_', 'receiver_'], within=SNOP,
             allow=[r'Receiver receiver_;', r'manual_lifetime<connect_result_t<Sender, Receiver>> innerOp_;', r'bool done_;']),
        dict(file=SG, members=['sender_'], within=SGS,
             allow=[r'std::optional<Sender> sender_;', r'(?s)explicit type\(Sender2&& sender\)\s*: sender_\(std::in_place, \(Sender2 &&\) sender\) \{\}',
                    r'if \(s\.sender_\) \{', r'return unifex::blocking\(\*s\.sender_\);']),      # the read-only blocking() query
    ],
    units=[
        dict(name='range_start', harness='h_rg_start', enforce='rg_op_start'),
        dict(name='range_cleanup', harness='h_rg_cleanup', enforce='rg_cleanup'),
        dict(name='lemma_range', harness='lemma_range', mode='lemma'),
        dict(name='lemma_range_init', harness='lemma_range_init', mode='lemma'),
        dict(name='single_op_ctor_done', harness='h_sn_ctor_done', enforce='sn_op_ctor_done'),
        dict(name='single_op_ctor_sender', harness='h_sn_ctor_sender', enforce='sn_op_ctor_sender'),
        dict(name='single_op_dtor', harness='h_sn_dtor', enforce='sn_op_dtor'),
        dict(name='single_op_start', harness='h_sn_start', enforce='sn_op_start'),
        dict(name='single_next', harness='h_sg_next', enforce='sg_next'),
        dict(name='single_connect', harness='h_sg_connect', enforce='sg_connect'),
        dict(name='single_cleanup', harness='h_sg_cleanup', enforce='sg_cleanup'),
        dict(name='lemma_single', harness='lemma_single', mode='lemma'),
        dict(name='never_cleanup', harness='h_nv_cleanup', enforce='nv_cleanup'),
        dict(name='lemma_never_stream', harness='lemma_never_stream', mode='lemma'),
    ],
    assumptions=[
        'stream concept (consumer): next() operations of one stream do not overlap; the stream outlives its next() operations; the consumer may destroy everything (operation and stream) from inside the completion signal',
        'range_stream: start(), max are ints with next_ <= INT_MAX (no overflow is proved: next_ is incremented only below max_)',
        'single: the wrapped sender completes the consumer\'s receiver itself (it was moved into the inner operation): one element (value), or the sender\'s own error / done; the inner operation completes exactly once after it was started and does not touch itself afterwards (C01 for the child); connect() may throw inside the constructor and then propagates out of connect(next_sender, receiver) with nothing constructed (strong guarantee of activate_union_member_with)',
        'single: std::optional<Sender> is modelled as (engaged flag, token): moving from an engaged optional leaves it ENGAGED with a moved-from value (which is why next() resets it); operator bool reads the flag',
        'never_stream: next() returns sender<false>; that a never sender with CanSendVoid == false never produces a value and completes with done only on a stop request is group stop_misc (never_start / never_cancel_callback)',
        'cleanup() of the three sources is just_done(): completes with done inline, touches nothing (just_done itself not re-verified)',
        'the owner destroys a single next operation only before start() or after the completion signal',
    ],
    drops=['template genericity; senders / receivers are tokens', 'reference members and parameters -> pointers', 'scope_guard{B}; return E; -> { rv = E; B; return rv; }',
           'aggregate constructions next_sender{s}, operation{stream_, receiver} (range_stream next / connect: no statements of their own)',
           'single: blocking() query, the CPO, the stream constructor; never: the sender type and its connect (group stop_misc)'],
)
