/* C13 / C02 (scoped): the three stream SOURCES -- include/unifex/range_stream.hpp, single.hpp, never.hpp (never_stream).
 *   range_stream:  each next() yields next_ and increments it while next_ < max_, afterwards done -- forever; the increment
 *                  happens before the completion signal (the consumer may destroy the stream from inside it)
 *                  => elements start, start+1, .., max-1 in order, then done  (lemma_range over the contract)
 *   single(sender): the first next() moves the sender out and leaves the stream EMPTY (reset), every later next() finds it empty;
 *                  connect builds an operation around the sender (one element) or a done-operation; that operation keeps ONE
 *                  of { receiver_, innerOp_ } alive, discriminator done_ (slot ghosts of ../sequence/slots.h)
 *                  => yields once, then done  (lemma_single)
 *   never_stream:  next() is never's sender<false> (no value, done on stop: group stop_misc); cleanup of all three is just_done()
 * Bodies marked @BODY / @EXPR are extracted from /repo on every run; everything else is specification. */
#include <stddef.h>
#include <stdint.h>

/* ------------------------------------------------------------------ single: the next operation (slots.h) */
struct sn_op { _Bool done_; };
static struct sn_op OP;
enum { SL_receiver_, SL_innerOp_ };
#define VF_NSLOT 2
#define VF_OP_T struct sn_op
#define VF_OP_HAVOC() do { OP.done_ = VF_nondet_bool() ? 1 : 0; } while (0)
#define VF_OP_EQ(a, b) ((a).done_ == (b).done_)
#define VF_SLOT_IS_OP(s) ((s) == SL_innerOp_)
#define VF_UNION_EMPTY(s) (G.slot[SL_receiver_] == LS_NONE && G.slot[SL_innerOp_] == LS_NONE)
/* the discriminator tells the truth: done_ <=> receiver_ is the live member; !done_ <=> innerOp_ is */
#define DISCR_OK_(d, r, i) ((d) ? ((r) == LS_ALIVE && (i) == LS_NONE) : ((r) == LS_NONE && (i) != LS_NONE))
#define VF_DISCR_OK(op) DISCR_OK_((op)->done_, G.slot[SL_receiver_], G.slot[SL_innerOp_])
#define VF_CHECK_CONSTRUCT(op, s) do { VF_P(G.acts[SL_receiver_] == 0 && G.acts[SL_innerOp_] == 0, "single: exactly one union member is constructed, by the constructor"); } while (0)
#define VF_CHECK_DESTROY(op, s) do { } while (0)
#define VF_CHECK_START(op, s) do { } while (0)
#define VF_CHECK_COMPLETE(op, ch) do { VF_P((ch) == CH_DONE && (op)->done_, "C13: the single next operation itself signals only DONE, and only when it holds no sender (the element is delivered by the inner operation)"); } while (0)
#define VF_GHOST_EXTRA \
  /* range_stream */ unsigned rg_signals; int rg_channel; int rg_value, rg_next_at_signal, rg_max_at_signal; _Bool rg_dead; int rg_snap_next, rg_snap_max; \
  /* sources */ unsigned just_dones, opt_moves, opt_resets, opt_takes, ops_made; int made_kind, made_tok;
#define VF_RCV_HAVOC() do { } while (0)
#include "../sequence/slots.h"

/* ------------------------------------------------------------------ range_stream */
struct rg_stream { int next_, max_; };
struct rg_op { struct rg_stream* stream_; int receiver_; };
static struct rg_stream RS;
static struct rg_op ROP;
/* the receiver may destroy the next operation AND the stream (it lives in the consumer's operation state) */
static void rg_die(void) { RS.next_ = VF_nondet_int(); RS.max_ = VF_nondet_int(); ROP.stream_ = NULL; G.rg_snap_next = RS.next_; G.rg_snap_max = RS.max_; G.rg_dead = 1; }
#define RG_UNTOUCHED (!G.rg_dead || (RS.next_ == G.rg_snap_next && RS.max_ == G.rg_snap_max && ROP.stream_ == NULL))
static void rg_signal(struct rg_op* op, int ch, int v) {
  VF_P(op == &ROP && !G.rg_dead, "range_stream: the completion goes to the live operation's receiver");
  VF_P(G.rg_signals == 0, "C13: one completion per next()");
  G.rg_signals++; G.rg_channel = ch; G.rg_value = v; G.rg_next_at_signal = RS.next_; G.rg_max_at_signal = RS.max_;
  rg_die();
}
static void EV_rg_set_value(struct rg_op* op, int v) { VF_CANARY("range_stream yields an element"); rg_signal(op, CH_VALUE, v); }
static void EV_rg_set_done(struct rg_op* op) { VF_CANARY("range_stream reports done"); rg_signal(op, CH_DONE, 0); }
static int EV_just_done(void) { G.just_dones++; return CH_DONE; }

#define RG_FRESH (G.rg_signals == 0 && !G.rg_dead && G.just_dones == 0)
void rg_op_start(struct rg_op* self)
__CPROVER_requires(self == &ROP && ROP.stream_ == &RS && RG_FRESH)
__CPROVER_assigns(RS, ROP, G)
__CPROVER_ensures(G.rg_signals == 1 && G.rg_dead && RG_UNTOUCHED)                                                   /* exactly one completion, nothing touched afterwards */
__CPROVER_ensures(__CPROVER_old(RS.next_) < __CPROVER_old(RS.max_) ==> (G.rg_channel == CH_VALUE && G.rg_value == __CPROVER_old(RS.next_) \
                  && G.rg_next_at_signal == __CPROVER_old(RS.next_) + 1 && G.rg_max_at_signal == __CPROVER_old(RS.max_)))   /* C13: yields next_, and next_ was advanced BEFORE the signal */
__CPROVER_ensures(__CPROVER_old(RS.next_) >= __CPROVER_old(RS.max_) ==> (G.rg_channel == CH_DONE && G.rg_next_at_signal == __CPROVER_old(RS.next_) && G.rg_max_at_signal == __CPROVER_old(RS.max_)))  /* exhausted: done, state unchanged (done again next time) */
/*@BODY rg_start*/

int rg_cleanup(void)
__CPROVER_requires(RG_FRESH)
__CPROVER_assigns(G)
__CPROVER_ensures(__CPROVER_return_value == CH_DONE && G.just_dones == 1 && G.rg_signals == 0)
/*@BODY rg_cleanup*/

/* ------------------------------------------------------------------ single: next operation */
#define A_SN OP, G
#define SN_FRESH (VF_FRESH_CALL && G.running == -1)
#define SN_NO_OTHER (G.opt_moves == 0 && G.opt_resets == 0 && G.opt_takes == 0 && G.ops_made == 0 && G.just_dones == 0 && G.rg_signals == 0)

/* type(Receiver2&& receiver): the done-operation: receiver_ constructed, done_ = true */
void sn_op_ctor_done(struct sn_op* self)
__CPROVER_requires(self == &OP && SN_FRESH && VF_ALL_NONE)
__CPROVER_assigns(A_SN)
__CPROVER_ensures(G.throws == 0 ==> (OP.done_ && G.slot[SL_receiver_] == LS_ALIVE && G.slot[SL_innerOp_] == LS_NONE && G.acts[SL_receiver_] == 1 && VF_DESTRUCTIBLE(&OP)))
__CPROVER_ensures(G.throws != 0 ==> (VF_ALL_NONE && G.acts[SL_receiver_] == 0))
__CPROVER_ensures(G.acts[SL_innerOp_] == 0 && G.completed == 0 && G.starts[SL_innerOp_] == 0 && G.deacts[SL_receiver_] == 0 && G.deacts[SL_innerOp_] == 0 && !G.dead)
{
  /*@EXPR sn_ctor_done_inits*/;
  /*@BODY sn_ctor_done*/
}

/* type(Sender&& sender, Receiver&& receiver): done_ = false, connect(sender, receiver) into innerOp_ (may throw) */
void sn_op_ctor_sender(struct sn_op* self)
__CPROVER_requires(self == &OP && SN_FRESH && VF_ALL_NONE)
__CPROVER_assigns(A_SN)
__CPROVER_ensures(G.throws == 0 ==> (!OP.done_ && G.slot[SL_innerOp_] == LS_ALIVE && G.slot[SL_receiver_] == LS_NONE && G.acts[SL_innerOp_] == 1 && VF_DESTRUCTIBLE(&OP)))
__CPROVER_ensures(G.throws != 0 ==> (VF_ALL_NONE && G.acts[SL_innerOp_] == 0))                   /* connect threw: nothing constructed, the exception leaves the constructor */
__CPROVER_ensures(G.acts[SL_receiver_] == 0 && G.completed == 0 && G.starts[SL_innerOp_] == 0 && G.deacts[SL_receiver_] == 0 && G.deacts[SL_innerOp_] == 0 && !G.dead)
{
  /*@EXPR sn_ctor_sender_inits*/;
  /*@BODY sn_ctor_sender*/
}

/* ~type(): destroys exactly the live union member */
void sn_op_dtor(struct sn_op* self)
__CPROVER_requires(self == &OP && SN_FRESH && VF_DESTRUCTIBLE(&OP))
__CPROVER_assigns(A_SN)
__CPROVER_ensures(VF_ALL_NONE)
__CPROVER_ensures(G.deacts[SL_receiver_] == (__CPROVER_old(G.slot[SL_receiver_]) != LS_NONE ? 1u : 0u) && G.deacts[SL_innerOp_] == (__CPROVER_old(G.slot[SL_innerOp_]) != LS_NONE ? 1u : 0u))
__CPROVER_ensures(G.completed == 0 && G.acts[SL_receiver_] == 0 && G.acts[SL_innerOp_] == 0 && G.starts[SL_innerOp_] == 0)
/*@BODY sn_dtor*/

/* start(): done-operation -> set_done; otherwise start the wrapped sender's operation (it completes the consumer itself) */
void sn_op_start(struct sn_op* self)
__CPROVER_requires(self == &OP && SN_FRESH && VF_DISCR_OK(&OP) && (OP.done_ || G.slot[SL_innerOp_] == LS_ALIVE))
__CPROVER_assigns(A_SN)
__CPROVER_ensures(__CPROVER_old(OP.done_) ==> (VF_COMPLETED_ON(CH_DONE) && G.starts[SL_innerOp_] == 0 && G.atc[SL_receiver_] == LS_ALIVE))        /* C13: a next() after the element: done */
__CPROVER_ensures(!__CPROVER_old(OP.done_) ==> (G.completed == 0 && G.starts[SL_innerOp_] == 1 && G.slot[SL_innerOp_] == LS_STARTED && G.dead && UNTOUCHED))  /* the element: the sender's own completion */
__CPROVER_ensures(G.acts[SL_receiver_] == 0 && G.acts[SL_innerOp_] == 0 && G.deacts[SL_receiver_] == 0 && G.deacts[SL_innerOp_] == 0)
/*@BODY sn_start*/

/* ------------------------------------------------------------------ single: the stream and its next_sender */
#define TOK_MOVED_FROM (-1)
struct optional_sender { _Bool has; int tok; };
struct sg_stream { struct optional_sender sender_; };
struct sg_next_sender { struct optional_sender sender_; };
static struct sg_stream SS;
static struct sg_next_sender NS;
enum { OPK_NONE, OPK_SENDER, OPK_DONE };
/* next_sender{std::move(opt)}: move construction of an optional: the source stays ENGAGED, its value is moved-from */
static struct optional_sender EV_optional_move(struct optional_sender* o) {
  VF_P(o == &SS.sender_, "the stream's own optional");
  struct optional_sender r = *o;
  if (o->has) o->tok = TOK_MOVED_FROM;
  G.opt_moves++;
  return r;
}
static void EV_optional_reset(struct optional_sender* o) { VF_P(o == &SS.sender_, "the stream's own optional"); o->has = 0; G.opt_resets++; }
static _Bool EV_optional_has(struct optional_sender* o) { VF_P(o == &NS.sender_, "the next_sender's own optional"); return o->has; }
static int EV_optional_take(struct optional_sender* o) {
  VF_P(o == &NS.sender_ && o->has, "*optional only on an engaged optional");
  VF_P(o->tok != TOK_MOVED_FROM, "C02/C13: the sender handed to connect() is the real sender, never a moved-from one (single yields once)");
  int t = o->tok; o->tok = TOK_MOVED_FROM; G.opt_takes++;
  return t;
}
static int EV_make_op_with_sender(int tok) { VF_P(G.ops_made == 0, "one operation per connect"); G.ops_made++; G.made_kind = OPK_SENDER; G.made_tok = tok; return OPK_SENDER; }
static int EV_make_op_done(void) { VF_P(G.ops_made == 0, "one operation per connect"); G.ops_made++; G.made_kind = OPK_DONE; G.made_tok = 0; return OPK_DONE; }

#define SG_FRESH (G.opt_moves == 0 && G.opt_resets == 0 && G.opt_takes == 0 && G.ops_made == 0 && G.just_dones == 0)
#define SS_INV (!SS.sender_.has || SS.sender_.tok != TOK_MOVED_FROM)        /* the stream never holds an engaged-but-moved-from sender between calls */
/* next(single_stream): hand the sender (if still there) to the next_sender, leave the stream empty */
struct optional_sender sg_next(struct sg_stream* s)
__CPROVER_requires(s == &SS && SG_FRESH && SS_INV)
__CPROVER_assigns(SS, G)
__CPROVER_ensures(__CPROVER_return_value.has == __CPROVER_old(SS.sender_.has) && (__CPROVER_return_value.has ==> __CPROVER_return_value.tok == __CPROVER_old(SS.sender_.tok)))  /* the first next() gets the sender */
__CPROVER_ensures(!SS.sender_.has && SS_INV)                                                                    /* C13: afterwards the stream is EMPTY: every later next() is a done-operation */
__CPROVER_ensures(G.opt_moves == 1 && G.opt_resets == 1 && G.ops_made == 0)
/*@BODY sg_next*/

/* next_sender::connect: an operation around the sender, or the done-operation */
int sg_connect(struct sg_next_sender* self)
__CPROVER_requires(self == &NS && SG_FRESH && (!NS.sender_.has || NS.sender_.tok != TOK_MOVED_FROM))
__CPROVER_assigns(NS, G)
__CPROVER_ensures(G.ops_made == 1 && __CPROVER_return_value == G.made_kind)
__CPROVER_ensures(__CPROVER_old(NS.sender_.has) ==> (G.made_kind == OPK_SENDER && G.made_tok == __CPROVER_old(NS.sender_.tok) && G.opt_takes == 1))
__CPROVER_ensures(!__CPROVER_old(NS.sender_.has) ==> (G.made_kind == OPK_DONE && G.opt_takes == 0))
/*@BODY sg_connect*/

int sg_cleanup(void)
__CPROVER_requires(SG_FRESH)
__CPROVER_assigns(G)
__CPROVER_ensures(__CPROVER_return_value == CH_DONE && G.just_dones == 1 && G.ops_made == 0)
/*@BODY sg_cleanup*/

/* ------------------------------------------------------------------ never_stream */
#define NEVER_NEXT_CAN_SEND_VOID (/*@EXPR nv_next_can_send_void*/)
int nv_cleanup(void)
__CPROVER_requires(SG_FRESH)
__CPROVER_assigns(G)
__CPROVER_ensures(__CPROVER_return_value == CH_DONE && G.just_dones == 1)
/*@BODY nv_cleanup*/

/* ------------------------------------------------------------------ harnesses */
static void h_havoc(void) {
  vf_ghost_havoc();
  G.rg_signals = VF_nondet_u32(); G.rg_channel = CH_NONE; G.rg_value = 0; G.rg_next_at_signal = 0; G.rg_max_at_signal = 0; G.rg_dead = vf_nb(); G.rg_snap_next = 0; G.rg_snap_max = 0;
  G.just_dones = VF_nondet_u32(); G.opt_moves = VF_nondet_u32(); G.opt_resets = VF_nondet_u32(); G.opt_takes = VF_nondet_u32(); G.ops_made = VF_nondet_u32(); G.made_kind = OPK_NONE; G.made_tok = 0;
  OP.done_ = vf_nb(); G.snap = OP;
  RS.next_ = VF_nondet_int(); RS.max_ = VF_nondet_int(); ROP.stream_ = &RS; ROP.receiver_ = 0;
  SS.sender_.has = vf_nb(); SS.sender_.tok = VF_nondet_int(); NS.sender_.has = vf_nb(); NS.sender_.tok = VF_nondet_int();
}
void h_rg_start(void) {
  h_havoc(); rg_op_start(&ROP); VF_CANARY("after range_stream next start");
  if (G.rg_channel == CH_VALUE && G.rg_value < 0) { VF_CANARY("negative elements are possible (start < 0)"); }
}
void h_rg_cleanup(void) { h_havoc(); (void)rg_cleanup(); VF_CANARY("after range_stream cleanup"); }
void h_sn_ctor_done(void) { h_havoc(); sn_op_ctor_done(&OP); VF_CANARY("after the done-operation constructor"); }
void h_sn_ctor_sender(void) { h_havoc(); sn_op_ctor_sender(&OP); VF_CANARY("after the sender-operation constructor"); if (G.throws) { VF_CANARY("connect can throw"); } else { VF_CANARY("connect can succeed"); } }
void h_sn_dtor(void) { h_havoc(); sn_op_dtor(&OP); VF_CANARY("after the destructor"); if (G.deacts[SL_receiver_]) { VF_CANARY("destroys receiver_"); } if (G.deacts[SL_innerOp_]) { VF_CANARY("destroys innerOp_"); } }
void h_sn_start(void) { h_havoc(); sn_op_start(&OP); VF_CANARY("after single next start"); if (G.completed) { VF_CANARY("done path"); } else { VF_CANARY("sender path"); } }
void h_sg_next(void) { h_havoc(); struct optional_sender r = sg_next(&SS); VF_CANARY("after single next()"); if (r.has) { VF_CANARY("first next gets the sender"); } else { VF_CANARY("later next gets nothing"); } }
void h_sg_connect(void) { h_havoc(); int k = sg_connect(&NS); VF_CANARY("after next_sender connect"); if (k == OPK_SENDER) { VF_CANARY("sender operation"); } else { VF_CANARY("done operation"); } }
void h_sg_cleanup(void) { h_havoc(); (void)sg_cleanup(); VF_CANARY("after single cleanup"); }
void h_nv_cleanup(void) { h_havoc(); (void)nv_cleanup(); VF_CANARY("after never_stream cleanup"); }

/* ------------------------------------------------------------------ M4 lemmas over the contracts */
/* range_stream: one next() = rg_op_start's contract applied to the stream state (next, max) */
void lemma_range(void) {
  int64_t start = VF_nondet_int(), max = VF_nondet_int(), next = VF_nondet_int(); uint64_t yielded = VF_nondet_u32();
  /* invariant: the elements handed out so far are start .. next-1, in order */
  __CPROVER_assume(next == start + (int64_t)yielded && (yielded > 0 ==> next <= max));
  int ch; int64_t value = 0, next1 = next;
  if (next < max) { ch = CH_VALUE; value = next; next1 = next + 1; } else { ch = CH_DONE; }         /* rg_op_start postconditions */
  VF_CANARY("lemma premises satisfiable");
  if (ch == CH_VALUE) { VF_CANARY("value step"); } else { VF_CANARY("done step"); }
  VF_P(ch == CH_VALUE ==> (value == start + (int64_t)yielded && next1 == start + (int64_t)(yielded + 1) && next1 <= max), "lemma C13: the k-th next() yields start + k (elements in order, none skipped, none repeated)");
  VF_P(ch == CH_DONE ==> (next1 == next && (int64_t)yielded == (max > start ? max - start : 0)), "lemma C13: done is reported after exactly max - start elements (none if the range is empty), and the state no longer changes: done forever");
}
void lemma_range_init(void) {
  int max = VF_nondet_int(), start = VF_nondet_int();
  struct rg_stream a, b;
  a.next_ = /*@EXPR rg_next_init1*/; a.max_ = /*@EXPR rg_max_init1*/;
  b.next_ = /*@EXPR rg_next_init2*/; b.max_ = /*@EXPR rg_max_init2*/;
  VF_CANARY("lemma_range_init reachable");
  VF_P(a.next_ == 0 && a.max_ == max, "lemma: range_stream(max) starts at 0: elements 0 .. max-1");
  VF_P(b.next_ == start && b.max_ == max, "lemma: range_stream(start, max) starts at start");
}
/* single: next(); connect; (start) repeated: the stream state is the optional's engaged flag */
void lemma_single(void) {
  _Bool has0 = vf_nb(); int tok0 = VF_nondet_int(); unsigned yielded = VF_nondet_u32();
  __CPROVER_assume(yielded <= 1 && (has0 ==> (tok0 != TOK_MOVED_FROM && yielded == 0)) && (!has0 ==> yielded <= 1));
  /* sg_next's contract */ _Bool ns_has = has0; int ns_tok = tok0; _Bool has1 = 0;
  /* sg_connect's contract */ int kind = ns_has ? OPK_SENDER : OPK_DONE; int made_tok = ns_has ? ns_tok : 0;
  unsigned yielded1 = yielded + (kind == OPK_SENDER ? 1u : 0u);
  VF_CANARY("lemma premises satisfiable");
  if (kind == OPK_SENDER) { VF_CANARY("element step"); } else { VF_CANARY("done step"); }
  VF_P(!has1 && yielded1 <= 1, "lemma C13: single hands its sender out at most once");
  VF_P(kind == OPK_SENDER ==> (made_tok == tok0 && made_tok != TOK_MOVED_FROM && yielded == 0), "lemma C13: the one element is the wrapped sender itself, on the first next()");
  VF_P(!has0 ==> kind == OPK_DONE, "lemma C13: every next() after the first is the done-operation (sn_op_start: set_done)");
  /* the operation's discriminator after either constructor names the live member */
  VF_P(DISCR_OK_(1, LS_ALIVE, LS_NONE) && DISCR_OK_(0, LS_NONE, LS_ALIVE) && !DISCR_OK_(1, LS_NONE, LS_ALIVE) && !DISCR_OK_(0, LS_ALIVE, LS_NONE), "lemma C02: done_ == true names receiver_, done_ == false names innerOp_, never the other one");
}
void lemma_never_stream(void) {
  VF_CANARY("lemma_never_stream reachable");
  VF_P(!NEVER_NEXT_CAN_SEND_VOID, "lemma C13: never_stream's next() is never's sender<false>: it cannot produce an element (value path only for CanSendVoid && isVoid_: group stop_misc), it completes with done on a stop request only");
}
