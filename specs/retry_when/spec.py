H = 'include/unifex/retry_when.hpp'
NS = r'namespace _retry_when \{'
TRCV = r'class _trigger_receiver<Source, Func, Receiver, Trigger>::type \{'
SRCV = r'class _source_receiver<Source, Func, Receiver>::type \{'
OPCLS = r'class _op<Source, Func, Receiver>::type \{'

BAL = r'(?:[^{}]|\{[^{}]*\})*'      # one (possibly once nested) brace level
TARG = r'(?:<[^;()]*>)?'

SRC_CONNECT = (r'auto& sourceOp =\s*unifex::activate_union_member_with\(\s*op->(\w+), \[&\](?:\(\))?%s \{\s*'
               r'return unifex::connect\(op->source_, source_receiver_t\{op\}\);\s*\}\);')
TRG_CONNECT = (r'auto& triggerOp =\s*unifex::activate_union_member_with<trigger_op_t>\(\s*op->(\w+), \[&\]\(\)%s \{\s*'
               r'return unifex::connect\(\s*std::invoke\(op->func_, \(Error&&\)(\w+)\),\s*trigger_receiver_t\{op\}\);\s*\}\);')

# call abstractions: union helpers / connect / start / receiver CPOs -> event stubs.  The slot is the member name written in the source.
COMMON = [
    (r'using \w+ =[^;]*;', ''),
    # which branch of `if constexpr` an instantiation takes: symbolic configuration constants, BOTH branches verified
    (r'std::is_nothrow_invocable_v<Func&, Error> &&\s*is_nothrow_connectable_v<trigger_sender_t, trigger_receiver_t>', 'CFG_nothrow_trigger'),
    (r'is_nothrow_connectable_v<Source&, source_receiver_t>', 'CFG_nothrow_source'),
    # connect(source_) into sourceOp_: inside a noexcept lambda a throw terminates; otherwise may-throw with the strong guarantee
    (SRC_CONNECT % ' noexcept', r'if (EV_connect(op, SL_\1, 0, 1)) VF_terminate();'),
    (SRC_CONNECT % '', r'if (EV_connect(op, SL_\1, 0, 0)) goto vf_catch_connect;'),
    # connect(invoke(func_, error)) into triggerOps_: user function + connect, one may-throw event (the error token is kept)
    (TRG_CONNECT % ' noexcept', r'if (EV_connect(op, SL_\1, \2, 1)) VF_terminate();'),
    (TRG_CONNECT % '', r'if (EV_connect(op, SL_\1, \2, 0)) goto vf_catch_connect;'),
    (r'unifex::start\((?:sourceOp|triggerOp)\);', 'EV_start_connected(op);'),
    (r'unifex::deactivate_union_member' + TARG + r'\(\s*(op_?)->(\w+)\)', r'EV_deactivate(\1, SL_\2)'),
    # completion signals (channel + payload token)
    (r'unifex::set_value\(std::move\(op_->receiver_\), \(Values&&\)(\w+)\.\.\.\);', r'if (EV_set_value(op_, \1)) return;'),
    (r'unifex::set_done\(std::move\(op_->receiver_\)\);', 'EV_set_done(op_);'),
    (r'unifex::set_done\(\(Receiver&&\)op->receiver_\);', 'EV_set_done(op);'),
    (r'unifex::set_error\(\(Receiver&&\)op->receiver_, std::current_exception\(\)\);', 'EV_set_error(op, PAY_EXCEPTION);'),
    (r'unifex::set_error\(\(Receiver&&\)op->receiver_, \(Error&&\)(\w+)\);', r'EV_set_error(op, \1);'),
    # UNIFEX_TRY { A } UNIFEX_CATCH(...) { B } -> { A' } if (0) { <label of A's may-throw stub>: ; B }  (spec-level rule, DESIGN 3.1 last row)
    (r'UNIFEX_TRY\s*\{(' + BAL + r'?goto (vf_catch_\w+);' + BAL + r')\}\s*UNIFEX_CATCH\s*\(\.\.\.\)\s*\{', r'{\1} if (0) { \2: ;'),
    (r'UNIFEX_TRY\s*\{(' + BAL + r')\}\s*UNIFEX_CATCH\s*\(\.\.\.\)\s*\{', r'{\1} if (0) {'),
]
DISCR_POST = [
    # instrumentation only: every READ of the discriminator is compared with the ghost
    (r'self->isSourceOpConstructed_\b(?!\s*=(?!=))', 'VF_DISCR(self)'),
]
trg_ctx = dict(cls='rw_trigger', members=['op_'], methods=['destroy_trigger_op'], pre=COMMON)
src_ctx = dict(cls='rw_source', members=['op_'], methods=[], pre=COMMON)
op_ctx = dict(cls='rw_op', members=['isSourceOpConstructed_'], methods=[], pre=[
    (r'unifex::activate_union_member_with\((\w+), \[&\] \{\s*return unifex::connect\(source_, source_receiver_t\{this\}\);\s*\}\);',
     r'if (EV_connect(this, SL_\1, 0, 0)) return;'),
    (r'unifex::deactivate_union_member\((\w+)\)', r'EV_deactivate(this, SL_\1)'),
    (r'unifex::start\((\w+)\.get\(\)\)', r'EV_start_source(this, SL_\1)'),
], post=DISCR_POST)

SPEC = dict(
    properties=['C02', 'C05', 'C01'],
    ctx={},
    extracts={
        'constructed_init': dict(file=H, kind='expr', sig=r'bool isSourceOpConstructed_\s*(=?[^;]*);'),
        'trg_set_value': dict(file=H, sig=r'void set_value\(\) && noexcept', within=[NS, TRCV], ctx=trg_ctx, must_contain=[r'source_receiver_t']),
        'trg_set_done': dict(file=H, sig=r'void set_done\(\) && noexcept', within=[NS, TRCV], ctx=trg_ctx),
        'trg_set_error': dict(file=H, sig=r'void set_error\(Error error\) && noexcept', within=[NS, TRCV], ctx=trg_ctx),
        'trg_destroy': dict(file=H, sig=r'void destroy_trigger_op\(\) noexcept', within=[NS, TRCV], ctx=trg_ctx),
        'src_set_value': dict(file=H, sig=r'void set_value\(Values&&\.\.\. values\) noexcept\(\s*is_nothrow_receiver_of_v<Receiver, Values\.\.\.>\)', within=[NS, SRCV], ctx=src_ctx),
        'src_set_done': dict(file=H, sig=r'void set_done\(\) noexcept', within=[NS, SRCV], ctx=src_ctx),
        'src_set_error': dict(file=H, sig=r'void set_error\(Error error\) noexcept', within=[NS, SRCV], ctx=src_ctx, must_contain=[r'trigger_receiver_t']),
        'op_ctor': dict(file=H, sig=r'explicit type\(Source2&& source, Func2&& func, Receiver2&& receiver\)', within=[NS, OPCLS], ctx=op_ctx, must_contain=[r'source_receiver_t\{this\}']),
        'op_dtor': dict(file=H, sig=r'~type\(\)', within=[NS, OPCLS], ctx=op_ctx),
        'op_start': dict(file=H, sig=r'void start\(\) & noexcept', within=[NS, OPCLS], ctx=op_ctx),
    },
    closed_world=[dict(file=H, within=NS, members=['isSourceOpConstructed_', 'sourceOp_', 'triggerOps_'],
                       allow=[r'bool isSourceOpConstructed_\s*(?:=[^;]*)?;', r'manual_lifetime<source_op_t> sourceOp_;',
                              r'typename Source::template error_types<trigger_op_union> triggerOps_;'])],
    units=[
        dict(name='trigger_destroy_trigger_op', harness='h_trg_destroy', enforce='rw_trigger_destroy_trigger_op'),
        dict(name='trigger_set_value', harness='h_trg_set_value', enforce='rw_trigger_set_value', replace=['rw_trigger_destroy_trigger_op']),
        dict(name='trigger_set_done', harness='h_trg_set_done', enforce='rw_trigger_set_done', replace=['rw_trigger_destroy_trigger_op']),
        dict(name='trigger_set_error', harness='h_trg_set_error', enforce='rw_trigger_set_error', replace=['rw_trigger_destroy_trigger_op']),
        dict(name='source_set_value', harness='h_src_set_value', enforce='rw_source_set_value'),
        dict(name='source_set_done', harness='h_src_set_done', enforce='rw_source_set_done'),
        dict(name='source_set_error', harness='h_src_set_error', enforce='rw_source_set_error'),
        dict(name='op_ctor', harness='h_op_ctor', enforce='rw_op_ctor'),
        dict(name='op_start', harness='h_op_start', enforce='rw_op_start'),
        dict(name='op_dtor', harness='h_op_dtor', enforce='rw_op_dtor'),
        dict(name='lemma_rw_lifecycle', harness='lemma_rw_lifecycle', mode='lemma'),
        dict(name='lemma_rw_init', harness='lemma_rw_init', mode='lemma'),
    ],
    assumptions=[
        'each child operation (source operation, trigger operation) completes exactly once through exactly one of its receiver\'s set_value / set_error / set_done, as its last action, and not before it was started (C01 for the children)',
        'caller obligation: the retry_when operation is destroyed only before start() or after it delivered its completion signal; start() is called once',
        'the receiver may destroy the operation as soon as a completion signal was delivered; a child started with unifex::start() may complete (and finish / destroy the whole operation) before start() returns',
        'strong exception guarantee of activate_union_member_with: a throwing user function / connect() leaves the slot un-activated; unifex::start() and destructors do not throw',
        'source_receiver::set_value is conditionally noexcept: an exception of the receiver\'s set_value propagates into the source operation, the receiver counts as not completed (the source then has to report set_error)',
        'payload identity only: values / errors are opaque tokens; the error handed to the user function is the token the source failed with',
        'the error parameter of source_receiver::set_error / trigger_receiver::set_error is taken by value (as the code comments say), hence outlives the child operation that produced it: not modelled as an object',
    ],
    drops=['template genericity (Values..., Error, Trigger: one symbolic instantiation; triggerOps_ is one slot, as the storage is)',
           '`if constexpr` on is_nothrow_* traits -> symbolic configuration constants CFG_nothrow_source / CFG_nothrow_trigger, both branches verified',
           'std::invoke(func_, error) + connect(trigger sender, trigger_receiver{op}) inside the activate lambda -> one may-throw event stub EV_connect (the trigger sender temporary is not modelled)',
           'explicit template arguments of activate_/deactivate_union_member', 'payload plumbing (perfect forwarding) -> token arguments',
           'UNIFEX_TRY / UNIFEX_CATCH -> goto vf_catch_connect at the may-throw stub',
           'constructor: member initialisers source_/func_/receiver_ (made before any slot is alive) not modelled; an exception from connect propagates out of the constructor',
           'receiver queries, visit_continuations, receiver move constructors'],
)
