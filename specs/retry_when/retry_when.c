/* C02 / C05 / C01 (scoped): include/unifex/retry_when.hpp -- the operation state keeps EITHER the source operation OR the
 * trigger operation alive in union { sourceOp_, triggerOps_ }; `isSourceOpConstructed_` is the discriminator the destructor reads.
 * Bodies marked @BODY / @EXPR are extracted from /repo on every run; everything else here is specification.
 *
 * Sequential code, no atomics: no interference; the content is in the event stubs.
 *   G.slot[s] in { EMPTY, ALIVE, STARTED } per union member (s = the member name written in the source)
 *   connect    : requires both slots EMPTY; the source is re-connected only from the trigger's set_value, the trigger is created
 *                only from the source's set_error, with the user function applied to that error
 *   deactivate : requires the slot alive; a STARTED child only from its OWN completion callback, or by the destructor after that
 *                child has delivered its completion; a never-started child only by the destructor
 *   completion : at most one; the trigger slot EMPTY and the discriminator equal to "source slot alive" (the destructor runs next) */
#include <stddef.h>
#include <stdint.h>

struct rw_op { int source_; int func_; int receiver_; _Bool isSourceOpConstructed_; };
struct rw_rcv { struct rw_op* op_; };            /* _source_receiver / _trigger_receiver: one pointer */
#define rw_trigger rw_rcv
#define rw_source rw_rcv

enum { SL_sourceOp_, SL_triggerOps_, SL_N };
enum { SS_EMPTY, SS_ALIVE, SS_STARTED };
enum { CH_NONE, CH_VALUE, CH_ERROR, CH_DONE };
#define PAY_EXCEPTION (-1)

struct vf_ghost {
  uint8_t slot[SL_N];
  unsigned acts[SL_N], deacts[SL_N];
  _Bool child_completed[SL_N];  /* that child has delivered its completion signal to us */
  int running; int signal; int arg;   /* the child whose completion callback is executing, the channel it completed on, its error token */
  _Bool in_dtor, in_ctor, started;
  int connected; _Bool connect_tried;
  unsigned func_calls, child_starts;
  unsigned completed; int channel; int payload;
  _Bool dead, progressed; struct rw_op snap;
  _Bool connect_threw, rcv_threw, ctor_threw;
};
static struct vf_ghost G;
static struct rw_op OP;
static struct rw_rcv RCV;
static _Bool CFG_nothrow_source, CFG_nothrow_trigger;   /* is_nothrow_connectable_v<Source&, source_receiver> ; nothrow func && nothrow connect of the trigger */

/* member initialiser of the discriminator, as written in the class (a member without initialiser is left nondeterministic) */
#define CONSTRUCTED_INIT_INTO(lv) do { _Bool vf_s /*@EXPR constructed_init*/; (lv) = vf_s; } while (0)

#include "vf.h"
static void vf_interfere(void) {}
#define IMP(a, b) (!(a) || (b))

/* ---- states: (source slot, trigger slot, discriminator, completions) ---- */
#define ST_UNSTARTED(ss, st, fl, co)   ((ss) == SS_ALIVE && (st) == SS_EMPTY && (fl) && (co) == 0)
#define ST_RUN_SOURCE(ss, st, fl, co)  ((ss) == SS_STARTED && (st) == SS_EMPTY && (fl) && (co) == 0)
#define ST_RUN_TRIGGER(ss, st, fl, co) ((ss) == SS_EMPTY && (st) == SS_STARTED && !(fl) && (co) == 0)
#define ST_DONE_SOURCE(ss, st, fl, co) ((ss) == SS_STARTED && (st) == SS_EMPTY && (fl) && (co) == 1)   /* the source's value / done was forwarded: the completed source operation is left to the destructor */
#define ST_DONE_EMPTY(ss, st, fl, co)  ((ss) == SS_EMPTY && (st) == SS_EMPTY && !(fl) && (co) == 1)
#define NOW(ST) ST(G.slot[SL_sourceOp_], G.slot[SL_triggerOps_], OP.isSourceOpConstructed_, G.completed)
#define ALL_EMPTY (G.slot[SL_sourceOp_] == SS_EMPTY && G.slot[SL_triggerOps_] == SS_EMPTY)

static void vf_op_may_be_gone(void) {
  struct rw_op f;
  OP.source_ = f.source_; OP.func_ = f.func_; OP.receiver_ = f.receiver_; OP.isSourceOpConstructed_ = f.isSourceOpConstructed_;
  G.snap = OP; G.dead = 1;
}
#define UNTOUCHED_IF_DEAD (!G.dead || (OP.source_ == G.snap.source_ && OP.func_ == G.snap.func_ && OP.receiver_ == G.snap.receiver_ && OP.isSourceOpConstructed_ == G.snap.isSourceOpConstructed_))
#define VF_DISCR(self) (*({ VF_P(!G.dead, "the discriminator is not read after the operation may have been destroyed"); \
  VF_P(!(self)->isSourceOpConstructed_ == (G.slot[SL_sourceOp_] == SS_EMPTY), "the discriminator isSourceOpConstructed_ equals the ghost at every read: true exactly when the source operation is alive"); &(self)->isSourceOpConstructed_; }))

/* ---------------- event stubs ---------------- */
#define EV_PRE(op) do { VF_P((op) == &OP, "the receiver's op_ is the operation it was connected for"); \
  VF_P(!G.dead, "nothing of the operation is touched after its completion signal was delivered / after a started child may have finished it"); } while (0)

/* activate_union_member_with(op->slot, [&]{ return connect(...); }) ; for the trigger: connect(invoke(func_, error), trigger_receiver{op}) */
static _Bool EV_connect(struct rw_op* op, int s, int token, _Bool in_noexcept_lambda) {
  EV_PRE(op);
  VF_P(s == SL_sourceOp_ || s == SL_triggerOps_, "a child operation slot of this operation");
  VF_P(ALL_EMPTY, "a child operation is constructed only into storage in which nothing is alive (union { sourceOp_, triggerOps_ }): the previous child was destroyed first");
  VF_P(!G.connect_tried, "one child is created per callback");
  G.connect_tried = 1;
  if (s == SL_sourceOp_) {
    VF_P(G.in_ctor || (G.running == SL_triggerOps_ && G.signal == CH_VALUE && G.deacts[SL_triggerOps_] == 1), "the source is re-connected (retried) only after the trigger operation completed with a value and was destroyed");
  } else {
    VF_P(G.running == SL_sourceOp_ && G.signal == CH_ERROR && G.deacts[SL_sourceOp_] == 1, "the trigger is created only from the source's set_error, after the failed source operation was destroyed");
    VF_P(token == G.arg, "the user function is invoked with the error the source failed with");
    G.func_calls++;
  }
  if (in_noexcept_lambda) {
    VF_P(s == SL_sourceOp_ ? CFG_nothrow_source : CFG_nothrow_trigger, "the unguarded (noexcept lambda, no try block) form is used only where the user function and connect are statically nothrow");
  } else if (VF_nondet_bool()) { G.connect_threw = 1; return 1; }   /* strong guarantee: slot not activated */
  if (s >= 0 && s < SL_N) { G.slot[s] = SS_ALIVE; G.acts[s]++; }
  G.connected = s;
  return 0;
}
static void vf_child_started(void) {
  G.child_starts++;
  if (VF_nondet_bool()) { G.progressed = 1; vf_op_may_be_gone(); }     /* the child completed inside start(): further callbacks ran, possibly to the end */
}
static void EV_start_connected(struct rw_op* op) {
  EV_PRE(op);
  VF_P(G.connected >= 0, "only a connected child operation is started");
  if (G.connected >= 0 && G.connected < SL_N) {
    VF_P(G.slot[G.connected] == SS_ALIVE, "the child operation is started once, while alive");
    if (G.connected == SL_sourceOp_) VF_P(op->isSourceOpConstructed_, "the discriminator is set before the re-connected source is started (it may complete, and the operation be destroyed, inside start)");
    else VF_P(!op->isSourceOpConstructed_, "the discriminator is clear while the trigger operation occupies the storage");
    G.slot[G.connected] = SS_STARTED;
  }
  vf_child_started();
}
static void EV_start_source(struct rw_op* op, int s) {
  EV_PRE(op);
  VF_P(s == SL_sourceOp_ && G.slot[SL_sourceOp_] == SS_ALIVE, "start() starts the connected source operation, once");
  G.slot[SL_sourceOp_] = SS_STARTED; G.started = 1;
  vf_child_started();
}
static void EV_deactivate(struct rw_op* op, int s) {
  EV_PRE(op);
  VF_P(s >= 0 && s < SL_N, "a slot of this operation");
  if (!(s >= 0 && s < SL_N)) return;
  VF_P(G.slot[s] != SS_EMPTY, "a child operation is destroyed exactly once, and only if it was constructed");
  if (G.slot[s] == SS_STARTED) VF_P(G.running == s || (G.in_dtor && G.child_completed[s]), "a started child operation is destroyed only by its OWN completion, or by the destructor after it completed (never before that child has completed)");
  else VF_P(G.in_dtor, "a connected, never started child operation is destroyed only by the operation's destructor");
  G.slot[s] = SS_EMPTY; G.deacts[s]++;
}
static void vf_final_pre(struct rw_op* op) {
  EV_PRE(op);
  VF_P(G.started, "no completion signal before start()");
  VF_P(G.completed == 0, "the receiver is completed at most once");
  VF_P(G.slot[SL_triggerOps_] == SS_EMPTY, "the trigger operation has been destroyed when the completion signal is delivered (the destructor never destroys it)");
  VF_P(!op->isSourceOpConstructed_ == (G.slot[SL_sourceOp_] == SS_EMPTY), "at the completion signal the discriminator says exactly whether a source operation is alive: the destructor, which runs next, destroys it exactly once");
  VF_P(G.slot[SL_sourceOp_] == SS_EMPTY || G.running == SL_sourceOp_, "a source operation left to the destructor is the one whose completion is being forwarded (it has completed)");
}
static void vf_final(int ch, int payload) {
  G.completed++; G.channel = ch; G.payload = payload;
  if (G.running == SL_sourceOp_) G.child_completed[SL_sourceOp_] = 1;
  vf_op_may_be_gone();
}
static _Bool EV_set_value(struct rw_op* op, int token) {
  vf_final_pre(op);
  if (VF_nondet_bool()) { G.rcv_threw = 1; return 1; }               /* conditionally noexcept: the exception propagates into the source operation */
  vf_final(CH_VALUE, token);
  return 0;
}
static void EV_set_error(struct rw_op* op, int token) { vf_final_pre(op); vf_final(CH_ERROR, token); }
static void EV_set_done(struct rw_op* op) { vf_final_pre(op); vf_final(CH_DONE, 0); }

/* ---------------- functions under contract ---------------- */
#define NOACT (G.acts[0] == 0 && G.acts[1] == 0 && G.deacts[0] == 0 && G.deacts[1] == 0)
#define FRESH (NOACT && G.connected == -1 && !G.connect_tried && G.func_calls == 0 && G.child_starts == 0 && !G.dead && !G.progressed \
  && !G.connect_threw && !G.rcv_threw && !G.ctor_threw && !G.in_dtor && !G.in_ctor && G.channel == CH_NONE && !G.child_completed[0] && !G.child_completed[1])
#define RCV_OK (self == &RCV && RCV.op_ == &OP)
#define COUNTS(sa, sd, ta, td) (G.acts[SL_sourceOp_] == (sa) && G.deacts[SL_sourceOp_] == (sd) && G.acts[SL_triggerOps_] == (ta) && G.deacts[SL_triggerOps_] == (td))
#define FINAL(ch, pay) (G.completed == 1 && G.channel == (ch) && G.payload == (pay))

/* ---- trigger receiver ---- */
void rw_trigger_destroy_trigger_op(struct rw_rcv* self)
__CPROVER_requires(/*P*/ RCV_OK && !G.dead && G.slot[SL_triggerOps_] == SS_STARTED && G.running == SL_triggerOps_)   /* destroyed once, from the trigger's own completion, before any completion signal */
__CPROVER_assigns(G.slot[SL_triggerOps_], G.deacts[SL_triggerOps_])
__CPROVER_ensures(G.slot[SL_triggerOps_] == SS_EMPTY && G.deacts[SL_triggerOps_] == __CPROVER_old(G.deacts[SL_triggerOps_]) + 1)
/*@BODY trg_destroy*/

#define TRG_REQ(sig) (RCV_OK && NOW(ST_RUN_TRIGGER) && G.started && G.running == SL_triggerOps_ && G.signal == (sig) && FRESH)
void rw_trigger_set_value(struct rw_rcv* self)
__CPROVER_requires(TRG_REQ(CH_VALUE))
__CPROVER_assigns(G, OP)
__CPROVER_ensures(UNTOUCHED_IF_DEAD && G.func_calls == 0)
__CPROVER_ensures(G.completed + G.child_starts == 1)                 /* exactly one of: the source was re-started / the failure to re-connect it was delivered */
__CPROVER_ensures(!G.connect_threw ==> (G.slot[SL_sourceOp_] == SS_STARTED && G.slot[SL_triggerOps_] == SS_EMPTY && COUNTS(1, 0, 0, 1) && G.completed == 0 && (G.dead || OP.isSourceOpConstructed_)))  /* retry: trigger op destroyed, THEN the source re-connected into the same storage and started */
__CPROVER_ensures(G.connect_threw ==> (FINAL(CH_ERROR, PAY_EXCEPTION) && ALL_EMPTY && COUNTS(0, 0, 0, 1)))   /* connect threw: set_error(current_exception), nothing alive */
/*@BODY trg_set_value*/

void rw_trigger_set_done(struct rw_rcv* self)
__CPROVER_requires(TRG_REQ(CH_DONE))
__CPROVER_assigns(G, OP)
__CPROVER_ensures(UNTOUCHED_IF_DEAD && FINAL(CH_DONE, 0) && ALL_EMPTY && COUNTS(0, 0, 0, 1) && G.child_starts == 0 && !G.connect_tried)  /* trigger done: forwarded, no retry */
/*@BODY trg_set_done*/

void rw_trigger_set_error(struct rw_rcv* self, int error)
__CPROVER_requires(TRG_REQ(CH_ERROR))
__CPROVER_assigns(G, OP)
__CPROVER_ensures(UNTOUCHED_IF_DEAD && FINAL(CH_ERROR, error) && ALL_EMPTY && COUNTS(0, 0, 0, 1) && G.child_starts == 0 && !G.connect_tried)  /* trigger error: forwarded unchanged, no retry */
/*@BODY trg_set_error*/

/* ---- source receiver ---- */
#define SRC_REQ(sig) (RCV_OK && NOW(ST_RUN_SOURCE) && G.started && G.running == SL_sourceOp_ && G.signal == (sig) && FRESH)
void rw_source_set_value(struct rw_rcv* self, int values)
__CPROVER_requires(SRC_REQ(CH_VALUE))
__CPROVER_assigns(G, OP)
__CPROVER_ensures(UNTOUCHED_IF_DEAD && NOACT && G.slot[SL_sourceOp_] == SS_STARTED && G.child_starts == 0 && !G.connect_tried)   /* the completed source op is left to the destructor: nothing destroyed while it is still on the stack */
__CPROVER_ensures(!G.rcv_threw ==> FINAL(CH_VALUE, values))          /* the source's values are forwarded unchanged, no retry */
__CPROVER_ensures(G.rcv_threw ==> (G.completed == 0 && !G.dead && OP.isSourceOpConstructed_))
/*@BODY src_set_value*/

void rw_source_set_done(struct rw_rcv* self)
__CPROVER_requires(SRC_REQ(CH_DONE))
__CPROVER_assigns(G, OP)
__CPROVER_ensures(UNTOUCHED_IF_DEAD && NOACT && G.slot[SL_sourceOp_] == SS_STARTED && G.child_starts == 0 && !G.connect_tried && FINAL(CH_DONE, 0))
/*@BODY src_set_done*/

void rw_source_set_error(struct rw_rcv* self, int error)
__CPROVER_requires(SRC_REQ(CH_ERROR) && G.arg == error)
__CPROVER_assigns(G, OP)
__CPROVER_ensures(UNTOUCHED_IF_DEAD)
__CPROVER_ensures(G.completed + G.child_starts == 1 && G.func_calls == 1)   /* the user function is invoked once; then exactly one of: trigger started / failure delivered */
__CPROVER_ensures(!G.connect_threw ==> (G.slot[SL_triggerOps_] == SS_STARTED && G.slot[SL_sourceOp_] == SS_EMPTY && COUNTS(0, 1, 1, 0) && G.completed == 0 && (G.dead || !OP.isSourceOpConstructed_)))
__CPROVER_ensures(G.connect_threw ==> (FINAL(CH_ERROR, PAY_EXCEPTION) && ALL_EMPTY && COUNTS(0, 1, 0, 0)))   /* func / connect threw: set_error(current_exception), nothing alive, discriminator clear */
/*@BODY src_set_error*/

/* ---- the operation state ---- */
void rw_op_ctor(struct rw_op* self)
__CPROVER_requires(self == &OP && ALL_EMPTY && !G.started && G.completed == 0 && G.running == -1 && NOACT && !G.connect_tried && G.connected == -1 && !G.dead && G.in_ctor && !G.ctor_threw && !G.connect_threw && G.child_starts == 0)
__CPROVER_assigns(G, OP)
__CPROVER_ensures(G.completed == 0 && G.child_starts == 0)
__CPROVER_ensures(!G.connect_threw ==> NOW(ST_UNSTARTED))            /* the discriminator's initial value matches the freshly connected source */
__CPROVER_ensures(G.connect_threw ==> ALL_EMPTY)
/*@BODY op_ctor*/

void rw_op_start(struct rw_op* self)
__CPROVER_requires(self == &OP && NOW(ST_UNSTARTED) && !G.started && G.running == -1 && FRESH)
__CPROVER_assigns(G, OP)
__CPROVER_ensures(UNTOUCHED_IF_DEAD && G.child_starts == 1 && G.slot[SL_sourceOp_] == SS_STARTED && G.slot[SL_triggerOps_] == SS_EMPTY && G.started && NOACT && (G.dead || OP.isSourceOpConstructed_))
__CPROVER_ensures(G.completed == 0)
/*@BODY op_start*/

void rw_op_dtor(struct rw_op* self)
__CPROVER_requires(self == &OP && G.running == -1 && NOACT && !G.dead && G.in_dtor \
  && (NOW(ST_UNSTARTED) || (NOW(ST_DONE_SOURCE) && G.child_completed[SL_sourceOp_]) || NOW(ST_DONE_EMPTY)))
__CPROVER_assigns(G, OP)
__CPROVER_ensures(ALL_EMPTY && G.completed == __CPROVER_old(G.completed) && G.child_starts == __CPROVER_old(G.child_starts))
__CPROVER_ensures(G.deacts[SL_sourceOp_] == (__CPROVER_old(G.slot[SL_sourceOp_]) != SS_EMPTY ? 1 : 0) && G.deacts[SL_triggerOps_] == 0 && G.acts[0] == 0 && G.acts[1] == 0)  /* whatever source operation is left is destroyed exactly once */
/*@BODY op_dtor*/

/* ---------------- harnesses ---------------- */
enum { H_NONE, H_UNSTARTED, H_RUN_SOURCE, H_RUN_TRIGGER, H_DONE_SOURCE, H_DONE_EMPTY };
static int h_token(void) { int t = VF_nondet_int(); __CPROVER_assume(t > 0); return t; }
static void h_state(int st, int sig) {
  G.slot[0] = G.slot[1] = SS_EMPTY; G.acts[0] = G.acts[1] = 0; G.deacts[0] = G.deacts[1] = 0; G.child_completed[0] = G.child_completed[1] = 0;
  G.running = -1; G.signal = sig; G.arg = 0; G.in_dtor = 0; G.in_ctor = 0; G.started = 0; G.connected = -1; G.connect_tried = 0; G.func_calls = 0; G.child_starts = 0;
  G.completed = 0; G.channel = CH_NONE; G.payload = 0; G.dead = 0; G.progressed = 0; G.connect_threw = 0; G.rcv_threw = 0; G.ctor_threw = 0;
  CFG_nothrow_source = VF_nondet_bool(); CFG_nothrow_trigger = VF_nondet_bool();
  OP.source_ = VF_nondet_int(); OP.func_ = VF_nondet_int(); OP.receiver_ = VF_nondet_int(); CONSTRUCTED_INIT_INTO(OP.isSourceOpConstructed_); RCV.op_ = &OP;
  if (st >= H_RUN_SOURCE) G.started = 1;
  switch (st) {
    case H_UNSTARTED: G.slot[SL_sourceOp_] = SS_ALIVE; OP.isSourceOpConstructed_ = 1; break;
    case H_RUN_SOURCE: G.slot[SL_sourceOp_] = SS_STARTED; OP.isSourceOpConstructed_ = 1; G.running = SL_sourceOp_; break;
    case H_RUN_TRIGGER: G.slot[SL_triggerOps_] = SS_STARTED; OP.isSourceOpConstructed_ = 0; G.running = SL_triggerOps_; break;
    case H_DONE_SOURCE: G.slot[SL_sourceOp_] = SS_STARTED; OP.isSourceOpConstructed_ = 1; G.child_completed[SL_sourceOp_] = 1; G.completed = 1; break;
    case H_DONE_EMPTY: OP.isSourceOpConstructed_ = 0; G.completed = 1; break;
    default: break;
  }
}
void h_trg_destroy(void) { h_state(H_RUN_TRIGGER, VF_nondet_bool() ? CH_VALUE : CH_DONE); rw_trigger_destroy_trigger_op(&RCV); VF_CANARY("after destroy_trigger_op"); }
void h_trg_set_value(void) {
  h_state(H_RUN_TRIGGER, CH_VALUE); rw_trigger_set_value(&RCV); VF_CANARY("after trigger set_value");
  if (G.connect_threw) { VF_CANARY("re-connecting the source can throw"); } else { VF_CANARY("source re-started"); }
  if (CFG_nothrow_source) { VF_CANARY("nothrow-connect configuration"); } else { VF_CANARY("may-throw-connect configuration"); }
  if (G.progressed) { VF_CANARY("the re-started source can complete inside start"); }
}
void h_trg_set_done(void) { h_state(H_RUN_TRIGGER, CH_DONE); rw_trigger_set_done(&RCV); VF_CANARY("after trigger set_done"); }
void h_trg_set_error(void) { h_state(H_RUN_TRIGGER, CH_ERROR); rw_trigger_set_error(&RCV, h_token()); VF_CANARY("after trigger set_error"); }
void h_src_set_value(void) {
  h_state(H_RUN_SOURCE, CH_VALUE); rw_source_set_value(&RCV, h_token()); VF_CANARY("after source set_value");
  if (G.rcv_threw) { VF_CANARY("the receiver's set_value can throw"); } else { VF_CANARY("value forwarded"); }
}
void h_src_set_done(void) { h_state(H_RUN_SOURCE, CH_DONE); rw_source_set_done(&RCV); VF_CANARY("after source set_done"); }
void h_src_set_error(void) {
  h_state(H_RUN_SOURCE, CH_ERROR); G.arg = h_token(); rw_source_set_error(&RCV, G.arg); VF_CANARY("after source set_error");
  if (G.connect_threw) { VF_CANARY("the user function / connect of the trigger can throw"); } else { VF_CANARY("trigger started"); }
  if (CFG_nothrow_trigger) { VF_CANARY("nothrow-trigger configuration"); } else { VF_CANARY("may-throw-trigger configuration"); }
}
void h_op_ctor(void) {
  h_state(H_NONE, CH_NONE); G.in_ctor = 1; rw_op_ctor(&OP); VF_CANARY("after the constructor");
  if (G.connect_threw) { VF_CANARY("connect(source) can throw in the constructor"); } else { VF_CANARY("source connected"); }
}
void h_op_start(void) { h_state(H_UNSTARTED, CH_NONE); rw_op_start(&OP); VF_CANARY("after start()"); if (G.progressed) { VF_CANARY("the source can complete inside start()"); } }
void h_op_dtor(void) {
  int k = VF_nondet_int();
  h_state(k == 0 ? H_UNSTARTED : k == 1 ? H_DONE_SOURCE : H_DONE_EMPTY, CH_NONE); G.in_dtor = 1;
  rw_op_dtor(&OP); VF_CANARY("after the destructor");
  if (k == 0) { VF_CANARY("destructor of a never-started operation"); } else if (k == 1) { VF_CANARY("destructor after the source's value/done was forwarded"); } else { VF_CANARY("destructor after a trigger / failure path"); }
}

/* ---------------- M4 lemmas over the contracts ---------------- */
struct rw_state { uint8_t ss, st; _Bool fl; unsigned co; };
#define AT(ST, s) ST((s).ss, (s).st, (s).fl, (s).co)
#define INV(s) (AT(ST_UNSTARTED, s) || AT(ST_RUN_SOURCE, s) || AT(ST_RUN_TRIGGER, s) || AT(ST_DONE_SOURCE, s) || AT(ST_DONE_EMPTY, s))
void lemma_rw_lifecycle(void) {
  struct rw_state a, b;
  a.ss = VF_nondet_u8(); a.st = VF_nondet_u8(); a.fl = VF_nondet_bool(); a.co = VF_nondet_u32();
  b.ss = VF_nondet_u8(); b.st = VF_nondet_u8(); b.fl = VF_nondet_bool(); b.co = VF_nondet_u32();
  __CPROVER_assume(INV(a));
  int step = VF_nondet_int();
  _Bool en =
      step == 0 ? (AT(ST_UNSTARTED, a) && AT(ST_RUN_SOURCE, b))                                   /* start() */
    : step == 1 ? (AT(ST_RUN_SOURCE, a) && (AT(ST_DONE_SOURCE, b) || AT(ST_RUN_SOURCE, b)))       /* source set_value (forwarded, or the receiver threw back into the source) */
    : step == 2 ? (AT(ST_RUN_SOURCE, a) && AT(ST_DONE_SOURCE, b))                                 /* source set_done */
    : step == 3 ? (AT(ST_RUN_SOURCE, a) && (AT(ST_RUN_TRIGGER, b) || AT(ST_DONE_EMPTY, b)))       /* source set_error */
    : step == 4 ? (AT(ST_RUN_TRIGGER, a) && (AT(ST_RUN_SOURCE, b) || AT(ST_DONE_EMPTY, b)))       /* trigger set_value: retry */
    : step == 5 ? (AT(ST_RUN_TRIGGER, a) && AT(ST_DONE_EMPTY, b))                                 /* trigger set_done / set_error */
    : 0;
  __CPROVER_assume(en);
  VF_CANARY("lemma premises satisfiable");
  if (step == 4 && b.co == 0) { VF_CANARY("lemma: retry step possible"); }
  VF_P(INV(b), "lemma: every contract step leads from a named state to a named state");
  VF_P(!(a.ss != SS_EMPTY && a.st != SS_EMPTY), "lemma: at most one of the source / trigger operations is alive at any time (the union is never shared)");
  VF_P(!a.fl == (a.ss == SS_EMPTY), "lemma: in every state between callbacks the discriminator is true exactly when the source operation is alive (what the destructor relies on)");
  VF_P(IMP(a.ss != SS_STARTED && a.st != SS_STARTED, AT(ST_UNSTARTED, a) || AT(ST_DONE_EMPTY, a)) && IMP(a.co == 1, AT(ST_DONE_SOURCE, a) || AT(ST_DONE_EMPTY, a)), "lemma: whenever the operation may be destroyed (unstarted or completed) the destructor's precondition holds");
  VF_P(b.co >= a.co && b.co <= 1 && IMP(a.co == 1, 0), "lemma: one completion signal at most; no step is enabled after it");
  VF_P(IMP(AT(ST_RUN_SOURCE, b) && !AT(ST_UNSTARTED, a) && !AT(ST_RUN_SOURCE, a), AT(ST_RUN_TRIGGER, a) && step == 4), "lemma: the source runs again only after the trigger completed with a value");
}
void lemma_rw_init(void) {
  struct rw_state i; i.ss = SS_ALIVE; i.st = SS_EMPTY; CONSTRUCTED_INIT_INTO(i.fl); i.co = 0;     /* what the constructor leaves, with the member initialiser from the code */
  VF_P(AT(ST_UNSTARTED, i), "lemma: a freshly constructed operation is in the unstarted state (isSourceOpConstructed_ initialised to true, source connected)");
  VF_P(INV(i), "lemma: the initial state satisfies the invariant");
  VF_CANARY("lemma_rw_init reachable");
}
