/* C16: async_auto_reset_event (source/async_auto_reset_event.cpp, include/unifex/async_auto_reset_event.hpp).
 * Monitor: mutex_ protects state_ (UNSET | SET | DONE) and the readiness of the inner manual-reset event_.
 *   monitor invariant LI:  event_ ready  <=>  state_ is SET or DONE
 * Acquire = other threads may have run: the protected state is havocked subject to LI (and to what the caller
 * knows: a consumer that saw the event ready and is the only one who resets).  Release = LI checked, step recorded.
 * Bodies marked @BODY/@EXPR are extracted from /repo on every run; everything else is specification. */
#include <stddef.h>
struct vf_ghost {
  _Bool ev_ready;                         /* readiness of the inner event (its state_ == signalled) */
  unsigned ev_set_calls, ev_reset_calls;  /* calls into the inner event made by the verified call */
  _Bool known_ready;                      /* caller knowledge: the consumer's async_wait completed and it is the single consumer */
  int acq_state; _Bool acq_ready;         /* protected state as found at the acquire */
  int rel_state; _Bool rel_ready;         /* ... as left at the release */
};
static struct vf_ghost G;
#include "vf.h"
#include "vf_monitor.h"
static void vf_interfere(void) { VF_P(0, "no atomic access is expected: the protocol is monitor based"); }

enum { /*@EXPR state_enum*/ };
struct amre { int opaque; };
struct aare { struct vf_mutex mutex_; int state_; struct amre event_; };
static struct aare A;

/* ---------------- protocol predicates (from the property statement) ---------------- */
#define LI(s, r)            ((r) == ((s) != state_UNSET))
#define STEP_SET(o, n)      ((o) != state_DONE ? (n) == state_SET : (n) == state_DONE)   /* set(): SET unless DONE (absorbing) */
#define STEP_SET_DONE(o, n) ((n) == state_DONE)
#define STEP_RESET_OK(o, n) ((o) == state_SET && (n) == state_UNSET)                    /* try_reset() == true: consumes the SET */
#define STEP_RESET_NO(o, n) ((o) == state_DONE && (n) == state_DONE)                    /* try_reset() == false: permanently done */

static void vf_monitor_enter(struct vf_mutex* m) {
  VF_P(m == &A.mutex_, "the monitor's own mutex");
  int s = VF_nondet_int();
  __CPROVER_assume(s == state_UNSET || s == state_SET || s == state_DONE);
  __CPROVER_assume(G.known_ready ==> s != state_UNSET);
  A.state_ = s; G.ev_ready = (s != state_UNSET);
  G.acq_state = s; G.acq_ready = G.ev_ready;
}
static void vf_monitor_exit(struct vf_mutex* m) {
  VF_P(LI(A.state_, G.ev_ready), "monitor invariant restored at release: inner event ready <=> state is SET or DONE");
  VF_P(G.acq_state == state_DONE ==> A.state_ == state_DONE, "DONE is absorbing");
  VF_P(A.state_ == G.acq_state || STEP_SET(G.acq_state, A.state_) || STEP_SET_DONE(G.acq_state, A.state_) || STEP_RESET_OK(G.acq_state, A.state_),
       "guarantee: every critical section leaves the state unchanged or makes one of the steps set / set_done / successful reset");
  G.rel_state = A.state_; G.rel_ready = G.ev_ready;
}
static void vf_cv_wait_check(struct vf_cv* cv, struct vf_mutex* m) { VF_P(0, "no condition variable here"); }

/* inner event (contract of group event_v1, over the ghost readiness flag); only touched under the monitor here */
static void EV_event_set(struct amre* e) {
  VF_CANARY("inner event can be set");
  VF_P(e == &A.event_ && A.mutex_.held, "the inner event is set only under the monitor");
  G.ev_ready = 1; G.ev_set_calls++;
}
static void EV_event_reset(struct amre* e) {
  VF_CANARY("inner event can be reset");
  VF_P(e == &A.event_ && A.mutex_.held, "the inner event is reset only under the monitor");
  G.ev_ready = 0; G.ev_reset_calls++;
}
static _Bool EV_event_ready(struct amre* e) {
  VF_P(e == &A.event_ && A.mutex_.held, "the inner event's readiness is read under the monitor");
  return G.ev_ready;
}

/* ---------------- construction ---------------- */
static void AARE_init(struct aare* self, _Bool startReady) {
  self->state_ = /*@EXPR state_member_init*/;      /* default member initialiser ... */
  self->state_ = /*@EXPR state_ctor*/;             /* ... overridden by the constructor's mem-initialiser */
  G.ev_ready = /*@EXPR event_ctor*/;               /* event_(startReady): v1 event starts signalled iff asked (lemma_event_init of group event_v1) */
}
static void AARE_init_default(struct aare* self) { AARE_init(self, /*@EXPR default_arg*/); }

/* ---------------- functions under contract ---------------- */
#define MON_REQ(self) ((self) == &A && !A.mutex_.held && A.mutex_.acquired == 0 && A.mutex_.released == 0 && G.ev_set_calls == 0 && G.ev_reset_calls == 0)
#define MON_ENS       (!A.mutex_.held && A.mutex_.acquired == 1 && A.mutex_.released == 1)   /* one critical section, released on every exit */

void AARE_set(struct aare* self)
__CPROVER_requires(MON_REQ(self) && !G.known_ready)
__CPROVER_assigns(A, G)
__CPROVER_ensures(MON_ENS)
__CPROVER_ensures(G.acq_state == state_DONE ==> (G.rel_state == state_DONE && G.ev_set_calls == 0 && G.ev_reset_calls == 0)) /* DONE is absorbing: set() after set_done does nothing */
__CPROVER_ensures(G.acq_state != state_DONE ==> (G.rel_state == state_SET && G.ev_set_calls == 1 && G.ev_reset_calls == 0 && G.rel_ready)) /* otherwise SET and the waiters are woken */
/*@BODY set*/

void AARE_set_done(struct aare* self)
__CPROVER_requires(MON_REQ(self) && !G.known_ready)
__CPROVER_assigns(A, G)
__CPROVER_ensures(MON_ENS)
__CPROVER_ensures(G.rel_state == state_DONE && G.ev_set_calls == 1 && G.ev_reset_calls == 0 && G.rel_ready) /* permanently done, waiters woken */
/*@BODY set_done*/

/* Two configurations of the same extracted body.  Debug (default unit): UNIFEX_ASSERT is an obligation and the stream
 * contract "one next() at a time" is a precondition (the event is known ready at entry).  Release (unit try_reset_release,
 * -DVF_RELEASE_CFG): UNIFEX_ASSERT compiles to nothing and next() senders of several consumers may overlap, so another
 * consumer may already have consumed the SET: the state at the acquire is arbitrary, and "each set() is handed to at most
 * one next()" needs try_reset() to succeed from SET only and to leave every other state alone. */
#ifdef VF_RELEASE_CFG
#undef VF_ASSERT
#define VF_ASSERT(e) ((void)0)
#define TR_REQ(self) (MON_REQ(self))
#define TR_FALSE_POST (G.acq_state != state_SET && G.rel_state == G.acq_state && G.ev_reset_calls == 0 && G.ev_set_calls == 0 && G.rel_ready == G.acq_ready)
#else
#define TR_REQ(self) (MON_REQ(self) && G.known_ready)
#define TR_FALSE_POST (G.acq_state == state_DONE && G.rel_state == state_DONE && G.ev_reset_calls == 0 && G.ev_set_calls == 0 && G.rel_ready)
#endif
_Bool AARE_try_reset(struct aare* self)
__CPROVER_requires(TR_REQ(self))
__CPROVER_assigns(A, G)
__CPROVER_ensures(MON_ENS)
__CPROVER_ensures((__CPROVER_return_value != 0) == (G.acq_state == state_SET)) /* true only from SET */
__CPROVER_ensures(__CPROVER_return_value ==> (G.rel_state == state_UNSET && G.ev_reset_calls == 1 && G.ev_set_calls == 0 && !G.rel_ready)) /* consumes the SET and resets the inner event: the next wait blocks until another set() */
__CPROVER_ensures(!__CPROVER_return_value ==> TR_FALSE_POST) /* false: nothing changed (debug: only when permanently done; release: also when another consumer already took the SET) */
/*@BODY try_reset*/

/* ---------------- harnesses ---------------- */
static void h_init(_Bool known_ready) {
  A.mutex_.held = 0; A.mutex_.acquired = 0; A.mutex_.released = 0;
  A.state_ = VF_nondet_int(); G.ev_ready = VF_nondet_bool();     /* unprotected reads would be meaningless: everything is re-established at the acquire */
  G.ev_set_calls = 0; G.ev_reset_calls = 0; G.known_ready = known_ready; G.acq_state = -1; G.rel_state = -1; G.acq_ready = 0; G.rel_ready = 0;
}
void h_set(void) { h_init(0); AARE_set(&A); VF_CANARY("after set"); if (G.acq_state == state_DONE) { VF_CANARY("set can find the event done"); } }
void h_set_done(void) { h_init(0); AARE_set_done(&A); VF_CANARY("after set_done"); }
#ifdef VF_RELEASE_CFG
void h_try_reset(void) { h_init(0); _Bool r = AARE_try_reset(&A); if (!r && G.acq_state == state_UNSET) { VF_CANARY("release configuration: try_reset can find the SET already consumed by another consumer"); }
#else
void h_try_reset(void) { h_init(1); _Bool r = AARE_try_reset(&A);
#endif
  VF_CANARY("after try_reset"); if (r) { VF_CANARY("try_reset can consume a SET"); } else { VF_CANARY("try_reset can find the event done"); } }

/* ---------------- M4 lemmas over the contracts ---------------- */
void lemma_aare_init(void) {
  VF_P(state_UNSET == 0 && state_SET == 1 && state_DONE == 2, "lemma: three distinct states in source order");
  AARE_init_default(&A);
  VF_P(A.state_ == state_UNSET && !G.ev_ready, "lemma: a default-constructed event is unset and its inner event is not ready");
  _Bool r = VF_nondet_bool() ? 1 : 0;   /* canonical truth value (an uninitialised _Bool is an arbitrary byte for CBMC) */
  AARE_init(&A, r);
  VF_P(A.state_ == (r ? state_SET : state_UNSET), "lemma: async_auto_reset_event(startReady) starts SET iff asked to");
  VF_P(LI(A.state_, G.ev_ready), "lemma: the initial state satisfies the monitor invariant");
  VF_CANARY("lemma_aare_init reachable");
}
/* two consecutive critical sections of any parties, each summarised by its contract */
void lemma_aare_protocol(void) {
  int s0 = VF_nondet_int(), s1 = VF_nondet_int(), s2 = VF_nondet_int();
  __CPROVER_assume(s0 >= state_UNSET && s0 <= state_DONE && s1 >= state_UNSET && s1 <= state_DONE && s2 >= state_UNSET && s2 <= state_DONE);
  int k1 = VF_nondet_int(), k2 = VF_nondet_int();   /* 0 set, 1 set_done, 2 try_reset */
  __CPROVER_assume(k1 >= 0 && k1 <= 2 && k2 >= 0 && k2 <= 2);
  /* try_reset is entered only with the event ready (stream contract: see assumptions) */
  __CPROVER_assume(k1 == 2 ==> s0 != state_UNSET);
  __CPROVER_assume(k2 == 2 ==> s1 != state_UNSET);
  __CPROVER_assume(k1 == 0 ? STEP_SET(s0, s1) : k1 == 1 ? STEP_SET_DONE(s0, s1) : (STEP_RESET_OK(s0, s1) || STEP_RESET_NO(s0, s1)));
  __CPROVER_assume(k2 == 0 ? STEP_SET(s1, s2) : k2 == 1 ? STEP_SET_DONE(s1, s2) : (STEP_RESET_OK(s1, s2) || STEP_RESET_NO(s1, s2)));
  VF_CANARY("lemma premises satisfiable");
  _Bool ok1 = (k1 == 2 && STEP_RESET_OK(s0, s1)), ok2 = (k2 == 2 && STEP_RESET_OK(s1, s2));   /* try_reset returned true, by its contract */
  VF_P(s0 == state_DONE ==> (s1 == state_DONE && s2 == state_DONE), "lemma: DONE is absorbing (permanently done after set_done / cancellation)");
  VF_P(!(ok1 && ok2), "lemma: two successful try_reset() are separated by a set(): each SET is consumed by at most one next()");
  VF_P(ok1 ==> s0 == state_SET, "lemma: a successful try_reset() consumes a SET");
  VF_P((k1 == 2 && !ok1) ==> (s0 == state_DONE), "lemma: try_reset() fails only when the event is permanently done");
  VF_P((s1 == state_SET && s0 != state_SET) ==> k1 == 0, "lemma: only set() produces a SET");
  VF_P(ok1 ==> s1 == state_UNSET, "lemma: after a successful try_reset() the event is unset (the inner event was reset: the next wait blocks until another set)");
}
