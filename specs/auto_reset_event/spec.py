CPP = 'source/async_auto_reset_event.cpp'
H = 'include/unifex/async_auto_reset_event.hpp'
CLS = r'struct async_auto_reset_event final \{'

ctx = dict(
    cls='AARE',
    members=['mutex_', 'state_', 'event_'],
    enums={'state': 'state'},
    # the inner (v1) async_manual_reset_event: represented by its contract (group event_v1) as event stubs
    obj_methods={'set': 'EV_event_set', 'reset': 'EV_event_reset', 'ready': 'EV_event_ready'},
)
# `std::lock_guard lock{mutex_};` is rewritten by the global lock rule (vf/cxx2c.py rewrite_locks): VF_ACQUIRE at the
# declaration, VF_SCOPE_EXIT before every return and at the end of the declaring block (prelude/vf_monitor.h)

SPEC = dict(
    properties=['C16'],
    ctx=ctx,
    extracts={
        'state_enum': dict(file=H, kind='expr', sig=r'enum class state \{ ([^}]*) \};', within=CLS,
                           ctx=dict(post=[(r'\b([A-Z][A-Z_]*)\b', r'state_\1')])),     # enumerators in source order, prefixed like state::X -> state_X
        'default_arg': dict(file=H, kind='expr', sig=r'async_auto_reset_event\(\) noexcept : async_auto_reset_event\(([^)]*)\) \{\}', within=CLS),
        'state_ctor': dict(file=H, kind='expr', sig=r'explicit async_auto_reset_event\(bool startReady\) noexcept\s*: state_\((.*?)\)\s*, event_', within=CLS),
        'event_ctor': dict(file=H, kind='expr', sig=r', event_\(([^)]*)\) \{\}', within=CLS),
        'state_member_init': dict(file=H, kind='expr', sig=r'state state_\{([^}]*)\};', within=CLS),
        'set': dict(file=CPP, sig=r'void async_auto_reset_event::set\(\) noexcept'),
        'set_done': dict(file=CPP, sig=r'void async_auto_reset_event::set_done\(\) noexcept'),
        'try_reset': dict(file=CPP, sig=r'bool async_auto_reset_event::try_reset\(\) noexcept'),
    },
    closed_world=[
        dict(file=CPP, members=['state_', 'event_', 'mutex_']),
        dict(file=H, members=['state_', 'event_', 'mutex_'], within=CLS,
             allow=[r'explicit async_auto_reset_event\(bool startReady\) noexcept\s*: state_\(.*?\)\s*, event_\(', r'std::mutex mutex_;',
                    r'state state_\{', r'unifex::async_manual_reset_event event_;']),
        # the only access outside the monitor: next() waits on the inner event (pushes a waiter; never changes readiness)
        dict(file=H, members=[r'evt->event_'], allow=[r'evt->event_\.async_wait\(\)']),
    ],
    units=[
        dict(name='set', harness='h_set', enforce='AARE_set'),
        dict(name='set_done', harness='h_set_done', enforce='AARE_set_done'),
        dict(name='try_reset', harness='h_try_reset', enforce='AARE_try_reset'),
        dict(name='try_reset_release', harness='h_try_reset', enforce='AARE_try_reset', defines=['VF_RELEASE_CFG']),   # NDEBUG build, overlapping consumers
        dict(name='lemma_aare_init', harness='lemma_aare_init', mode='lemma'),
        dict(name='lemma_aare_protocol', harness='lemma_aare_protocol', mode='lemma'),
    ],
    assumptions=[
        'std::mutex / std::lock_guard behave as a monitor: mutual exclusion; acquire = other threads may have run (protected state havocked subject to the monitor invariant)',
        'stream contract: next() senders do not overlap (single consumer), so nobody else resets the event between the completion of the consumer\'s async_wait and its try_reset(): '
        'try_reset() is entered with the inner event ready (the code asserts it) - unit try_reset only; unit try_reset_release drops this assumption (release build: assertions are no-ops, several consumers)',
        'the inner async_manual_reset_event obeys its contract (group event_v1): set() makes it ready and wakes every waiter, reset() only un-signals, ready() reads the flag; '
        'waiters touch it outside the monitor only by pushing themselves (readiness unchanged)',
        'stream_view::next()/cleanup() (template composition: let_value_with_stop_token, stop callback calling set_done) are not reached',
    ],
    drops=['noexcept', 'enum class scoping (state::X -> state_X)', 'RAII unlock made explicit at every exit (global lock rule)',
           'event_.set()/reset()/ready() -> event stubs over a ghost readiness flag'],
)
