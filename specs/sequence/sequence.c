/* C02 / C05 / C01: unifex::sequence(predecessor, successor) -- include/unifex/sequence.hpp.
 *
 * _op::type keeps ONE child operation state alive in  union { predOp_, succOp_ }  and the discriminator status_ tells
 * the destructor which.  Sequential code (no atomics): the whole value is in the event stubs of slots.h --
 *   - per slot a ghost state NONE / ALIVE / STARTED / COMPLETING; activate requires that NO member of the union is alive,
 *     deactivate requires alive and not running, start requires alive-and-not-started and a truthful discriminator;
 *   - a completion signal requires: none before, a truthful discriminator and no running child (the receiver may destroy
 *     the operation right there: ~type() then destroys exactly the alive child), and nothing of the operation is touched
 *     afterwards (dead-object snapshot + VF_ALIVE on every access);
 *   - connect() of the successor may throw (strong guarantee): -> set_error(current_exception) exactly once, with
 *     status_ == empty and nothing alive.
 * Bodies marked @BODY / @EXPR are extracted from /repo on every run; everything else is specification. */
#include <stddef.h>
#include <stdint.h>

enum seq_status { /*@EXPR status_enum*/ };
struct seq_op { int status_; };
struct pred_rcv { struct seq_op* op_; };
struct succ_rcv { struct seq_op* op_; };
static struct seq_op OP;
static struct pred_rcv PRCV;
static struct succ_rcv SRCV;
static _Bool VF_CFG_nothrow_connect;     /* is_nothrow_connectable_v<Successor, successor_receiver_t> */

enum { SL_pred, SL_succ };
#define STATUS_INIT (/*@EXPR status_init*/)

#define VF_NSLOT 2
#define VF_OP_T struct seq_op
#define VF_OP_HAVOC() do { OP.status_ = VF_nondet_int(); } while (0)
#define VF_OP_EQ(a, b) ((a).status_ == (b).status_)
#define VF_SLOT_IS_OP(s) 1
#define VF_UNION_EMPTY(s) (G.slot[SL_pred] == LS_NONE && G.slot[SL_succ] == LS_NONE)
/* the discriminator tells the truth: status_ names exactly the member of the union that is alive */
#define DISCR_OK_(st, p, s) ( ((st) == ST_empty && (p) == LS_NONE && (s) == LS_NONE) \
   || ((st) == ST_predecessor_operation_constructed && (p) != LS_NONE && (s) == LS_NONE) \
   || ((st) == ST_successor_operation_constructed && (p) == LS_NONE && (s) != LS_NONE) )
#define VF_DISCR_OK(op) DISCR_OK_((op)->status_, G.slot[SL_pred], G.slot[SL_succ])
/* C05: the successor is connected only inside the predecessor's VALUE completion, after the predecessor operation was destroyed */
#define VF_CHECK_CONSTRUCT(op, s) do { if ((s) == SL_succ) { \
    VF_P(G.running == SL_pred && G.signal == CH_VALUE, "C05: the successor is connected only after the predecessor completed with set_value (error / done short-circuit: the successor is never constructed)"); \
    VF_P(G.deacts[SL_pred] == 1, "C02/C05: the successor is connected only after the predecessor operation state was destroyed (they share storage)"); } \
  else { VF_P(G.running == -1 && G.acts[SL_pred] == 0, "the predecessor is connected once, by the constructor"); } } while (0)
#define VF_CHECK_DESTROY(op, s) do { } while (0)
#define VF_CHECK_START(op, s) do { G.status_at_start = (op)->status_; if ((s) == SL_succ) { VF_P(G.running == SL_pred && G.signal == CH_VALUE && G.deacts[SL_pred] == 1, "C05: the successor is started only after the predecessor finished with a value and was destroyed"); } \
  else { VF_P(G.running == -1, "the predecessor is started by start() only"); } } while (0)
#define VF_CHECK_COMPLETE(op, ch) do { G.status_atc = (op)->status_; } while (0)
/* connect(successor) can throw only when it is not noexcept; connect(predecessor) in the constructor always may */
#define VF_MAY_THROW(s) ((s) == SL_pred || !VF_CFG_nothrow_connect)
#define VF_GHOST_EXTRA int status_atc; int status_at_start;   /* status_ when the completion signal was delivered / when the successor was started */
#define VF_RCV_HAVOC() do { PRCV.op_ = NULL; SRCV.op_ = NULL; } while (0)
#include "slots.h"

/* the noexcept connect lambda (taken when is_nothrow_connectable_v): a throw inside would terminate */
static void EV_activate_nothrow(struct seq_op* op, int s) {
  VF_P(VF_CFG_nothrow_connect, "P-int: the noexcept connect path is taken only when connect cannot throw (a throwing connect would reach std::terminate)");
  (void)vf_slot_construct(op, s, 0);
}

/* ---------------- contracts ---------------- */
#define A_ALL OP, PRCV, SRCV, G
#define OP_AFTER_CTOR (OP.status_ == ST_predecessor_operation_constructed && G.slot[SL_pred] == LS_ALIVE && G.slot[SL_succ] == LS_NONE)
#define PRED_COMPLETING (OP.status_ == ST_predecessor_operation_constructed && G.slot[SL_pred] == LS_COMPLETING && G.slot[SL_succ] == LS_NONE && G.running == SL_pred)
#define SUCC_COMPLETING (OP.status_ == ST_successor_operation_constructed && G.slot[SL_pred] == LS_NONE && G.slot[SL_succ] == LS_COMPLETING && G.running == SL_succ)
#define NO_UNION_EVENTS VF_ZERO_COUNTS

/* _op::type constructor: successor_, receiver_ and status_ are initialised by the mem-initialiser list (status_init is
 * extracted from it), then the body connects the predecessor into predOp_.  A throwing connect leaves the constructor. */
void seq_op_ctor(struct seq_op* self)
__CPROVER_requires(self == &OP && VF_FRESH_CALL && VF_ALL_NONE && G.running == -1 && self->status_ == STATUS_INIT)
__CPROVER_assigns(A_ALL)
__CPROVER_ensures(G.throws == 0 ==> (OP_AFTER_CTOR && VF_DESTRUCTIBLE(&OP) && G.acts[SL_pred] == 1))   /* C02: the discriminator is initialised and names predOp_: the operation may be destroyed without being started */
__CPROVER_ensures(G.throws != 0 ==> (VF_ALL_NONE && G.acts[SL_pred] == 0))                      /* connect threw: nothing was constructed (the exception leaves connect(); ~type() does not run) */
__CPROVER_ensures(G.completed == 0 && G.starts[SL_pred] == 0 && G.starts[SL_succ] == 0 && G.acts[SL_succ] == 0 && G.deacts[SL_pred] == 0 && G.deacts[SL_succ] == 0 && !G.dead) /* C01: nothing delivered, nothing started */
/*@BODY ctor*/

/* ~type(): destroys exactly the alive member named by status_ */
void seq_op_dtor(struct seq_op* self)
__CPROVER_requires(self == &OP && VF_FRESH_CALL && VF_DESTRUCTIBLE(&OP) && G.running == -1)
__CPROVER_assigns(A_ALL)
__CPROVER_ensures(VF_ALL_NONE)                                                                   /* nothing leaked */
__CPROVER_ensures(G.deacts[SL_pred] == (__CPROVER_old(G.slot[SL_pred]) != LS_NONE ? 1u : 0u) && G.deacts[SL_succ] == (__CPROVER_old(G.slot[SL_succ]) != LS_NONE ? 1u : 0u)) /* each alive child destroyed exactly once */
__CPROVER_ensures(G.completed == 0 && G.acts[SL_pred] == 0 && G.acts[SL_succ] == 0 && G.starts[SL_pred] == 0 && G.starts[SL_succ] == 0)
/*@BODY dtor*/

/* start(): starts the predecessor, nothing else; nothing is touched afterwards */
void seq_op_start(struct seq_op* self)
__CPROVER_requires(self == &OP && VF_FRESH_CALL && OP_AFTER_CTOR && G.running == -1)
__CPROVER_assigns(A_ALL)
__CPROVER_ensures(G.starts[SL_pred] == 1 && G.slot[SL_pred] == LS_STARTED && G.starts[SL_succ] == 0)
__CPROVER_ensures(G.completed == 0 && G.acts[SL_pred] == 0 && G.acts[SL_succ] == 0 && G.deacts[SL_pred] == 0 && G.deacts[SL_succ] == 0) /* C01: start() itself delivers nothing */
__CPROVER_ensures(G.dead && UNTOUCHED)
/*@BODY start*/

/* predecessor completed with a value: destroy it, connect the successor into the same storage, start it.
 * A throwing connect -> set_error(current_exception), exactly once, with status_ == empty and nothing alive. */
void pred_rcv_set_value(struct pred_rcv* self)
__CPROVER_requires(self == &PRCV && PRCV.op_ == &OP && VF_FRESH_CALL && PRED_COMPLETING && G.signal == CH_VALUE)
__CPROVER_assigns(A_ALL)
__CPROVER_ensures(G.deacts[SL_pred] == 1 && G.acts[SL_pred] == 0 && G.deacts[SL_succ] == 0)                                     /* the completed predecessor is destroyed exactly once */
__CPROVER_ensures(G.throws == 0 ==> (G.acts[SL_succ] == 1 && G.starts[SL_succ] == 1 && G.slot[SL_succ] == LS_STARTED && G.slot[SL_pred] == LS_NONE \
                                     && G.status_at_start == ST_successor_operation_constructed && G.completed == 0))          /* C05: next step started, nothing delivered by this call */
__CPROVER_ensures(G.throws != 0 ==> (!VF_CFG_nothrow_connect && G.throws == 1 && VF_COMPLETED_ON(CH_ERROR_EXCEPTION) && G.status_atc == ST_empty \
                                     && G.atc[SL_pred] == LS_NONE && G.atc[SL_succ] == LS_NONE && G.acts[SL_succ] == 0 && G.starts[SL_succ] == 0)) /* C02/C05: connect threw */
__CPROVER_ensures(G.dead && UNTOUCHED && G.starts[SL_pred] == 0)
/*@BODY pred_set_value*/

/* predecessor error / done: forwarded unchanged, the successor never constructed */
void pred_rcv_set_error(struct pred_rcv* self)
__CPROVER_requires(self == &PRCV && PRCV.op_ == &OP && VF_FRESH_CALL && PRED_COMPLETING && G.signal == CH_ERROR)
__CPROVER_assigns(A_ALL)
__CPROVER_ensures(VF_COMPLETED_ON(CH_ERROR))
__CPROVER_ensures(G.acts[SL_succ] == 0 && G.starts[SL_succ] == 0 && G.acts[SL_pred] == 0 && G.starts[SL_pred] == 0 && G.atc[SL_succ] == LS_NONE)
/*@BODY pred_set_error*/

void pred_rcv_set_done(struct pred_rcv* self)
__CPROVER_requires(self == &PRCV && PRCV.op_ == &OP && VF_FRESH_CALL && PRED_COMPLETING && G.signal == CH_DONE)
__CPROVER_assigns(A_ALL)
__CPROVER_ensures(VF_COMPLETED_ON(CH_DONE))
__CPROVER_ensures(G.acts[SL_succ] == 0 && G.starts[SL_succ] == 0 && G.acts[SL_pred] == 0 && G.starts[SL_pred] == 0 && G.atc[SL_succ] == LS_NONE)
/*@BODY pred_set_done*/

/* successor completions: the result of the sequence is the successor's result */
#define SUCC_FRAME (G.acts[SL_pred] == 0 && G.acts[SL_succ] == 0 && G.starts[SL_pred] == 0 && G.starts[SL_succ] == 0 && G.atc[SL_pred] == LS_NONE && G.atc[SL_succ] == LS_COMPLETING \
   && G.status_atc == ST_successor_operation_constructed)
void succ_rcv_set_value(struct succ_rcv* self)
__CPROVER_requires(self == &SRCV && SRCV.op_ == &OP && VF_FRESH_CALL && SUCC_COMPLETING && G.signal == CH_VALUE)
__CPROVER_assigns(A_ALL)
__CPROVER_ensures(VF_COMPLETED_ON(G.sv_threw ? CH_ERROR_EXCEPTION : CH_VALUE))     /* C05: a throwing set_value is turned into set_error(current_exception) */
__CPROVER_ensures(SUCC_FRAME)
/*@BODY succ_set_value*/

void succ_rcv_set_error(struct succ_rcv* self)
__CPROVER_requires(self == &SRCV && SRCV.op_ == &OP && VF_FRESH_CALL && SUCC_COMPLETING && G.signal == CH_ERROR)
__CPROVER_assigns(A_ALL)
__CPROVER_ensures(VF_COMPLETED_ON(CH_ERROR))
__CPROVER_ensures(SUCC_FRAME)
/*@BODY succ_set_error*/

void succ_rcv_set_done(struct succ_rcv* self)
__CPROVER_requires(self == &SRCV && SRCV.op_ == &OP && VF_FRESH_CALL && SUCC_COMPLETING && G.signal == CH_DONE)
__CPROVER_assigns(A_ALL)
__CPROVER_ensures(VF_COMPLETED_ON(CH_DONE))
__CPROVER_ensures(SUCC_FRAME)
/*@BODY succ_set_done*/

/* ---------------- harnesses ---------------- */
static void h_havoc(void) {
  vf_ghost_havoc();
  G.status_atc = -1; G.status_at_start = -1;
  OP.status_ = VF_nondet_int(); G.snap = OP;
  PRCV.op_ = &OP; SRCV.op_ = &OP;
  VF_CFG_nothrow_connect = vf_nb();
}
void h_ctor(void) {
  h_havoc(); seq_op_ctor(&OP);
  VF_CANARY("after the constructor");
  if (G.throws) { VF_CANARY("connect(predecessor) can throw"); } else { VF_CANARY("constructor can succeed"); }
}
void h_dtor(void) {
  h_havoc(); seq_op_dtor(&OP);
  VF_CANARY("after the destructor");
  if (G.deacts[SL_pred]) { VF_CANARY("destructor destroys predOp_"); }
  if (G.deacts[SL_succ]) { VF_CANARY("destructor destroys succOp_"); }
  if (!G.deacts[SL_pred] && !G.deacts[SL_succ]) { VF_CANARY("destructor of an empty operation"); }
}
void h_start(void) { h_havoc(); seq_op_start(&OP); VF_CANARY("after start"); }
void h_pred_set_value(void) {
  h_havoc(); pred_rcv_set_value(&PRCV);
  VF_CANARY("after predecessor set_value");
  if (G.throws) { VF_CANARY("connect(successor) can throw"); } else { VF_CANARY("successor can be started"); }
  if (VF_CFG_nothrow_connect) { VF_CANARY("noexcept connect branch"); } else { VF_CANARY("potentially throwing connect branch"); }
}
void h_pred_set_error(void) { h_havoc(); pred_rcv_set_error(&PRCV); VF_CANARY("after predecessor set_error"); }
void h_pred_set_done(void) { h_havoc(); pred_rcv_set_done(&PRCV); VF_CANARY("after predecessor set_done"); }
void h_succ_set_value(void) {
  h_havoc(); succ_rcv_set_value(&SRCV);
  VF_CANARY("after successor set_value");
  if (G.sv_threw) { VF_CANARY("receiver set_value can throw"); } else { VF_CANARY("receiver set_value can succeed"); }
}
void h_succ_set_error(void) { h_havoc(); succ_rcv_set_error(&SRCV); VF_CANARY("after successor set_error"); }
void h_succ_set_done(void) { h_havoc(); succ_rcv_set_done(&SRCV); VF_CANARY("after successor set_done"); }

/* ---------------- M4 lemmas over the contracts' predicates ---------------- */
/* abstract life cycle: one step = one verified call (its contract), or "the started child calls its receiver" (assumption
 * C01 of the children).  The lemma shows that the preconditions the callbacks are verified under are exactly what the
 * previous step's postcondition (the state at the start event) provides, that the discriminator tells the truth whenever the
 * owner may destroy the operation, and that construct / destroy are balanced per slot after the destructor. */
struct lst { int st; uint8_t p, s; unsigned ap, as, dp, ds; unsigned completed; _Bool destroyed; };
#define L_DISCR_OK(x) DISCR_OK_((x).st, (x).p, (x).s)
#define L_DESTRUCTIBLE(x) (L_DISCR_OK(x) && (x).p != LS_STARTED && (x).s != LS_STARTED)
#define L_BAL(x) ((x).ap == (x).dp + ((x).p != LS_NONE ? 1u : 0u) && (x).as == (x).ds + ((x).s != LS_NONE ? 1u : 0u) && (x).ap <= 1 && (x).as <= 1 && (x).dp <= 1 && (x).ds <= 1)
enum { T_START, T_PRED_CALLS, T_PRED_VALUE_OK, T_PRED_VALUE_THROW, T_PRED_FORWARD, T_SUCC_CALLS, T_SUCC_FORWARD, T_DTOR, T_N };
static _Bool l_step(struct lst o, struct lst* n, int t) {
  struct lst x = o; _Bool en = 0;
  switch (t) {
  case T_START:            en = o.st == ST_predecessor_operation_constructed && o.p == LS_ALIVE && !o.destroyed; x.p = LS_STARTED; break;            /* seq_op_start */
  case T_PRED_CALLS:       en = o.p == LS_STARTED; x.p = LS_COMPLETING; break;                                                                    /* the child calls its receiver */
  case T_PRED_VALUE_OK:    en = o.st == ST_predecessor_operation_constructed && o.p == LS_COMPLETING && o.s == LS_NONE && o.completed == 0;       /* pred_rcv_set_value, no throw */
                           x.p = LS_NONE; x.dp = o.dp + 1; x.s = LS_STARTED; x.as = o.as + 1; x.st = ST_successor_operation_constructed; break;
  case T_PRED_VALUE_THROW: en = o.st == ST_predecessor_operation_constructed && o.p == LS_COMPLETING && o.s == LS_NONE && o.completed == 0;       /* pred_rcv_set_value, connect threw */
                           x.p = LS_NONE; x.dp = o.dp + 1; x.st = ST_empty; x.completed = o.completed + 1; break;
  case T_PRED_FORWARD:     en = o.st == ST_predecessor_operation_constructed && o.p == LS_COMPLETING && o.s == LS_NONE && o.completed == 0;       /* pred_rcv_set_error / set_done */
                           x.completed = o.completed + 1; break;
  case T_SUCC_CALLS:       en = o.s == LS_STARTED; x.s = LS_COMPLETING; break;
  case T_SUCC_FORWARD:     en = o.st == ST_successor_operation_constructed && o.s == LS_COMPLETING && o.p == LS_NONE && o.completed == 0;         /* succ_rcv_set_* */
                           x.completed = o.completed + 1; break;
  default:                 en = !o.destroyed && L_DESTRUCTIBLE(o) && (o.completed == 1 || (o.p == LS_ALIVE && o.s == LS_NONE));                    /* seq_op_dtor: by the owner, before start or after completion */
                           if (o.p != LS_NONE) { x.p = LS_NONE; x.dp = o.dp + 1; } if (o.s != LS_NONE) { x.s = LS_NONE; x.ds = o.ds + 1; } x.destroyed = 1; break;
  }
  *n = x;
  return en;
}
/* reachable-state invariant: which (discriminator, slots, completed) combinations occur */
#define L_REACH(x) (L_BAL(x) && (x).completed <= 1 && ((x).destroyed ? ((x).p == LS_NONE && (x).s == LS_NONE) : (L_DISCR_OK(x) && ( \
     ((x).st == ST_predecessor_operation_constructed && (x).completed == 0 && (x).p != LS_NONE && (x).as == 0 && (x).dp == 0) \
  || ((x).st == ST_predecessor_operation_constructed && (x).completed == 1 && (x).p == LS_COMPLETING && (x).as == 0 && (x).dp == 0) \
  || ((x).st == ST_successor_operation_constructed && (x).completed == 0 && ((x).s == LS_STARTED || (x).s == LS_COMPLETING) && (x).dp == 1) \
  || ((x).st == ST_successor_operation_constructed && (x).completed == 1 && (x).s == LS_COMPLETING && (x).dp == 1) \
  || ((x).st == ST_empty && (x).completed == 1 && (x).dp == 1 && (x).as == 0) ))))
void lemma_seq_lifecycle(void) {
  struct lst o, n; int t = VF_nondet_int();
  o.st = VF_nondet_int(); o.p = VF_nondet_u8(); o.s = VF_nondet_u8(); o.ap = VF_nondet_u32(); o.as = VF_nondet_u32(); o.dp = VF_nondet_u32(); o.ds = VF_nondet_u32();
  o.completed = VF_nondet_u32(); o.destroyed = vf_nb();
  __CPROVER_assume(t >= 0 && t < T_N && o.p <= LS_COMPLETING && o.s <= LS_COMPLETING);
  __CPROVER_assume(L_REACH(o));
  __CPROVER_assume(l_step(o, &n, t));
  VF_CANARY("lemma premises satisfiable");
  if (t == T_START) { VF_CANARY("start enabled"); } if (t == T_PRED_VALUE_OK) { VF_CANARY("pred value enabled"); } if (t == T_PRED_VALUE_THROW) { VF_CANARY("pred value/throw enabled"); }
  if (t == T_PRED_FORWARD) { VF_CANARY("pred forward enabled"); } if (t == T_SUCC_FORWARD) { VF_CANARY("succ forward enabled"); } if (t == T_DTOR) { VF_CANARY("dtor enabled"); }
  VF_P(L_REACH(n), "lemma: the life-cycle invariant (truthful discriminator, at most one child alive, construct/destroy balanced per slot, at most one completion) is inductive over the contracts");
  VF_P((n.completed == 1 && !n.destroyed) ==> L_DESTRUCTIBLE(n), "lemma: once the completion signal was delivered the operation is destructible (the discriminator names exactly what is alive, no child running)");
  VF_P(n.destroyed ==> (n.p == LS_NONE && n.s == LS_NONE && n.ap == n.dp && n.as == n.ds && n.dp <= 1 && n.ds <= 1), "lemma: after the destructor every child operation that was constructed has been destroyed exactly once");
  VF_P((t == T_PRED_VALUE_OK) ==> (o.dp == 0 && n.dp == 1 && n.as == 1), "lemma: the successor is constructed once, after the predecessor's only destruction");
  VF_P(o.completed == 1 ==> (t == T_DTOR), "lemma: after the completion signal nothing but the destructor is enabled (exactly one completion)");
  VF_P((o.s == LS_STARTED || o.p == LS_STARTED) ==> (t == T_PRED_CALLS || t == T_SUCC_CALLS), "lemma: while a child runs the operation only waits for it (no lost completion: every chain of steps ends in a completion signal)");
}
void lemma_seq_init(void) {
  struct lst i; i.st = STATUS_INIT; i.p = LS_ALIVE; i.s = LS_NONE; i.ap = 1; i.as = 0; i.dp = 0; i.ds = 0; i.completed = 0; i.destroyed = 0;
  VF_CANARY("lemma_seq_init reachable");
  VF_P(STATUS_INIT == ST_predecessor_operation_constructed, "lemma: the constructor's mem-initialiser sets the discriminator to the member its body activates");
  VF_P(L_REACH(i) && L_DESTRUCTIBLE(i), "lemma: a freshly constructed operation satisfies the life-cycle invariant and may be destroyed unstarted");
  VF_P(ST_empty != ST_predecessor_operation_constructed && ST_empty != ST_successor_operation_constructed && ST_predecessor_operation_constructed != ST_successor_operation_constructed, "lemma: the three discriminator values are distinct");
}
