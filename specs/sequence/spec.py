H = 'include/unifex/sequence.hpp'
SUCC = r'class _successor_receiver<Predecessor, Successor, Receiver>::type final \{'
PRED = r'class _predecessor_receiver<Predecessor, Successor, Receiver>::type final \{'
OP = r'class _op<Predecessor, Successor, Receiver>::type \{'

# UNIFEX_TRY { A } UNIFEX_CATCH(...) { B }  ->  { A' } if (0) { vf_catch: ; B }   (DESIGN 3.1, last row; per-spec regexes as in when_all)
TRY_CATCH = [(r'UNIFEX_TRY\s*\{', '{'),
             (r'\}\s*UNIFEX_CATCH\s*\(\.\.\.\)\s*\{', '} if (0) { vf_catch: ;')]

# the connect lambdas handed to activate_union_member_with: the sender / receiver arguments of connect() are dropped, the
# SLOT that is activated and the exception specification of the lambda are kept
CONNECT_LAMBDA = r'\s*return unifex::connect\([^;]*;\s*\}\s*\)'
UNION_EVENTS = [
    # noexcept lambda: a throw inside terminates
    (r'(?s)unifex::activate_union_member_with\(\s*(?:op->)?(pred|succ)Op_,\s*\[&\]\s*\(\)\s*noexcept\s*\{' + CONNECT_LAMBDA + r';',
     r'EV_activate_nothrow(VF_THE_OP, SL_\1);'),
    # potentially throwing lambda: strong guarantee (manual_lifetime.hpp: the slot is left inactive when the factory throws)
    (r'(?s)unifex::activate_union_member_with\(\s*(?:op->)?(pred|succ)Op_,\s*\[&\]\s*\{' + CONNECT_LAMBDA + r';',
     r'if (EV_activate(VF_THE_OP, SL_\1)) VF_ON_THROW;'),
    (r'unifex::deactivate_union_member\(\s*(?:op->)?(pred|succ)Op_\s*\)', r'EV_deactivate(VF_THE_OP, SL_\1)'),
    (r'unifex::start\(\s*(?:op->)?(pred|succ)Op_\.get\(\)\s*\)', r'EV_start(VF_THE_OP, SL_\1)'),
]
# every access to the operation / to the receiver object asserts that the object still exists (no statement changed)
ALIVE = [(r'\bop->', 'VF_ALIVE(op)->'), (r'\bself->op_\b', 'VF_RCV_ALIVE(self)->op_')]

op_ctx = dict(
    cls='seq_op', members=['status_'], methods=[], enums={'status': 'ST'},
    post=[(r'\bVF_THE_OP\b', 'self'), (r'\bself->', 'VF_ALIVE(self)->')],
)
# constructor: an exception from connect() leaves the constructor (documented: it propagates out of connect()); `return` = unwinding
ctor_ctx = dict(op_ctx, pre=UNION_EVENTS, post=[(r'\bVF_ON_THROW\b', 'return')] + op_ctx['post'])
dtor_ctx = dict(op_ctx, pre=UNION_EVENTS)
start_ctx = dict(op_ctx, pre=UNION_EVENTS)

pred_ctx = dict(
    cls='pred_rcv', members=['op_'], methods=[], enums={'status': 'ST'},
    pre=[
        (r'(?s)using successor_receiver_t =\s*successor_receiver<Predecessor, Successor, Receiver>;', ''),
        (r'is_nothrow_connectable_v<Successor, successor_receiver_t>', 'VF_CFG_nothrow_connect'),
        (r'operation_type::status::', 'status::'),
    ] + UNION_EVENTS + TRY_CATCH + [
        (r'(?s)unifex::set_error\(\s*static_cast<Receiver&&>\((op_?)->receiver_\),\s*std::current_exception\(\)\)', r'EV_set_error_exception(\1)'),
        (r'(?s)unifex::set_error\(\s*static_cast<Receiver&&>\(op_->receiver_\),\s*static_cast<Error&&>\(error\)\)', 'EV_set_error(op_)'),
        (r'(?s)unifex::set_done\(\s*static_cast<Receiver&&>\(op_->receiver_\)\)', 'EV_set_done(op_)'),
    ],
    post=[(r'\bVF_THE_OP\b', 'op'), (r'\bVF_ON_THROW\b', 'goto vf_catch')] + ALIVE,
)
succ_ctx = dict(
    cls='succ_rcv', members=['op_'], methods=[],
    pre=TRY_CATCH + [
        (r'(?s)unifex::set_value\(\s*std::move\(op_->receiver_\),\s*std::forward<T>\(ts\)\.\.\.\);', 'if (EV_set_value(op_)) goto vf_catch;'),
        (r'(?s)unifex::set_error\(\s*std::move\(op_->receiver_\),\s*std::current_exception\(\)\)', 'EV_set_error_exception(op_)'),
        (r'(?s)unifex::set_error\(\s*std::move\(op_->receiver_\),\s*std::forward<E>\(e\)\)', 'EV_set_error(op_)'),
        (r'(?s)unifex::set_done\(\s*std::move\(op_->receiver_\)\)', 'EV_set_done(op_)'),
    ],
    post=ALIVE,
)

SPEC = dict(
    properties=['C02', 'C05', 'C01'],
    ctx={},
    extracts={
        'status_enum': dict(file=H, kind='expr', sig=r'enum class status \{([^}]*)\}', within=OP,
                            ctx=dict(post=[(r'\b([A-Za-z_]\w*)\b', r'ST_\1')])),
        'status_init': dict(file=H, kind='expr', sig=r',\s*status_\(([^()]*)\)\s*\{', within=OP, ctx=dict(enums={'status': 'ST'})),
        'ctor': dict(file=H, sig=r'explicit type\(\s*Predecessor&& predecessor, Successor2&& successor, Receiver2&& receiver\)', within=OP, ctx=ctor_ctx),
        'dtor': dict(file=H, sig=r'~type\(\)', within=OP, ctx=dtor_ctx),
        'start': dict(file=H, sig=r'void start\(\) & noexcept', within=OP, ctx=start_ctx),
        'pred_set_value': dict(file=H, sig=r'void set_value\(\) && noexcept', within=PRED, ctx=pred_ctx),
        'pred_set_error': dict(file=H, sig=r'void set_error\(Error&& error\) && noexcept', within=PRED, ctx=pred_ctx),
        'pred_set_done': dict(file=H, sig=r'void set_done\(\) && noexcept', within=PRED, ctx=pred_ctx),
        'succ_set_value': dict(file=H, sig=r'void set_value\(T&&\.\.\. ts\) noexcept', within=SUCC, ctx=succ_ctx),
        'succ_set_error': dict(file=H, sig=r'void set_error\(E&& e\) noexcept', within=SUCC, ctx=succ_ctx),
        'succ_set_done': dict(file=H, sig=r'void set_done\(\) noexcept', within=SUCC, ctx=succ_ctx),
    },
    closed_world=[
        dict(file=H, members=['status_', 'predOp_', 'succOp_'],
             allow=[r'(?s),\s*status_\(status::\w+\)\s*\{',      # the mem-initialiser (extracted: status_init)
                    r'status status_;',
                    r'(?s)manual_lifetime<connect_result_t<\s*Predecessor,\s*predecessor_receiver<Predecessor, Successor, Receiver>>>\s*predOp_;',
                    r'(?s)manual_lifetime<connect_result_t<\s*Successor,\s*successor_receiver<Predecessor, Successor, Receiver>>>\s*succOp_;']),
    ],
    units=[
        dict(name='ctor', harness='h_ctor', enforce='seq_op_ctor'),
        dict(name='dtor', harness='h_dtor', enforce='seq_op_dtor'),
        dict(name='start', harness='h_start', enforce='seq_op_start'),
        dict(name='predecessor_set_value', harness='h_pred_set_value', enforce='pred_rcv_set_value'),
        dict(name='predecessor_set_error', harness='h_pred_set_error', enforce='pred_rcv_set_error'),
        dict(name='predecessor_set_done', harness='h_pred_set_done', enforce='pred_rcv_set_done'),
        dict(name='successor_set_value', harness='h_succ_set_value', enforce='succ_rcv_set_value'),
        dict(name='successor_set_error', harness='h_succ_set_error', enforce='succ_rcv_set_error'),
        dict(name='successor_set_done', harness='h_succ_set_done', enforce='succ_rcv_set_done'),
        dict(name='lemma_seq_lifecycle', harness='lemma_seq_lifecycle', mode='lemma'),
        dict(name='lemma_seq_init', harness='lemma_seq_init', mode='lemma'),
    ],
    assumptions=[
        'each child operation (predecessor, successor) completes exactly once, only after it was started, through exactly one of its receiver\'s set_value / set_error / set_done (C01 for the children); it may do so inline inside start()',
        'a child does not touch its own operation state after it has called its receiver (so destroying it from inside that call is allowed: "completed" = has invoked its receiver)',
        'the owner destroys the sequence operation only before start() or after the completion signal, never while a child is running',
        'an exception thrown by connect() inside the constructor propagates out of connect(sequence, receiver) (documented); the already constructed members are unwound by the language, ~type() does not run',
        'activate_union_member_with has the strong exception guarantee (manual_lifetime.hpp scope guard; not re-verified here)',
        'a throwing receiver set_value leaves the receiver un-completed (the library then calls set_error on it): the may-throw stub EV_set_value counts a completion only when it returns normally',
        'unifex::start() does not throw (noexcept by concept)',
        'is_nothrow_connectable_v is a symbolic configuration constant: both branches of the if constexpr are verified; in the noexcept branch a throwing connect would terminate (checked: the branch is taken only when connect cannot throw)',
        'sequential code: no atomics, vf_interfere is empty; the words status_/predOp_/succOp_ are touched only by the extracted spans (closed-world scan)',
    ],
    drops=['template genericity (Predecessor, Successor, Receiver)', 'payload arguments of set_value / set_error (values, error objects, std::current_exception())',
           'the arguments of connect() inside the activate_union_member_with lambdas (which sender, which receiver): only the slot and the lambda\'s exception specification are kept',
           'UNIFEX_TRY / UNIFEX_CATCH -> goto vf_catch at the may-throw stubs EV_activate / EV_set_value',
           '`using successor_receiver_t = ...;` dropped; is_nothrow_connectable_v<...> -> VF_CFG_nothrow_connect',
           'move constructors of the two receivers, receiver queries (tag_invoke forwarding), the sender type and the sequence() CPO overloads'],
)
