/* Shared specification text of the groups sequence, let_value and let_error_done (C02 / C05 / C01):
 * operation states that keep ONE of several child operation states alive in a union of manual_lifetime slots (plus,
 * for the let_* algorithms, a separately stored value / error object) and a discriminator that tells the destructor
 * what is alive.  This file contains no library code: ghost state, event stubs for the C++-only callees
 * (activate_union_member_with / deactivate_union_member / manual_lifetime(_union)::construct / destruct / unifex::start /
 * unifex::set_value|error|done) and the dead-object snapshot.
 *
 * The including template defines BEFORE the #include:
 *   VF_NSLOT                  number of tracked slots (2 or 3)
 *   VF_OP_T                   struct type of the operation state; the single instance is `OP`
 *   VF_OP_HAVOC()             statement: fill every field of OP with arbitrary bytes (the operation was destroyed)
 *   VF_OP_EQ(a, b)            all fields equal
 *   VF_SLOT_IS_OP(s)          slot s holds a child operation state (startable), not a stored value
 *   VF_UNION_EMPTY(s)         every slot that shares storage with slot s (including s) holds nothing
 *   VF_DISCR_OK(op)           the discriminator of *op names exactly the slots whose ghost says "alive"
 *   VF_CHECK_CONSTRUCT(op, s) / VF_CHECK_DESTROY(op, s) / VF_CHECK_START(op, s) / VF_CHECK_COMPLETE(op, ch)
 *                             group specific ordering obligations (statements made of VF_P)
 *   VF_DISCR_OK_AT_START(op, s) (optional) what the discriminator must say when child s is started; default VF_DISCR_OK(op)
 *   VF_MAY_THROW(s)           (optional) construction into slot s can throw in this configuration; default 1
 *   VF_GHOST_EXTRA            further fields of struct vf_ghost
 *   VF_RCV_HAVOC()            statement: the receiver object the verified callback runs on was destroyed
 */
#ifndef VF_SLOTS_H
#define VF_SLOTS_H

/* per slot: nothing / constructed (a child: connected, not started) / child started and running / child has called its
 * receiver (= completed: the callback being verified runs inside that call) */
enum { LS_NONE, LS_ALIVE, LS_STARTED, LS_COMPLETING };
enum { CH_NONE, CH_VALUE, CH_ERROR, CH_ERROR_EXCEPTION, CH_DONE };

struct vf_ghost {
  uint8_t slot[VF_NSLOT];
  unsigned acts[VF_NSLOT], deacts[VF_NSLOT], starts[VF_NSLOT];
  uint8_t atc[VF_NSLOT];       /* slot states when the completion signal was delivered */
  int running;                 /* the child whose completion callback is being verified (-1: none) */
  int signal;                  /* the channel on which that child completed */
  unsigned completed; int channel;
  unsigned throws; int thrown_at;   /* may-throw events that threw in this call; the slot whose construction threw */
  _Bool sv_threw;              /* the receiver's set_value threw */
  _Bool dead; VF_OP_T snap;    /* the operation may have been destroyed; its bytes then */
  _Bool rcv_dead;              /* the receiver object the callback runs on was destroyed (it lives inside the child) */
  VF_GHOST_EXTRA
};
static struct vf_ghost G;

#include "vf.h"
static void vf_interfere(void) {}    /* sequential code: no atomics, no environment steps */
/* an uninitialised _Bool may hold any byte in CBMC: normalise */
static _Bool vf_nb(void) { return VF_nondet_bool() ? 1 : 0; }

#define DEAD_MSG "no access to the operation once it may have been destroyed (completion signal delivered, or a started child may have completed the whole operation inline)"
#define VF_ALIVE(p) ({ VF_P(!G.dead, DEAD_MSG); (p); })
#define VF_RCV_ALIVE(r) ({ VF_P(!G.rcv_dead, "C02: no access to the child's receiver object after the child operation that contains it was destroyed"); (r); })
#define UNTOUCHED (!G.dead || VF_OP_EQ(OP, G.snap))
#define VF_NO_CHILD_RUNNING_(i) (G.slot[i] != LS_STARTED)
#if VF_NSLOT == 2
#define VF_NO_CHILD_RUNNING (VF_NO_CHILD_RUNNING_(0) && VF_NO_CHILD_RUNNING_(1))
#define VF_ALL_NONE (G.slot[0] == LS_NONE && G.slot[1] == LS_NONE)
#else
#define VF_NO_CHILD_RUNNING (VF_NO_CHILD_RUNNING_(0) && VF_NO_CHILD_RUNNING_(1) && VF_NO_CHILD_RUNNING_(2))
#define VF_ALL_NONE (G.slot[0] == LS_NONE && G.slot[1] == LS_NONE && G.slot[2] == LS_NONE)
#endif
/* the owner may destroy the operation: its destructor will find the discriminator telling the truth, and no child is
 * still running */
#define VF_DESTRUCTIBLE(op) (VF_DISCR_OK(op) && VF_NO_CHILD_RUNNING)

/* the operation may be destroyed now: its bytes are arbitrary from here on and must not be touched */
static void vf_die(void) {
  VF_OP_HAVOC();
  G.snap = OP; G.dead = 1; G.rcv_dead = 1;
}

/* ---- construction into a slot (activate_union_member_with / manual_lifetime(_union)::construct) ---- */
static _Bool vf_slot_construct(VF_OP_T* op, int s, _Bool may_throw) {
  VF_P(op == &OP && !G.dead, "construct: " DEAD_MSG);
  VF_P(G.slot[s] == LS_NONE, "C02: an object is constructed only into storage that holds none (storage is never reused before the previous object was destroyed)");
  VF_P(VF_UNION_EMPTY(s), "C02: a union member is activated only while NO member of that union is alive (the previous child operation was destroyed first)");
  VF_P(G.completed == 0, "C01: nothing is constructed after the completion signal");
  VF_CHECK_CONSTRUCT(op, s);
  if (may_throw && vf_nb()) { G.throws++; G.thrown_at = s; return 1; }     /* strong guarantee: the slot stays empty */
  G.slot[s] = LS_ALIVE; G.acts[s]++;
  return 0;
}
#ifndef VF_MAY_THROW
#define VF_MAY_THROW(s) 1
#endif
#ifndef VF_DISCR_OK_AT_START
#define VF_DISCR_OK_AT_START(op, s) VF_DISCR_OK(op)
#endif
static _Bool EV_activate(VF_OP_T* op, int s) { return vf_slot_construct(op, s, VF_MAY_THROW(s)); }
static _Bool EV_construct(VF_OP_T* op, int s) { return vf_slot_construct(op, s, VF_MAY_THROW(s)); }

/* ---- destruction of a slot (deactivate_union_member / manual_lifetime(_union)::destruct) ---- */
static void vf_slot_destroy(VF_OP_T* op, int s) {
  VF_P(op == &OP && !G.dead, "destroy: " DEAD_MSG);
  VF_P(G.slot[s] != LS_NONE, "C02: destroyed exactly once -- only a slot that holds an object is destroyed (the discriminator / the code's knowledge equals the ghost)");
  VF_P(G.slot[s] != LS_STARTED, "C02: a child operation state is never destroyed before that child has completed");
  VF_CHECK_DESTROY(op, s);
  G.slot[s] = LS_NONE; G.deacts[s]++;
  if (s == G.running) { G.rcv_dead = 1; VF_RCV_HAVOC(); }   /* the receiver the callback runs on lived inside that child */
}
static void EV_deactivate(VF_OP_T* op, int s) { vf_slot_destroy(op, s); }
static void EV_destruct(VF_OP_T* op, int s) { vf_slot_destroy(op, s); }

/* ---- unifex::start(child): the child may complete inline; its completion may complete the whole operation and the
 * receiver may destroy it before start() returns ---- */
static void EV_start(VF_OP_T* op, int s) {
  VF_P(op == &OP && !G.dead, "start of a child: " DEAD_MSG);
  VF_P(VF_SLOT_IS_OP(s) && G.slot[s] == LS_ALIVE, "C01/C02: a child is started exactly once, after it was connected into its slot");
  VF_P(G.completed == 0, "C01: no child is started after the completion signal");
  VF_P(VF_DISCR_OK_AT_START(op, s), "C02: the discriminator is set for the child BEFORE the child is started (it may complete inline, and the receiver may then destroy the operation)");
  VF_CHECK_START(op, s);
  G.slot[s] = LS_STARTED; G.starts[s]++;
  vf_die();
}

/* ---- completion signals to the operation's receiver ---- */
static void vf_complete(VF_OP_T* op, int ch) {
  VF_P(G.completed == 0, "C01: at most one completion signal per operation");
  VF_P(op == &OP && !G.dead, "completion signal: " DEAD_MSG);
  VF_P(VF_DISCR_OK(op), "C02: when the completion signal is delivered the discriminator names exactly the objects that are alive (the receiver may destroy the operation now: everything is then destroyed exactly once, nothing leaked, nothing dead touched)");
  VF_P(VF_NO_CHILD_RUNNING, "C02: no child operation is still running when the completion signal is delivered");
  VF_CHECK_COMPLETE(op, ch);
  G.completed++; G.channel = ch;
  G.atc[0] = G.slot[0]; G.atc[1] = G.slot[1];
#if VF_NSLOT > 2
  G.atc[2] = G.slot[2];
#endif
  vf_die();
}
static void EV_set_done(VF_OP_T* op) { VF_CANARY("set_done reachable"); vf_complete(op, CH_DONE); }
static void EV_set_error(VF_OP_T* op) { VF_CANARY("set_error(forwarded error) reachable"); vf_complete(op, CH_ERROR); }
static void EV_set_error_exception(VF_OP_T* op) { VF_CANARY("set_error(current_exception) reachable"); vf_complete(op, CH_ERROR_EXCEPTION); }
static void EV_set_value_nothrow(VF_OP_T* op) { VF_CANARY("set_value reachable"); vf_complete(op, CH_VALUE); }
/* may throw: a throwing receiver set_value leaves the receiver un-completed and the operation alive */
static _Bool EV_set_value(VF_OP_T* op) {
  VF_CANARY("set_value (may throw) reachable");
  if (vf_nb()) {
    VF_P(G.completed == 0 && op == &OP && !G.dead && VF_DESTRUCTIBLE(op), "C01/C02: set_value attempted once, on the live operation, in a destructible state");
    G.sv_threw = 1;
    return 1;
  }
  vf_complete(op, CH_VALUE);
  return 0;
}

/* the fresh-call part of every precondition */
#if VF_NSLOT == 2
#define VF_ZERO_COUNTS (G.acts[0] == 0 && G.acts[1] == 0 && G.deacts[0] == 0 && G.deacts[1] == 0 && G.starts[0] == 0 && G.starts[1] == 0)
#else
#define VF_ZERO_COUNTS (G.acts[0] == 0 && G.acts[1] == 0 && G.acts[2] == 0 && G.deacts[0] == 0 && G.deacts[1] == 0 && G.deacts[2] == 0 && G.starts[0] == 0 && G.starts[1] == 0 && G.starts[2] == 0)
#endif
#define VF_FRESH_CALL (VF_ZERO_COUNTS && G.completed == 0 && G.throws == 0 && G.thrown_at == -1 && !G.sv_threw && !G.dead && !G.rcv_dead)
/* exactly one completion signal on channel ch, nothing of the operation touched afterwards */
#define VF_COMPLETED_ON(ch) (G.completed == 1 && G.channel == (ch) && G.dead && UNTOUCHED)

static void vf_ghost_havoc(void) {
  G.slot[0] = VF_nondet_u8(); G.slot[1] = VF_nondet_u8();
  G.acts[0] = VF_nondet_u32(); G.acts[1] = VF_nondet_u32(); G.deacts[0] = VF_nondet_u32(); G.deacts[1] = VF_nondet_u32();
  G.starts[0] = VF_nondet_u32(); G.starts[1] = VF_nondet_u32(); G.atc[0] = LS_NONE; G.atc[1] = LS_NONE;
#if VF_NSLOT > 2
  G.slot[2] = VF_nondet_u8(); G.acts[2] = VF_nondet_u32(); G.deacts[2] = VF_nondet_u32(); G.starts[2] = VF_nondet_u32(); G.atc[2] = LS_NONE;
#endif
  G.running = VF_nondet_int(); G.signal = VF_nondet_int();
  G.completed = VF_nondet_u32(); G.channel = CH_NONE; G.throws = VF_nondet_u32(); G.thrown_at = VF_nondet_int();
  G.sv_threw = vf_nb(); G.dead = vf_nb(); G.rcv_dead = vf_nb();
}
#endif
