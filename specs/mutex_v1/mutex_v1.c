/* C15: v1 async_mutex (source/async_mutex_v1.cpp, include/unifex/v1/async_mutex.hpp).
 *
 * Lock word = head of atomicQueue_ :   MINACT (inactive sentinel)  <=>  unlocked (no holder)
 *                                      NULL                         locked, inbox empty
 *                                      waiter chain                 locked, LIFO inbox of waiters
 * pendingQueue_ : FIFO batch of waiters taken earlier, owned by the holder.   (DESIGN.md Appendix A.5)
 * The holder is the single consumer of atomicQueue_ (ghost G.i_am_consumer = "holder == me").
 * The queue operations are represented by their contracts (specs/atomic_queue/aq_contract.h, enforced on the
 * real bodies in group atomic_queue): by --replace-call-with-contract where the result is not dereferenced
 * (try_lock, try_enqueue), by a contract stub with a concrete window where it is (unlock).
 * Bodies marked @BODY/@EXPR are extracted from /repo on every run. */
#include <stddef.h>
#include <stdint.h>
struct item { void (*resume_)(struct item*); struct item* next_; };   /* async_mutex::waiter_base */
struct aq { void* head_; };
struct iqueue { struct item* head_; struct item* tail_; };
struct istack { struct item* head_; };
struct async_mutex { struct aq atomicQueue_; struct iqueue pendingQueue_; };
struct lock_op { struct item base; struct async_mutex* mutex_; int receiver_; };   /* lock_sender::_op<Receiver>::type : waiter_base */

struct vf_ghost {
  /* ghosts of the queue contracts (aq_contract.h) */
  _Bool i_am_consumer;          /* holder == me: the caller holds the mutex and is therefore the single consumer of atomicQueue_ */
  void* lin_old; void* lin_new; unsigned lin_count; struct item* it_next_at_lin;
  unsigned mr_calls; struct item* mr_arg;
  /* mutex */
  struct iqueue old_pending; struct item* old_p1_next;   /* pendingQueue_ and its first node's successor at entry */
  struct item* batch_oldest; struct item* batch_rest;    /* first node / remainder of a batch taken from the inbox */
  unsigned resumed; struct item* resumed_item;           /* hand-offs performed by this call, and to whom */
  struct iqueue pending_at_handoff;                      /* pendingQueue_ at the moment of the hand-off */
  struct iqueue snap_pending;                            /* pendingQueue_ as the new holder left it (must not be touched afterwards) */
  unsigned completed; struct lock_op* completed_op;      /* set_value deliveries */
  struct lock_op snap_op;                                /* the operation as its receiver left it (may be destroyed) */
};
static struct vf_ghost G;
static struct async_mutex M;
static struct lock_op OP;          /* the operand lock operation; its waiter node is IT */
#define IT (OP.base)
static struct item P1, P2;         /* pendingQueue_ window: oldest pending waiter, its successor */
static struct item B1, W1;         /* batch window: oldest / newest waiter of a batch taken from the inbox */
static char vf_opaque_obj;
#define OPAQUE ((struct item*)&vf_opaque_obj)

#define VF_G(p, o, n) VF_P(0, "no atomic write is expected outside the queue operations")
#include "vf.h"
static void vf_interfere(void) { VF_P(0, "no atomic access is expected outside the queue operations"); }

#include "../atomic_queue/aq_contract.h"
#define MQ (&M.atomicQueue_)
#define MINACT AQ_INACT(MQ)
/* the two outcomes of a lock attempt, in terms of the call's own step on the lock word */
#define ACQUIRED (G.lin_count == 1 && G.lin_old == MINACT && G.lin_new == NULL)                                    /* unlocked -> locked: the caller becomes holder */
#define QUEUED   (G.lin_count == 1 && G.lin_old != MINACT && G.lin_new == (void*)&IT && G.it_next_at_lin == (struct item*)G.lin_old)   /* pushed in front of the previous inbox, never holder */
#define RELEASED (G.lin_count == 1 && G.lin_old == NULL && G.lin_new == MINACT)                                    /* locked -> unlocked */
#define TOOK     (G.lin_count == 1 && G.lin_old != NULL && G.lin_old != MINACT && G.lin_new == NULL)               /* inbox moved to the holder */

/* ---------------- construction ---------------- */
void* AQ_producer_inactive_value(struct aq* self)
/*@BODY producer_inactive_value*/
static void AQ_init_flag(struct aq* self, _Bool initiallyActive) { self->head_ = /*@EXPR aq_ctor_flag*/; }
static void async_mutex_init(struct async_mutex* self) {
  AQ_init_flag(&self->atomicQueue_, /*@EXPR mutex_ctor_arg*/);
  self->pendingQueue_.head_ = /*@EXPR iq_head_init*/; self->pendingQueue_.tail_ = /*@EXPR iq_tail_init*/;
}

/* ---------------- the queue operations: contracts only ---------------- */
_Bool AQ_try_mark_active(struct aq* self)
__CPROVER_requires(self == MQ && AQ_REQ_ANY(MQ))
__CPROVER_assigns(AQ_ASSIGNS_ANY(MQ))
__CPROVER_ensures(AQ_ENS_TRY_MARK_ACTIVE(MQ, __CPROVER_return_value))
;
_Bool AQ_enqueue_or_mark_active(struct aq* self, struct item* item)
__CPROVER_requires(self == MQ && item == &IT && AQ_REQ_PRODUCER(MQ, &IT))
__CPROVER_assigns(AQ_ASSIGNS_PRODUCER(MQ, &IT))
__CPROVER_ensures(AQ_ENS_EOMA(MQ, &IT, __CPROVER_return_value))
;
/* contract stub (unlock walks into the returned list): assert requires; build the window; assume ensures */
static struct iqueue AQ_try_mark_inactive_or_dequeue_all(struct aq* self) {
  VF_P(G.i_am_consumer, "only the holder (the single consumer) marks the lock word inactive or takes the inbox");
  VF_A(self == MQ && AQ_REQ_CONSUMER(MQ), "precondition of try_mark_inactive_or_dequeue_all at the call site");
  struct iqueue r;
  G.lin_count = 1; G.it_next_at_lin = NULL;
  if (VF_nondet_bool()) {          /* inbox empty at the linearisation: sentinel installed */
    G.lin_old = NULL; G.lin_new = MINACT; G.mr_calls = 0; G.mr_arg = NULL;
    r.head_ = NULL; r.tail_ = NULL;
  } else {                         /* everything taken; make_reversed: oldest waiter first, old inbox head (newest) last */
    if (VF_nondet_bool()) { G.lin_old = &B1; B1.next_ = NULL; r.head_ = &B1; r.tail_ = &B1; }
    else { G.lin_old = &W1; W1.next_ = NULL; B1.next_ = VF_nondet_bool() ? &W1 : OPAQUE; r.head_ = &B1; r.tail_ = &W1; }
    G.lin_new = NULL; G.mr_calls = 1; G.mr_arg = (struct item*)G.lin_old;
    G.batch_oldest = r.head_; G.batch_rest = r.head_->next_;
  }
  M.atomicQueue_.head_ = G.lin_new;
  __CPROVER_assume(AQ_ENS_TMIODA(MQ, r));
  return r;
}

/* ---------------- event stubs ---------------- */
/* item->resume_(item): the lock passes to this waiter; it may run its critical section and unlock() again
 * (popping further pending waiters) before the call returns */
static void EV_resume(struct item* item) {
  VF_CANARY("hand-off reachable");
  VF_P(G.resumed == 0, "unlock resumes at most one waiter");
  VF_P(!RELEASED, "no hand-off after the lock word was released");
  G.resumed++; G.resumed_item = item; G.pending_at_handoff = M.pendingQueue_;
  if (VF_nondet_bool()) {
    M.pendingQueue_.head_ = VF_nondet_bool() ? OPAQUE : NULL;
    M.pendingQueue_.tail_ = M.pendingQueue_.head_ ? (VF_nondet_bool() ? OPAQUE : M.pendingQueue_.head_) : NULL;
  }
  G.snap_pending = M.pendingQueue_;
}
/* set_value on the operation's receiver: the receiver may destroy the operation */
static void EV_set_value(struct lock_op* op) {
  VF_CANARY("completion reachable");
  VF_P(G.completed == 0, "a lock operation completes at most once");
  G.completed++; G.completed_op = op;
  if (op == &OP && VF_nondet_bool()) { struct lock_op f; OP.base.next_ = f.base.next_; OP.base.resume_ = f.base.resume_; OP.mutex_ = f.mutex_; OP.receiver_ = f.receiver_; }
  G.snap_op = OP;
}
#define OP_UNTOUCHED (OP.base.next_ == G.snap_op.base.next_ && OP.base.resume_ == G.snap_op.base.resume_ && OP.mutex_ == G.snap_op.mutex_ && OP.receiver_ == G.snap_op.receiver_)

/* ---------------- intrusive_queue (single owner): empty / pop_front ---------------- */
_Bool IQ_empty(struct iqueue* self)
/*@BODY iq_empty*/

#define POP_REQ(self) ((self) == &M.pendingQueue_ && M.pendingQueue_.head_ == &P1 && (P1.next_ == NULL ? M.pendingQueue_.tail_ == &P1 : (M.pendingQueue_.tail_ != NULL && M.pendingQueue_.tail_ != &P1)))
struct item* IQ_pop_front(struct iqueue* self)
__CPROVER_requires(POP_REQ(self))
__CPROVER_assigns(M.pendingQueue_)
__CPROVER_ensures(__CPROVER_return_value == &P1 && M.pendingQueue_.head_ == P1.next_) /* the FIRST (oldest) node is removed, the rest stays in order */
__CPROVER_ensures(M.pendingQueue_.tail_ == (P1.next_ == NULL ? (struct item*)NULL : __CPROVER_old(M.pendingQueue_.tail_)))
/*@BODY iq_pop_front*/

/* ---------------- functions under contract ---------------- */
#define LOCK_REQ (G.lin_count == 0 && G.completed == 0 && M.atomicQueue_.head_ != (void*)&IT)

_Bool async_mutex_try_lock(struct async_mutex* self)
__CPROVER_requires(self == &M && LOCK_REQ)
__CPROVER_assigns(AQ_ASSIGNS_ANY(MQ))
__CPROVER_ensures(__CPROVER_return_value == ACQUIRED) /* true <=> THIS call made the unique unlocked -> locked transition */
__CPROVER_ensures(!__CPROVER_return_value ==> (G.lin_count == 0 && M.atomicQueue_.head_ != MINACT)) /* false: nothing written, the mutex was observed locked */
/*@BODY try_lock*/

_Bool async_mutex_try_enqueue(struct async_mutex* self, struct item* base)
__CPROVER_requires(self == &M && base == &IT && LOCK_REQ)
__CPROVER_assigns(AQ_ASSIGNS_PRODUCER(MQ, &IT))
__CPROVER_ensures(!__CPROVER_return_value == ACQUIRED) /* false <=> acquired synchronously (unlocked -> locked), the waiter is NOT queued */
__CPROVER_ensures(__CPROVER_return_value == QUEUED)    /* true <=> queued behind the lock: in front of the previous inbox; the caller is not holder */
__CPROVER_ensures(G.lin_count == 1)
/*@BODY try_enqueue*/

_Bool OP_try_enqueue(struct lock_op* self)
__CPROVER_requires(self == &OP && OP.mutex_ == &M && LOCK_REQ)
__CPROVER_assigns(AQ_ASSIGNS_PRODUCER(MQ, &IT))
__CPROVER_ensures(!__CPROVER_return_value == ACQUIRED)
__CPROVER_ensures(__CPROVER_return_value == QUEUED)
__CPROVER_ensures(G.lin_count == 1)
/*@BODY op_try_enqueue*/

void OP_start(struct lock_op* op)
__CPROVER_requires(op == &OP && OP.mutex_ == &M && LOCK_REQ)
__CPROVER_assigns(AQ_ASSIGNS_PRODUCER(MQ, &IT), OP, G.completed, G.completed_op, G.snap_op)
__CPROVER_ensures(ACQUIRED != QUEUED)                                   /* exactly one of: acquired / queued */
__CPROVER_ensures(G.completed == (ACQUIRED ? 1 : 0))                    /* completes inline, once, iff it acquired the lock; a queued waiter is completed by a later unlock only */
__CPROVER_ensures(G.completed == 1 ==> (G.completed_op == &OP && OP_UNTOUCHED)) /* its own receiver; the operation is not touched after completion */
/*@BODY op_start*/

void OP_resume(struct item* self)
__CPROVER_requires(self == &IT && G.completed == 0)
__CPROVER_assigns(OP, G.completed, G.completed_op, G.snap_op)
__CPROVER_ensures(G.completed == 1 && G.completed_op == &OP && OP_UNTOUCHED) /* resuming a waiter node completes exactly the operation that owns the node */
/*@BODY op_resume*/

#define PENDING_WF (M.pendingQueue_.head_ == NULL ? M.pendingQueue_.tail_ == NULL \
                    : (M.pendingQueue_.head_ == &P1 && (P1.next_ == NULL ? M.pendingQueue_.tail_ == &P1 : (M.pendingQueue_.tail_ != NULL && M.pendingQueue_.tail_ != &P1))))
#define HAD_PENDING (G.old_pending.head_ != NULL)
void async_mutex_unlock(struct async_mutex* self)
__CPROVER_requires(self == &M && G.i_am_consumer /* holder == me */ && M.atomicQueue_.head_ != MINACT && G.lin_count == 0 && G.mr_calls == 0 && G.resumed == 0)
__CPROVER_requires(PENDING_WF && G.old_pending.head_ == M.pendingQueue_.head_ && G.old_pending.tail_ == M.pendingQueue_.tail_ && G.old_p1_next == P1.next_)
__CPROVER_assigns(M, B1.next_, W1.next_, G)
__CPROVER_ensures(G.resumed + (RELEASED ? 1 : 0) == 1) /* either hands the lock to exactly one waiter or releases it */
__CPROVER_ensures(RELEASED ==> (!HAD_PENDING && G.lin_old == NULL)) /* the sentinel is installed only with no pending waiter and an empty inbox: no lost waiter */
__CPROVER_ensures(HAD_PENDING ==> (G.lin_count == 0 && G.resumed == 1 && G.resumed_item == G.old_pending.head_)) /* pending waiters first, the OLDEST of them (FIFO); inbox untouched */
__CPROVER_ensures(HAD_PENDING ==> (G.pending_at_handoff.head_ == G.old_p1_next && G.pending_at_handoff.tail_ == (G.old_p1_next == NULL ? (struct item*)NULL : G.old_pending.tail_))) /* the other pending waiters stay, in order */
__CPROVER_ensures((!HAD_PENDING && !RELEASED) ==> (TOOK && G.mr_arg == (struct item*)G.lin_old && G.resumed == 1 && G.resumed_item == G.batch_oldest)) /* otherwise the WHOLE inbox is taken and its oldest waiter gets the lock */
__CPROVER_ensures((!HAD_PENDING && !RELEASED) ==> (G.pending_at_handoff.head_ == G.batch_rest && G.pending_at_handoff.tail_ == (G.batch_rest == NULL ? (struct item*)NULL : (struct item*)G.lin_old))) /* the rest of the batch becomes the pending queue */
__CPROVER_ensures(G.resumed == 1 ==> (M.pendingQueue_.head_ == G.snap_pending.head_ && M.pendingQueue_.tail_ == G.snap_pending.tail_)) /* nothing is touched after the hand-off (the new holder may already have unlocked) */
/*@BODY unlock*/

/* ---------------- harnesses ---------------- */
static void h_init(_Bool hold) {
  int k = VF_nondet_int();
  M.atomicQueue_.head_ = k == 1 ? NULL : k == 2 ? (void*)&W1 : k == 3 ? (void*)&B1 : (hold ? NULL : MINACT);
  G.i_am_consumer = hold; G.lin_old = NULL; G.lin_new = NULL; G.lin_count = 0; G.it_next_at_lin = NULL; G.mr_calls = 0; G.mr_arg = NULL;
  G.resumed = 0; G.resumed_item = NULL; G.completed = 0; G.completed_op = NULL; G.batch_oldest = NULL; G.batch_rest = NULL;
  OP.mutex_ = &M; OP.base.next_ = VF_nondet_bool() ? OPAQUE : NULL; OP.receiver_ = VF_nondet_int();
  /* pendingQueue_: empty, or P1 [-> P2 | opaque rest] */
  if (VF_nondet_bool()) { M.pendingQueue_.head_ = NULL; M.pendingQueue_.tail_ = NULL; }
  else {
    M.pendingQueue_.head_ = &P1;
    P1.next_ = VF_nondet_bool() ? &P2 : (VF_nondet_bool() ? OPAQUE : NULL);
    P2.next_ = VF_nondet_bool() ? OPAQUE : NULL;
    M.pendingQueue_.tail_ = P1.next_ == NULL ? &P1 : ((P1.next_ == &P2 && P2.next_ == NULL) ? &P2 : OPAQUE);
  }
  G.old_pending = M.pendingQueue_; G.old_p1_next = P1.next_;
}
void h_try_lock(void) { h_init(VF_nondet_bool()); _Bool r = async_mutex_try_lock(&M); VF_CANARY("after try_lock"); if (r) { VF_CANARY("try_lock can succeed"); } else { VF_CANARY("try_lock can fail"); } }
void h_try_enqueue(void) { h_init(VF_nondet_bool()); _Bool r = async_mutex_try_enqueue(&M, &IT); VF_CANARY("after try_enqueue"); if (r) { VF_CANARY("try_enqueue can queue"); } else { VF_CANARY("try_enqueue can acquire"); } }
void h_op_try_enqueue(void) { h_init(VF_nondet_bool()); _Bool r = OP_try_enqueue(&OP); VF_CANARY("after op.try_enqueue"); if (r) { VF_CANARY("op.try_enqueue can queue"); } }
void h_op_start(void) { h_init(VF_nondet_bool()); OP_start(&OP); VF_CANARY("after start"); if (G.completed) { VF_CANARY("start can complete inline"); } else { VF_CANARY("start can suspend"); } }
void h_op_resume(void) { h_init(0); OP_resume(&IT); VF_CANARY("after resume_"); }
void h_iq_pop_front(void) { h_init(1); __CPROVER_assume(M.pendingQueue_.head_ != NULL); struct item* r = IQ_pop_front(&M.pendingQueue_); VF_CANARY("after pop_front"); if (M.pendingQueue_.head_ == NULL) { VF_CANARY("pop_front can empty the queue"); } }
void h_unlock(void) {
  h_init(1);
  async_mutex_unlock(&M);
  VF_CANARY("after unlock");
  if (RELEASED) { VF_CANARY("unlock can release"); }
  if (HAD_PENDING) { VF_CANARY("unlock can hand off to a pending waiter"); }
  if (TOOK) { VF_CANARY("unlock can take the inbox"); }
}

/* ---------------- M4 lemmas over the contracts ---------------- */
void lemma_mutex_init(void) {
  async_mutex_init(&M);
  VF_P(M.atomicQueue_.head_ == MINACT, "lemma: a fresh mutex is unlocked (lock word = inactive sentinel)");
  VF_P(M.pendingQueue_.head_ == NULL && M.pendingQueue_.tail_ == NULL, "lemma: a fresh mutex has no pending waiter");
  VF_P(AQ_producer_inactive_value(MQ) == MINACT && MINACT != NULL && MINACT != (void*)&IT, "lemma: the sentinel is the address of the lock word, not NULL, not a waiter");
  VF_CANARY("lemma_mutex_init reachable");
}
static void* lemma_pick(void) {
  int k = VF_nondet_int();
  return k == 0 ? MINACT : k == 1 ? NULL : k == 2 ? (void*)&IT : k == 3 ? (void*)&W1 : (void*)&B1;
}
/* ghost: holders = number of parties between a lock acquisition and the matching release.
 * One step on the lock word by any party, summarised by the contracts above:
 *   acquire  (try_lock true / try_enqueue false):  ACQUIRED shape, holders++
 *   queue    (try_enqueue true):                   push over a non-sentinel value, holders unchanged
 *   release  (unlock, by a holder):                RELEASED shape, holders--
 *   take     (unlock, by a holder):                TOOK shape, then hand-off: holders unchanged (the lock passes on) */
void lemma_mutex_exclusion(void) {
  void* o = lemma_pick(); void* n = lemma_pick();
  unsigned holders = VF_nondet_u32();
  __CPROVER_assume(holders <= 1 && ((o == MINACT) == (holders == 0)));                 /* invariant before the step */
  W1.next_ = VF_nondet_bool() ? (struct item*)o : NULL;
  _Bool acquire = AQ_STEP_MARK_ACTIVE(MQ, o, n);
  _Bool queue = AQ_STEP_PUSH(MQ, o, n, &W1, W1.next_) && o != MINACT;
  _Bool release = AQ_STEP_MARK_INACTIVE(MQ, o, n) && holders >= 1;                      /* unlock requires holder == me */
  _Bool take = AQ_STEP_TAKE_ALL(MQ, o, n) && holders >= 1;
  __CPROVER_assume(acquire || queue || release || take);
  VF_CANARY("lemma premises satisfiable");
  unsigned h2 = holders + (acquire ? 1 : 0) - (release ? 1 : 0);
  VF_P(h2 <= 1, "lemma (mutual exclusion): at most one holder after any step");
  VF_P((n == MINACT) == (h2 == 0), "lemma: lock word == sentinel <=> no holder, after any step");
  VF_P(acquire ==> holders == 0, "lemma: an acquisition happens only while nobody holds the mutex");
  VF_P(holders == 1 ==> !acquire, "lemma: between an acquisition and the matching release no try_lock succeeds and no async_lock acquires");
  VF_P((queue || take) ==> n != MINACT, "lemma: queueing and taking the inbox keep the mutex locked");
}
/* unlock's contract as a relation; whatever it did, no waiter was dropped */
void lemma_mutex_no_lost_waiter(void) {
  /* symbolic outcome of one unlock() satisfying its postconditions */
  G.lin_count = VF_nondet_u32(); G.lin_old = lemma_pick(); G.lin_new = lemma_pick(); G.resumed = VF_nondet_u32();
  _Bool had_pending = VF_nondet_bool();
  __CPROVER_assume(G.lin_count <= 1 && G.resumed <= 1);
  __CPROVER_assume(G.resumed + (RELEASED ? 1 : 0) == 1);
  __CPROVER_assume(RELEASED ==> (!had_pending && G.lin_old == NULL));
  __CPROVER_assume(had_pending ==> (G.lin_count == 0 && G.resumed == 1));
  __CPROVER_assume((!had_pending && !RELEASED) ==> (TOOK && G.resumed == 1));
  VF_CANARY("lemma premises satisfiable");
  /* a waiter queued before this unlock's linearisation is in the inbox chain (lock word = non-NULL chain) or pending */
  _Bool waiter_in_inbox = VF_nondet_bool();
  __CPROVER_assume(waiter_in_inbox ==> (G.lin_count == 1 ==> (G.lin_old != NULL && G.lin_old != MINACT)));   /* the word the step saw contains it */
  VF_P((waiter_in_inbox && G.lin_count == 1) ==> (TOOK && !RELEASED), "lemma: with a waiter in the inbox the only step unlock can make on the lock word is take-all (the waiter moves to the holder's batch)");
  VF_P((had_pending || waiter_in_inbox) ==> !RELEASED, "lemma: the mutex is never released while a waiter is pending or in the inbox (no lost wake-up)");
  VF_P(!RELEASED ==> G.resumed == 1, "lemma: an unlock that does not release hands the lock to exactly one waiter");
}
/* a lock attempt (try_enqueue of waiter IT, summarised by the enqueue_or_mark_active contract) racing with the holder's
 * unlock (summarised by unlock's contract, pendingQueue_ empty): in either order the waiter is not lost */
void lemma_mutex_race_with_release(void) {
  void* s0 = lemma_pick();
  __CPROVER_assume(s0 != MINACT && s0 != (void*)&IT);                                   /* the mutex is held; IT is not queued yet */
  _Bool lock_first = VF_nondet_bool();
  void* s1 = lemma_pick(); void* s2 = lemma_pick();
  IT.next_ = VF_nondet_bool() ? (struct item*)(lock_first ? s0 : s1) : NULL;
#define LOCK_STEP(o, n)   ((o) == MINACT ? AQ_STEP_MARK_ACTIVE(MQ, o, n) : AQ_STEP_PUSH(MQ, o, n, &IT, IT.next_))   /* AQ_ENS_EOMA: sentinel -> acquires; otherwise pushes */
#define UNLOCK_STEP(o, n) (AQ_STEP_MARK_INACTIVE(MQ, o, n) || AQ_STEP_TAKE_ALL(MQ, o, n))                          /* AQ_ENS_TMIODA: releases over an empty inbox, or takes everything */
  __CPROVER_assume(lock_first ? (LOCK_STEP(s0, s1) && UNLOCK_STEP(s1, s2)) : (UNLOCK_STEP(s0, s1) && LOCK_STEP(s1, s2)));
  VF_CANARY("lemma premises satisfiable");
  if (lock_first) {
    VF_P(s1 == (void*)&IT && IT.next_ == (struct item*)s0, "lemma: a lock attempt that precedes the release is queued in front of the previous inbox");
    VF_P(!AQ_STEP_MARK_INACTIVE(MQ, s1, s2), "lemma: ... then the release CAS (NULL -> sentinel) cannot succeed");
    VF_P(AQ_STEP_TAKE_ALL(MQ, s1, s2) && s1 == (void*)&IT, "lemma: ... and unlock takes the whole inbox, whose head is that waiter: it is in the batch the holder serves next");
  } else {
    VF_P(AQ_STEP_MARK_INACTIVE(MQ, s0, s1) ==> (AQ_STEP_MARK_ACTIVE(MQ, s1, s2) && s2 == NULL), "lemma: a lock attempt that follows the release sees the sentinel and ACQUIRES (it is never queued behind an unlocked mutex)");
    VF_P(AQ_STEP_TAKE_ALL(MQ, s0, s1) ==> (s2 == (void*)&IT && IT.next_ == NULL), "lemma: a lock attempt that follows a take-all is queued behind the still-locked mutex (served by a later unlock)");
  }
}
