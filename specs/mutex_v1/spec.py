CPP = 'source/async_mutex_v1.cpp'
H = 'include/unifex/v1/async_mutex.hpp'
AQ = 'include/unifex/detail/atomic_intrusive_queue.hpp'
IQ = 'include/unifex/detail/intrusive_queue.hpp'
AQCLS = r'class atomic_intrusive_queue \{'
IQCLS = r'class intrusive_queue \{'

ctx = dict(
    cls='async_mutex',
    members=['atomicQueue_', 'pendingQueue_'],
    # the queue operations: calls are checked against / replaced by the contracts of specs/atomic_queue/aq_contract.h
    obj_methods={'enqueue_or_mark_active': 'AQ_enqueue_or_mark_active',
                 'try_mark_inactive_or_dequeue_all': 'AQ_try_mark_inactive_or_dequeue_all',
                 'try_mark_active': 'AQ_try_mark_active',
                 'empty': 'IQ_empty', 'pop_front': 'IQ_pop_front'},
    typemap=[(r'\bwaiter_base\b', 'struct item'), (r'\bItem\b', 'struct item'), (r'\btype\b', 'struct lock_op')],
    ptrmem={'Next': 'next_'},
    pre=[(r'(\w+)->resume_\(\1\)', r'EV_resume(\1)')],   # function pointer into the waiter: hand-off event
)
aq_ctx = dict(cls='AQ', members=['head_'], methods=['producer_inactive_value'])
iq_ctx = dict(cls='IQ', members=['head_', 'tail_'], methods=['empty'])
op_ctx = dict(cls='OP', members=['mutex_', 'receiver_'],
              pre=[(r'\bmutex_\.try_enqueue\(this\)', 'async_mutex_try_enqueue(self->mutex_, &self->base)'),   # type : waiter_base (upcast made explicit)
                   (r'\bop\.try_enqueue\(\)', 'OP_try_enqueue(op)'),
                   (r'unifex::set_value\(\(Receiver &&\) op\.receiver_\)', 'EV_set_value(&op)'),                # resume_ lambda: op is a reference
                   (r'\bset_value\(\(Receiver &&\) op\.receiver_\)', 'EV_set_value(op)')])                      # start: op is the C pointer parameter

SPEC = dict(
    properties=['C15'],
    ctx=ctx,
    extracts={
        'mutex_ctor_arg': dict(file=CPP, kind='expr', sig=r'async_mutex::async_mutex\(\) noexcept : atomicQueue_\(([^)]*)\)'),
        'aq_ctor_flag': dict(file=AQ, kind='expr', ctx=aq_ctx,
                             sig=r'explicit atomic_intrusive_queue\(bool initiallyActive\) noexcept\s*: head_\((.*?)\) \{\}'),
        'producer_inactive_value': dict(file=AQ, sig=r'void\* producer_inactive_value\(\) const noexcept', ctx=aq_ctx),
        'iq_head_init': dict(file=IQ, kind='expr', sig=r'Item\* head_ = ([^;]*);', within=IQCLS),
        'iq_tail_init': dict(file=IQ, kind='expr', sig=r'Item\* tail_ = ([^;]*);', within=IQCLS),
        'iq_empty': dict(file=IQ, sig=r'bool empty\(\) const noexcept', within=IQCLS, ctx=iq_ctx),
        'iq_pop_front': dict(file=IQ, sig=r'Item\* pop_front\(\) noexcept', within=IQCLS, ctx=iq_ctx),
        'try_enqueue': dict(file=CPP, sig=r'bool async_mutex::try_enqueue\(waiter_base\* base\) noexcept'),
        'unlock': dict(file=CPP, sig=r'void async_mutex::unlock\(\) noexcept'),
        'try_lock': dict(file=H, sig=r'inline bool async_mutex::try_lock\(\) noexcept'),
        'op_start': dict(file=H, sig=r'friend void tag_invoke\(tag_t<start>, type& op\) noexcept', ctx=op_ctx),
        'op_try_enqueue': dict(file=H, sig=r'bool try_enqueue\(\) noexcept', ctx=op_ctx),
        'op_resume': dict(file=H, sig=r'this->resume_ = \[\]\(waiter_base\* self\) noexcept', ctx=op_ctx),
    },
    closed_world=[
        dict(file=CPP, members=['atomicQueue_', 'pendingQueue_'], allow=[r'async_mutex::async_mutex\(\) noexcept : atomicQueue_\(']),
        dict(file=H, members=['atomicQueue_', 'pendingQueue_'],
             allow=[r'atomic_intrusive_queue<waiter_base, &waiter_base::next_> atomicQueue_;',
                    r'intrusive_queue<waiter_base, &waiter_base::next_> pendingQueue_;']),
    ],
    units=[
        dict(name='try_lock', harness='h_try_lock', enforce='async_mutex_try_lock', replace=['AQ_try_mark_active']),
        dict(name='try_enqueue', harness='h_try_enqueue', enforce='async_mutex_try_enqueue', replace=['AQ_enqueue_or_mark_active']),
        dict(name='op_try_enqueue', harness='h_op_try_enqueue', enforce='OP_try_enqueue', replace=['async_mutex_try_enqueue']),
        dict(name='op_start', harness='h_op_start', enforce='OP_start', replace=['OP_try_enqueue']),
        dict(name='op_resume', harness='h_op_resume', enforce='OP_resume'),
        dict(name='iq_pop_front', harness='h_iq_pop_front', enforce='IQ_pop_front'),
        dict(name='unlock', harness='h_unlock', enforce='async_mutex_unlock'),
        dict(name='lemma_mutex_init', harness='lemma_mutex_init', mode='lemma'),
        dict(name='lemma_mutex_exclusion', harness='lemma_mutex_exclusion', mode='lemma'),
        dict(name='lemma_mutex_no_lost_waiter', harness='lemma_mutex_no_lost_waiter', mode='lemma'),
        dict(name='lemma_mutex_race_with_release', harness='lemma_mutex_race_with_release', mode='lemma'),
    ],
    assumptions=[
        'the contracts of atomic_intrusive_queue (specs/atomic_queue/aq_contract.h, enforced on the real bodies in group atomic_queue) '
        'stand for enqueue_or_mark_active / try_mark_active / try_mark_inactive_or_dequeue_all here; the single-consumer precondition '
        'of the consumer operations is discharged by: only unlock() calls them, and unlock() requires holder == me',
        'unlock() is called by the current holder only (requires holder == me); a lock operation is started once and its waiter node '
        'is not in the queue when it is started',
        'the list returned by try_mark_inactive_or_dequeue_all is a NULL-terminated FIFO list, oldest waiter first, whose last node is '
        'the old inbox head (reversal postcondition of make_reversed: bounded check in group atomic_queue)',
        'window meta-argument (M2): pendingQueue_ / a taken batch is represented by its first node, that node\'s successor and an opaque rest',
        'set_value on the receiver and the hand-off through resume_ are event stubs: the resumed waiter may unlock() again or destroy '
        'its operation before the call returns (nothing may be touched afterwards)',
        'atomics sequentially consistent',
    ],
    drops=['memory orders', 'noexcept', 'template genericity (Receiver; Item -> struct item)', 'type : waiter_base upcast/downcast made explicit (first member)',
           'pendingQueue_ = std::move(newWaiters): swap-based move assignment from a temporary -> struct copy (the moved-to queue was checked empty)',
           'item->resume_(item) -> event stub EV_resume; the lambda stored in resume_ is extracted and verified separately (op_resume)',
           'unifex::set_value(receiver) -> event stub EV_set_value', '~async_mutex (empty) not extracted'],
)
