/* C03, last sentence: "the token adapters / fused sources forward a request from any upstream token with the same guarantees".
 *   include/unifex/fused_stop_source.hpp   _fss::stop_callback::operator(), fused_stop_callback<...> constructors,
 *                                          fused_stop_source::register_callbacks / deregister_callbacks (+ the implicit destructor)
 *   include/unifex/inplace_stop_token.hpp  detail::forward_stop_request_to_inplace_stop_source, inplace_stop_token,
 *                                          inplace_stop_source::get_token, inplace_stop_token_adapter (3 forms),
 *                                          detail::inplace_stop_token_adapter_subscription
 * Bodies / expressions marked @BODY / @EXPR are extracted from /repo on every run; everything else is specification.
 *
 * What is proved
 *  (a) forwarding: every upstream callback that register_callbacks / subscribe constructs is bound to THE inner source (the fused
 *      source itself / the adapter's source_), its invocation is exactly one request_stop() on that source and nothing else, and
 *      the token handed out observes that very source;
 *  (b) pairing: every callback slot (N symbolic; one symbolic WITNESS slot VF_WIT stands for each of them) is constructed on raw
 *      storage and destroyed while live: exactly once per registration, none leaked, none destroyed twice, the exception path of
 *      register_callbacks destroys exactly the slots already constructed and leaves the optional disengaged;
 *  (c) after deregister_callbacks / unsubscribe / the destructors return no slot is live, hence (rely: an upstream callback runs only
 *      while it is registered, C03 of the upstream token) no forwarded request can arrive any more; the inner source is destroyed
 *      only after that. */
#include <stddef.h>
#include <stdint.h>

struct inplace_stop_source { uint8_t state_; };
struct inplace_stop_token { struct inplace_stop_source* source_; };
struct fss_stop_callback { struct inplace_stop_source* source_; };     /* _fss::stop_callback (reference member -> pointer) */
struct fwd_callback { struct inplace_stop_source* source; };           /* detail::forward_stop_request_to_inplace_stop_source */
struct fss_optional { _Bool engaged; };                                /* std::optional<fused_callback_type>: the payload is the ghost slot table */
struct fused_stop_source { struct inplace_stop_source base; struct fss_optional callbacks_; };
struct up_token { int id; };                                           /* an upstream token of arbitrary type */
struct ml_callback { char storage; };                                  /* manual_lifetime<StopToken::callback_type<forward...>> */
struct adapter { struct inplace_stop_source source_; struct ml_callback callback_; };
struct subscription { _Bool isSubscribed_; struct adapter stopTokenAdapter_; };

struct vf_ghost {
  /* the inner source the callbacks must forward to, and its monotone stop flag (contract of request_stop, group stop_token) */
  _Bool requested; unsigned request_stop_calls, first_calls, stop_requested_queries; _Bool src_dead;
  /* callback slots: N = VF_N symbolic; live count, totals, and one symbolic witness slot */
  size_t nlive, constructs, destructs;
  _Bool wit_live; size_t wit_constructs, wit_destructs;
  struct inplace_stop_source* wit_target; size_t wit_token;
  unsigned fwd;                    /* forwarded requests that arrived (environment: a live upstream callback ran) */
  _Bool threw;
  /* a running callback may be deregistered (destroyed) from inside its own invocation */
  _Bool cb_dead; struct inplace_stop_source* cb_snap;
  /* adapter */
  _Bool token_moved; unsigned sp_queries;
};
static struct vf_ghost G;
static struct fused_stop_source FS;
static struct inplace_stop_source OTHER;
static struct fss_stop_callback CBK;
static struct fwd_callback FWD;
static struct subscription SUB;
#define AD (SUB.stopTokenAdapter_)
static struct inplace_stop_token TK;
static size_t VF_N;              /* sizeof...(StopTokens) */
/* per-harness constants (never assigned by the functions under contract) */
static size_t VF_WIT;                        /* the witness slot */
static struct inplace_stop_source* VF_TARGET; /* the inner source the callbacks must forward to */
static _Bool VF_UP_STOP_POSSIBLE; static int VF_UP_ID;   /* the upstream token given to the adapter */
#define VF_NMAX 65535u

#include "vf.h"

#define IMP(a, b) (!(a) || (b))
/* equality of truth values (a havocked _Bool need not hold the canonical byte 1) */
#define BEQ(a, b) ((a) ? ((b) ? 1 : 0) : ((b) ? 0 : 1))
/* slot bookkeeping invariant: counters balance, the witness is one of the slots */
#define COUNT_INV (G.nlive <= VF_N && VF_N <= VF_NMAX && G.constructs <= 0xFFFFFFFFu && G.destructs <= G.constructs && G.constructs == G.destructs + G.nlive \
   && G.wit_constructs <= 0xFFFFFFFFu && G.wit_constructs == G.wit_destructs + (G.wit_live ? 1 : 0) && IMP(G.wit_live, VF_WIT < VF_N && G.nlive >= 1))

/* ---- environment (rely): upstream stop requests run a LIVE callback (its body is fss_stop_callback_call / fwd_callback_call, proved
 * below: one request_stop on its target); anybody may also request stop on the inner source directly.  The flag is monotone.
 * With no live slot nothing can be forwarded. ---- */
#define RELY(nl, r0, f0, r1, f1) ( IMP(r0, r1) && (f1) >= (f0) && IMP((f1) > (f0), (nl) > 0 && (r1)) )
static void vf_interfere(void) {
  if (G.src_dead) return;
  _Bool r1 = VF_nondet_bool(); unsigned f1 = VF_nondet_u32();
  __CPROVER_assume(RELY(G.nlive, G.requested, G.fwd, r1, f1) && (f1 == G.fwd || f1 == G.fwd + 1u));
  G.requested = r1 ? 1 : 0; G.fwd = f1;
}

/* ---------------- event stubs ---------------- */
/* inplace_stop_source::request_stop(): true = stop had been requested before (nothing done), false = THIS call made the 0 -> 1 transition */
static _Bool EV_source_request_stop(struct inplace_stop_source* src) {
  VF_CANARY("request_stop on the inner source reachable");
  VF_P(src == VF_TARGET, "a forwarding callback requests stop on the source it was constructed with");
  VF_P(!G.src_dead, "no forwarded request reaches a destroyed source");
  vf_interfere();
  _Bool was = G.requested;
  G.requested = 1; G.request_stop_calls++;
  if (!was) G.first_calls++;
  /* request_stop runs the downstream callbacks; one of them may deregister (destroy) the calling upstream callback */
  if (VF_nondet_bool()) { struct fss_stop_callback f; CBK.source_ = f.source_; FWD.source = f.source_; G.cb_snap = f.source_; G.cb_dead = 1; }
  return was;
}
static _Bool EV_source_stop_requested(struct inplace_stop_source* src) {
  VF_P(src == VF_TARGET, "stop_requested is asked of the source the token is bound to");
  VF_P(!G.src_dead, "no query on a destroyed source");
  vf_interfere();
  G.stop_requested_queries++;
  return G.requested;
}
/* the fused source's own (inherited) stop flag: may have been set by anyone at any time */
static _Bool EV_fss_stop_requested(void* self) { VF_P(self != NULL, "stop_requested() of the fused source itself"); return VF_nondet_bool(); }
#define VF_CB_ALIVE(p) ({ VF_P(!G.cb_dead, "a stop callback does not touch itself after request_stop() returned (it may have been deregistered from inside)"); (p); })

/* StopToken::callback_type<F>(token, f): registers on the upstream token; may throw (strong guarantee) where the caller allows it;
 * a token that is already stopped runs the callback inline */
static _Bool vf_slot_construct(size_t idx, size_t token, struct inplace_stop_source* target, _Bool may_throw) {
  VF_P(idx < VF_N, "slot index within the pack");
  VF_P(!G.src_dead, "callbacks are registered for a live source");
  VF_P(target == VF_TARGET, "every upstream callback forwards to THE inner source: a request from any upstream token reaches it");
  VF_P(token == idx, "callback k is registered on upstream token k: every upstream token gets a callback");
  if (idx == VF_WIT) VF_P(!G.wit_live, "a callback slot is constructed on raw storage (not over a live callback)");
  VF_P(G.nlive < VF_N, "no more live callbacks than tokens");
  if (may_throw && VF_nondet_bool()) { G.threw = 1; return 1; }
  G.nlive++; G.constructs++;
  if (idx == VF_WIT) { G.wit_live = 1; G.wit_constructs++; G.wit_target = target; G.wit_token = token; }
  vf_interfere();
  return 0;
}
/* ~callback: deregisters; returns only when the callback is not running and never will (C03 of the upstream token) */
static void vf_slot_destroy(size_t idx) {
  VF_P(idx < VF_N, "slot index within the pack");
  if (idx == VF_WIT) VF_P(G.wit_live, "a callback slot is destroyed exactly once: constructed and not yet destroyed");
  VF_P(G.nlive >= 1, "only a live callback is destroyed");
  VF_P(!G.src_dead, "callbacks are deregistered while the source they forward to is alive");
  vf_interfere();
  G.nlive--; G.destructs++;
  if (idx == VF_WIT) { G.wit_live = 0; G.wit_destructs++; }
}
#define VF_MAKE_STOP_CALLBACK(src) ((struct fss_stop_callback){ (src) })
static _Bool EV_cb_construct(size_t level, size_t token, struct fss_stop_callback f) { return vf_slot_construct(level, token, f.source_, 1); }
static void EV_cb_destroy(size_t level) { vf_slot_destroy(level); }

/* ================= fused_stop_source.hpp ================= */
/* _fss::stop_callback::operator(): exactly one request_stop() on the source it refers to, nothing else, nothing afterwards */
#define CB_REQ (VF_TARGET != NULL && !G.src_dead && !G.cb_dead && G.request_stop_calls == 0 && G.first_calls == 0 && G.stop_requested_queries == 0)
#define CB_ENS(was) (G.request_stop_calls == 1 && G.requested && G.stop_requested_queries == 0 && G.first_calls <= 1 && IMP(was, G.first_calls == 0))
void fss_stop_callback_call(struct fss_stop_callback* self)
__CPROVER_requires(self == &CBK && CBK.source_ == VF_TARGET && CB_REQ)
__CPROVER_assigns(G, CBK, FWD)
__CPROVER_ensures(CB_ENS(__CPROVER_old(G.requested)))                /* forwarded exactly as a direct request_stop(): once; at most one call is "first"; the flag is set */
__CPROVER_ensures(!G.cb_dead || CBK.source_ == G.cb_snap)           /* the callback object may be gone: never written afterwards */
/*@BODY fss_cb_call*/

/* fused_stop_callback<> (empty pack) and fused_stop_callback<First, Rest...>: constructor bodies */
static void fsc_ctor_empty(struct inplace_stop_source* source)
/*@BODY fsc_base_ctor*/
static void fsc_ctor_tail(struct inplace_stop_source* source, size_t first, size_t rest)
/*@BODY fsc_ctor_body*/

/* declaration order of the two members of fused_stop_callback<First, Rest...> */
#define FSC_MEMBER(m) IDX_##m,
enum { /*@EXPR fsc_members*/ FSC_NMEMBERS };
#define FSC_INIT_callback_ (/*@EXPR fsc_init_callback*/)
#define FSC_INIT_rest_ (/*@EXPR fsc_init_rest*/)

/* slots level .. N-1 */
#define ABOVE(level) (VF_WIT >= (level) && VF_WIT < VF_N)
void fsc_dtor(size_t level)
__CPROVER_requires(level <= VF_N && COUNT_INV && G.nlive >= (VF_N - level) + ((G.wit_live && VF_WIT < level) ? 1 : 0) && IMP(ABOVE(level), G.wit_live) && !G.src_dead)
__CPROVER_assigns(G)
__CPROVER_ensures(COUNT_INV && G.nlive == __CPROVER_old(G.nlive) - (VF_N - level) && G.destructs == __CPROVER_old(G.destructs) + (VF_N - level) && G.constructs == __CPROVER_old(G.constructs))
__CPROVER_ensures(IMP(ABOVE(level), !G.wit_live && G.wit_destructs == __CPROVER_old(G.wit_destructs) + 1))  /* every slot of the block destroyed, once */
__CPROVER_ensures(IMP(!ABOVE(level), BEQ(G.wit_live, __CPROVER_old(G.wit_live)) && G.wit_destructs == __CPROVER_old(G.wit_destructs)))
__CPROVER_ensures(G.wit_constructs == __CPROVER_old(G.wit_constructs) && BEQ(G.threw, __CPROVER_old(G.threw)) && !G.src_dead && G.wit_target == __CPROVER_old(G.wit_target) && G.wit_token == __CPROVER_old(G.wit_token))
__CPROVER_ensures(IMP(__CPROVER_old(G.requested), G.requested))
{
  /* C++ object model: the implicit destructor destroys the members in reverse declaration order */
  if (level == VF_N) return;
  if (IDX_callback_ < IDX_rest_) { fsc_dtor(level + 1); EV_cb_destroy(level); }
  else { EV_cb_destroy(level); fsc_dtor(level + 1); }
}

_Bool fsc_ctor(size_t level, struct inplace_stop_source* source)   /* returns 1 = exception propagates */
__CPROVER_requires(level <= VF_N && COUNT_INV && G.nlive <= level && IMP(ABOVE(level), !G.wit_live) && !G.threw && !G.src_dead)
__CPROVER_assigns(G)
__CPROVER_ensures(BEQ(__CPROVER_return_value, G.threw) && COUNT_INV && !G.src_dead && IMP(__CPROVER_old(G.requested), G.requested))
/* no exception: every slot of the block constructed once, none destroyed; bound to the right source and token */
__CPROVER_ensures(!G.threw ==> (G.nlive == __CPROVER_old(G.nlive) + (VF_N - level) && G.constructs == __CPROVER_old(G.constructs) + (VF_N - level) && G.destructs == __CPROVER_old(G.destructs)))
__CPROVER_ensures((!G.threw && ABOVE(level)) ==> (G.wit_live && G.wit_constructs == __CPROVER_old(G.wit_constructs) + 1 && G.wit_destructs == __CPROVER_old(G.wit_destructs) && G.wit_target == source && G.wit_token == VF_WIT))
/* exception: exactly the slots already constructed were destroyed again */
__CPROVER_ensures(G.threw ==> (G.nlive == __CPROVER_old(G.nlive) && G.constructs - __CPROVER_old(G.constructs) == G.destructs - __CPROVER_old(G.destructs)))
__CPROVER_ensures((G.threw && ABOVE(level)) ==> (!G.wit_live && G.wit_constructs - __CPROVER_old(G.wit_constructs) == G.wit_destructs - __CPROVER_old(G.wit_destructs) && G.wit_constructs - __CPROVER_old(G.wit_constructs) <= 1))
__CPROVER_ensures(IMP(!ABOVE(level), BEQ(G.wit_live, __CPROVER_old(G.wit_live)) && G.wit_constructs == __CPROVER_old(G.wit_constructs) && G.wit_destructs == __CPROVER_old(G.wit_destructs) && G.wit_target == __CPROVER_old(G.wit_target) && G.wit_token == __CPROVER_old(G.wit_token)))
{
  if (level == VF_N) { fsc_ctor_empty(source); return 0; }     /* empty pack: primary template */
  size_t first = level, rest = level + 1;                       /* pack expansion: `first` is token #level, `rest...` the tokens after it */
  /* C++ object model: members are initialised in declaration order; if a later one throws the earlier one is destroyed */
  if (IDX_callback_ < IDX_rest_) {
    if (FSC_INIT_callback_) return 1;
    if (FSC_INIT_rest_) { EV_cb_destroy(level); return 1; }
  } else {
    if (FSC_INIT_rest_) return 1;
    if (FSC_INIT_callback_) { fsc_dtor(rest); return 1; }
  }
  fsc_ctor_tail(source, first, rest);
  return 0;
}

/* std::optional<fused_callback_type> */
static _Bool fss_optional_emplace(struct fss_optional* o, struct inplace_stop_source* src) {
  if (o->engaged) { fsc_dtor(0); o->engaged = 0; }     /* emplace destroys the contained value first */
  if (fsc_ctor(0, src)) return 1;                       /* constructor threw: left disengaged */
  o->engaged = 1;
  return 0;
}
static void fss_optional_reset(struct fss_optional* o) { if (o->engaged) { fsc_dtor(0); o->engaged = 0; } }
#define VF_AS_SOURCE(p) (&(p)->base)                   /* *this bound to inplace_stop_source& : the base sub-object */

/* optional engaged <=> all N callbacks live */
#define FS_INV (COUNT_INV && VF_TARGET == &FS.base && !G.src_dead \
   && (FS.callbacks_.engaged ? (G.nlive == VF_N && IMP(VF_WIT < VF_N, G.wit_live)) : (G.nlive == 0 && !G.wit_live)))
#define WAS_ENGAGED (__CPROVER_old(FS.callbacks_.engaged) ? 1u : 0u)

void fused_stop_source_register_callbacks(struct fused_stop_source* self)
__CPROVER_requires(self == &FS && FS_INV && !G.threw)
__CPROVER_assigns(G, FS.callbacks_)
__CPROVER_ensures(FS_INV)
/* no exception: one live callback per upstream token, each constructed exactly once by this call and bound to the fused source itself */
__CPROVER_ensures(!G.threw ==> (FS.callbacks_.engaged && G.nlive == VF_N && G.constructs == __CPROVER_old(G.constructs) + VF_N))
__CPROVER_ensures((!G.threw && VF_WIT < VF_N) ==> (G.wit_live && G.wit_constructs == __CPROVER_old(G.wit_constructs) + 1 && G.wit_destructs == __CPROVER_old(G.wit_destructs) + WAS_ENGAGED && G.wit_target == &FS.base && G.wit_token == VF_WIT))
/* exception: nothing stays registered, whatever had been constructed was destroyed exactly once, the optional is empty */
__CPROVER_ensures(G.threw ==> (!FS.callbacks_.engaged && G.nlive == 0 && !G.wit_live))
__CPROVER_ensures((G.threw && VF_WIT < VF_N) ==> (G.wit_constructs - __CPROVER_old(G.wit_constructs) <= 1))
/*@BODY register_callbacks*/

void fused_stop_source_deregister_callbacks(struct fused_stop_source* self)
__CPROVER_requires(self == &FS && FS_INV)
__CPROVER_assigns(G, FS.callbacks_)
__CPROVER_ensures(FS_INV && !FS.callbacks_.engaged && G.nlive == 0)                                       /* nothing registered any more: no forwarded request can arrive (rely) */
__CPROVER_ensures(G.destructs == __CPROVER_old(G.destructs) + (WAS_ENGAGED ? VF_N : 0) && G.constructs == __CPROVER_old(G.constructs))
__CPROVER_ensures(!G.wit_live && G.wit_destructs == __CPROVER_old(G.wit_destructs) + ((WAS_ENGAGED && VF_WIT < VF_N) ? 1 : 0) && G.wit_constructs == __CPROVER_old(G.wit_constructs))  /* each registered callback destroyed exactly once; none if not registered */
/*@BODY deregister_callbacks*/

/* implicit ~fused_stop_source(): members first (callbacks_), the base class inplace_stop_source last */
#define FSS_SOURCE_IS_BASE (/*@EXPR fss_source_is_base*/)
#define FSS_CALLBACKS_IS_OPTIONAL (/*@EXPR fss_callbacks_is_optional*/)
static void EV_source_dtor(struct inplace_stop_source* src) {
  VF_P(src == VF_TARGET && !G.src_dead, "the inner source is destroyed once");
  VF_P(G.nlive == 0 && !G.wit_live, "the inner source is destroyed only after every upstream callback was deregistered (none can forward into it)");
  G.src_dead = 1;
}
void fused_stop_source_dtor(struct fused_stop_source* self)
__CPROVER_requires(self == &FS && FS_INV)
__CPROVER_assigns(G, FS.callbacks_)
__CPROVER_ensures(G.src_dead && G.nlive == 0 && !G.wit_live && COUNT_INV)
__CPROVER_ensures(G.wit_destructs == __CPROVER_old(G.wit_destructs) + ((WAS_ENGAGED && VF_WIT < VF_N) ? 1 : 0))
{
#if FSS_SOURCE_IS_BASE && FSS_CALLBACKS_IS_OPTIONAL
  fss_optional_reset(&self->callbacks_);      /* ~optional */
  EV_source_dtor(&self->base);                /* ~inplace_stop_source */
#endif
}

/* ================= inplace_stop_token.hpp ================= */
void fwd_callback_ctor(struct fwd_callback* self, struct inplace_stop_source* s)
__CPROVER_requires(self == &FWD && (s == &AD.source_ || s == &OTHER))
__CPROVER_assigns(FWD)
__CPROVER_ensures(FWD.source == s)                                    /* bound to the source it is given */
{ /*@EXPR fwd_cb_ctor*/; }

void fwd_callback_call(struct fwd_callback* self)
__CPROVER_requires(self == &FWD && FWD.source == VF_TARGET && CB_REQ)
__CPROVER_assigns(G, CBK, FWD)
__CPROVER_ensures(CB_ENS(__CPROVER_old(G.requested)))
__CPROVER_ensures(!G.cb_dead || FWD.source == G.cb_snap)
/*@BODY fwd_cb_call*/

/* inplace_stop_token */
#define VF_TOKEN(src) ((struct inplace_stop_token){ (src) })
static struct inplace_stop_token VF_DEFAULT_TOKEN(void) { struct inplace_stop_token t; struct inplace_stop_token* self = &t; /*@EXPR token_default_ctor*/; return t; }

_Bool inplace_stop_token_stop_requested(struct inplace_stop_token* self)
__CPROVER_requires(self == &TK && (TK.source_ == NULL || (TK.source_ == VF_TARGET && VF_TARGET != NULL && !G.src_dead)) && G.stop_requested_queries == 0)
__CPROVER_assigns(G)
__CPROVER_ensures(TK.source_ == NULL ==> (!__CPROVER_return_value && G.stop_requested_queries == 0))    /* an empty token never reports stop */
__CPROVER_ensures(TK.source_ != NULL ==> (G.stop_requested_queries == 1 && BEQ(__CPROVER_return_value, G.requested) && IMP(__CPROVER_old(G.requested), __CPROVER_return_value))) /* the flag of the source it is bound to; never reverts */
__CPROVER_ensures(G.request_stop_calls == __CPROVER_old(G.request_stop_calls))
/*@BODY token_stop_requested*/

_Bool inplace_stop_token_stop_possible(struct inplace_stop_token* self)
__CPROVER_requires(self == &TK)
__CPROVER_assigns()
__CPROVER_ensures(BEQ(__CPROVER_return_value, TK.source_ != NULL))
/*@BODY token_stop_possible*/

struct inplace_stop_token inplace_stop_source_get_token(struct inplace_stop_source* self)
__CPROVER_requires(self == &AD.source_ || self == &FS.base || self == &OTHER)
__CPROVER_assigns()
__CPROVER_ensures(__CPROVER_return_value.source_ == self)            /* the token observes this very source */
/*@BODY get_token*/

/* ---- inplace_stop_token_adapter<StopToken> (generic form): slot 0 of a pack of one ---- */
static _Bool EV_up_stop_possible(struct up_token* t) {
  VF_P(!G.token_moved, "the upstream token is not queried after it was moved into the callback");
  VF_P(t->id == VF_UP_ID, "the query is about the upstream token given to subscribe");
  G.sp_queries++;
  return VF_UP_STOP_POSSIBLE;
}
static void EV_ml_construct(struct ml_callback* m, struct up_token* t, struct inplace_stop_source* src) {
  VF_CANARY("upstream callback construction reachable");
  VF_P(m == &AD.callback_, "the adapter's own callback slot");
  VF_P(!G.token_moved && t->id == VF_UP_ID, "the callback is registered on the upstream token given to subscribe (moved once)");
  G.token_moved = 1;
  vf_slot_construct(0, 0, src, 0);
}
static void EV_ml_destruct(struct ml_callback* m) {
  VF_CANARY("upstream callback destruction reachable");
  VF_P(m == &AD.callback_, "the adapter's own callback slot");
  vf_slot_destroy(0);
}
#define AD_INV (VF_N == 1 && VF_WIT == 0 && COUNT_INV && VF_TARGET == &AD.source_ && !G.src_dead && G.nlive == (G.wit_live ? 1 : 0))

struct inplace_stop_token adapter_subscribe(struct adapter* self, struct up_token stoken)
__CPROVER_requires(!G.wit_live) /*P*/ /* caller: not already subscribed */
__CPROVER_requires(self == &AD && AD_INV && !G.token_moved && stoken.id == VF_UP_ID && G.sp_queries == 0)
__CPROVER_assigns(G)
__CPROVER_ensures(AD_INV && G.wit_live && G.wit_constructs == __CPROVER_old(G.wit_constructs) + 1 && G.wit_destructs == __CPROVER_old(G.wit_destructs))  /* one callback registered on the upstream token ... */
__CPROVER_ensures(G.wit_target == &AD.source_ && G.token_moved)                                                                                        /* ... forwarding to the adapter's own source */
__CPROVER_ensures(VF_UP_STOP_POSSIBLE ==> __CPROVER_return_value.source_ == &AD.source_)   /* the token handed out observes exactly the source the upstream callback forwards to */
__CPROVER_ensures(!VF_UP_STOP_POSSIBLE ==> __CPROVER_return_value.source_ == NULL)          /* an upstream token that can never stop: the empty token */
/*@BODY adapter_subscribe*/

void adapter_unsubscribe(struct adapter* self)
__CPROVER_requires(G.wit_live) /*P*/ /* caller: subscribed */
__CPROVER_requires(self == &AD && AD_INV)
__CPROVER_assigns(G)
__CPROVER_ensures(AD_INV && !G.wit_live && G.nlive == 0 && G.wit_destructs == __CPROVER_old(G.wit_destructs) + 1 && G.wit_constructs == __CPROVER_old(G.wit_constructs)) /* destroyed exactly once: nothing can be forwarded any more */
/*@BODY adapter_unsubscribe*/

/* inplace_stop_token_adapter<inplace_stop_token>: the upstream token already is an inplace_stop_token -> handed through */
struct inplace_stop_token adapter_inplace_subscribe(struct adapter* self, struct inplace_stop_token stoken)
__CPROVER_requires(self == &AD && (stoken.source_ == NULL || stoken.source_ == &OTHER))
__CPROVER_assigns()
__CPROVER_ensures(__CPROVER_return_value.source_ == stoken.source_)
/*@BODY adapter_inplace_subscribe*/
void adapter_inplace_unsubscribe(struct adapter* self)
__CPROVER_requires(self == &AD)
__CPROVER_assigns()
__CPROVER_ensures(1)
/*@BODY adapter_inplace_unsubscribe*/
/* inplace_stop_token_adapter<never-stoppable token>: the empty token, nothing registered */
struct inplace_stop_token adapter_never_subscribe(struct adapter* self)
__CPROVER_requires(self == &AD)
__CPROVER_assigns()
__CPROVER_ensures(__CPROVER_return_value.source_ == NULL)
/*@BODY adapter_never_subscribe*/
void adapter_never_unsubscribe(struct adapter* self)
__CPROVER_requires(self == &AD)
__CPROVER_assigns()
__CPROVER_ensures(1)
/*@BODY adapter_never_unsubscribe*/

/* ---- detail::inplace_stop_token_adapter_subscription: isSubscribed_ <=> the adapter's callback is live ---- */
#define SUB_INV (AD_INV && BEQ(SUB.isSubscribed_, G.wit_live))

struct inplace_stop_token subscription_subscribe(struct subscription* self, struct up_token stoken)
__CPROVER_requires(!SUB.isSubscribed_) /*P*/ /* caller: not already subscribed */
__CPROVER_requires(self == &SUB && SUB_INV && !G.token_moved && stoken.id == VF_UP_ID && G.sp_queries == 0)
__CPROVER_assigns(G, SUB.isSubscribed_)
__CPROVER_ensures(SUB_INV && SUB.isSubscribed_ && G.wit_constructs == __CPROVER_old(G.wit_constructs) + 1 && G.wit_destructs == __CPROVER_old(G.wit_destructs) && G.wit_target == &AD.source_)
__CPROVER_ensures(VF_UP_STOP_POSSIBLE ==> __CPROVER_return_value.source_ == &AD.source_)
__CPROVER_ensures(!VF_UP_STOP_POSSIBLE ==> __CPROVER_return_value.source_ == NULL)
/*@BODY sub_subscribe*/

void subscription_unsubscribe(struct subscription* self)
__CPROVER_requires(self == &SUB && SUB_INV)
__CPROVER_assigns(G, SUB.isSubscribed_)
__CPROVER_ensures(SUB_INV && !SUB.isSubscribed_ && !G.wit_live && G.nlive == 0)                                      /* idempotent: afterwards nothing is registered */
__CPROVER_ensures(G.wit_destructs == __CPROVER_old(G.wit_destructs) + (__CPROVER_old(SUB.isSubscribed_) ? 1 : 0) && G.wit_constructs == __CPROVER_old(G.wit_constructs)) /* destroyed exactly once iff it was subscribed */
/*@BODY sub_unsubscribe*/

void subscription_dtor(struct subscription* self)
__CPROVER_requires(self == &SUB && SUB_INV)
__CPROVER_assigns(G, SUB.isSubscribed_)
__CPROVER_ensures(!G.wit_live && G.nlive == 0 && G.wit_constructs == G.wit_destructs)       /* the destructor leaks no registration: the adapter's source_ dies with nothing forwarding into it */
__CPROVER_ensures(G.wit_destructs == __CPROVER_old(G.wit_destructs) + (__CPROVER_old(SUB.isSubscribed_) ? 1 : 0))
/*@BODY sub_dtor*/

/* ---------------- harnesses ---------------- */
static void h_zero(void) {
  G.requested = VF_nondet_bool(); G.request_stop_calls = 0; G.first_calls = 0; G.stop_requested_queries = 0; G.src_dead = 0;
  G.fwd = 0; G.threw = 0; G.cb_dead = 0; G.cb_snap = NULL; G.token_moved = 0; G.sp_queries = 0;
  VF_UP_STOP_POSSIBLE = VF_nondet_bool(); VF_UP_ID = VF_nondet_int();
  G.wit_target = NULL; G.wit_token = 0; G.nlive = 0; VF_N = 0;
}
/* any bookkeeping state with `live` of the N slots live */
static void h_slots(size_t n, size_t nlive, _Bool wit_live) {
  VF_N = n; VF_WIT = VF_nondet_size_t(); G.nlive = nlive; G.wit_live = wit_live;
  G.destructs = VF_nondet_size_t(); G.constructs = VF_nondet_size_t(); G.wit_destructs = VF_nondet_size_t(); G.wit_constructs = VF_nondet_size_t();
  __CPROVER_assume(G.destructs <= 0xFFFF0000u && G.constructs == G.destructs + nlive && G.wit_destructs <= 0xFFFF0000u && G.wit_constructs == G.wit_destructs + (wit_live ? 1 : 0));
}
void h_fss_cb_call(void) {
  h_zero(); VF_TARGET = VF_nondet_bool() ? &FS.base : &OTHER; CBK.source_ = VF_TARGET;
  fss_stop_callback_call(&CBK);
  VF_CANARY("after stop_callback::operator()");
  if (G.first_calls) { VF_CANARY("the forwarded request can be the first"); } else { VF_CANARY("the forwarded request can come second"); }
  if (G.cb_dead) { VF_CANARY("the callback can be deregistered from inside"); }
}
void h_fwd_cb_call(void) {
  h_zero(); VF_TARGET = VF_nondet_bool() ? &AD.source_ : &OTHER; FWD.source = VF_TARGET;
  fwd_callback_call(&FWD);
  VF_CANARY("after forward_stop_request_to_inplace_stop_source::operator()");
  if (G.first_calls) { VF_CANARY("the forwarded request can be the first"); }
}
void h_fwd_cb_ctor(void) { fwd_callback_ctor(&FWD, VF_nondet_bool() ? &AD.source_ : &OTHER); VF_CANARY("after forward_stop_request_to_inplace_stop_source ctor"); }

static void h_fused(void) {
  h_zero(); VF_TARGET = &FS.base;
  size_t n = VF_nondet_size_t(); __CPROVER_assume(n <= VF_NMAX);
  FS.callbacks_.engaged = VF_nondet_bool();
  h_slots(n, FS.callbacks_.engaged ? n : 0, 0);
  G.wit_live = FS.callbacks_.engaged && VF_WIT < VF_N;
  __CPROVER_assume(G.wit_constructs == G.wit_destructs + (G.wit_live ? 1 : 0));
}
void h_fsc_ctor(void) {
  h_zero(); VF_TARGET = &FS.base;
  size_t n = VF_nondet_size_t(), level = VF_nondet_size_t(), nl = VF_nondet_size_t(); _Bool wl = VF_nondet_bool();
  __CPROVER_assume(n <= VF_NMAX && level <= n && nl <= level);
  h_slots(n, nl, wl);
  __CPROVER_assume(IMP(wl, VF_WIT < level && nl >= 1));
  _Bool r = fsc_ctor(level, &FS.base);
  VF_CANARY("after fused_stop_callback ctor");
  if (r) { VF_CANARY("a callback construction can throw"); if (G.destructs != 0 && level + 1 < n) { VF_CANARY("unwinding destroys the callbacks already constructed"); } }
  else if (level < n) { VF_CANARY("all callbacks can be constructed"); }
  else { VF_CANARY("empty pack"); }
}
void h_fsc_dtor(void) {
  h_zero(); VF_TARGET = &FS.base;
  size_t n = VF_nondet_size_t(), level = VF_nondet_size_t(), nl = VF_nondet_size_t(); _Bool wl = VF_nondet_bool();
  __CPROVER_assume(n <= VF_NMAX && level <= n && nl <= n && nl >= n - level);
  h_slots(n, nl, wl);
  __CPROVER_assume(IMP(wl, VF_WIT < n) && IMP(ABOVE(level), wl) && IMP(wl, nl >= 1) && nl >= (n - level) + ((wl && VF_WIT < level) ? 1 : 0));
  fsc_dtor(level);
  VF_CANARY("after ~fused_stop_callback");
  if (level < n) { VF_CANARY("non-empty block destroyed"); }
}
void h_register_callbacks(void) {
  h_fused();
  _Bool was = FS.callbacks_.engaged;
  fused_stop_source_register_callbacks(&FS);
  VF_CANARY("after register_callbacks");
  if (G.threw) { VF_CANARY("register_callbacks can throw"); } else { VF_CANARY("register_callbacks can succeed"); }
  if (was) { VF_CANARY("register_callbacks on an already registered source"); }
}
void h_deregister_callbacks(void) {
  h_fused();
  _Bool was = FS.callbacks_.engaged;
  fused_stop_source_deregister_callbacks(&FS);
  VF_CANARY("after deregister_callbacks");
  if (was) { VF_CANARY("deregister_callbacks with callbacks registered"); } else { VF_CANARY("deregister_callbacks with nothing registered"); }
}
void h_fss_dtor(void) {
  h_fused();
  fused_stop_source_dtor(&FS);
  VF_CANARY("after ~fused_stop_source");
}
void h_token(void) {
  h_zero(); VF_TARGET = VF_nondet_bool() ? &AD.source_ : &OTHER; TK.source_ = VF_nondet_bool() ? VF_TARGET : NULL; VF_N = 0; G.nlive = 0;
  _Bool r = inplace_stop_token_stop_requested(&TK);
  VF_CANARY("after inplace_stop_token::stop_requested");
  if (r) { VF_CANARY("a token can report stop"); }
}
void h_token_stop_possible(void) { TK.source_ = VF_nondet_bool() ? &OTHER : NULL; inplace_stop_token_stop_possible(&TK); VF_CANARY("after inplace_stop_token::stop_possible"); }
void h_get_token(void) { inplace_stop_source_get_token(VF_nondet_bool() ? &AD.source_ : (VF_nondet_bool() ? &FS.base : &OTHER)); VF_CANARY("after get_token"); }

static void h_adapter(_Bool live) {
  h_zero(); VF_TARGET = &AD.source_;
  h_slots(1, live ? 1 : 0, live); VF_WIT = 0;
}
void h_adapter_subscribe(void) {
  h_adapter(0);
  struct up_token t; t.id = VF_UP_ID;
  struct inplace_stop_token r = adapter_subscribe(&AD, t);
  VF_CANARY("after inplace_stop_token_adapter::subscribe");
  if (r.source_ != NULL) { VF_CANARY("subscribe can hand out a live token"); } else { VF_CANARY("subscribe can hand out the empty token"); }
  if (G.fwd) { VF_CANARY("an already stopped upstream token forwards inline"); }
}
void h_adapter_unsubscribe(void) { h_adapter(1); adapter_unsubscribe(&AD); VF_CANARY("after inplace_stop_token_adapter::unsubscribe"); }
void h_adapter_inplace(void) { struct inplace_stop_token t; t.source_ = VF_nondet_bool() ? &OTHER : NULL; adapter_inplace_subscribe(&AD, t); VF_CANARY("after adapter<inplace_stop_token>::subscribe"); }
void h_adapter_never(void) { adapter_never_subscribe(&AD); VF_CANARY("after adapter<never>::subscribe"); }
void h_adapter_trivial_unsubscribe(void) { adapter_inplace_unsubscribe(&AD); VF_CANARY("after adapter<inplace_stop_token>::unsubscribe"); }
void h_adapter_never_unsubscribe(void) { adapter_never_unsubscribe(&AD); VF_CANARY("after adapter<never>::unsubscribe"); }
void h_sub_subscribe(void) {
  h_adapter(0); SUB.isSubscribed_ = /*@EXPR isSubscribed_init*/;
  struct up_token t; t.id = VF_UP_ID;
  subscription_subscribe(&SUB, t);
  VF_CANARY("after subscription::subscribe");
}
void h_sub_unsubscribe(void) {
  _Bool live = VF_nondet_bool();
  h_adapter(live); SUB.isSubscribed_ = live;
  subscription_unsubscribe(&SUB);
  VF_CANARY("after subscription::unsubscribe");
  if (live) { VF_CANARY("unsubscribe of a subscribed subscription"); } else { VF_CANARY("unsubscribe of an unsubscribed subscription"); }
}
void h_sub_dtor(void) {
  _Bool live = VF_nondet_bool();
  h_adapter(live); SUB.isSubscribed_ = live;
  subscription_dtor(&SUB);
  VF_CANARY("after ~subscription");
  if (live) { VF_CANARY("destructor of a subscribed subscription"); }
}

/* ---------------- M4 lemmas over the contracts ---------------- */
/* protocol state: the inner source's flag, the number of live upstream callbacks, the forwarded-request counter */
enum { ST_CONSTRUCT, ST_DESTROY, ST_CB_RUN, ST_DIRECT, ST_NKINDS };
void lemma_forward(void) {
  size_t n = VF_nondet_size_t(), nl = VF_nondet_size_t(); _Bool r0 = VF_nondet_bool(); unsigned f0 = VF_nondet_u32();
  __CPROVER_assume(n <= VF_NMAX && nl <= n && f0 < 0xFFFFFFFFu && IMP(f0 > 0, r0));        /* invariant: a forwarded request has set the flag */
  int kind = VF_nondet_int(); __CPROVER_assume(kind >= 0 && kind < ST_NKINDS);
  size_t nl1 = nl; _Bool r1 = r0; unsigned f1 = f0; _Bool en = 0;
  switch (kind) {
  case ST_CONSTRUCT: en = nl < n; nl1 = nl + 1; break;                    /* owner: vf_slot_construct */
  case ST_DESTROY:   en = nl >= 1; nl1 = nl - 1; break;                   /* owner: vf_slot_destroy */
  case ST_CB_RUN:    en = nl >= 1; r1 = 1; f1 = f0 + 1; break;            /* an upstream stop request runs a live callback: CB_ENS (request_stop once, flag set) */
  case ST_DIRECT:    en = 1; r1 = 1; break;                               /* request_stop directly on the inner source */
  }
  __CPROVER_assume(en);
  VF_CANARY("lemma premises satisfiable");
  VF_P(IMP(f1 > 0, r1) && nl1 <= n, "lemma: every step preserves the invariant (a forwarded request has set the flag)");
  VF_P(IMP(r0, r1), "lemma: stop_requested() of the inner source never reverts, whoever requested");
  if (kind == ST_CB_RUN || kind == ST_DIRECT) VF_P(RELY(nl, r0, f0, r1, f1), "lemma: the steps of the upstream callbacks and of direct requesters are allowed by the owner's rely");
  VF_P(IMP(kind == ST_CB_RUN, r1), "lemma: a stop request on ANY upstream token with a live callback sets the inner source's flag");
  /* after the last deregistration nothing is forwarded */
  _Bool r2 = VF_nondet_bool(); unsigned f2 = VF_nondet_u32();
  __CPROVER_assume(RELY(nl1, r1, f1, r2, f2));
  if (nl1 == 0) { VF_CANARY("lemma: state with no live callback reachable"); VF_P(f2 == f1, "lemma: with no live upstream callback no forwarded request can arrive (after deregister_callbacks / unsubscribe returned)"); }
}
void lemma_forward_rely(void) {
  size_t nl = VF_nondet_size_t(); _Bool a = VF_nondet_bool(), b = VF_nondet_bool(), c = VF_nondet_bool(); unsigned fa = VF_nondet_u32(), fb = VF_nondet_u32(), fc = VF_nondet_u32();
  VF_P(RELY(nl, a, fa, a, fa), "lemma: rely reflexive");
  __CPROVER_assume(RELY(nl, a, fa, b, fb) && RELY(nl, b, fb, c, fc));
  VF_CANARY("rely premises satisfiable");
  VF_P(RELY(nl, a, fa, c, fc), "lemma: rely transitive");
}
void lemma_fused_init(void) {
  VF_P(FSS_SOURCE_IS_BASE == 1 && FSS_CALLBACKS_IS_OPTIONAL == 1, "lemma: the inner source is the base class (destroyed after the members), callbacks_ is a std::optional (disengaged when fresh)");
  VF_P(FSC_NMEMBERS == 2 && IDX_callback_ != IDX_rest_ && IDX_callback_ < 2 && IDX_rest_ < 2, "lemma: fused_stop_callback<First, Rest...> has exactly the two members callback_ and rest_");
  /* a fresh fused_stop_source / subscription satisfies the invariants */
  h_zero(); VF_N = VF_nondet_size_t(); __CPROVER_assume(VF_N <= VF_NMAX);
  VF_TARGET = &FS.base; FS.callbacks_.engaged = 0; G.nlive = 0; G.constructs = 0; G.destructs = 0; VF_WIT = VF_nondet_size_t(); G.wit_live = 0; G.wit_constructs = 0; G.wit_destructs = 0;
  VF_P(FS_INV, "lemma: a fresh fused_stop_source (optional disengaged, nothing constructed) satisfies the invariant");
  VF_N = 1; VF_WIT = 0; VF_TARGET = &AD.source_; SUB.isSubscribed_ = /*@EXPR isSubscribed_init*/;
  VF_P(SUB_INV, "lemma: a fresh subscription (isSubscribed_ as initialised, nothing constructed) satisfies the invariant");
  struct inplace_stop_token t = VF_DEFAULT_TOKEN();
  VF_P(t.source_ == NULL, "lemma: a default-constructed inplace_stop_token is the empty token");
  VF_CANARY("lemma_fused_init reachable");
}
