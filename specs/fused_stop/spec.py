F = 'include/unifex/fused_stop_source.hpp'
H = 'include/unifex/inplace_stop_token.hpp'
FSS_CB = r'struct stop_callback \{'
FSC0 = r'struct fused_stop_callback \{'                                   # primary template: empty pack
FSC = r'struct fused_stop_callback<First, Rest\.\.\.> \{'                 # <First, Rest...>
FSS = r'struct fused_stop_source : unifex::inplace_stop_source \{'
FWD = r'struct forward_stop_request_to_inplace_stop_source \{'
TOK = r'class inplace_stop_token \{'
AD = r'class inplace_stop_token_adapter \{'                               # primary template only (the specialisations have <...> after the name)
AD_INPLACE = r'class inplace_stop_token_adapter<inplace_stop_token, void> \{'
AD_NEVER = r'class inplace_stop_token_adapter<\s*StopToken,\s*std::enable_if_t<is_stop_never_possible_v<StopToken>>> \{'
SUB = r'struct inplace_stop_token_adapter_subscription \{'

# any nullary member call on the referenced inner source becomes the event stub of that member (request_stop: contract of group stop_token)
SRC_CALLS = [(r'\bsource_\.(\w+)\(\)', r'EV_source_\1(source_)'), (r'(?<![\w.>])source\.(\w+)\(\)', r'EV_source_\1(source)')]
# instrumentation (no statement changed): a stop callback may be deregistered (destroyed) from inside its own invocation
CB_ALIVE = [(r'\bself->', 'VF_CB_ALIVE(self)->')]
TOKENS = [(r'inplace_stop_token\{this\}', 'VF_TOKEN(this)'), (r'inplace_stop_token\{\}', 'VF_DEFAULT_TOKEN()')]

fss_cb_ctx = dict(cls='fss_stop_callback', members=['source_'], methods=[], pre=SRC_CALLS, post=CB_ALIVE)
fwd_cb_ctx = dict(cls='fwd_callback', members=['source'], methods=[], pre=SRC_CALLS + [(r'^source\(s\)$', 'source = s')], post=CB_ALIVE)
fwd_ctor_ctx = dict(cls='fwd_callback', members=['source'], methods=[], pre=[(r'^source\(s\)$', 'source = s')])
fsc_ctx = dict(cls='fsc', members=[], methods=[],
               pre=[(r'UNIFEX_NO_UNIQUE_ADDRESS First callback_;', 'FSC_MEMBER(callback_)'),
                    (r'UNIFEX_NO_UNIQUE_ADDRESS fused_stop_callback<Rest\.\.\.> rest_;', 'FSC_MEMBER(rest_)'),
                    # mem-initialisers: callback_(first token of the pack, stop_callback{source}) ; rest_(source, remaining tokens...)
                    (r'stop_callback\{(\w+)\}', r'VF_MAKE_STOP_CALLBACK(\1)'),
                    (r'^callback_\(std::move\((\w+)\),', r'EV_cb_construct(level, \1,'),
                    (r'^rest_\((\w+), std::move\((\w+)\)\.\.\.\)$', r'fsc_ctor(\2, \1)')])
fss_ctx = dict(cls='fused_stop_source', members=['callbacks_'], methods=[],
               pre=[(r'callbacks_\.emplace\(\*this, std::move\(tokens\)\.\.\.\);', 'if (fss_optional_emplace(&callbacks_, VF_AS_SOURCE(this))) return;'),
                    (r'callbacks_\.reset\(\);', 'fss_optional_reset(&callbacks_);'),
                    # inherited inplace_stop_source::stop_requested() asked of the fused source itself (variant forms only; the flag may be set at any time)
                    (r'(?<![\w.>])stop_requested\(\)', 'EV_fss_stop_requested(this)'),
                    (r'^unifex::inplace_stop_source$', '1'), (r'^std::optional<fused_callback_type>$', '1')])
tok_ctx = dict(cls='inplace_stop_token', members=['source_'], methods=[], obj_methods={'stop_requested': 'EV_source_stop_requested'},
               pre=[(r'^source_\(nullptr\)$', 'source_ = nullptr')])
src_ctx = dict(cls='inplace_stop_source', members=[], methods=[], pre=TOKENS)
ad_ctx = dict(cls='adapter', members=['callback_', 'source_'], methods=[], obj_methods={'get_token': 'inplace_stop_source_get_token'},
              pre=TOKENS + [(r'stoken\.stop_possible\(\)', 'EV_up_stop_possible(&stoken)'),
                            (r'callback_\.construct\(std::move\(stoken\), source_\)', 'EV_ml_construct(&callback_, &stoken, &source_)'),
                            (r'callback_\.destruct\(\)', 'EV_ml_destruct(&callback_)')])
sub_ctx = dict(cls='subscription', members=['isSubscribed_', 'stopTokenAdapter_'], methods=['unsubscribe'],
               obj_methods={'subscribe': 'adapter_subscribe', 'unsubscribe': 'adapter_unsubscribe'}, pre=[])

SPEC = dict(
    properties=['C03'],
    ctx=dict(),
    extracts={
        # ---- fused_stop_source.hpp
        'fss_cb_call': dict(file=F, sig=r'void operator\(\)\(\) noexcept', within=FSS_CB, ctx=fss_cb_ctx),
        'fsc_base_ctor': dict(file=F, sig=r'explicit fused_stop_callback\(unifex::inplace_stop_source&\) noexcept', within=FSC0, ctx=fsc_ctx),
        'fsc_ctor_body': dict(file=F, sig=r'explicit fused_stop_callback\(\s*unifex::inplace_stop_source& source,\s*StopToken first,\s*StopTokens\.\.\. rest\)', within=FSC, ctx=fsc_ctx),
        'fsc_init_callback': dict(file=F, kind='expr', sig=r'[:,]\s*(callback_\(std::move\(first\), stop_callback\{source\}\))\s*[,{]', within=FSC, ctx=fsc_ctx),
        'fsc_init_rest': dict(file=F, kind='expr', sig=r'[:,]\s*(rest_\(source, std::move\(rest\)\.\.\.\))\s*[,{]', within=FSC, ctx=fsc_ctx),
        'fsc_members': dict(file=F, kind='expr', sig=r'((?:UNIFEX_NO_UNIQUE_ADDRESS [^;]*;\s*){2})\}', within=FSC, ctx=fsc_ctx),
        'register_callbacks': dict(file=F, sig=r'void register_callbacks\(StopTokens\.\.\. tokens\)', within=FSS, ctx=fss_ctx),
        'deregister_callbacks': dict(file=F, sig=r'void deregister_callbacks\(\) noexcept', within=FSS, ctx=fss_ctx),
        'fss_source_is_base': dict(file=F, kind='expr', sig=r'struct fused_stop_source : (unifex::inplace_stop_source) \{', ctx=fss_ctx),
        'fss_callbacks_is_optional': dict(file=F, kind='expr', sig=r'UNIFEX_NO_UNIQUE_ADDRESS (std::optional<fused_callback_type>) callbacks_;', within=FSS, ctx=fss_ctx),
        # ---- inplace_stop_token.hpp: the forwarding callback, the token, the adapters
        'fwd_cb_ctor': dict(file=H, kind='expr', sig=r'forward_stop_request_to_inplace_stop_source\(inplace_stop_source& s\) noexcept\s*:\s*(source\(s\))\s*\{\}', within=FWD, ctx=fwd_ctor_ctx),
        'fwd_cb_call': dict(file=H, sig=r'void operator\(\)\(\) const noexcept', within=FWD, ctx=fwd_cb_ctx),
        'token_default_ctor': dict(file=H, kind='expr', sig=r'inplace_stop_token\(\) noexcept : (source_\(nullptr\)) \{\}', within=TOK, ctx=tok_ctx),
        'token_stop_requested': dict(file=H, sig=r'bool stop_requested\(\) const noexcept', within=TOK, ctx=tok_ctx),
        'token_stop_possible': dict(file=H, sig=r'bool stop_possible\(\) const noexcept', within=TOK, ctx=tok_ctx),
        'get_token': dict(file=H, sig=r'inline inplace_stop_token inplace_stop_source::get_token\(\) noexcept', ctx=src_ctx),
        'adapter_subscribe': dict(file=H, sig=r'inplace_stop_token subscribe\(StopToken stoken\) noexcept', within=AD, ctx=ad_ctx),
        'adapter_unsubscribe': dict(file=H, sig=r'void unsubscribe\(\) noexcept', within=AD, ctx=ad_ctx),
        'adapter_inplace_subscribe': dict(file=H, sig=r'inplace_stop_token subscribe\(inplace_stop_token stoken\) noexcept', within=AD_INPLACE, ctx=ad_ctx),
        'adapter_inplace_unsubscribe': dict(file=H, sig=r'void unsubscribe\(\) noexcept', within=AD_INPLACE, ctx=ad_ctx),
        'adapter_never_subscribe': dict(file=H, sig=r'inplace_stop_token subscribe\(StopToken\) noexcept', within=AD_NEVER, ctx=ad_ctx),
        'adapter_never_unsubscribe': dict(file=H, sig=r'void unsubscribe\(\) noexcept', within=AD_NEVER, ctx=ad_ctx),
        'isSubscribed_init': dict(file=H, kind='expr', sig=r'bool isSubscribed_ = ([^;]*);', within=SUB, ctx=sub_ctx),
        'sub_subscribe': dict(file=H, sig=r'inplace_stop_token subscribe\(StopToken stoken\) noexcept', within=SUB, ctx=sub_ctx),
        'sub_unsubscribe': dict(file=H, sig=r'void unsubscribe\(\) noexcept', within=SUB, ctx=sub_ctx),
        'sub_dtor': dict(file=H, sig=r'~inplace_stop_token_adapter_subscription\(\)', within=SUB, ctx=sub_ctx),
    },
    closed_world=[
        dict(file=F, members=['callbacks_'], within=FSS, allow=[r'UNIFEX_NO_UNIQUE_ADDRESS std::optional<fused_callback_type> callbacks_;']),
        dict(file=F, members=['callback_', 'rest_'], within=FSC,
             allow=[r'[:,]\s*callback_\(std::move\(first\), stop_callback\{source\}\)', r'[:,]\s*rest_\(source, std::move\(rest\)\.\.\.\)',
                    r'UNIFEX_NO_UNIQUE_ADDRESS First callback_;', r'UNIFEX_NO_UNIQUE_ADDRESS fused_stop_callback<Rest\.\.\.> rest_;']),
        dict(file=F, members=['source_'], within=FSS_CB, allow=[r'unifex::inplace_stop_source& source_;']),
        dict(file=H, members=['callback_', 'source_'], within=AD,
             allow=[r'inplace_stop_source source_;', r'UNIFEX_NO_UNIQUE_ADDRESS manual_lifetime<stop_callback> callback_;']),
        dict(file=H, members=['isSubscribed_', 'stopTokenAdapter_'], within=SUB,
             allow=[r'bool isSubscribed_ = [^;]*;', r'inplace_stop_token_adapter<StopToken> stopTokenAdapter_\{\};']),
        dict(file=H, members=['source'], within=FWD,
             allow=[r'inplace_stop_source& source;', r':\s*source\(s\) \{\}']),
    ],
    units=[
        dict(name='fss_stop_callback', harness='h_fss_cb_call', enforce='fss_stop_callback_call'),
        dict(name='fwd_callback', harness='h_fwd_cb_call', enforce='fwd_callback_call'),
        dict(name='fwd_callback_ctor', harness='h_fwd_cb_ctor', enforce='fwd_callback_ctor'),
        dict(name='fsc_ctor', harness='h_fsc_ctor', enforce='fsc_ctor', rec=True, replace=['fsc_dtor']),
        dict(name='fsc_dtor', harness='h_fsc_dtor', enforce='fsc_dtor', rec=True),
        dict(name='register_callbacks', harness='h_register_callbacks', enforce='fused_stop_source_register_callbacks', replace=['fsc_ctor', 'fsc_dtor']),
        dict(name='deregister_callbacks', harness='h_deregister_callbacks', enforce='fused_stop_source_deregister_callbacks', replace=['fsc_dtor']),
        dict(name='fss_dtor', harness='h_fss_dtor', enforce='fused_stop_source_dtor', replace=['fsc_dtor']),
        dict(name='token', harness='h_token', enforce='inplace_stop_token_stop_requested'),
        dict(name='token_stop_possible', harness='h_token_stop_possible', enforce='inplace_stop_token_stop_possible'),
        dict(name='get_token', harness='h_get_token', enforce='inplace_stop_source_get_token'),
        dict(name='adapter_subscribe', harness='h_adapter_subscribe', enforce='adapter_subscribe', replace=['inplace_stop_source_get_token']),
        dict(name='adapter_unsubscribe', harness='h_adapter_unsubscribe', enforce='adapter_unsubscribe'),
        dict(name='adapter_inplace', harness='h_adapter_inplace', enforce='adapter_inplace_subscribe'),
        dict(name='adapter_never', harness='h_adapter_never', enforce='adapter_never_subscribe'),
        dict(name='adapter_trivial_unsubscribe', harness='h_adapter_trivial_unsubscribe', enforce='adapter_inplace_unsubscribe'),
        dict(name='adapter_never_unsubscribe', harness='h_adapter_never_unsubscribe', enforce='adapter_never_unsubscribe'),
        dict(name='sub_subscribe', harness='h_sub_subscribe', enforce='subscription_subscribe', replace=['adapter_subscribe']),
        dict(name='sub_unsubscribe', harness='h_sub_unsubscribe', enforce='subscription_unsubscribe', replace=['adapter_unsubscribe']),
        dict(name='sub_dtor', harness='h_sub_dtor', enforce='subscription_dtor', replace=['subscription_unsubscribe']),
        dict(name='lemma_forward', harness='lemma_forward', mode='lemma'),
        dict(name='lemma_forward_rely', harness='lemma_forward_rely', mode='lemma'),
        dict(name='lemma_fused_init', harness='lemma_fused_init', mode='lemma'),
    ],
    assumptions=[
        'upstream stop tokens obey C03: a registered callback runs at most once and only while it is registered (constructed, not destroyed); its destructor returns only when it is not running and never will (and does not wait when called from inside that run)',
        'inplace_stop_source::request_stop() is the contract proved in specs/stop_token: returns false for exactly the call that makes the flag\'s 0 -> 1 transition, the flag never reverts (event stub EV_source_request_stop with the ghost `requested`)',
        'C++ object model, written in the template, not extracted: members are initialised in declaration order, a member constructed before a throwing one is destroyed during unwinding, the implicit destructor destroys members in reverse declaration order and bases last; std::optional::emplace destroys the engaged value first and leaves the optional disengaged if the constructor throws; std::optional::reset / ~optional destroy the value iff engaged',
        'pack expansion: level k of fused_stop_callback<First, Rest...> receives token k as `first`; sizeof...(StopTokens) <= 65535',
        'upstream callback construction in inplace_stop_token_adapter::subscribe does not throw (subscribe is noexcept: a throw is std::terminate)',
        'inplace_stop_token_adapter_subscription::subscribe / inplace_stop_token_adapter::subscribe are not called while already subscribed, and the adapter is unsubscribed before it is destroyed (manual_lifetime: caller obligations; the subscription wrapper discharges the second one in its destructor)',
        'atomics sequentially consistent (no atomic access in these functions: all interference is through the event stubs)',
    ],
    drops=['template genericity over the upstream token types (a token is an index, the N-fold pack recursion is one recursive contract over the level k with a symbolic witness slot)',
           'reference members (stop_callback::source_, forward_stop_request_to_inplace_stop_source::source) -> pointers',
           'constructor mem-initialiser lists and member declarations are extracted as expressions (fsc_init_callback, fsc_init_rest, fsc_members, fwd_cb_ctor, token_default_ctor); the order in which they take effect is the C++ object model in the template',
           'StopToken::callback_type<F>(token, f) construction / destruction -> event stubs EV_cb_construct / EV_cb_destroy / EV_ml_construct / EV_ml_destruct (may run the callback inline / wait for a running callback)',
           'noexcept(...) specifications', 'UNIFEX_NO_UNIQUE_ADDRESS'],
)
