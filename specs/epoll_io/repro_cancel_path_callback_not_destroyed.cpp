// Native reproducer for the C04 obligation that fails on epoll read/write complete_with_done
// (units rd_complete_with_done_c04 / wr_complete_with_done_c04, "the stop callback ... is destroyed before the receiver
// is completed").
//
// The cancel path of io_epoll_context::{read,write}_sender::operation never calls stopCallback_.destruct():
//   remote thread:  inplace_stop_source::request_stop -> callback->execute() -> op.request_stop() -> schedule_remote(done_op)
//   I/O thread:     complete_with_done -> set_done(receiver)   (the receiver may destroy the operation)
//   remote thread:  ... execute() returns; request_stop() then WRITES callback->removedDuringCallback_ / callbackCompleted_
// Nothing makes the I/O thread wait for the callback invocation to return (the callback's destructor, which does exactly
// that, is not run), so the stop source writes into the destroyed operation.  The window is a few instructions wide; the
// stop token below only widens it (its callback wrapper sleeps after invoking the library's cancel_callback, which is what a
// pre-empted thread looks like).
//
// Build (ASan, with source/inplace_stop_token.cpp instrumented as well):
//   c++ -std=c++17 -O1 -g -DNDEBUG -fsanitize=address -I<repo>/include -I/repo/_build/include this.cpp \
//       <repo>/source/linux/io_epoll_context.cpp <repo>/source/inplace_stop_token.cpp /repo/_build/source/libunifex.a -lpthread
// Expected on the current tree (with or without the 7.4/7.5 fixes): AddressSanitizer heap-use-after-free in
// inplace_stop_source::request_stop (source/inplace_stop_token.cpp, the stores after callback->execute()).
#include <unifex/linux/io_epoll_context.hpp>
#include <unifex/inplace_stop_token.hpp>
#include <unifex/scope_guard.hpp>
#include <unifex/span.hpp>
#include <atomic>
#include <chrono>
#include <cstdio>
#include <thread>
#include <vector>
using namespace unifex;
using namespace unifex::linuxos;
using namespace std::chrono_literals;

template <typename F>
struct delayed {
  F f;
  void operator()() noexcept {
    f();                                   // the library's cancel_callback: op.request_stop()
    std::this_thread::sleep_for(300ms);    // "pre-empted" before returning into inplace_stop_source::request_stop
  }
};
struct slow_token {
  inplace_stop_token t;
  template <typename F>
  struct callback_type {
    inplace_stop_callback<delayed<F>> cb;
    callback_type(slow_token tok, F&& f) : cb(tok.t, delayed<F>{(F &&) f}) {}
  };
  bool stop_requested() const noexcept { return t.stop_requested(); }
  bool stop_possible() const noexcept { return t.stop_possible(); }
};

struct holder {
  void (*destroy)(holder&) = nullptr;
  void* op = nullptr;
  std::atomic<int> result{0};   // 1 value, 2 error, 3 done
};
struct rcv {
  holder* h;
  slow_token tok;
  void finish(int r) noexcept {
    holder* hh = h;              // *this lives inside the operation state
    hh->destroy(*hh);            // the receiver owns the operation state: completing it destroys it
    hh->result.store(r);
  }
  void set_value(ssize_t) && noexcept { finish(1); }
  template <typename E>
  void set_error(E&&) && noexcept { finish(2); }
  void set_done() && noexcept { finish(3); }
  friend slow_token tag_invoke(tag_t<get_stop_token>, const rcv& r) noexcept { return r.tok; }
};

int main() {
  io_epoll_context ctx;
  inplace_stop_source loopStop;
  std::thread t{[&] { ctx.run(loopStop.get_token()); }};
  scope_guard stopOnExit = [&]() noexcept { loopStop.request_stop(); t.join(); };
  auto [rPipe, wPipe] = open_pipe(ctx.get_scheduler());
  std::vector<char> buf(1);

  inplace_stop_source src;
  holder h;
  // member connect / start (the connect CPO would only add the async-stack wrapper around the same operation)
  using op_t = decltype(async_read_some(rPipe, as_writable_bytes(span{buf.data(), 1})).connect(rcv{&h, slow_token{src.get_token()}}));
  h.destroy = [](holder& hh) { delete static_cast<op_t*>(hh.op); hh.op = nullptr; };
  auto* op = new op_t(async_read_some(rPipe, as_writable_bytes(span{buf.data(), 1})).connect(rcv{&h, slow_token{src.get_token()}}));
  h.op = op;
  op->start();                            // remote start: parks on the empty pipe, registers the stop callback
  std::this_thread::sleep_for(100ms);
  src.request_stop();                      // callback runs on THIS thread; the I/O thread completes and destroys the op meanwhile
  while (h.result.load() == 0) std::this_thread::sleep_for(10ms);
  std::printf("completed: %s\n", h.result.load() == 3 ? "done" : "other");
  return 0;
}
