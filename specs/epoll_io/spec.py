H = 'include/unifex/linux/io_epoll_context.hpp'
RD_SENDER = r'class io_epoll_context::read_sender \{'
WR_SENDER = r'class io_epoll_context::write_sender \{'
OPCLS = r'class operation\s*: private completion_base'
OPBASE = r'struct operation_base \{'

# the three spellings of "the receiver as an rvalue" used in these bodies
RCV = r'(?:std::move\(receiver_\)|std::move\(self\)\.receiver_|std::move\(self\.receiver_\))'


def op_pre(P, kind):
    """call abstractions for one operation class (P = C prefix RD / WR, kind = read / write)"""
    return [
        # constants are spelled with their full template-id
        (r'io_epoll_context::%s_sender::operation<\s*Receiver>::(\w+)' % kind, P + r'_\1'),
        # static member functions recover the operation from one of its two queue items (two bases of type operation_base)
        (r'auto& self =\s*\*static_cast<operation\*>\(static_cast<completion_base\*>\(op\)\);', 'struct io_op* self = VF_OP_OF_COMPLETION(op);'),
        (r'auto& self =\s*\*static_cast<operation\*>\(static_cast<done_op\*>\(op\)\);', 'struct io_op* self = VF_OP_OF_DONE(op);'),
        # receiver completion signals -> event stubs (the value / error code argument is kept)
        # UNIFEX_TRY { may-throw stub } UNIFEX_CATCH(...) { B }  ->  { if (stub) goto vf_catch; } if (0) { vf_catch: ; B }   (general rule missing from the table)
        (r'UNIFEX_TRY\s*\{\s*unifex::set_value\(\s*' + RCV + r',\s*ssize_t\(([^()]*)\)\);\s*\}\s*UNIFEX_CATCH\s*\(\.\.\.\)\s*\{',
         r'{ if (EV_set_value_maythrow(self, \1)) goto vf_catch; } if (0) { vf_catch: ;'),
        (r'unifex::set_value\(\s*' + RCV + r',\s*ssize_t\(([^()]*)\)\)', r'EV_set_value(self, \1)'),
        (r'unifex::set_error\(\s*' + RCV + r',\s*std::current_exception\(\)\)', 'EV_set_error_exception(self)'),
        (r'unifex::set_error\(\s*' + RCV + r',\s*std::error_code\{([^{},]*), std::system_category\(\)\}\)', r'EV_set_error(self, \1)'),
        (r'unifex::set_done\(' + RCV + r'\)', 'EV_set_done(self)'),
        (r'is_nothrow_receiver_of_v<Receiver, ssize_t>', 'VF_CFG_nothrow'),
        # stop callback (manual_lifetime<callback_type<cancel_callback>>): construction may run request_stop() inline
        (r'stopCallback_\.construct\(\s*get_stop_token\(receiver_\), cancel_callback\{\*this\}\)', 'EV_cb_construct(self)'),
        (r'self\.stopCallback_\.destruct\(\)', 'EV_cb_destruct(self)'),
        # syscalls -> POSIX-faithful stubs
        (r'epoll_ctl\(\s*(?:self\.|this->)?context_\.epollFd_\.get\(\),\s*(EPOLL_CTL_\w+),\s*(?:self\.|this->)?fd_,\s*&event\)', r'EV_epoll_ctl(self, \1, &event)'),
        (r'\b(readv|writev)\((?:self\.)?fd_, (?:self\.)?buffer_, 1\)', r'EV_\1(self)'),
        # the context: thread identity and the two scheduling entry points (contracts: specs/epoll_queue/eq_contract.h)
        (r'(?:this->|self\.)?context_\.is_running_on_io_thread\(\)', 'EV_on_io_thread(self)'),
        (r'(?:this->|self\.)?context_\.schedule_remote\(', 'EV_schedule_remote(self, '),
        (r'(?:this->|self\.)?context_\.schedule_local\(', 'EV_schedule_local(self, '),
        # up-casts to the two operation_base sub-objects made explicit (member sub-objects completion_base_ / done_op_)
        (r'static_cast<completion_base\*>\(this\)->', 'self->completion_base_.'),
        (r'static_cast<completion_base&>\(self\)\.', 'self->completion_base_.'),
        (r'static_cast<done_op&>\((?:self|\*this)\)\.', 'self->done_op_.'),
        (r'static_cast<done_op\*>\((?:this|&self)\)', '(&self->done_op_)'),
        (r'static_cast<completion_base\*>\(this\)', '(&self->completion_base_)'),
        (r'&operation::(\w+)', '&' + P + r'_\1'),
        (r'\bself\.', 'self->'),
    ]


def op_ctx(P, kind):
    return dict(cls=P, members=['context_', 'fd_', 'buffer_', 'receiver_', 'stopCallback_', 'state_'],
                methods=['start_io'], obj_methods={'start_io': P + '_start_io'},
                atomic=['state_', 'enqueued_'], pre=op_pre(P, kind), scalars=['int'],
                typemap=[(r'(?<!struct )\bepoll_event\b', 'struct epoll_event')],
                post=[(r'struct epoll_event event = \{\};', 'struct epoll_event event = {0};')])


def op_extracts(P, kind, SENDER):
    W = [SENDER, OPCLS]
    c = op_ctx(P, kind)
    ex = {}
    for k in ('io_flag', 'io_mask', 'cancel_pending_flag', 'cancel_pending_mask'):
        ex['%s_%s' % (P, k)] = dict(file=H, kind='expr', within=W, sig=r'static constexpr std::uint32_t %s = ([^;]*);' % k)
    ex[P + '_state_init'] = dict(file=H, kind='expr', within=W, sig=r'std::atomic<std::uint32_t> state_ = ([^;]*);')
    ex[P + '_start'] = dict(file=H, within=W, ctx=c, sig=r'void start\(\) noexcept')
    ex[P + '_on_schedule_complete'] = dict(file=H, within=W, ctx=c, sig=r'static void on_schedule_complete\(operation_base\* op\) noexcept')
    ex[P + '_start_io'] = dict(file=H, within=W, ctx=c, sig=r'void start_io\(\) noexcept')
    ex[P + '_on_complete'] = dict(file=H, within=W, ctx=c, sig=r'static void on_%s_complete\(operation_base\* op\) noexcept' % kind)
    ex[P + '_complete_with_done'] = dict(file=H, within=W, ctx=c, sig=r'static void complete_with_done\(operation_base\* op\) noexcept')
    ex[P + '_request_stop'] = dict(file=H, within=W, ctx=c, sig=r'void request_stop\(\) noexcept')
    return ex


extracts = {
    'ob_enqueued_init': dict(file=H, kind='expr', within=OPBASE, sig=r': enqueued_\(([^)]*)\)'),
    'ob_next_init': dict(file=H, kind='expr', within=OPBASE, sig=r', next_\(([^)]*)\)'),
    'ob_execute_init': dict(file=H, kind='expr', within=OPBASE, sig=r', execute_\(([^)]*)\)'),
}
extracts.update(op_extracts('RD', 'read', RD_SENDER))
extracts.update(op_extracts('WR', 'write', WR_SENDER))

DECLS = [r'std::atomic<std::uint32_t> state_ = 0;', r'(?s)manual_lifetime<typename stop_token_type_t<\s*Receiver>::template callback_type<cancel_callback>>\s*stopCallback_;']


def units_for(P):
    p = P.lower()
    rs = ['RD_request_stop', 'WR_request_stop']
    us = [
        dict(name=p + '_start', harness='h_%s_start' % p, enforce=P + '_start', replace=[P + '_start_io'], props=['C14']),
        dict(name=p + '_on_schedule_complete', harness='h_%s_on_schedule_complete' % p, enforce=P + '_on_schedule_complete', replace=[P + '_start_io'], props=['C14']),
        dict(name=p + '_start_io', harness='h_%s_start_io' % p, enforce=P + '_start_io', replace=rs, props=['C14']),
        dict(name=p + '_on_complete', harness='h_%s_on_complete' % p, enforce=P + ('_on_read_complete' if P == 'RD' else '_on_write_complete'), props=['C14']),
        dict(name=p + '_complete_with_done', harness='h_%s_complete_with_done' % p, enforce=P + '_complete_with_done', props=['C14']),
        dict(name=p + '_request_stop', harness='h_%s_request_stop' % p, enforce=P + '_request_stop', props=['C14', 'C04']),
        # C04: "every stop callback is deregistered before the receiver is completed" checked at the same completion events
        dict(name=p + '_start_io_c04', harness='h_%s_start_io' % p, enforce=P + '_start_io', replace=rs, defines=['VF_C04'], props=['C04']),
        dict(name=p + '_on_complete_c04', harness='h_%s_on_complete' % p, enforce=P + ('_on_read_complete' if P == 'RD' else '_on_write_complete'), defines=['VF_C04'], props=['C04']),
        dict(name=p + '_complete_with_done_c04', harness='h_%s_complete_with_done' % p, enforce=P + '_complete_with_done', defines=['VF_C04'], props=['C04']),
    ]
    return us


SPEC = dict(
    properties=['C14', 'C04'],
    ctx=op_ctx('RD', 'read'),
    extracts=extracts,
    closed_world=[
        dict(file=H, members=['state_', 'stopCallback_'], within=RD_SENDER, allow=DECLS),
        dict(file=H, members=['state_', 'stopCallback_'], within=WR_SENDER, allow=DECLS),
    ],
    units=units_for('RD') + units_for('WR') + [
        dict(name='lemma_io_init', harness='lemma_io_init', mode='lemma'),
        dict(name='lemma_io_election', harness='lemma_io_election', mode='lemma'),
        dict(name='lemma_io_env_cancel', harness='lemma_io_env_cancel', mode='lemma'),
        dict(name='lemma_io_no_stale_registration', harness='lemma_io_no_stale_registration', mode='lemma'),
    ],
    assumptions=[
        'real kernel behaviour is a model: readv/writev return n >= 0 or -1 with errno (any code); epoll_ctl(ADD) registers (EEXIST on a registered '
        'descriptor), epoll_ctl(DEL) removes (ENOENT when absent); after readiness was reported for the only pending operation on a descriptor the '
        'retried readv/writev does not fail with EAGAIN/EWOULDBLOCK (level-triggered readiness, single consumer) -- the code asserts the same',
        'one pending operation per descriptor and context: EPOLL_CTL_ADD/DEL address the descriptor, not the operation, and the code ignores their '
        'results; a failing EPOLL_CTL_ADD (EEXIST from a second concurrent operation on the same descriptor, EPERM for a regular file, ENOMEM/ENOSPC) '
        'would park the operation forever -- not claimed, not checked',
        'data integrity (bytes transferred land in the caller\'s buffer, in order) is the kernel\'s; only the byte count / error code is tracked',
        'descriptor and buffer lifetime (safe_file_descriptor, span) belong to the caller; io_uring is not reached',
        'the stop callback is invoked at most once (C03, group stop_token); it can fire only between its construction and the return of its '
        'destructor (which waits for a running invocation); request_stop is reached only through that callback',
        'start() / start_io() are called once per operation state; complete_with_done / on_*_complete are entered only through the context\'s '
        'queues, i.e. with their own queue item dequeued (enqueued_ == 0): contract of execute_pending_local, group epoll_queue',
        'schedule_local / schedule_remote are event stubs checked against specs/epoll_queue/eq_contract.h (enforced on the real bodies in group epoll_queue)',
        'rely of the I/O-thread functions: a remote canceller performs request_stop() as summarised by its contract (lemma_io_env_cancel ties the '
        'environment step to that contract); rely of request_stop: the I/O side adds io_flag at most once and never re-registers the descriptor '
        '(justified by the guarantee checked in start_io: EPOLL_CTL_ADD happens before the stop callback exists)',
        'atomics sequentially consistent',
    ],
    drops=['memory orders', 'noexcept', 'template genericity (Receiver): if constexpr(is_stop_ever_possible) and if constexpr(is_nothrow_receiver_of_v) -> both branches (symbolic configuration)',
           'private inheritance from completion_base and done_op (two operation_base sub-objects) -> two member sub-objects; static_cast up/down-casts -> member access / container-of',
           'receiver completion signals -> event stubs (byte count and error code kept, receiver and std::error_category dropped); std::current_exception() payload',
           'stopCallback_.construct/destruct -> event stubs (construct may run request_stop() inline); cancel_callback::operator() (one line: op_.request_stop()) not extracted',
           'epoll_event contents other than data.ptr; iovec buffer_; context_.epollFd_.get()',
           'UNIFEX_TRY/UNIFEX_CATCH made explicit by a spec-level regex (goto vf_catch at the may-throw stub)'],
)
