#!/bin/bash
# usage: specs/epoll_io/mut.sh <PID> <group> <file-relative-to-repo> <sed-expr | @python-snippet-file>
# Variant of tools_mut.sh for the epoll groups: the scratch copy of /repo's include/ and source/ first receives the two
# fixes (fix_7_4.diff, then fix_7_5.diff; skipped when /repo already contains them), then the mutation; the group's check
# runs against that copy (VF_REPO).  Never touches /repo.
pid=$1; grp=$2; f=$3; expr=$4
here=$(cd "$(dirname "$0")" && pwd)
scratch=/tmp/vfmut/$grp.$$
mkdir -p $scratch && rsync -a --delete /repo/include /repo/source $scratch/ || exit 9
for p in fix_7_4.diff fix_7_5.diff; do
  if (cd $scratch && patch -p1 -s --dry-run -R < $here/$p >/dev/null 2>&1); then :; else
    (cd $scratch && patch -p1 -s < $here/$p) || { echo "PATCH $p DID NOT APPLY"; rm -rf $scratch; exit 9; }
  fi
done
cp $scratch/$f $scratch/.orig
if [ "${expr:0:1}" = "@" ]; then python3 "${expr:1}" $scratch/$f || exit 9; else sed -i "$expr" $scratch/$f; fi
if diff -q $scratch/.orig $scratch/$f >/dev/null; then echo "MUTATION DID NOT CHANGE THE FILE"; rm -rf $scratch; exit 9; fi
diff $scratch/.orig $scratch/$f | head -${MUT_DIFF_LINES:-8}
rm -f $scratch/.orig
cd /verif && VF_REPO=$scratch VF_NO_EVIDENCE=1 VF_OUT=/tmp/vfmut/out.$grp.$$ VF_JOBS=${VF_JOBS:-6} timeout 1500 ./check $pid --group $grp 2>&1 | grep -E "VIOLATION|UNDECIDED|failed obligation|tier=" | cut -c1-260 | head -${MUT_LINES:-8}
rm -rf $scratch /tmp/vfmut/out.$grp.$$
