/* C14 / C04: io_epoll_context read_sender::operation and write_sender::operation
 * (include/unifex/linux/io_epoll_context.hpp): start, on_schedule_complete, start_io, on_read_complete / on_write_complete,
 * request_stop, complete_with_done.
 *
 * state_ : low half counts cancel requests (cancel_pending_flag), high half counts I/O completions (io_flag).  Each side
 * adds its flag once (fetch_add); the side that does NOT see the other's flag in the value it replaced owns the completion.
 *   I/O side    (I/O thread): start_io (fast path) or on_*_complete  -> set_value / set_error / set_done(ECANCELED)
 *   cancel side (any thread): request_stop (via the stop callback)   -> EPOLL_CTL_DEL, schedule done_op -> complete_with_done -> set_done
 * Kernel: the epoll set holds a pointer to the operation's completion_base between EPOLL_CTL_ADD and EPOLL_CTL_DEL (ghost G.registered).
 * Bodies marked @BODY/@EXPR are extracted from the source tree on every run; everything else here is specification. */
#include <stddef.h>
#include <stdint.h>
#include <sys/types.h>
#include <sys/epoll.h>
#include <errno.h>
#undef errno
#define errno (G.err)          /* the calling thread's errno: written by every failing syscall stub */

struct operation_base { int enqueued_; struct operation_base* next_; void (*execute_)(struct operation_base*); };
struct io_epoll_context { int epollFd_; };
struct io_op {                                /* {read,write}_sender::operation<Receiver> : private completion_base, private done_op */
  struct operation_base completion_base_;     /* queue item of the I/O completion path (also what the epoll registration points to) */
  struct operation_base done_op_;             /* queue item of the cancellation path */
  struct io_epoll_context* context_; int fd_; int buffer_; int receiver_; int stopCallback_;
  uint32_t state_;
};
typedef void (*exec_fn)(struct operation_base*);

enum { CB_NONE, CB_CONSTRUCTED, CB_DESTRUCTED };
enum { ROLE_IO, ROLE_CANCEL };
enum { FAM_RD, FAM_WR };
enum { PATH_IO, PATH_DONE };
struct vf_ghost {
  int fam;                    /* which operation class the harness exercises */
  int role;                   /* who executes the verified call: the I/O side or the canceller (decides the rely) */
  int path;                   /* PATH_IO: start_io / on_*_complete;  PATH_DONE: complete_with_done */
  _Bool on_io_thread;         /* thread identity of the calling thread */
  /* kernel */
  _Bool registered;           /* the epoll set holds data.ptr == &S.completion_base_ for S.fd_ */
  unsigned adds, dels;        /* epoll_ctl calls made by the verified call */
  _Bool ready;                /* readiness has been reported for this registration (on_*_complete runs because of it) */
  int err;                    /* errno */
  unsigned syscalls; long sys_result; int sys_err;   /* the transfer syscall of this operation: count, result, errno at failure */
  /* stop callback */
  int cb_state;
  /* election */
  uint32_t i_old, c_old;      /* value replaced by the I/O side's / the canceller's fetch_add */
  unsigned io_adds, cancel_adds;
  /* scheduling */
  unsigned sched_remote, sched_local; struct operation_base* sched_item; exec_fn sched_fn;
  /* completion */
  unsigned completed, value, error, exc_error, done;
  _Bool dead; struct io_op snap;   /* the operation may have been destroyed: fields as they were left */
};
static struct vf_ghost G;
static struct io_op S;
static struct io_epoll_context CTX;
static _Bool VF_CFG_stop_possible;   /* is_stop_ever_possible  (symbolic: both instantiations) */
static _Bool VF_CFG_nothrow;         /* is_nothrow_receiver_of_v<Receiver, ssize_t> */
#define is_stop_ever_possible VF_CFG_stop_possible

static void vf_guarantee(void* p, uint32_t o, uint32_t n);
#define VF_G(p, o, n) vf_guarantee((void*)(p), (uint32_t)(o), (uint32_t)(n))
#include "vf.h"
#include "../epoll_queue/eq_contract.h"

/* ---------------- constants and initial values, from the code ---------------- */
static const uint32_t RD_io_flag = /*@EXPR RD_io_flag*/;
static const uint32_t RD_io_mask = /*@EXPR RD_io_mask*/;
static const uint32_t RD_cancel_pending_flag = /*@EXPR RD_cancel_pending_flag*/;
static const uint32_t RD_cancel_pending_mask = /*@EXPR RD_cancel_pending_mask*/;
static const uint32_t WR_io_flag = /*@EXPR WR_io_flag*/;
static const uint32_t WR_io_mask = /*@EXPR WR_io_mask*/;
static const uint32_t WR_cancel_pending_flag = /*@EXPR WR_cancel_pending_flag*/;
static const uint32_t WR_cancel_pending_mask = /*@EXPR WR_cancel_pending_mask*/;
static void operation_base_init(struct operation_base* b) { b->enqueued_ = /*@EXPR ob_enqueued_init*/; b->next_ = /*@EXPR ob_next_init*/; b->execute_ = /*@EXPR ob_execute_init*/; }
static void io_op_init(struct io_op* self) {
  operation_base_init(&self->completion_base_); operation_base_init(&self->done_op_);
  self->state_ = (G.fam == FAM_RD) ? /*@EXPR RD_state_init*/ : /*@EXPR WR_state_init*/;
}

#define IO_FLAG     (G.fam == FAM_RD ? RD_io_flag : WR_io_flag)
#define IO_MASK     (G.fam == FAM_RD ? RD_io_mask : WR_io_mask)
#define CANCEL_FLAG (G.fam == FAM_RD ? RD_cancel_pending_flag : WR_cancel_pending_flag)
#define CANCEL_MASK (G.fam == FAM_RD ? RD_cancel_pending_mask : WR_cancel_pending_mask)

/* the operation is recovered from one of its two queue items */
#define VF_OP_OF_COMPLETION(op) ((struct io_op*)((char*)(op) - offsetof(struct io_op, completion_base_)))
#define VF_OP_OF_DONE(op)       ((struct io_op*)((char*)(op) - offsetof(struct io_op, done_op_)))

void RD_start(struct io_op* self);
void RD_on_schedule_complete(struct operation_base* op);
void RD_start_io(struct io_op* self);
void RD_on_read_complete(struct operation_base* op);
void RD_complete_with_done(struct operation_base* op);
void RD_request_stop(struct io_op* self);
void WR_start(struct io_op* self);
void WR_on_schedule_complete(struct operation_base* op);
void WR_start_io(struct io_op* self);
void WR_on_write_complete(struct operation_base* op);
void WR_complete_with_done(struct operation_base* op);
void WR_request_stop(struct io_op* self);
#define ON_SCHEDULE_FN (G.fam == FAM_RD ? (exec_fn)&RD_on_schedule_complete : (exec_fn)&WR_on_schedule_complete)
#define ON_COMPLETE_FN (G.fam == FAM_RD ? (exec_fn)&RD_on_read_complete : (exec_fn)&WR_on_write_complete)
#define DONE_FN        (G.fam == FAM_RD ? (exec_fn)&RD_complete_with_done : (exec_fn)&WR_complete_with_done)

/* ---------------- protocol predicates (specification, from the property statement) ---------------- */
#define IO_DONE(s)   (((s) & IO_MASK) != 0)
#define CANCELLED(s) (((s) & CANCEL_MASK) != 0)
/* each side wins iff the value its own fetch_add replaced does not carry the other side's flag */
#define IO_WON     (G.io_adds == 1 && !CANCELLED(G.i_old))
#define CANCEL_WON (G.cancel_adds == 1 && !IO_DONE(G.c_old))
/* the word is the sum of the flags added so far; each side adds at most once */
#define STATE_OK (G.io_adds <= 1 && G.cancel_adds <= 1 && S.state_ == (G.io_adds ? IO_FLAG : 0) + (G.cancel_adds ? CANCEL_FLAG : 0) \
                  && (G.io_adds == 1 ==> (G.i_old == 0 || (G.i_old == CANCEL_FLAG && G.cancel_adds == 1))) \
                  && (G.cancel_adds == 1 ==> (G.c_old == 0 || (G.c_old == IO_FLAG && G.io_adds == 1))) \
                  && ((G.io_adds == 1 && G.cancel_adds == 1) ==> ((G.i_old == 0) != (G.c_old == 0))))
#define WOULD_BLOCK(e) ((e) == EAGAIN || (e) == EWOULDBLOCK)
/* C14: once the cancel path owns the completion the kernel holds no pointer to the operation, and the done item has been
 * handed to the context exactly once with complete_with_done as its continuation */
#define NO_STALE_REG (CANCEL_WON ==> (!G.registered && G.sched_remote == 1 && G.sched_item == &S.done_op_ && G.sched_fn == DONE_FN))
#define OP_UNTOUCHED (S.completion_base_.enqueued_ == G.snap.completion_base_.enqueued_ && S.completion_base_.next_ == G.snap.completion_base_.next_ \
   && S.completion_base_.execute_ == G.snap.completion_base_.execute_ && S.done_op_.enqueued_ == G.snap.done_op_.enqueued_ && S.done_op_.next_ == G.snap.done_op_.next_ \
   && S.done_op_.execute_ == G.snap.done_op_.execute_ && S.context_ == G.snap.context_ && S.fd_ == G.snap.fd_ && S.buffer_ == G.snap.buffer_ \
   && S.receiver_ == G.snap.receiver_ && S.stopCallback_ == G.snap.stopCallback_ && S.state_ == G.snap.state_)
/* the signal delivered is the documented function of this operation's syscall result */
#define RESULT_DELIVERED (G.sys_result >= 0 ? (G.value == 1 || (!VF_CFG_nothrow && G.exc_error == 1)) : (G.sys_err == ECANCELED ? G.done == 1 : G.error == 1))

/* guarantee: the only atomic these functions write is state_; the I/O side adds io_flag, the canceller cancel_pending_flag, once each */
static void vf_guarantee(void* p, uint32_t o, uint32_t n) {
  VF_P(p == (void*)&S.state_, "guarantee: state_ is the only atomic word written by the operation's functions");
  if (G.role == ROLE_IO) {
    VF_P(n == o + IO_FLAG, "guarantee: the I/O side's only write to state_ adds io_flag");
    VF_P(G.io_adds == 0, "guarantee: the I/O side takes part in the election at most once");
    G.i_old = o; G.io_adds++;
  } else {
    VF_P(n == o + CANCEL_FLAG, "guarantee: the canceller's only write to state_ adds cancel_pending_flag");
    VF_P(G.cancel_adds == 0, "guarantee: the canceller takes part in the election at most once");
    G.c_old = o; G.cancel_adds++;
  }
}

/* ---------------- rely ---------------- */
/* a complete request_stop() by a remote canceller, as summarised by request_stop's contract (lemma_io_env_cancel) */
static void env_cancel(void) {
  uint32_t o = S.state_;
  S.state_ = o + CANCEL_FLAG; G.c_old = o; G.cancel_adds++;
  if (!IO_DONE(o)) {
    G.registered = 0;                                   /* its EPOLL_CTL_DEL */
    S.done_op_.execute_ = DONE_FN; S.done_op_.enqueued_ = 1;
    G.sched_remote++; G.sched_item = &S.done_op_; G.sched_fn = DONE_FN;   /* its schedule_remote(done_op) */
  }
}
static void vf_interfere(void) {
  if (G.role == ROLE_IO) {
    /* the stop callback can fire only while it is registered with the stop source, and only once; the done item it
     * schedules is not run while the I/O thread is inside one of these functions */
    if (G.cb_state == CB_CONSTRUCTED && G.cancel_adds == 0 && VF_nondet_bool()) { env_cancel(); }
  } else {
    /* the I/O side: may take its election step (once); never re-registers the descriptor; its queue item comes and goes.
     * When the callback runs inline on the I/O thread (stop already requested at construction) the I/O side is the caller itself */
    if (G.on_io_thread) { return; }
    if (G.io_adds == 0 && VF_nondet_bool()) { uint32_t o = S.state_; S.state_ = o + IO_FLAG; G.i_old = o; G.io_adds++; }
    if (IO_WON && VF_nondet_bool()) { G.registered = 0; }
    S.completion_base_.enqueued_ = VF_nondet_bool() ? 1 : 0;
  }
}

/* ---------------- event stubs ---------------- */
static _Bool EV_on_io_thread(struct io_op* self) { return G.on_io_thread; }

/* transfer syscall, POSIX: n >= 0, or -1 with errno set */
static long ev_transfer(struct io_op* self) {
  VF_P(self == &S && G.on_io_thread, "the transfer syscall is issued on the I/O thread, for this operation");
  VF_P(G.syscalls == 0, "an operation transfers data at most once (a second transfer would consume another operation's bytes)");
  VF_P(G.completed == 0 && !G.dead, "no syscall on behalf of a completed operation");
  G.syscalls++;
  if (VF_nondet_bool()) {
    long n = (long)VF_nondet_u32();
    G.sys_result = n; G.sys_err = 0;
    return n;
  }
  int e = VF_nondet_int();
  __CPROVER_assume(e > 0 && e < 4096);
  /* readiness was reported and this is the only operation on the descriptor: the retry does not block (assumption, listed) */
  if (G.ready) { __CPROVER_assume(!WOULD_BLOCK(e)); }
  G.err = e; G.sys_err = e; G.sys_result = -1;
  return -1;
}
static long EV_readv(struct io_op* self) { VF_P(G.fam == FAM_RD, "read operation reads"); return ev_transfer(self); }
static long EV_writev(struct io_op* self) { VF_P(G.fam == FAM_WR, "write operation writes"); return ev_transfer(self); }

/* epoll_ctl on this operation's descriptor: ADD registers (EEXIST when already registered), DEL removes (ENOENT when absent) */
static int EV_epoll_ctl(struct io_op* self, int opc, struct epoll_event* ev) {
  VF_P(self == &S && !G.dead, "epoll_ctl on behalf of a live operation");
  if (opc == EPOLL_CTL_ADD) {
    VF_P(ev->data.ptr == (void*)&S.completion_base_, "the registration carries this operation's completion item");
    VF_P(G.on_io_thread && G.role == ROLE_IO, "registration happens on the I/O thread (no readiness event can be dispatched in between)");
    VF_P(G.cb_state == CB_NONE && G.cancel_adds == 0, "guarantee: the descriptor is registered before the stop callback exists (a cancellation that has already run cannot remove a later registration)");
    VF_P(S.completion_base_.execute_ == ON_COMPLETE_FN && S.completion_base_.enqueued_ == 0, "the completion item is ready to be queued by the event loop when it is registered");
    G.adds++;
    if (G.registered) { G.err = EEXIST; return -1; }
    G.registered = 1;
    return 0;
  }
  VF_P(opc == EPOLL_CTL_DEL, "only ADD and DEL are used");
  G.dels++;
  if (!G.registered) { G.err = ENOENT; return -1; }
  G.registered = 0;
  return 0;
}

/* stopCallback_.construct(token, cancel_callback{*this}): if the token is already stopped the constructor invokes the
 * callback, i.e. request_stop(), before it returns */
static void EV_cb_construct(struct io_op* self) {
  VF_P(self == &S && VF_CFG_stop_possible && G.cb_state == CB_NONE, "the stop callback is constructed at most once, only for stoppable tokens");
  G.cb_state = CB_CONSTRUCTED;
  if (VF_nondet_bool()) {
    VF_CANARY("stop already requested when the callback is constructed");
    G.role = ROLE_CANCEL;
    if (G.fam == FAM_RD) { RD_request_stop(self); } else { WR_request_stop(self); }
    G.role = ROLE_IO;
  }
}
/* stopCallback_.destruct(): deregisters the callback or, if it is running on another thread, waits for it to return:
 * afterwards it can no longer fire.  (For an unstoppable token callback_type is an empty object that was never constructed.) */
static void EV_cb_destruct(struct io_op* self) {
  VF_P(self == &S && !G.dead, "the callback of a live operation is destroyed");
  if (!VF_CFG_stop_possible) { return; }
  vf_interfere();
  VF_P(G.cb_state == CB_CONSTRUCTED, "only a constructed stop callback is destroyed, once");
  G.cb_state = CB_DESTRUCTED;
}

/* context_.schedule_remote(item) / schedule_local(item): preconditions = specs/epoll_queue/eq_contract.h */
static void EV_schedule_remote(struct io_op* self, struct operation_base* it) {
  VF_P(self == &S && (it == &S.done_op_ || it == &S.completion_base_) && !G.dead, "an item of this live operation is scheduled");
  VF_P(EQ_REQ_SCHEDULE(it), "precondition of schedule_remote: the item has a continuation and is in no queue of the context");
  VF_P(G.sched_remote == 0, "an item is handed to the context once");
  G.sched_remote++; G.sched_item = it; G.sched_fn = it->execute_;
  it->enqueued_ = 1;
  if (!G.on_io_thread) {
    /* the I/O thread may run the item at once: the operation may complete and be destroyed before this call returns */
    struct io_op f; S = f; G.dead = 1; G.snap = S;
  }
}
static void EV_schedule_local(struct io_op* self, struct operation_base* it) {
  VF_P(self == &S && it == &S.done_op_ && !G.dead && G.on_io_thread, "the done item of this live operation is re-queued on the I/O thread");
  VF_P(EQ_REQ_SCHEDULE(it), "precondition of schedule_local: the item has a continuation and is in no queue of the context");
  VF_P(G.sched_local == 0, "an item is handed to the context once");
  G.sched_local++; G.sched_item = it; G.sched_fn = it->execute_;
  it->enqueued_ = 1;
}

/* completion signals: exactly one; delivered by the election winner; the context holds no reference; the receiver may destroy the operation */
static void ev_complete(struct io_op* self) {
  VF_P(self == &S && !G.dead, "the completion signal is sent on behalf of a live operation");
  VF_P(G.completed == 0, "C14: an I/O operation completes exactly once");
  VF_P(!G.registered, "C14: at completion the context keeps no reference: no epoll registration points at the operation");
  VF_P(S.completion_base_.enqueued_ == 0 && S.done_op_.enqueued_ == 0, "C14: at completion neither queue item of the operation is in a queue of the context");
  VF_P(G.path == PATH_IO ? (IO_WON && !CANCEL_WON) : (CANCEL_WON && !IO_WON), "C14: the completion is delivered by the winner of the election on state_");
#ifdef VF_C04
  VF_P(G.cb_state != CB_CONSTRUCTED, "C04: the stop callback registered on the receiver's token is destroyed (deregistered, not running) before the receiver is completed");
#endif
  G.completed++;
  { struct io_op f; S = f; G.dead = 1; G.snap = S; }
}
static void EV_set_value(struct io_op* self, long v) {
  VF_CANARY("set_value reachable");
  VF_P(G.path == PATH_IO && G.syscalls == 1 && G.sys_result >= 0 && v == G.sys_result, "C14: the value delivered is the byte count returned by this operation's syscall");
  ev_complete(self); G.value++;
}
static _Bool EV_set_value_maythrow(struct io_op* self, long v) {
  VF_P(G.path == PATH_IO && G.syscalls == 1 && G.sys_result >= 0 && v == G.sys_result, "C14: the value delivered is the byte count returned by this operation's syscall");
  if (VF_nondet_bool()) { VF_CANARY("set_value may throw"); return 1; }   /* strong guarantee: a throwing set_value has not completed the receiver */
  ev_complete(self); G.value++;
  return 0;
}
static void EV_set_error_exception(struct io_op* self) { ev_complete(self); G.exc_error++; }
static void EV_set_error(struct io_op* self, int code) {
  VF_CANARY("set_error reachable");
  VF_P(G.path == PATH_IO && G.syscalls == 1 && G.sys_result < 0 && code == G.sys_err, "C14: the error delivered is the OS error (errno) of this operation's failed syscall");
  VF_P(G.sys_err != ECANCELED && !WOULD_BLOCK(G.sys_err), "C14: ECANCELED is delivered as done and a would-block result is not an error");
  ev_complete(self); G.error++;
}
static void EV_set_done(struct io_op* self) {
  VF_CANARY("set_done reachable");
  VF_P(VF_CFG_stop_possible || G.path == PATH_IO, "done from the cancel path only for stoppable tokens");
  VF_P(G.path == PATH_DONE || (G.syscalls == 1 && G.sys_result < 0 && G.sys_err == ECANCELED), "C14: done is delivered for a stop request, or for a syscall that failed with ECANCELED");
  ev_complete(self); G.done++;
}

/* ---------------- functions under contract ---------------- */
#define QUIET (G.completed == 0 && G.value == 0 && G.error == 0 && G.exc_error == 0 && G.done == 0 && G.syscalls == 0 && G.adds == 0 && G.dels == 0 \
               && G.sched_remote == 0 && G.sched_local == 0 && !G.dead)
#define FRESH (QUIET && G.io_adds == 0 && G.cancel_adds == 0 && S.state_ == 0 && G.cb_state == CB_NONE && !G.registered && !G.ready \
               && S.completion_base_.enqueued_ == 0 && S.done_op_.enqueued_ == 0)
#define FAM_OK(f) (G.fam == (f) && G.role == ROLE_IO && G.path == PATH_IO)

/* start_io: one transfer attempt.  n >= 0 -> value(n);  ECANCELED -> done;  other failure -> error(errno), promptly;
 * EAGAIN/EWOULDBLOCK -> registered with epoll and waiting (unless a stop request has already taken the completion) */

void RD_start_io(struct io_op* self)
__CPROVER_requires(self == &S && FAM_OK(FAM_RD) && G.on_io_thread && FRESH)
__CPROVER_assigns(S, G)
__CPROVER_ensures(G.syscalls == 1)
__CPROVER_ensures(G.sys_result >= 0 ==> (G.completed == 1 && IO_WON && RESULT_DELIVERED && G.adds == 0 && !G.registered && G.cb_state == CB_NONE)) /* transferred: completes inline with the byte count */
__CPROVER_ensures((G.sys_result < 0 && !WOULD_BLOCK(G.sys_err)) ==> (G.completed == 1 && IO_WON && RESULT_DELIVERED && G.adds == 0 && !G.registered)) /* a failure other than would-block completes the operation promptly with the OS error: it is NOT parked */
__CPROVER_ensures((G.sys_result < 0 && WOULD_BLOCK(G.sys_err)) ==> (G.completed == 0 && G.io_adds == 0 && G.adds == 1 && (G.cancel_adds == 0 ==> G.registered) && (VF_CFG_stop_possible ==> G.cb_state == CB_CONSTRUCTED) && (!G.dead ==> S.completion_base_.execute_ == ON_COMPLETE_FN))) /* would block: registered and waiting, completion deferred */
__CPROVER_ensures(NO_STALE_REG) /* a stop request that has taken the completion leaves no kernel registration behind */
__CPROVER_ensures(G.dead ==> OP_UNTOUCHED) /* nothing is touched after the receiver was completed */
/*@BODY RD_start_io*/

void WR_start_io(struct io_op* self)
__CPROVER_requires(self == &S && FAM_OK(FAM_WR) && G.on_io_thread && FRESH)
__CPROVER_assigns(S, G)
__CPROVER_ensures(G.syscalls == 1)
__CPROVER_ensures(G.sys_result >= 0 ==> (G.completed == 1 && IO_WON && RESULT_DELIVERED && G.adds == 0 && !G.registered && G.cb_state == CB_NONE)) /* transferred: completes inline with the byte count */
__CPROVER_ensures((G.sys_result < 0 && !WOULD_BLOCK(G.sys_err)) ==> (G.completed == 1 && IO_WON && RESULT_DELIVERED && G.adds == 0 && !G.registered)) /* a failure other than would-block completes the operation promptly with the OS error: it is NOT parked */
__CPROVER_ensures((G.sys_result < 0 && WOULD_BLOCK(G.sys_err)) ==> (G.completed == 0 && G.io_adds == 0 && G.adds == 1 && (G.cancel_adds == 0 ==> G.registered) && (VF_CFG_stop_possible ==> G.cb_state == CB_CONSTRUCTED) && (!G.dead ==> S.completion_base_.execute_ == ON_COMPLETE_FN))) /* would block: registered and waiting, completion deferred */
__CPROVER_ensures(NO_STALE_REG) /* a stop request that has taken the completion leaves no kernel registration behind */
__CPROVER_ensures(G.dead ==> OP_UNTOUCHED) /* nothing is touched after the receiver was completed */
/*@BODY WR_start_io*/

/* start: picks by thread identity: on the I/O thread the transfer is attempted at once, from any other thread the
 * operation is handed to the context (remote queue) and nothing else happens */

void RD_start(struct io_op* self)
__CPROVER_requires(self == &S && FAM_OK(FAM_RD) && FRESH)
__CPROVER_assigns(S, G)
__CPROVER_ensures(__CPROVER_old(G.on_io_thread) ==> G.syscalls == 1)
__CPROVER_ensures(!__CPROVER_old(G.on_io_thread) ==> (G.syscalls == 0 && G.completed == 0 && G.adds == 0 && G.io_adds == 0 && G.sched_remote == 1 && G.sched_item == &S.completion_base_ && G.sched_fn == ON_SCHEDULE_FN))
__CPROVER_ensures(G.dead ==> OP_UNTOUCHED)
/*@BODY RD_start*/

void WR_start(struct io_op* self)
__CPROVER_requires(self == &S && FAM_OK(FAM_WR) && FRESH)
__CPROVER_assigns(S, G)
__CPROVER_ensures(__CPROVER_old(G.on_io_thread) ==> G.syscalls == 1)
__CPROVER_ensures(!__CPROVER_old(G.on_io_thread) ==> (G.syscalls == 0 && G.completed == 0 && G.adds == 0 && G.io_adds == 0 && G.sched_remote == 1 && G.sched_item == &S.completion_base_ && G.sched_fn == ON_SCHEDULE_FN))
__CPROVER_ensures(G.dead ==> OP_UNTOUCHED)
/*@BODY WR_start*/


void RD_on_schedule_complete(struct operation_base* op)
__CPROVER_requires(op == &S.completion_base_ && FAM_OK(FAM_RD) && G.on_io_thread && FRESH)
__CPROVER_assigns(S, G)
__CPROVER_ensures(G.syscalls == 1) /* the continuation of a remote start is start_io of the same operation */
__CPROVER_ensures(G.dead ==> OP_UNTOUCHED)
/*@BODY RD_on_schedule_complete*/

void WR_on_schedule_complete(struct operation_base* op)
__CPROVER_requires(op == &S.completion_base_ && FAM_OK(FAM_WR) && G.on_io_thread && FRESH)
__CPROVER_assigns(S, G)
__CPROVER_ensures(G.syscalls == 1) /* the continuation of a remote start is start_io of the same operation */
__CPROVER_ensures(G.dead ==> OP_UNTOUCHED)
/*@BODY WR_on_schedule_complete*/

/* on_read_complete / on_write_complete: readiness was reported.  Exactly one election step; the winner removes the
 * registration, retries the transfer once and completes with its result; the loser touches neither the descriptor's
 * data nor the receiver */
#define PARKED (S.completion_base_.enqueued_ == 0 && S.completion_base_.execute_ == NULL && G.ready && G.io_adds == 0 \
                && G.cb_state == (VF_CFG_stop_possible ? CB_CONSTRUCTED : CB_NONE) && (G.cancel_adds == 0 ==> (G.registered && S.done_op_.enqueued_ == 0)))

void RD_on_read_complete(struct operation_base* op)
__CPROVER_requires(op == &S.completion_base_ && FAM_OK(FAM_RD) && G.on_io_thread && G.completed == 0 && G.value == 0 && G.error == 0 && G.exc_error == 0 && G.done == 0 && G.syscalls == 0 && G.adds == 0 && G.dels == 0 && G.sched_local == 0 && !G.dead && PARKED && STATE_OK && NO_STALE_REG && (G.cancel_adds == 0 ==> G.sched_remote == 0))
__CPROVER_assigns(S, G)
__CPROVER_ensures(G.io_adds == 1)
__CPROVER_ensures(IO_WON ==> (G.completed == 1 && G.syscalls == 1 && RESULT_DELIVERED && !G.registered)) /* the winner completes with the result of ITS transfer */
__CPROVER_ensures(!IO_WON ==> (G.completed == 0 && G.syscalls == 0 && !G.dead && NO_STALE_REG)) /* the loser neither consumes data nor signals the receiver */
__CPROVER_ensures((VF_CFG_stop_possible && IO_WON) ==> G.cb_state == CB_DESTRUCTED) /* the winner has destroyed the stop callback (it can no longer fire) before it completes the receiver */
__CPROVER_ensures(G.adds == 0)
__CPROVER_ensures(G.dead ==> OP_UNTOUCHED)
/*@BODY RD_on_complete*/

void WR_on_write_complete(struct operation_base* op)
__CPROVER_requires(op == &S.completion_base_ && FAM_OK(FAM_WR) && G.on_io_thread && G.completed == 0 && G.value == 0 && G.error == 0 && G.exc_error == 0 && G.done == 0 && G.syscalls == 0 && G.adds == 0 && G.dels == 0 && G.sched_local == 0 && !G.dead && PARKED && STATE_OK && NO_STALE_REG && (G.cancel_adds == 0 ==> G.sched_remote == 0))
__CPROVER_assigns(S, G)
__CPROVER_ensures(G.io_adds == 1)
__CPROVER_ensures(IO_WON ==> (G.completed == 1 && G.syscalls == 1 && RESULT_DELIVERED && !G.registered)) /* the winner completes with the result of ITS transfer */
__CPROVER_ensures(!IO_WON ==> (G.completed == 0 && G.syscalls == 0 && !G.dead && NO_STALE_REG)) /* the loser neither consumes data nor signals the receiver */
__CPROVER_ensures((VF_CFG_stop_possible && IO_WON) ==> G.cb_state == CB_DESTRUCTED) /* the winner has destroyed the stop callback (it can no longer fire) before it completes the receiver */
__CPROVER_ensures(G.adds == 0)
__CPROVER_ensures(G.dead ==> OP_UNTOUCHED)
/*@BODY WR_on_complete*/

/* request_stop (the stop callback): exactly one election step; the winner removes the registration and hands the done
 * item to the context exactly once; the loser does nothing (in particular no EPOLL_CTL_DEL, which addresses the
 * descriptor and could hit a later operation) */

void RD_request_stop(struct io_op* self)
__CPROVER_requires(self == &S && G.fam == (FAM_RD) && G.role == ROLE_CANCEL && VF_CFG_stop_possible && G.cb_state == CB_CONSTRUCTED && G.cancel_adds == 0 && STATE_OK && G.sched_remote == 0 && S.done_op_.enqueued_ == 0 && !G.dead && G.completed == 0)
__CPROVER_assigns(S, G.c_old, G.cancel_adds, G.i_old, G.io_adds, G.registered, G.dels, G.err, G.sched_remote, G.sched_item, G.sched_fn, G.dead, G.snap)
__CPROVER_ensures(G.cancel_adds == 1 && G.io_adds <= 1)
__CPROVER_ensures(CANCEL_WON ==> (!G.registered && G.dels == __CPROVER_old(G.dels) + 1 && G.sched_remote == 1 && G.sched_item == &S.done_op_ && G.sched_fn == DONE_FN))
__CPROVER_ensures(!CANCEL_WON ==> (G.dels == __CPROVER_old(G.dels) && G.sched_remote == 0 && !G.dead))
__CPROVER_ensures(G.on_io_thread ==> (!G.dead && G.io_adds == __CPROVER_old(G.io_adds) && G.i_old == __CPROVER_old(G.i_old) && S.completion_base_.enqueued_ == __CPROVER_old(S.completion_base_.enqueued_))) /* inline on the I/O thread: nobody else acts for the I/O side */
__CPROVER_ensures(G.dead ==> OP_UNTOUCHED) /* once the done item is scheduled from another thread the operation may be gone */
__CPROVER_ensures(!G.dead ==> (STATE_OK && S.completion_base_.execute_ == __CPROVER_old(S.completion_base_.execute_) && S.completion_base_.next_ == __CPROVER_old(S.completion_base_.next_) && S.context_ == __CPROVER_old(S.context_) && S.fd_ == __CPROVER_old(S.fd_) && (!CANCEL_WON ==> S.done_op_.enqueued_ == 0)))
/*@BODY RD_request_stop*/

void WR_request_stop(struct io_op* self)
__CPROVER_requires(self == &S && G.fam == (FAM_WR) && G.role == ROLE_CANCEL && VF_CFG_stop_possible && G.cb_state == CB_CONSTRUCTED && G.cancel_adds == 0 && STATE_OK && G.sched_remote == 0 && S.done_op_.enqueued_ == 0 && !G.dead && G.completed == 0)
__CPROVER_assigns(S, G.c_old, G.cancel_adds, G.i_old, G.io_adds, G.registered, G.dels, G.err, G.sched_remote, G.sched_item, G.sched_fn, G.dead, G.snap)
__CPROVER_ensures(G.cancel_adds == 1 && G.io_adds <= 1)
__CPROVER_ensures(CANCEL_WON ==> (!G.registered && G.dels == __CPROVER_old(G.dels) + 1 && G.sched_remote == 1 && G.sched_item == &S.done_op_ && G.sched_fn == DONE_FN))
__CPROVER_ensures(!CANCEL_WON ==> (G.dels == __CPROVER_old(G.dels) && G.sched_remote == 0 && !G.dead))
__CPROVER_ensures(G.on_io_thread ==> (!G.dead && G.io_adds == __CPROVER_old(G.io_adds) && G.i_old == __CPROVER_old(G.i_old) && S.completion_base_.enqueued_ == __CPROVER_old(S.completion_base_.enqueued_))) /* inline on the I/O thread: nobody else acts for the I/O side */
__CPROVER_ensures(G.dead ==> OP_UNTOUCHED) /* once the done item is scheduled from another thread the operation may be gone */
__CPROVER_ensures(!G.dead ==> (STATE_OK && S.completion_base_.execute_ == __CPROVER_old(S.completion_base_.execute_) && S.completion_base_.next_ == __CPROVER_old(S.completion_base_.next_) && S.context_ == __CPROVER_old(S.context_) && S.fd_ == __CPROVER_old(S.fd_) && (!CANCEL_WON ==> S.done_op_.enqueued_ == 0)))
/*@BODY WR_request_stop*/

/* complete_with_done (continuation of the done item, I/O thread): delivers done once the I/O completion item is no
 * longer queued; while it is, re-queues itself behind it */

void RD_complete_with_done(struct operation_base* op)
__CPROVER_requires(op == &S.done_op_ && G.fam == (FAM_RD) && G.role == ROLE_IO && G.path == PATH_DONE && G.on_io_thread && VF_CFG_stop_possible && G.completed == 0 && G.value == 0 && G.error == 0 && G.exc_error == 0 && G.done == 0 && G.sched_local == 0 && !G.dead && STATE_OK && CANCEL_WON && NO_STALE_REG && S.done_op_.enqueued_ == 0 && S.done_op_.execute_ == NULL && (S.completion_base_.enqueued_ == 0 || S.completion_base_.enqueued_ == 1))
__CPROVER_assigns(S, G)
__CPROVER_ensures(__CPROVER_old(S.completion_base_.enqueued_) == 0 ==> (G.completed == 1 && G.done == 1 && G.sched_local == 0))
__CPROVER_ensures(__CPROVER_old(S.completion_base_.enqueued_) != 0 ==> (G.completed == 0 && !G.dead && G.sched_local == 1 && G.sched_item == &S.done_op_ && G.sched_fn == DONE_FN))
__CPROVER_ensures(G.syscalls == __CPROVER_old(G.syscalls) && G.adds == 0 && G.io_adds == __CPROVER_old(G.io_adds) && G.cancel_adds == 1)
__CPROVER_ensures(G.dead ==> OP_UNTOUCHED)
/*@BODY RD_complete_with_done*/

void WR_complete_with_done(struct operation_base* op)
__CPROVER_requires(op == &S.done_op_ && G.fam == (FAM_WR) && G.role == ROLE_IO && G.path == PATH_DONE && G.on_io_thread && VF_CFG_stop_possible && G.completed == 0 && G.value == 0 && G.error == 0 && G.exc_error == 0 && G.done == 0 && G.sched_local == 0 && !G.dead && STATE_OK && CANCEL_WON && NO_STALE_REG && S.done_op_.enqueued_ == 0 && S.done_op_.execute_ == NULL && (S.completion_base_.enqueued_ == 0 || S.completion_base_.enqueued_ == 1))
__CPROVER_assigns(S, G)
__CPROVER_ensures(__CPROVER_old(S.completion_base_.enqueued_) == 0 ==> (G.completed == 1 && G.done == 1 && G.sched_local == 0))
__CPROVER_ensures(__CPROVER_old(S.completion_base_.enqueued_) != 0 ==> (G.completed == 0 && !G.dead && G.sched_local == 1 && G.sched_item == &S.done_op_ && G.sched_fn == DONE_FN))
__CPROVER_ensures(G.syscalls == __CPROVER_old(G.syscalls) && G.adds == 0 && G.io_adds == __CPROVER_old(G.io_adds) && G.cancel_adds == 1)
__CPROVER_ensures(G.dead ==> OP_UNTOUCHED)
/*@BODY WR_complete_with_done*/

/* ---------------- harnesses ---------------- */
static void h_fresh(int fam) {
  G.fam = fam; G.role = ROLE_IO; G.path = PATH_IO; G.on_io_thread = 1;
  G.registered = 0; G.adds = 0; G.dels = 0; G.ready = 0; G.err = VF_nondet_int();
  G.syscalls = 0; G.sys_result = 0; G.sys_err = 0;
  G.cb_state = CB_NONE; G.i_old = 0; G.c_old = 0; G.io_adds = 0; G.cancel_adds = 0;
  G.sched_remote = 0; G.sched_local = 0; G.sched_item = NULL; G.sched_fn = NULL;
  G.completed = 0; G.value = 0; G.error = 0; G.exc_error = 0; G.done = 0; G.dead = 0;
  VF_CFG_stop_possible = VF_nondet_bool(); VF_CFG_nothrow = VF_nondet_bool();
  io_op_init(&S);
  S.context_ = &CTX; S.fd_ = VF_nondet_int(); S.buffer_ = VF_nondet_int(); S.receiver_ = VF_nondet_int(); S.stopCallback_ = VF_nondet_int();
}
/* the operation after start_io parked it: registered, callback constructed, readiness reported, item dequeued for execution;
 * a remote canceller may already have run */
static void h_parked(int fam) {
  h_fresh(fam);
  G.cb_state = VF_CFG_stop_possible ? CB_CONSTRUCTED : CB_NONE;
  G.registered = 1; G.ready = 1;
  if (VF_CFG_stop_possible && VF_nondet_bool()) { env_cancel(); }
}
static void start_io_canaries(void) {
  VF_CANARY("after start_io");
  if (G.value) { VF_CANARY("start_io can complete with a value"); }
  if (G.error) { VF_CANARY("start_io can complete with an error"); }
  if (G.completed == 0 && G.registered) { VF_CANARY("start_io can park the operation"); }
  if (G.completed == 0 && CANCEL_WON) { VF_CANARY("start_io can be overtaken by a stop request"); }
}
void h_rd_start_io(void) { h_fresh(FAM_RD); RD_start_io(&S); start_io_canaries(); }
void h_wr_start_io(void) { h_fresh(FAM_WR); WR_start_io(&S); start_io_canaries(); }
void h_rd_start(void) { h_fresh(FAM_RD); G.on_io_thread = VF_nondet_bool(); RD_start(&S); VF_CANARY("after start"); if (G.sched_remote) { VF_CANARY("start can go through the remote queue"); } }
void h_wr_start(void) { h_fresh(FAM_WR); G.on_io_thread = VF_nondet_bool(); WR_start(&S); VF_CANARY("after start"); if (G.sched_remote) { VF_CANARY("start can go through the remote queue"); } }
void h_rd_on_schedule_complete(void) { h_fresh(FAM_RD); RD_on_schedule_complete(&S.completion_base_); VF_CANARY("after on_schedule_complete"); }
void h_wr_on_schedule_complete(void) { h_fresh(FAM_WR); WR_on_schedule_complete(&S.completion_base_); VF_CANARY("after on_schedule_complete"); }
static void on_complete_canaries(void) {
  VF_CANARY("after on_complete");
  if (IO_WON) { VF_CANARY("the I/O side can win"); } else { VF_CANARY("the I/O side can lose"); }
}
void h_rd_on_complete(void) { h_parked(FAM_RD); RD_on_read_complete(&S.completion_base_); on_complete_canaries(); }
void h_wr_on_complete(void) { h_parked(FAM_WR); WR_on_write_complete(&S.completion_base_); on_complete_canaries(); }
static void h_stop(int fam) {
  h_fresh(fam); VF_CFG_stop_possible = 1;
  G.role = ROLE_CANCEL; G.on_io_thread = VF_nondet_bool();
  G.cb_state = CB_CONSTRUCTED; G.registered = VF_nondet_bool(); G.ready = VF_nondet_bool();
  S.completion_base_.execute_ = VF_nondet_bool() ? ON_COMPLETE_FN : NULL; S.completion_base_.enqueued_ = VF_nondet_bool() ? 1 : 0;
  if (VF_nondet_bool()) { S.state_ = IO_FLAG; G.i_old = 0; G.io_adds = 1; }   /* the I/O side may already have taken its step */
}
static void stop_canaries(void) {
  VF_CANARY("after request_stop");
  if (CANCEL_WON) { VF_CANARY("the canceller can win"); } else { VF_CANARY("the canceller can lose"); }
}
void h_rd_request_stop(void) { h_stop(FAM_RD); RD_request_stop(&S); stop_canaries(); }
void h_wr_request_stop(void) { h_stop(FAM_WR); WR_request_stop(&S); stop_canaries(); }
static void h_done(int fam) {
  h_parked(fam); VF_CFG_stop_possible = 1; G.path = PATH_DONE;
  G.cb_state = CB_CONSTRUCTED;                        /* nobody has destroyed the callback that scheduled this item (the case in which the I/O item never ran) */
  __CPROVER_assume(CANCEL_WON);                       /* the done item exists only because the canceller won */
  S.done_op_.enqueued_ = 0; S.done_op_.execute_ = NULL; S.done_op_.next_ = NULL;   /* dequeued for execution (execute_pending_local) */
  if (VF_nondet_bool()) { uint32_t o = S.state_; S.state_ = o + IO_FLAG; G.i_old = o; G.io_adds = 1; S.completion_base_.execute_ = NULL; }   /* the I/O side may have run and lost */
  S.completion_base_.enqueued_ = VF_nondet_bool() ? 1 : 0;                          /* or its item may still be queued */
}
static void done_canaries(void) {
  VF_CANARY("after complete_with_done");
  if (G.done) { VF_CANARY("complete_with_done can deliver done"); } else { VF_CANARY("complete_with_done can re-queue itself"); }
}
void h_rd_complete_with_done(void) { h_done(FAM_RD); RD_complete_with_done(&S.done_op_); done_canaries(); }
void h_wr_complete_with_done(void) { h_done(FAM_WR); WR_complete_with_done(&S.done_op_); done_canaries(); }

/* ---------------- M4 lemmas over the contracts ---------------- */
void lemma_io_init(void) {
  h_fresh(VF_nondet_bool() ? FAM_RD : FAM_WR);
  VF_P(S.state_ == 0 && STATE_OK, "lemma: a fresh operation's state_ is 0: nobody has taken part in the election");
  VF_P(S.completion_base_.enqueued_ == 0 && S.completion_base_.execute_ == NULL && S.completion_base_.next_ == NULL
       && S.done_op_.enqueued_ == 0 && S.done_op_.execute_ == NULL && S.done_op_.next_ == NULL, "lemma: both queue items of a fresh operation are unqueued and have no continuation");
  VF_P((IO_MASK & CANCEL_MASK) == 0 && (IO_FLAG & IO_MASK) == IO_FLAG && (CANCEL_FLAG & CANCEL_MASK) == CANCEL_FLAG && IO_FLAG != 0 && CANCEL_FLAG != 0,
       "lemma: each side's flag lies in its own half of state_ and the halves are disjoint");
  VF_P(IO_FLAG + CANCEL_FLAG == (IO_FLAG | CANCEL_FLAG), "lemma: one add per side never carries into the other half");
  VF_CANARY("lemma_io_init reachable");
}
/* both sides add their flag once, in either order, starting from 0: exactly one of them sees the other's flag absent */
void lemma_io_election(void) {
  G.fam = VF_nondet_bool() ? FAM_RD : FAM_WR;
  _Bool io_runs = VF_nondet_bool(), cancel_runs = VF_nondet_bool(), io_first = VF_nondet_bool();
  uint32_t s = 0; G.io_adds = 0; G.cancel_adds = 0; G.i_old = 0; G.c_old = 0;
  if (io_runs && io_first) { G.i_old = s; s += IO_FLAG; G.io_adds = 1; }
  if (cancel_runs) { G.c_old = s; s += CANCEL_FLAG; G.cancel_adds = 1; }
  if (io_runs && !io_first) { G.i_old = s; s += IO_FLAG; G.io_adds = 1; }
  S.state_ = s;
  VF_CANARY("lemma premises satisfiable");
  VF_P(STATE_OK, "lemma: the ghost counters describe the word after any order of the two steps");
  VF_P((io_runs && cancel_runs) ==> (IO_WON != CANCEL_WON), "lemma: when both sides take their step exactly one of them wins (exactly one completion path)");
  VF_P((io_runs && !cancel_runs) ==> (IO_WON && !CANCEL_WON), "lemma: without a stop request the I/O side wins");
  VF_P((!io_runs && cancel_runs) ==> (CANCEL_WON && !IO_WON), "lemma: a stop request that precedes the I/O step wins");
  VF_P((io_runs && cancel_runs) ==> (IO_WON ? io_first : !io_first), "lemma: the winner is the side whose fetch_add came first");
}
/* the environment step used as the rely of the I/O-side functions is a behaviour of request_stop's contract */
void lemma_io_env_cancel(void) {
  h_stop(VF_nondet_bool() ? FAM_RD : FAM_WR);
  __CPROVER_assume(STATE_OK);
  unsigned dels0 = G.dels;
  env_cancel();
  VF_CANARY("lemma premises satisfiable");
  VF_P(G.cancel_adds == 1 && STATE_OK, "lemma: the environment's cancellation is one election step");
  VF_P(CANCEL_WON ==> (!G.registered && G.sched_remote == 1 && G.sched_item == &S.done_op_ && G.sched_fn == DONE_FN && S.done_op_.enqueued_ == 1), "lemma: a winning remote canceller has removed the registration and scheduled the done item (request_stop's contract)");
  VF_P(!CANCEL_WON ==> (G.sched_remote == 0 && S.done_op_.enqueued_ == 0), "lemma: a losing remote canceller does nothing");
}
/* NO_STALE_REG is inductive: every step any party can take (as allowed by the contracts / stub obligations above) keeps it */
void lemma_io_no_stale_registration(void) {
  G.fam = VF_nondet_bool() ? FAM_RD : FAM_WR;
  G.io_adds = VF_nondet_bool() ? 1 : 0; G.cancel_adds = VF_nondet_bool() ? 1 : 0; G.i_old = VF_nondet_u32(); G.c_old = VF_nondet_u32();
  S.state_ = VF_nondet_u32(); G.registered = VF_nondet_bool(); G.cb_state = VF_nondet_int();
  G.sched_remote = VF_nondet_bool() ? 1 : 0; G.sched_item = VF_nondet_bool() ? &S.done_op_ : NULL; G.sched_fn = VF_nondet_bool() ? DONE_FN : NULL;
  __CPROVER_assume(STATE_OK && NO_STALE_REG && (G.cancel_adds == 0 ==> G.sched_remote == 0) && (G.cb_state == CB_NONE || G.cb_state == CB_CONSTRUCTED || G.cb_state == CB_DESTRUCTED));
  __CPROVER_assume(G.cancel_adds == 1 ==> G.cb_state != CB_NONE);     /* request_stop is reached only through the constructed callback */
  int step = VF_nondet_int();
  __CPROVER_assume(step >= 0 && step <= 3);
  if (step == 0) {          /* EPOLL_CTL_ADD by start_io: stub obligation "registered before the callback exists" */
    __CPROVER_assume(G.cb_state == CB_NONE && G.cancel_adds == 0);
    G.registered = 1;
  } else if (step == 1) {   /* request_stop (contract) */
    __CPROVER_assume(G.cb_state == CB_CONSTRUCTED && G.cancel_adds == 0);
    S.done_op_.enqueued_ = 0;
    env_cancel();
  } else if (step == 2) {   /* the I/O side's election step */
    __CPROVER_assume(G.io_adds == 0);
    G.i_old = S.state_; S.state_ += IO_FLAG; G.io_adds = 1;
  } else {                  /* EPOLL_CTL_DEL by either side */
    G.registered = 0;
  }
  VF_CANARY("lemma premises satisfiable");
  VF_P(STATE_OK, "lemma: every step keeps the ghost counters in agreement with state_");
  VF_P(NO_STALE_REG, "lemma: no step of any party re-creates a registration once the cancel path owns the completion (justifies request_stop's rely and complete_with_done's precondition)");
}
