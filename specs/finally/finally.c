/* C02 / C05 / C01 (scoped): include/unifex/finally.hpp -- the operation state of finally(source, completion) keeps ONE child
 * operation alive in the anonymous union { sourceOp_, completionValueOp_, completionErrorOp_, completionDoneOp_ } and ONE
 * parked result in the anonymous union { error_, value_ }; `started_` is the only discriminator.
 * Bodies marked @BODY / @EXPR are extracted from /repo on every run; everything else here is specification.
 *
 * Sequential code, no atomics: there is no interference; the whole content is in the event stubs.
 *   slot ghost  G.slot[s] in { EMPTY, ALIVE, STARTED }  per union member (s = the member name written in the source)
 *   activate / connect : requires every slot sharing the storage to be EMPTY            (never constructed over a live object)
 *   deactivate         : requires the slot to be alive; a STARTED child only from its OWN completion callback (G.running),
 *                        a never-started child only from the destructor                   (never destroyed early, exactly once)
 *   completion signals : at most one, with every slot EMPTY (nothing leaked), after which the operation is a dead object
 *   unifex::start(child): the child may complete -- and the whole operation be finished and destroyed -- inside the call */
#include <stddef.h>
#include <stdint.h>

struct fin_op { int completionSender_; int receiver_; _Bool started_; };
struct fin_rcv { struct fin_op* op_; };          /* _receiver / _value_receiver / _error_receiver / _done_receiver: one pointer */

enum { SL_sourceOp_, SL_completionValueOp_, SL_completionErrorOp_, SL_completionDoneOp_, SL_value_, SL_error_, SL_N };
#define SL_IS_OP(s) ((s) >= SL_sourceOp_ && (s) <= SL_completionDoneOp_)
enum { SS_EMPTY, SS_ALIVE, SS_STARTED };
enum { RCV_value_receiver, RCV_error_receiver_t, RCV_done_receiver };
enum { CH_NONE, CH_VALUE, CH_ERROR, CH_DONE };
#define PAY_EXCEPTION (-1)                       /* std::current_exception() */

struct vf_ghost {
  uint8_t slot[SL_N];
  unsigned acts[SL_N], deacts[SL_N];
  int running;                 /* the child whose completion callback is executing (slot), -1: none */
  _Bool in_dtor;
  _Bool started;               /* ghost of the discriminator started_: start() has started the source */
  int parked_value, parked_error;
  _Bool err_nothrow;
  int connected; _Bool connect_tried;
  unsigned child_starts;
  unsigned completed; int channel; int payload;
  _Bool dead, progressed; struct fin_op snap;
  _Bool copy_threw, connect_threw, move_threw, rcv_threw, ctor_threw;
  _Bool values_moved;
};
static struct vf_ghost G;
static struct fin_op OP;
static struct fin_rcv RCV;

/* member initialiser of started_, as written in the class (a member without initialiser is left nondeterministic) */
#define STARTED_INIT_INTO(lv) do { _Bool vf_s /*@EXPR started_init*/; (lv) = vf_s; } while (0)

#include "vf.h"
static void vf_interfere(void) {}
#define IMP(a, b) (!(a) || (b))

/* ---- states of the operation, as (slots, started_ field, started ghost, completions) ---- */
#define SLOTS(sl, a, b, c, d, e, f) ((sl)[SL_sourceOp_] == (a) && (sl)[SL_completionValueOp_] == (b) && (sl)[SL_completionErrorOp_] == (c) \
  && (sl)[SL_completionDoneOp_] == (d) && (sl)[SL_value_] == (e) && (sl)[SL_error_] == (f))
#define STS_UNSTARTED(sl)  SLOTS(sl, SS_ALIVE, 0, 0, 0, 0, 0)
#define STS_RUN_SOURCE(sl) SLOTS(sl, SS_STARTED, 0, 0, 0, 0, 0)
#define STS_RUN_CVAL(sl)   SLOTS(sl, 0, SS_STARTED, 0, 0, SS_ALIVE, 0)      /* completion op running, the source's values parked */
#define STS_RUN_CERR(sl)   SLOTS(sl, 0, 0, SS_STARTED, 0, 0, SS_ALIVE)      /* completion op running, the source's error parked  */
#define STS_RUN_CDONE(sl)  SLOTS(sl, 0, 0, 0, SS_STARTED, 0, 0)             /* completion op running, source was done           */
#define STS_EMPTY(sl)      SLOTS(sl, 0, 0, 0, 0, 0, 0)
#define ST_UNSTARTED(sl, sf, sg, co)  (STS_UNSTARTED(sl) && !(sf) && !(sg) && (co) == 0)
#define ST_RUN_SOURCE(sl, sf, sg, co) (STS_RUN_SOURCE(sl) && (sf) && (sg) && (co) == 0)
#define ST_RUN_CVAL(sl, sf, sg, co)   (STS_RUN_CVAL(sl) && (sf) && (sg) && (co) == 0)
#define ST_RUN_CERR(sl, sf, sg, co)   (STS_RUN_CERR(sl) && (sf) && (sg) && (co) == 0)
#define ST_RUN_CDONE(sl, sf, sg, co)  (STS_RUN_CDONE(sl) && (sf) && (sg) && (co) == 0)
#define ST_COMPLETED(sl, sf, sg, co)  (STS_EMPTY(sl) && (sf) && (sg) && (co) == 1)
#define NOW(ST) ST(G.slot, OP.started_, G.started, G.completed)
#define A_EMPTY (G.slot[SL_sourceOp_] == SS_EMPTY && G.slot[SL_completionValueOp_] == SS_EMPTY && G.slot[SL_completionErrorOp_] == SS_EMPTY && G.slot[SL_completionDoneOp_] == SS_EMPTY)
#define B_EMPTY (G.slot[SL_value_] == SS_EMPTY && G.slot[SL_error_] == SS_EMPTY)

static void vf_op_may_be_gone(void) {
  struct fin_op f;
  OP.completionSender_ = f.completionSender_; OP.receiver_ = f.receiver_; OP.started_ = f.started_;
  G.snap = OP; G.dead = 1;
}
#define UNTOUCHED_IF_DEAD (!G.dead || (OP.completionSender_ == G.snap.completionSender_ && OP.receiver_ == G.snap.receiver_ && OP.started_ == G.snap.started_))
#define VF_DISCR(self) (*({ VF_P(!G.dead, "the discriminator is not read after the operation may have been destroyed"); \
  VF_P(!(self)->started_ == !G.started, "the discriminator started_ equals the ghost at every read: true exactly when start() has started the source"); &(self)->started_; }))

/* ---------------- event stubs ---------------- */
#define EV_PRE(op) do { VF_P((op) == &OP, "the receiver's op_ is the operation it was connected for"); \
  VF_P(!G.dead, "nothing of the operation is touched after its completion signal was delivered / after a started child may have finished it"); } while (0)

/* activate_union_member<T>(op->value_ | op->error_, payload...) */
static _Bool EV_activate_result(struct fin_op* op, int s, int token) {
  EV_PRE(op);
  VF_P(s == SL_value_ || s == SL_error_, "a result is parked in the result storage");
  VF_P(B_EMPTY, "a result is activated only while nothing is alive in the shared result storage (union { error_, value_ })");
  VF_P(G.slot[SL_sourceOp_] == SS_STARTED && G.running == SL_sourceOp_, "the source's result is copied while the source operation (which may own the referenced objects) is still alive");
  if (s == SL_value_) {
    if (VF_nondet_bool()) { G.copy_threw = 1; return 1; }            /* strong guarantee: nothing activated */
    G.parked_value = token;
  } else {
    VF_P(G.err_nothrow, "the copy into error_ is outside any try block: it is statically nothrow (static_assert in the same body)");
    G.parked_error = token;
  }
  if (s >= 0 && s < SL_N) { G.slot[s] = SS_ALIVE; G.acts[s]++; }
  return 0;
}
static void EV_error_copy_is_nothrow(void) { G.err_nothrow = 1; }

/* activate_union_member_with<op_t>(op->completionXOp_, [&]{ return connect(move(completionSender_), X_receiver{op}); }) */
static _Bool EV_connect_completion(struct fin_op* op, int s, int rcv) {
  EV_PRE(op);
  VF_P(s == SL_completionValueOp_ || s == SL_completionErrorOp_ || s == SL_completionDoneOp_, "the completion sender is connected into a completion slot");
  VF_P(G.running == SL_sourceOp_ && G.deacts[SL_sourceOp_] == 1, "the completion sender is connected only after the source finished and its operation state was destroyed");
  VF_P(A_EMPTY, "a child operation is constructed only into operation storage in which nothing is alive (union { sourceOp_, completion*Op_ })");
  VF_P(!G.connect_tried, "the completion sender is consumed by connect: connected at most once");
  VF_P(rcv == (s == SL_completionValueOp_ ? RCV_value_receiver : s == SL_completionErrorOp_ ? RCV_error_receiver_t : RCV_done_receiver), "the completion operation gets the receiver that delivers the result parked for it");
  VF_P(s == SL_completionValueOp_ ? (G.slot[SL_value_] == SS_ALIVE && G.slot[SL_error_] == SS_EMPTY)
     : s == SL_completionErrorOp_ ? (G.slot[SL_error_] == SS_ALIVE && G.slot[SL_value_] == SS_EMPTY) : B_EMPTY,
       "exactly the source's result of the matching channel is parked when the completion operation is created");
  G.connect_tried = 1;
  if (VF_nondet_bool()) { G.connect_threw = 1; return 1; }           /* strong guarantee: slot not activated */
  if (s >= 0 && s < SL_N) { G.slot[s] = SS_ALIVE; G.acts[s]++; }
  G.connected = s;
  return 0;
}
static void vf_child_started(void) {
  G.child_starts++;
  if (VF_nondet_bool()) { G.progressed = 1; vf_op_may_be_gone(); }     /* the child completed inside start(): further callbacks ran, possibly to the end */
}
static void EV_start_completion(struct fin_op* op) {
  EV_PRE(op);
  VF_P(G.connected >= 0, "only a connected completion operation is started");
  if (G.connected >= 0 && G.connected < SL_N) {
    VF_P(G.slot[G.connected] == SS_ALIVE, "the completion operation is started once, while alive");
    G.slot[G.connected] = SS_STARTED;
  }
  vf_child_started();
}
/* deactivate_union_member<T>(op->slot) */
static void EV_deactivate(struct fin_op* op, int s) {
  EV_PRE(op);
  VF_P(s >= 0 && s < SL_N, "a slot of this operation");
  if (!(s >= 0 && s < SL_N)) return;
  VF_P(G.slot[s] != SS_EMPTY, "an object is destroyed exactly once, and only if it was constructed (no destroy of an empty / already destroyed slot)");
  if (SL_IS_OP(s)) {
    if (G.slot[s] == SS_STARTED) VF_P(G.running == s, "a started child operation is destroyed only by its OWN completion (never before that child has completed)");
    else VF_P(G.in_dtor, "a connected, never started child operation is destroyed only by the operation's destructor");
  }
  G.slot[s] = SS_EMPTY; G.deacts[s]++;
}
/* std::move(op->value_).get<tuple>() into a stack tuple: may throw; reads the parked values */
static _Bool EV_move_values(struct fin_op* op, int s, int* out) {
  EV_PRE(op);
  VF_P(s == SL_value_ && G.slot[SL_value_] == SS_ALIVE, "the parked values are read while alive (nothing read uninitialised)");
  VF_P(!G.values_moved, "the parked values are moved from once");
  G.values_moved = 1;
  if (VF_nondet_bool()) { G.move_threw = 1; *out = 0; return 1; }
  *out = G.parked_value;
  return 0;
}
static int EV_get_error(struct fin_op* op, int s) {
  EV_PRE(op);
  VF_P(s == SL_error_ && G.slot[SL_error_] == SS_ALIVE, "the parked error is read while alive (nothing read uninitialised)");
  return G.parked_error;
}
/* completion signals on op->receiver_ */
static void vf_final_pre(struct fin_op* op) {
  EV_PRE(op);
  VF_P(G.started, "no completion signal before start()");
  VF_P(G.completed == 0, "the receiver is completed at most once");
  VF_P(A_EMPTY && B_EMPTY, "every child operation and parked result has been destroyed when the completion signal is delivered (the destructor of a started operation destroys nothing: anything still alive is leaked)");
}
static void vf_final(int ch, int payload) { G.completed++; G.channel = ch; G.payload = payload; vf_op_may_be_gone(); }
static _Bool EV_set_value(struct fin_op* op, int token) {
  vf_final_pre(op);
  if (VF_nondet_bool()) { G.rcv_threw = 1; return 1; }               /* a throwing set_value leaves the receiver un-completed */
  vf_final(CH_VALUE, token);
  return 0;
}
static void EV_set_error(struct fin_op* op, int token) { vf_final_pre(op); vf_final(CH_ERROR, token); }
static void EV_set_done(struct fin_op* op) { vf_final_pre(op); vf_final(CH_DONE, 0); }
/* constructor / start() */
static _Bool EV_connect_source(struct fin_op* op, int s) {
  EV_PRE(op);
  VF_P(s == SL_sourceOp_ && A_EMPTY && B_EMPTY, "the source is connected into the empty storage of a fresh operation");
  if (VF_nondet_bool()) { G.ctor_threw = 1; return 1; }
  G.slot[SL_sourceOp_] = SS_ALIVE; G.acts[SL_sourceOp_]++;
  return 0;
}
static void EV_start_source(struct fin_op* op, int s) {
  EV_PRE(op);
  VF_P(s == SL_sourceOp_ && G.slot[SL_sourceOp_] == SS_ALIVE, "start() starts the connected source operation, once");
  VF_P(op->started_ == 1, "started_ is set before the source is started (the source may complete, and the operation be destroyed, inside start)");
  G.slot[SL_sourceOp_] = SS_STARTED; G.started = 1;
  vf_child_started();
}

/* ---------------- functions under contract ---------------- */
#define NOACT (G.acts[0] == 0 && G.acts[1] == 0 && G.acts[2] == 0 && G.acts[3] == 0 && G.acts[4] == 0 && G.acts[5] == 0 \
  && G.deacts[0] == 0 && G.deacts[1] == 0 && G.deacts[2] == 0 && G.deacts[3] == 0 && G.deacts[4] == 0 && G.deacts[5] == 0)
#define FRESH (NOACT && G.connected == -1 && !G.connect_tried && G.child_starts == 0 && !G.dead && !G.progressed && !G.err_nothrow \
  && !G.connect_threw && !G.move_threw && !G.rcv_threw && !G.ctor_threw && !G.values_moved && !G.in_dtor && G.channel == CH_NONE)
#define RCV_OK (self == &RCV && RCV.op_ == &OP)
/* activations / destructions of this call: (source destroyed, cval, cerr, cdone constructed, value act/deact, error act/deact) */
#define COUNTS(sd, cv, ce, cd, va, vd, ea, ed) (G.acts[SL_sourceOp_] == 0 && G.deacts[SL_sourceOp_] == (sd) \
  && G.acts[SL_completionValueOp_] == (cv) && G.acts[SL_completionErrorOp_] == (ce) && G.acts[SL_completionDoneOp_] == (cd) \
  && G.acts[SL_value_] == (va) && G.deacts[SL_value_] == (vd) && G.acts[SL_error_] == (ea) && G.deacts[SL_error_] == (ed))
#define FINAL(ch, pay) (G.completed == 1 && G.channel == (ch) && G.payload == (pay) && STS_EMPTY(G.slot))

/* ---- the source's receiver: park the result, destroy the source operation, connect + start the completion sender ---- */
void fin_receiver_set_error(struct fin_rcv* self, int error)
__CPROVER_requires(RCV_OK && NOW(ST_RUN_SOURCE) && G.running == SL_sourceOp_ && FRESH)
__CPROVER_assigns(G, OP)
__CPROVER_ensures(UNTOUCHED_IF_DEAD && G.copy_threw == __CPROVER_old(G.copy_threw))
__CPROVER_ensures(G.completed + G.child_starts == 1)                 /* exactly one of: the completion sender was started / the failure to create it was delivered */
__CPROVER_ensures(!G.connect_threw ==> (STS_RUN_CERR(G.slot) && G.parked_error == error && COUNTS(1, 0, 1, 0, 0, 0, 1, 0) && G.completed == 0))  /* the error is parked unchanged; the completion op runs only after the source op was destroyed */
__CPROVER_ensures(G.connect_threw ==> (FINAL(CH_ERROR, PAY_EXCEPTION) && COUNTS(1, 0, 0, 0, 0, 0, 1, 1)))   /* connect threw: set_error(current_exception), parked error destroyed exactly once */
/*@BODY src_set_error*/

void fin_receiver_set_value(struct fin_rcv* self, int values)
__CPROVER_requires(RCV_OK && NOW(ST_RUN_SOURCE) && G.running == SL_sourceOp_ && FRESH && !G.copy_threw)
__CPROVER_assigns(G, OP)
__CPROVER_ensures(UNTOUCHED_IF_DEAD)
__CPROVER_ensures(G.completed + G.child_starts == 1)
__CPROVER_ensures((!G.copy_threw && !G.connect_threw) ==> (STS_RUN_CVAL(G.slot) && G.parked_value == values && COUNTS(1, 1, 0, 0, 1, 0, 0, 0) && G.completed == 0))  /* the values are parked unchanged and the completion sender started */
__CPROVER_ensures((G.copy_threw && !G.connect_threw) ==> (STS_RUN_CERR(G.slot) && G.parked_error == PAY_EXCEPTION && COUNTS(1, 0, 1, 0, 0, 0, 1, 0) && G.completed == 0))  /* a throwing value copy is the source failing with current_exception: the completion sender still runs */
__CPROVER_ensures((!G.copy_threw && G.connect_threw) ==> (FINAL(CH_ERROR, PAY_EXCEPTION) && COUNTS(1, 0, 0, 0, 1, 1, 0, 0)))   /* connect threw: parked values destroyed exactly once, set_error(current_exception) */
__CPROVER_ensures((G.copy_threw && G.connect_threw) ==> (FINAL(CH_ERROR, PAY_EXCEPTION) && COUNTS(1, 0, 0, 0, 0, 0, 1, 1)))
/*@BODY src_set_value*/

void fin_receiver_set_done(struct fin_rcv* self)
__CPROVER_requires(RCV_OK && NOW(ST_RUN_SOURCE) && G.running == SL_sourceOp_ && FRESH)
__CPROVER_assigns(G, OP)
__CPROVER_ensures(UNTOUCHED_IF_DEAD)
__CPROVER_ensures(G.completed + G.child_starts == 1)
__CPROVER_ensures(!G.connect_threw ==> (STS_RUN_CDONE(G.slot) && COUNTS(1, 0, 0, 1, 0, 0, 0, 0) && G.completed == 0))
__CPROVER_ensures(G.connect_threw ==> (FINAL(CH_ERROR, PAY_EXCEPTION) && COUNTS(1, 0, 0, 0, 0, 0, 0, 0)))
/*@BODY src_set_done*/

/* ---- receivers of the completion operation: destroy it, then deliver the PARKED result (or the completion sender's own failure) ---- */
#define CRCV_REQ(ST, sl) (RCV_OK && NOW(ST) && G.running == (sl) && FRESH)
#define CRCV_ENS(sl) (UNTOUCHED_IF_DEAD && G.completed == 1 && STS_EMPTY(G.slot) && G.deacts[sl] == 1 && G.child_starts == 0 && !G.connect_tried)
#define ONLY_DESTROYS(vd, ed) (G.acts[0] == 0 && G.acts[1] == 0 && G.acts[2] == 0 && G.acts[3] == 0 && G.acts[4] == 0 && G.acts[5] == 0 && G.deacts[SL_sourceOp_] == 0 \
  && G.deacts[SL_value_] == (vd) && G.deacts[SL_error_] == (ed))
void value_receiver_set_value(struct fin_rcv* self)
__CPROVER_requires(CRCV_REQ(ST_RUN_CVAL, SL_completionValueOp_))
__CPROVER_assigns(G, OP)
__CPROVER_ensures(CRCV_ENS(SL_completionValueOp_) && ONLY_DESTROYS(1, 0))
__CPROVER_ensures((!G.move_threw && !G.rcv_threw) ==> (G.channel == CH_VALUE && G.payload == __CPROVER_old(G.parked_value)))   /* the source's values arrive unmodified, after the completion sender finished */
__CPROVER_ensures((G.move_threw || G.rcv_threw) ==> (G.channel == CH_ERROR && G.payload == PAY_EXCEPTION))                 /* a throwing move / set_value becomes set_error(current_exception) */
/*@BODY val_set_value*/

void value_receiver_set_error(struct fin_rcv* self, int error)
__CPROVER_requires(CRCV_REQ(ST_RUN_CVAL, SL_completionValueOp_))
__CPROVER_assigns(G, OP)
__CPROVER_ensures(CRCV_ENS(SL_completionValueOp_) && ONLY_DESTROYS(1, 0))
__CPROVER_ensures(G.channel == CH_ERROR && G.payload == error)       /* a failing completion sender overrides; the parked values are discarded (destroyed once) */
/*@BODY val_set_error*/

void value_receiver_set_done(struct fin_rcv* self)
__CPROVER_requires(CRCV_REQ(ST_RUN_CVAL, SL_completionValueOp_))
__CPROVER_assigns(G, OP)
__CPROVER_ensures(CRCV_ENS(SL_completionValueOp_) && ONLY_DESTROYS(1, 0))
__CPROVER_ensures(G.channel == CH_DONE)
/*@BODY val_set_done*/

void error_receiver_set_value(struct fin_rcv* self)
__CPROVER_requires(CRCV_REQ(ST_RUN_CERR, SL_completionErrorOp_))
__CPROVER_assigns(G, OP)
__CPROVER_ensures(CRCV_ENS(SL_completionErrorOp_) && ONLY_DESTROYS(0, 1))
__CPROVER_ensures(G.channel == CH_ERROR && G.payload == __CPROVER_old(G.parked_error))   /* the source's error arrives unmodified */
/*@BODY err_set_value*/

void error_receiver_set_error(struct fin_rcv* self, int otherError)
__CPROVER_requires(CRCV_REQ(ST_RUN_CERR, SL_completionErrorOp_))
__CPROVER_assigns(G, OP)
__CPROVER_ensures(CRCV_ENS(SL_completionErrorOp_) && ONLY_DESTROYS(0, 1))
__CPROVER_ensures(G.channel == CH_ERROR && G.payload == otherError)
/*@BODY err_set_error*/

void error_receiver_set_done(struct fin_rcv* self)
__CPROVER_requires(CRCV_REQ(ST_RUN_CERR, SL_completionErrorOp_))
__CPROVER_assigns(G, OP)
__CPROVER_ensures(CRCV_ENS(SL_completionErrorOp_) && ONLY_DESTROYS(0, 1))
__CPROVER_ensures(G.channel == CH_DONE)
/*@BODY err_set_done*/

void done_receiver_set_value(struct fin_rcv* self)
__CPROVER_requires(CRCV_REQ(ST_RUN_CDONE, SL_completionDoneOp_))
__CPROVER_assigns(G, OP)
__CPROVER_ensures(CRCV_ENS(SL_completionDoneOp_) && ONLY_DESTROYS(0, 0))
__CPROVER_ensures(G.channel == CH_DONE)                              /* the source's done arrives after the completion sender finished */
/*@BODY done_set_value*/

void done_receiver_set_error(struct fin_rcv* self, int error)
__CPROVER_requires(CRCV_REQ(ST_RUN_CDONE, SL_completionDoneOp_))
__CPROVER_assigns(G, OP)
__CPROVER_ensures(CRCV_ENS(SL_completionDoneOp_) && ONLY_DESTROYS(0, 0))
__CPROVER_ensures(G.channel == CH_ERROR && G.payload == error)
/*@BODY done_set_error*/

void done_receiver_set_done(struct fin_rcv* self)
__CPROVER_requires(CRCV_REQ(ST_RUN_CDONE, SL_completionDoneOp_))
__CPROVER_assigns(G, OP)
__CPROVER_ensures(CRCV_ENS(SL_completionDoneOp_) && ONLY_DESTROYS(0, 0))
__CPROVER_ensures(G.channel == CH_DONE)
/*@BODY done_set_done*/

/* ---- the operation state ---- */
void fin_op_ctor(struct fin_op* self, int sourceSender)
__CPROVER_requires(self == &OP && STS_EMPTY(G.slot) && !G.started && G.completed == 0 && G.running == -1 && FRESH)
__CPROVER_assigns(G, OP)
__CPROVER_ensures(G.completed == 0 && G.child_starts == 0)           /* nothing is delivered, nothing started by connect */
__CPROVER_ensures(!G.ctor_threw ==> NOW(ST_UNSTARTED))
__CPROVER_ensures(G.ctor_threw ==> STS_EMPTY(G.slot))                /* connect(source) threw: propagates, nothing alive */
/*@BODY op_ctor*/

void fin_op_start(struct fin_op* self)
__CPROVER_requires(self == &OP && NOW(ST_UNSTARTED) && G.running == -1 && FRESH)
__CPROVER_assigns(G, OP)
__CPROVER_ensures(UNTOUCHED_IF_DEAD && G.child_starts == 1 && STS_RUN_SOURCE(G.slot) && G.started && (G.dead || OP.started_) && NOACT)
__CPROVER_ensures(G.completed == 0)                                  /* start() itself delivers nothing: only the source's completion can */
/*@BODY op_start*/

void fin_op_dtor(struct fin_op* self)
__CPROVER_requires(self == &OP && (NOW(ST_UNSTARTED) || NOW(ST_COMPLETED)) && G.running == -1 && NOACT && !G.dead && G.in_dtor)
__CPROVER_assigns(G, OP)
__CPROVER_ensures(STS_EMPTY(G.slot) && G.completed == __CPROVER_old(G.completed) && G.child_starts == __CPROVER_old(G.child_starts))
__CPROVER_ensures(G.deacts[SL_sourceOp_] == (__CPROVER_old(G.started) ? 0 : 1))      /* a never-started source operation is destroyed here, exactly once; a started one was destroyed by its completion */
__CPROVER_ensures(G.acts[0] == 0 && G.acts[1] == 0 && G.acts[2] == 0 && G.acts[3] == 0 && G.acts[4] == 0 && G.acts[5] == 0 \
  && G.deacts[1] == 0 && G.deacts[2] == 0 && G.deacts[3] == 0 && G.deacts[4] == 0 && G.deacts[5] == 0)
/*@BODY op_dtor*/

/* ---------------- harnesses ---------------- */
enum { H_NONE, H_UNSTARTED, H_RUN_SOURCE, H_RUN_CVAL, H_RUN_CERR, H_RUN_CDONE, H_COMPLETED };
static int h_token(void) { int t = VF_nondet_int(); __CPROVER_assume(t > 0); return t; }
static void h_state(int st) {
  G.slot[0] = G.slot[1] = G.slot[2] = G.slot[3] = G.slot[4] = G.slot[5] = SS_EMPTY;
  G.acts[0] = G.acts[1] = G.acts[2] = G.acts[3] = G.acts[4] = G.acts[5] = 0; G.deacts[0] = G.deacts[1] = G.deacts[2] = G.deacts[3] = G.deacts[4] = G.deacts[5] = 0;
  G.running = -1; G.in_dtor = 0; G.started = 0; G.parked_value = 0; G.parked_error = 0; G.err_nothrow = 0; G.connected = -1; G.connect_tried = 0;
  G.child_starts = 0; G.completed = 0; G.channel = CH_NONE; G.payload = 0; G.dead = 0; G.progressed = 0;
  G.copy_threw = 0; G.connect_threw = 0; G.move_threw = 0; G.rcv_threw = 0; G.ctor_threw = 0; G.values_moved = 0;
  OP.completionSender_ = VF_nondet_int(); OP.receiver_ = VF_nondet_int(); STARTED_INIT_INTO(OP.started_); RCV.op_ = &OP;
  if (st >= H_RUN_SOURCE) { OP.started_ = 1; G.started = 1; }
  switch (st) {
    case H_UNSTARTED: G.slot[SL_sourceOp_] = SS_ALIVE; break;
    case H_RUN_SOURCE: G.slot[SL_sourceOp_] = SS_STARTED; G.running = SL_sourceOp_; break;
    case H_RUN_CVAL: G.slot[SL_completionValueOp_] = SS_STARTED; G.slot[SL_value_] = SS_ALIVE; G.parked_value = h_token(); G.running = SL_completionValueOp_; break;
    case H_RUN_CERR: G.slot[SL_completionErrorOp_] = SS_STARTED; G.slot[SL_error_] = SS_ALIVE; G.parked_error = VF_nondet_bool() ? h_token() : PAY_EXCEPTION; G.running = SL_completionErrorOp_; break;
    case H_RUN_CDONE: G.slot[SL_completionDoneOp_] = SS_STARTED; G.running = SL_completionDoneOp_; break;
    case H_COMPLETED: G.completed = 1; break;
    default: break;
  }
}
void h_src_set_value(void) {
  h_state(H_RUN_SOURCE); int v = h_token();
  fin_receiver_set_value(&RCV, v);
  VF_CANARY("after source set_value");
  if (G.copy_threw) { VF_CANARY("the value copy can throw"); }
  if (G.connect_threw) { VF_CANARY("connect of the completion sender can throw (value path)"); } else { VF_CANARY("completion sender started (value path)"); }
  if (G.progressed) { VF_CANARY("the completion operation can finish inside start"); }
}
void h_src_set_error(void) {
  h_state(H_RUN_SOURCE); G.copy_threw = VF_nondet_bool(); int e = G.copy_threw ? PAY_EXCEPTION : h_token();
  fin_receiver_set_error(&RCV, e);
  VF_CANARY("after source set_error");
  if (G.connect_threw) { VF_CANARY("connect of the completion sender can throw (error path)"); } else { VF_CANARY("completion sender started (error path)"); }
}
void h_src_set_done(void) {
  h_state(H_RUN_SOURCE);
  fin_receiver_set_done(&RCV);
  VF_CANARY("after source set_done");
  if (G.connect_threw) { VF_CANARY("connect of the completion sender can throw (done path)"); } else { VF_CANARY("completion sender started (done path)"); }
}
void h_val_set_value(void) {
  h_state(H_RUN_CVAL); value_receiver_set_value(&RCV); VF_CANARY("after value_receiver::set_value");
  if (G.move_threw) { VF_CANARY("moving the parked values can throw"); }
  if (G.rcv_threw) { VF_CANARY("the receiver's set_value can throw"); }
  if (G.channel == CH_VALUE) { VF_CANARY("values delivered"); }
}
void h_val_set_error(void) { h_state(H_RUN_CVAL); value_receiver_set_error(&RCV, h_token()); VF_CANARY("after value_receiver::set_error"); }
void h_val_set_done(void) { h_state(H_RUN_CVAL); value_receiver_set_done(&RCV); VF_CANARY("after value_receiver::set_done"); }
void h_err_set_value(void) { h_state(H_RUN_CERR); error_receiver_set_value(&RCV); VF_CANARY("after error_receiver::set_value"); }
void h_err_set_error(void) { h_state(H_RUN_CERR); error_receiver_set_error(&RCV, h_token()); VF_CANARY("after error_receiver::set_error"); }
void h_err_set_done(void) { h_state(H_RUN_CERR); error_receiver_set_done(&RCV); VF_CANARY("after error_receiver::set_done"); }
void h_done_set_value(void) { h_state(H_RUN_CDONE); done_receiver_set_value(&RCV); VF_CANARY("after done_receiver::set_value"); }
void h_done_set_error(void) { h_state(H_RUN_CDONE); done_receiver_set_error(&RCV, h_token()); VF_CANARY("after done_receiver::set_error"); }
void h_done_set_done(void) { h_state(H_RUN_CDONE); done_receiver_set_done(&RCV); VF_CANARY("after done_receiver::set_done"); }
void h_op_ctor(void) {
  h_state(H_NONE); fin_op_ctor(&OP, h_token()); VF_CANARY("after the constructor");
  if (G.ctor_threw) { VF_CANARY("connect(source) can throw"); } else { VF_CANARY("source connected"); }
}
void h_op_start(void) {
  h_state(H_UNSTARTED); fin_op_start(&OP); VF_CANARY("after start()");
  if (G.progressed) { VF_CANARY("the source can complete inside start()"); } else { VF_CANARY("the source can complete later"); }
}
void h_op_dtor(void) {
  _Bool started = VF_nondet_bool();
  h_state(started ? H_COMPLETED : H_UNSTARTED); G.in_dtor = 1;
  fin_op_dtor(&OP); VF_CANARY("after the destructor");
  if (started) { VF_CANARY("destructor of a completed operation"); } else { VF_CANARY("destructor of a never-started operation"); }
}

/* ---------------- M4 lemmas over the contracts ---------------- */
struct fin_state { uint8_t slot[SL_N]; _Bool sf, sg; unsigned co; };
#define AT(ST, s) ST((s).slot, (s).sf, (s).sg, (s).co)
#define INV(s) (AT(ST_UNSTARTED, s) || AT(ST_RUN_SOURCE, s) || AT(ST_RUN_CVAL, s) || AT(ST_RUN_CERR, s) || AT(ST_RUN_CDONE, s) || AT(ST_COMPLETED, s))
#define NE(sl, i) ((sl)[i] != SS_EMPTY ? 1u : 0u)
#define STD(sl, i) ((sl)[i] == SS_STARTED ? 1u : 0u)
#define CNT_A(sl) (NE(sl, SL_sourceOp_) + NE(sl, SL_completionValueOp_) + NE(sl, SL_completionErrorOp_) + NE(sl, SL_completionDoneOp_))
#define CNT_B(sl) (NE(sl, SL_value_) + NE(sl, SL_error_))
#define cnt_started(sl) (STD(sl, 0) + STD(sl, 1) + STD(sl, 2) + STD(sl, 3) + STD(sl, 4) + STD(sl, 5))
/* the states the contracts' ensures name are closed under the contracts; in each of them at most one object lives in each
 * storage; exactly the states in which no child is running satisfy the destructor's precondition, and started_ tells them apart */
void lemma_fin_lifecycle(void) {
  struct fin_state a, b;
  a.slot[0] = VF_nondet_u8(); a.slot[1] = VF_nondet_u8(); a.slot[2] = VF_nondet_u8(); a.slot[3] = VF_nondet_u8(); a.slot[4] = VF_nondet_u8(); a.slot[5] = VF_nondet_u8();
  b.slot[0] = VF_nondet_u8(); b.slot[1] = VF_nondet_u8(); b.slot[2] = VF_nondet_u8(); b.slot[3] = VF_nondet_u8(); b.slot[4] = VF_nondet_u8(); b.slot[5] = VF_nondet_u8();
  a.sf = VF_nondet_bool(); a.sg = VF_nondet_bool(); a.co = VF_nondet_u32(); b.sf = VF_nondet_bool(); b.sg = VF_nondet_bool(); b.co = VF_nondet_u32();
  __CPROVER_assume(INV(a));
  /* one step: `a` satisfies the requires of a unit, `b` is any state its ensures allows (started_ is never reset: UNTOUCHED / (dead || started_)) */
  int step = VF_nondet_int();
  _Bool en =
      step == 0 ? (AT(ST_UNSTARTED, a) && AT(ST_RUN_SOURCE, b))                                                        /* start() */
    : step == 1 ? (AT(ST_RUN_SOURCE, a) && (AT(ST_RUN_CVAL, b) || AT(ST_RUN_CERR, b) || AT(ST_COMPLETED, b)))         /* source set_value */
    : step == 2 ? (AT(ST_RUN_SOURCE, a) && (AT(ST_RUN_CERR, b) || AT(ST_COMPLETED, b)))                                /* source set_error */
    : step == 3 ? (AT(ST_RUN_SOURCE, a) && (AT(ST_RUN_CDONE, b) || AT(ST_COMPLETED, b)))                               /* source set_done */
    : step == 4 ? ((AT(ST_RUN_CVAL, a) || AT(ST_RUN_CERR, a) || AT(ST_RUN_CDONE, a)) && AT(ST_COMPLETED, b))           /* any completion receiver callback */
    : 0;
  __CPROVER_assume(en);
  VF_CANARY("lemma premises satisfiable");
  if (step == 4) { VF_CANARY("lemma: completion step possible"); }
  VF_P(INV(b), "lemma: every contract step leads from a named state to a named state");
  VF_P(CNT_A(a.slot) <= 1 && CNT_B(a.slot) <= 1, "lemma: in every reachable state at most one child operation and at most one parked result is alive (the unions are never shared)");
  VF_P(cnt_started(a.slot) == (AT(ST_UNSTARTED, a) || AT(ST_COMPLETED, a) ? 0u : 1u), "lemma: exactly one child is running unless the operation is unstarted or completed");
  VF_P(IMP(cnt_started(a.slot) == 0, AT(ST_UNSTARTED, a) || AT(ST_COMPLETED, a)), "lemma: whenever no child is running (the only moments the operation may be destroyed) the destructor's precondition holds");
  VF_P(!a.sf == !a.sg && IMP(cnt_started(a.slot) == 0, !a.sf == (a.slot[SL_sourceOp_] != SS_EMPTY)), "lemma: started_ agrees with its ghost, and at destruction it is false exactly when the source operation is still alive");
  VF_P(b.co >= a.co && b.co <= 1 && IMP(b.co == 1 && a.co == 0, cnt_started(a.slot) == 1), "lemma: one completion signal at most over the life of the operation, delivered from a child's completion");
  VF_P(IMP(a.sf, b.sf), "lemma: started_ is never reset");
  VF_P(IMP(AT(ST_RUN_CVAL, b) || AT(ST_RUN_CERR, b) || AT(ST_RUN_CDONE, b), AT(ST_RUN_SOURCE, a)), "lemma: the completion operation runs only after the source's completion (the step that destroyed the source operation)");
}
void lemma_fin_init(void) {
  struct fin_state i;
  i.slot[0] = i.slot[1] = i.slot[2] = i.slot[3] = i.slot[4] = i.slot[5] = SS_EMPTY;
  i.slot[SL_sourceOp_] = SS_ALIVE; STARTED_INIT_INTO(i.sf); i.sg = 0; i.co = 0;       /* what the constructor's ensures says, with the member initialiser from the code */
  VF_P(AT(ST_UNSTARTED, i), "lemma: a freshly constructed operation is in the unstarted state (started_ initialised to false)");
  VF_P(INV(i), "lemma: the initial state satisfies the invariant");
  VF_CANARY("lemma_fin_init reachable");
}
