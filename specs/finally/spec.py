H = 'include/unifex/finally.hpp'
NS = r'namespace _final \{'
VRCV = r'class _value_receiver<SourceSender, CompletionSender, Receiver, Values\.\.\.>::type\s+final \{'
ERCV = r'class _error_receiver<SourceSender, CompletionSender, Receiver, Error>::type\s+final \{'
DRCV = r'class _done_receiver<SourceSender, CompletionSender, Receiver>::type final \{'
SRCV = r'class _receiver<SourceSender, CompletionSender, Receiver>::type final \{'
OPCLS = r'class _op<SourceSender, CompletionSender, Receiver>::type \{'

# one (possibly nested once: the connect lambda) brace level
BAL = r'(?:[^{}]|\{[^{}]*\})*'
TARG = r'(?:<[^;()]*>)?'          # explicit template argument list of the union helpers (names a type, no call inside)

# ---- call abstractions: the union / manual_lifetime helpers and the receiver CPOs become event stubs.  The SLOT is always the
# member name written in the source (SL_<member>), the payload the variable written in the source.
COMMON = [
    (r'using \w+ =[^;]*;', ''),
    # may-throw: copy of the source's values into value_ (strong guarantee: nothing activated on a throw)
    (r'unifex::activate_union_member' + TARG + r'\(\s*op->(value_), static_cast<Values&&>\((\w+)\)\.\.\.\);',
     r'if (EV_activate_result(op, SL_\1, \2)) goto vf_catch_copy;'),
    # nothrow (the static_assert in the same body says so): decay-copy of the source's error into error_
    (r'static_assert\(std::is_nothrow_constructible_v<std::decay_t<Error>, Error>\);', 'EV_error_copy_is_nothrow();'),
    (r'unifex::activate_union_member' + TARG + r'\(\s*op->(error_), static_cast<Error&&>\((\w+)\)\);',
     r'if (EV_activate_result(op, SL_\1, \2)) VF_terminate();'),
    # may-throw: connect of the completion sender into one of the completion*Op_ slots (strong guarantee)
    (r'auto& completionOp =\s*unifex::activate_union_member_with' + TARG + r'\(\s*op->(\w+), \[&\] \{\s*return unifex::connect\(\s*'
     r'static_cast<CompletionSender&&>\(op->completionSender_\),\s*(\w+)\{op\}\);\s*\}\);',
     r'if (EV_connect_completion(op, SL_\1, RCV_\2)) goto vf_catch_connect;'),
    (r'unifex::start\(completionOp\);', 'EV_start_completion(op);'),
    # destruction of a slot
    (r'unifex::deactivate_union_member' + TARG + r'\(\s*op->(\w+)\)', r'EV_deactivate(op, SL_\1)'),
    # value receiver: the immediately-invoked lambda that moves the parked tuple to the stack; its scope_guard body runs on
    # both edges (after the move, normal or throwing) -- made explicit; the guard body is the source text
    (r'auto (\w+) = \[op\]\(\) -> std::tuple<Values\.\.\.> \{\s*scope_guard g\{\[op\]\(\) noexcept \{([^{}]*)\}\};\s*'
     r'return std::move\(op->(\w+)\)\.template get<std::tuple<Values\.\.\.>>\(\);\s*\}\(\);',
     r'int \1 = 0; _Bool vf_move_threw = EV_move_values(op, SL_\3, &\1); \2 if (vf_move_threw) goto vf_catch_deliver;'),
    (r'std::apply\(\s*\[&\]\(Values&&\.\.\. values\) \{\s*unifex::set_value\(\s*static_cast<Receiver&&>\(op->receiver_\),\s*'
     r'static_cast<Values&&>\(values\)\.\.\.\);\s*\},\s*static_cast<std::tuple<Values\.\.\.>&&>\((\w+)\)\);',
     r'if (EV_set_value(op, \1)) goto vf_catch_deliver;'),
    # error receiver: read of the parked error
    (r'Error (\w+) = static_cast<Error&&>\(op->(\w+)\.template get<Error>\(\)\);', r'int \1 = EV_get_error(op, SL_\2);'),
    # completion signals (channel + payload identity kept)
    (r'unifex::set_error\(\s*static_cast<Receiver&&>\(op->receiver_\), std::current_exception\(\)\);', 'EV_set_error(op, PAY_EXCEPTION);'),
    (r'unifex::set_error\(\s*static_cast<Receiver&&>\(op->receiver_\),\s*static_cast<\w+&&>\((\w+)\)\);', r'EV_set_error(op, \1);'),
    (r'unifex::set_done\(static_cast<Receiver&&>\(op->receiver_\)\);', 'EV_set_done(op);'),
    (r'std::move\(\*this\)\.set_error\(std::current_exception\(\)\);', 'fin_receiver_set_error(this, PAY_EXCEPTION);'),
    # UNIFEX_TRY { A } UNIFEX_CATCH(...) { B } -> { A' } if (0) { <label of A's may-throw stubs>: ; B }   (DESIGN 3.1 last row; spec-level)
    (r'UNIFEX_TRY\s*\{(' + BAL + r'?goto (vf_catch_\w+);' + BAL + r')\}\s*UNIFEX_CATCH\s*\(\.\.\.\)\s*\{', r'{\1} if (0) { \2: ;'),
    # a try block in which nothing can throw any more: the handler is dead code
    (r'UNIFEX_TRY\s*\{(' + BAL + r')\}\s*UNIFEX_CATCH\s*\(\.\.\.\)\s*\{', r'{\1} if (0) {'),
]
rcv_ctx = dict(cls='fin_rcv', members=['op_'], methods=[], pre=COMMON)

op_ctx = dict(cls='fin_op', members=['started_'], methods=[], pre=[
    (r'sourceOp_\.construct_with\(\[&\] \{\s*return unifex::connect\(\s*static_cast<SourceSender&&>\(sourceSender\),\s*'
     r'receiver_t<SourceSender, CompletionSender, Receiver>\{this\}\);\s*\}\);', 'if (EV_connect_source(this, SL_sourceOp_)) return;'),
    (r'unifex::deactivate_union_member\((\w+)\)', r'EV_deactivate(this, SL_\1)'),
    (r'unifex::start\((\w+)\.get\(\)\)', r'EV_start_source(this, SL_\1)'),
], post=[
    # instrumentation only: every READ of the discriminator is compared with the ghost
    (r'self->started_\b(?!\s*=(?!=))', 'VF_DISCR(self)'),
])


def R(cls, sig, **kw):
    return dict(file=H, sig=sig, within=[NS, cls], ctx=rcv_ctx, **kw)


SPEC = dict(
    properties=['C02', 'C05', 'C01'],
    ctx={},
    extracts={
        'started_init': dict(file=H, kind='expr', sig=r'bool started_\s*(=?[^;]*);'),
        # source receiver
        'src_set_value': R(SRCV, r'void set_value\(Values&&\.\.\. values\) && noexcept', must_contain=[r'value_receiver']),
        'src_set_error': R(SRCV, r'void set_error\(Error&& error\) && noexcept', must_contain=[r'error_receiver_t']),
        'src_set_done': R(SRCV, r'void set_done\(\) && noexcept', must_contain=[r'done_receiver']),
        # completion receivers
        'val_set_value': R(VRCV, r'void set_value\(\) && noexcept', must_contain=[r'op_']),
        'val_set_error': R(VRCV, r'void set_error\(Error&& error\) && noexcept', must_contain=[r'op_']),
        'val_set_done': R(VRCV, r'void set_done\(\) && noexcept', must_contain=[r'op_']),
        'err_set_value': R(ERCV, r'void set_value\(\) && noexcept', must_contain=[r'op_']),
        'err_set_error': R(ERCV, r'void set_error\(OtherError otherError\) && noexcept', must_contain=[r'op_']),
        'err_set_done': R(ERCV, r'void set_done\(\) && noexcept', must_contain=[r'op_']),
        'done_set_value': R(DRCV, r'void set_value\(\) && noexcept', must_contain=[r'op_']),
        'done_set_error': R(DRCV, r'void set_error\(Error&& error\) && noexcept', must_contain=[r'op_']),
        'done_set_done': R(DRCV, r'void set_done\(\) && noexcept', must_contain=[r'op_']),
        # operation state
        'op_ctor': dict(file=H, sig=r'explicit type\(\s*SourceSender&& sourceSender,\s*CompletionSender2&& completionSender,\s*Receiver2&& r\)', within=[NS, OPCLS], ctx=op_ctx, must_contain=[r'sourceSender']),
        'op_dtor': dict(file=H, sig=r'~type\(\)', within=[NS, OPCLS], ctx=op_ctx),
        'op_start': dict(file=H, sig=r'void start\(\) & noexcept', within=[NS, OPCLS], ctx=op_ctx),
    },
    closed_world=[dict(file=H, within=NS,
                       members=['started_', 'sourceOp_', 'completionValueOp_', 'completionErrorOp_', 'completionDoneOp_', 'value_', 'error_'],
                       allow=[r'bool started_\s*(?:=[^;]*)?;', r'source_operation_t sourceOp_;', r'completion_value_union_t completionValueOp_;',
                              r'completion_error_union_t completionErrorOp_;', r'manual_lifetime<done_operation> completionDoneOp_;',
                              r'(?s)sender_error_types_t<remove_cvref_t<SourceSender>, error_result_union>\s*error_;',
                              r'(?s)sender_value_types_t<\s*remove_cvref_t<SourceSender>,\s*manual_lifetime_union,\s*std::tuple>\s*value_;'])],
    units=[
        dict(name='source_set_value', harness='h_src_set_value', enforce='fin_receiver_set_value', replace=['fin_receiver_set_error']),
        dict(name='source_set_error', harness='h_src_set_error', enforce='fin_receiver_set_error'),
        dict(name='source_set_done', harness='h_src_set_done', enforce='fin_receiver_set_done'),
        dict(name='value_receiver_set_value', harness='h_val_set_value', enforce='value_receiver_set_value'),
        dict(name='value_receiver_set_error', harness='h_val_set_error', enforce='value_receiver_set_error'),
        dict(name='value_receiver_set_done', harness='h_val_set_done', enforce='value_receiver_set_done'),
        dict(name='error_receiver_set_value', harness='h_err_set_value', enforce='error_receiver_set_value'),
        dict(name='error_receiver_set_error', harness='h_err_set_error', enforce='error_receiver_set_error'),
        dict(name='error_receiver_set_done', harness='h_err_set_done', enforce='error_receiver_set_done'),
        dict(name='done_receiver_set_value', harness='h_done_set_value', enforce='done_receiver_set_value'),
        dict(name='done_receiver_set_error', harness='h_done_set_error', enforce='done_receiver_set_error'),
        dict(name='done_receiver_set_done', harness='h_done_set_done', enforce='done_receiver_set_done'),
        dict(name='op_ctor', harness='h_op_ctor', enforce='fin_op_ctor'),
        dict(name='op_start', harness='h_op_start', enforce='fin_op_start'),
        dict(name='op_dtor', harness='h_op_dtor', enforce='fin_op_dtor'),
        dict(name='lemma_fin_lifecycle', harness='lemma_fin_lifecycle', mode='lemma'),
        dict(name='lemma_fin_init', harness='lemma_fin_init', mode='lemma'),
    ],
    assumptions=[
        'each child operation (the source operation, the completion operation) completes exactly once through exactly one of its receiver\'s set_value / set_error / set_done, and not before it was started (C01 for the children)',
        'caller obligation (sender/receiver contract): the finally operation is destroyed only before start() or after it delivered its completion signal; start() is called at most once',
        'the receiver may destroy the finally operation as soon as a completion signal was delivered; a child started with unifex::start() may complete (and thereby finish and destroy the whole operation) before start() returns: nothing of the operation may be touched after either event',
        'strong exception guarantee of the stubbed callees: a throwing tuple copy / connect() leaves the slot un-activated (activate_union_member[_with] run the union\'s destructor through their scope_guard; manual_lifetime::construct_with constructs in place)',
        'unifex::start() and the destructors of child operations, values and errors do not throw (noexcept / static_assert in manual_lifetime)',
        'a throwing receiver set_value leaves the receiver un-completed (the library then calls set_error on it): EV_set_value counts a completion only when it returns normally',
        'error_receiver::set_value: `Error errorCopy = move(parked error)` is treated as non-throwing (the member function is noexcept: a throwing move constructor of a decayed error type would terminate; the static_assert in the source receiver covers only the copy INTO error_)',
        'payload identity only: values / errors are opaque tokens; "arriving unmodified" means the token delivered is the token parked',
    ],
    drops=['template genericity (Values..., Error: one symbolic instantiation; the per-type members of value_/error_/completionValueOp_/completionErrorOp_ unions are one slot each, as the storage is)',
           'explicit template arguments of activate_/deactivate_union_member (which alternative\'s destructor runs): only the member name (slot) is kept',
           'payload plumbing: std::tuple, std::apply, perfect forwarding -> token arguments of the event stubs',
           'UNIFEX_TRY / UNIFEX_CATCH -> goto vf_catch_* at the may-throw stubs (EV_activate_result for value_, EV_connect_completion, EV_move_values, EV_set_value)',
           'value_receiver::set_value: the immediately-invoked lambda with its scope_guard -> EV_move_values followed by the guard body (source text) on both edges',
           'constructor: exception from connect(source) propagates out of the constructor (modelled as return after EV_connect_source reports a throw); member initialisers completionSender_/receiver_ (copies made before any slot is alive) are not modelled',
           'receiver queries (tag_invoke forwarding to get_receiver()), visit_continuations, move constructors of the receivers (op_ exchange)'],
)
