FS = 'include/unifex/filter_stream.hpp'
TS = 'include/unifex/transform_stream.hpp'
VS = 'include/unifex/via_stream.hpp'
OS = 'include/unifex/on_stream.hpp'
TV = 'include/unifex/typed_via_stream.hpp'
VIA = 'include/unifex/via.hpp'
ON = 'include/unifex/on.hpp'

NS_F = r'namespace _filter \{'
RCV = r'struct _next_receiver<StreamSender, FilterFunc, Receiver>::type \{'
OPC = r'struct _op<StreamSender, FilterFunc, Receiver>::type \{'
SND = r'struct _sender<StreamSender, FilterFunc>::type \{'
STR = r'struct _filter_stream<StreamSender, FilterFunc>::type \{'

# UNIFEX_TRY { A } UNIFEX_CATCH(...) { B } -> { A' } if (0) { vf_catch_body: ; B }   (spec-level rule, DESIGN 3.1 last row).  The block-scoped
# constant VF_IN_TRY (0 at file scope, 1 inside a try block) tells a may-throw event whether a handler exists: VF_MAY_THROW jumps to the
# handler inside a try block and is std::terminate outside (the receiver functions are noexcept)
TRY_CATCH = [(r'UNIFEX_TRY\s*\{', '{ enum { VF_IN_TRY = 1 };'),
             (r'\}\s*UNIFEX_CATCH\s*\(\.\.\.\)\s*\{', '} if (0) { vf_catch_body: ;')]


def _no_handler(m):
    """a function body without any handler (no vf_catch_body label): every may-throw event is std::terminate (noexcept function)"""
    t = m.group(0)
    return t if 'vf_catch_body:' in t else t.replace('VF_MAY_THROW(', 'VF_MAY_THROW_NOTRY(')


# ---- filter: the next receiver.  `auto& op = op_;` binds the operation BEFORE the inner operation (which contains this receiver) is destroyed
rcv_ctx = dict(cls='flt_rcv', members=['op_'], methods=[], pre=[
    (r'auto& op = op_;', 'struct flt_op* op = op_;'),
    # std::invoke(op.filter_, std::as_const(values)...): the user's predicate (may throw); kept: WHICH function, the element
    (r'(?s)std::invoke\(\s*op\.(\w+),\s*std::as_const\(values\)\.\.\.\s*\)',
     r'({ _Bool vf_pred = 0; VF_MAY_THROW(EV_pred(op, op.\1, values, &vf_pred, VF_IN_TRY)); vf_pred; })'),
    (r'\bop\.(\w+)\.destruct\(\);', r'EV_destruct(op, SL_\1);'),
    # op.next_.construct_with([&] { return unifex::connect(next(op.stream_), next_receiver_t{op}); }): may throw (strong guarantee);
    # kept: the slot, WHICH stream operation (next / cleanup) of WHICH stream
    (r'(?s)\bop\.(\w+)\.construct_with\(\s*\[&\]\s*\{\s*return unifex::connect\(\s*(\w+)\(op\.(\w+)\),\s*next_receiver_t\{\s*op\s*\}\s*\);\s*\}\s*\);',
     r'VF_MAY_THROW(EV_connect(op, SL_\1, K_\2, op.\3, VF_IN_TRY));'),
    (r'unifex::start\(\s*op\.(\w+)\.get\(\)\s*\);', r'EV_start(op, SL_\1);'),
    (r'(?s)unifex::set_value\(\s*std::move\(op\.receiver_\),\s*std::forward<Values>\(values\)\.\.\.\s*\);', 'VF_MAY_THROW(EV_set_value(op, values, VF_IN_TRY));'),
    (r'(?s)unifex::set_error\(\s*std::move\((op_?)\.receiver_\),\s*std::current_exception\(\)\s*\);', r'EV_set_error_exception(\1, vf_current_exception());'),
    (r'(?s)unifex::set_error\(\s*std::move\((op_?)\.receiver_\),\s*std::forward<Error>\((\w+)\)\s*\);', r'EV_set_error(\1, \2);'),
    (r'(?s)unifex::set_done\(\s*std::move\((op_?)\.receiver_\)\s*\);', r'EV_set_done(\1);'),
] + TRY_CATCH + [(r'\bop\.', 'op->')],
    post=[
        (r'(?s)^.*$', _no_handler),
        # instrumentation only (no statement changed): every access to the operation / to the receiver object asserts that the object still exists
        (r'\bop->', 'VF_ALIVE(op)->'), (r'\bself->op_\b', 'VF_RCV_ALIVE(self)->op_'),
    ])

# ---- filter: the operation state
op_ctx = dict(cls='flt_op', members=['stream_', 'filter_', 'nextEngaged_'], methods=[], pre=[
    # constructor: an exception from connect propagates out of the constructor (`return` = unwinding; ~type() does not run)
    (r'(?s)(?<![\w.>])(\w+)\.construct_with\(\s*\[&\]\s*\{\s*return unifex::connect\(\s*(\w+)\((\w+)\),\s*next_receiver_t\{\s*\*this\s*\}\s*\);\s*\}\s*\);',
     r'if (EV_connect(this, SL_\1, K_\2, \3, 1)) return;'),
    (r'(?<![\w.>])(\w+)\.destruct\(\);', r'EV_destruct(this, SL_\1);'),
    (r'unifex::start\(\s*(\w+)\.get\(\)\s*\);', r'EV_start(this, SL_\1);'),
], post=[
    # instrumentation only: every READ of the discriminator is compared with the ghost
    (r'\bself->nextEngaged_\b(?!\s*=(?!=))', 'VF_DISCR(self)'),
])

# ---- filter: the sender's connect and the stream's next / cleanup (references -> pointers)
snd_ctx = dict(cls='', members=[], methods=[], pre=[
    (r'(?s)operation_t<Receiver>\{\s*self\.(\w+),\s*std::move\(self\)\.(\w+),\s*std::forward<Receiver>\((\w+)\)\s*\}', r'EV_make_op(self->\1, self->\2, \3)'),
])
str_ctx = dict(cls='', members=[], methods=[], pre=[
    (r'(?s)_filter::sender<StreamSender, FilterFunc>\{\s*s\.(\w+),\s*s\.(\w+)\s*\}', r'EV_make_next_sender(&s->\1, &s->\2)'),
    (r'\b(next|cleanup)\(\s*s\.(\w+)\s*\)', r'EV_inner_\1(&s->\2)'),
])

# ---- transform_stream / via_stream / on_stream: one-statement compositions.  The adaptor lambda is verified as its own function (its captured
# variable is a member of the closure object); in the enclosing function the whole lambda expression becomes EV_closure(<captured initialiser>)
FWD = [(r'\(\s*(?:StreamSender|Scheduler|Func|Sender)\s*&&\s*\)\s*(\w+)', r'\1'),          # perfect-forwarding casts dropped
       (r'\(decltype\((\w+)\)\)\s*\1\b', r'\1'),
       (r'static_cast<(?:Source|Scheduler)&&>\((\w+)\)', r'\1')]
LAMBDA = r'(?s)\[(\w+) = (\w+)\]\(auto&& sender\) mutable \{[^{}]*\}'
outer_ctx = dict(cls='', members=[], methods=[], pre=FWD + [
    (LAMBDA, r'EV_closure(\2)'),
    (r'\b(next_adapt_stream|adapt_stream|cleanup_adapt_stream)\(', r'EV_compose(CB_\1, '),
])
tfx_l_ctx = dict(cls='clos', members=['func'], methods=[], pre=FWD + [(r'std::ref\((\w+)\)', r'VF_REF(\1)'), (r'\bthen\(', 'EV_then(')])
sch_l_ctx = dict(cls='clos', members=['s'], methods=[], pre=FWD + [(r'\bvia\(', 'EV_via('), (r'\bon\(', 'EV_on(')])
alg_ctx = dict(cls='', members=[], methods=[], pre=FWD + [
    (r'\bfinally\(', 'EV_finally('), (r'\bschedule\(', 'EV_schedule('), (r'\bsequence\(', 'EV_sequence('),
    (r'\bwith_query_value\(', 'EV_with_query_value('), (r'\bget_scheduler\b', 'VF_get_scheduler'),
])

TFX_OP = r'operator\(\)\(StreamSender&& stream, Func&& func\) const'
SCH_A = r'operator\(\)\(Scheduler&& scheduler, StreamSender&& stream\) const'
SCH_B = r'operator\(\)\(StreamSender&& stream, Scheduler&& scheduler\) const'
TFX_L = r'\[func = \(Func &&\) func\]\(auto&& sender\) mutable'
SCH_L = r'\[s = \(Scheduler &&\) scheduler\]\(auto&& sender\) mutable'

C13C02 = ['C13', 'C02']

SPEC = dict(
    properties=['C13', 'C02'],
    ctx={},
    extracts={
        # ---- filter_stream.hpp
        # optional group: a member WITHOUT initialiser is left nondeterministic by the harness (DESIGN 12.2); `{e}` -> `= (e)`
        'engaged_init': dict(file=FS, kind='expr', sig=r'bool nextEngaged_\s*((?:\{[^{};]*\}|=[^;]*)?);', within=[NS_F, OPC],
                             ctx=dict(post=[(r'^\{(.*)\}$', r'= (\1)')])),
        # the element is received by (forwarding) reference: it may live inside the inner next operation and then dies with it
        'sv_ref': dict(file=FS, kind='expr', sig=r'void set_value\(Values\s*((?:&&|&)?)\s*\.\.\.\s*values\) && noexcept', within=[NS_F, RCV]),
        'rcv_set_value': dict(file=FS, sig=r'void set_value\(Values\s*(?:&&|&)?\s*\.\.\.\s*values\) && noexcept', within=[NS_F, RCV], ctx=rcv_ctx),
        'rcv_set_done': dict(file=FS, sig=r'void set_done\(\) && noexcept', within=[NS_F, RCV], ctx=rcv_ctx),
        'rcv_set_error': dict(file=FS, sig=r'void set_error\(Error&& e\) && noexcept', within=[NS_F, RCV], ctx=rcv_ctx),
        'op_ctor': dict(file=FS, sig=r'explicit type\(\s*StreamSender& stream,\s*FilterFunc& filter,\s*Receiver2&& receiver\)', within=[NS_F, OPC], ctx=op_ctx),
        'op_dtor': dict(file=FS, sig=r'~type\(\)', within=[NS_F, OPC], ctx=op_ctx),
        'op_start': dict(file=FS, sig=r'void start\(\) noexcept', within=[NS_F, OPC], ctx=op_ctx),
        'snd_connect': dict(file=FS, sig=r'tag_invoke\(\s*tag_t<connect>, Self&& self, Receiver&& receiver\)', within=[NS_F, SND], ctx=snd_ctx),
        'fs_next': dict(file=FS, sig=r'tag_invoke\(tag_t<next>, type& s\)', within=STR, ctx=str_ctx),
        'fs_cleanup': dict(file=FS, sig=r'tag_invoke\(tag_t<cleanup>, type& s\)', within=STR, ctx=str_ctx),
        # ---- transform_stream.hpp
        'tfx_call': dict(file=TS, sig=TFX_OP, within=r'namespace _tfx_stream \{', ctx=outer_ctx),
        'tfx_lambda': dict(file=TS, sig=TFX_L, within=[r'namespace _tfx_stream \{', TFX_OP], ctx=tfx_l_ctx),
        # ---- via_stream.hpp (both argument orders) and the deprecated alias typed_via_stream
        'via_call_a': dict(file=VS, sig=SCH_A, within=r'namespace _via_stream \{', ctx=outer_ctx),
        'via_lambda_a': dict(file=VS, sig=SCH_L, within=[r'namespace _via_stream \{', SCH_A], ctx=sch_l_ctx),
        'via_call_b': dict(file=VS, sig=SCH_B, within=r'namespace _via_stream \{', ctx=outer_ctx),
        'via_lambda_b': dict(file=VS, sig=SCH_L, within=[r'namespace _via_stream \{', SCH_B], ctx=sch_l_ctx),
        'typed_via_fn': dict(file=TV, kind='expr', sig=r'(?s)inline constexpr (\w+::\w+)\s+typed_via_stream\{\}',
                             ctx=dict(pre=[(r'^_(\w+)::_fn$', r'FN_\1')])),
        # ---- on_stream.hpp
        'on_call_a': dict(file=OS, sig=SCH_A, within=r'namespace _on_stream \{', ctx=outer_ctx),
        'on_lambda_a': dict(file=OS, sig=SCH_L, within=[r'namespace _on_stream \{', SCH_A], ctx=sch_l_ctx),
        'on_call_b': dict(file=OS, sig=SCH_B, within=r'namespace _on_stream \{', ctx=outer_ctx),
        'on_lambda_b': dict(file=OS, sig=SCH_L, within=[r'namespace _on_stream \{', SCH_B], ctx=sch_l_ctx),
        # ---- what via(sender, s) / on(s, sender) ARE (default overloads): the order of the scheduler transition
        'via_default': dict(file=VIA, sig=r'operator\(\)\(Source&& source, Scheduler&& scheduler\) const', occ=1, within=r'namespace _via \{', ctx=alg_ctx,
                            must_contain=[r'return']),
        'on_default': dict(file=ON, sig=r'operator\(\)\(Scheduler&& scheduler, Sender&& sender\) const', occ=1, within=r'namespace _on \{', ctx=alg_ctx),
    },
    closed_world=[
        # the inner operation storage and its discriminator are touched only by the extracted spans
        dict(file=FS, members=['next_', 'nextEngaged_'], within=NS_F, allow=[r'next_op next_;', r'bool nextEngaged_\s*(?:\{[^{};]*\}|=[^;]*)?;']),
        # the filter stream has no protocol state: its two members are read only by the two customisations (and aggregate-initialised by the CPO)
        dict(file=FS, members=['stream_', 'filter_'], within=r'namespace _filter_stream \{',
             allow=[r'UNIFEX_NO_UNIQUE_ADDRESS StreamSender stream_;', r'UNIFEX_NO_UNIQUE_ADDRESS FilterFunc filter_;',
                    r'(?s)tag_invoke\(tag_t<cleanup>, type& s\) noexcept\(noexcept\(cleanup\(s\.stream_\)\)\)']),     # unevaluated operand of the exception specification
    ],
    units=[
        # filter: one round of the re-subscription loop (cut point: one inner value consumed)
        dict(name='filter_next_set_value', harness='h_rcv_set_value', enforce='flt_rcv_set_value', props=C13C02),
        dict(name='filter_next_set_done', harness='h_rcv_set_done', enforce='flt_rcv_set_done', props=C13C02),
        dict(name='filter_next_set_error', harness='h_rcv_set_error', enforce='flt_rcv_set_error', props=C13C02),
        dict(name='filter_op_ctor', harness='h_op_ctor', enforce='flt_op_ctor', props=C13C02),
        dict(name='filter_op_start', harness='h_op_start', enforce='flt_op_start', props=C13C02),
        dict(name='filter_op_dtor', harness='h_op_dtor', enforce='flt_op_dtor', props=C13C02),
        dict(name='lemma_filter_lifecycle', harness='lemma_flt_lifecycle', mode='lemma', props=C13C02),
        dict(name='lemma_filter_init', harness='lemma_flt_init', mode='lemma', props=C13C02),
        dict(name='filter_sender_connect', harness='h_snd_connect', enforce='flt_sender_connect', props=['C13']),
        dict(name='filter_stream_next', harness='h_fs_next', enforce='fs_next', props=['C13']),
        dict(name='filter_stream_cleanup', harness='h_fs_cleanup', enforce='fs_cleanup', props=['C13']),
        # compositions
        dict(name='transform_stream_call', harness='h_tfx_call', enforce='tfx_call', props=['C13']),
        dict(name='transform_stream_adaptor', harness='h_tfx_lambda', enforce='tfx_lambda', props=['C13']),
        dict(name='via_stream_call_a', harness='h_via_call_a', enforce='via_call_a', props=['C13']),
        dict(name='via_stream_adaptor_a', harness='h_via_lambda_a', enforce='via_lambda_a', props=['C13']),
        dict(name='via_stream_call_b', harness='h_via_call_b', enforce='via_call_b', props=['C13']),
        dict(name='via_stream_adaptor_b', harness='h_via_lambda_b', enforce='via_lambda_b', props=['C13']),
        dict(name='on_stream_call_a', harness='h_on_call_a', enforce='on_call_a', props=['C13']),
        dict(name='on_stream_adaptor_a', harness='h_on_lambda_a', enforce='on_lambda_a', props=['C13']),
        dict(name='on_stream_call_b', harness='h_on_call_b', enforce='on_call_b', props=['C13']),
        dict(name='on_stream_adaptor_b', harness='h_on_lambda_b', enforce='on_lambda_b', props=['C13']),
        dict(name='via_default', harness='h_via_default', enforce='via_default', props=['C13']),
        dict(name='on_default', harness='h_on_default', enforce='on_default', props=['C13']),
        dict(name='lemma_scheduler_streams', harness='lemma_scheduler_streams', mode='lemma', props=['C13']),
    ],
    assumptions=[
        'stream concept, child: each next(inner stream) operation completes exactly once, only after it was started, through exactly one of its receiver\'s set_value / set_error / set_done; it may do so inline inside unifex::start(); it does not touch its own operation state after calling its receiver (so it may be destroyed from inside that call)',
        'the consumer destroys the filter next-operation only before start() or after it delivered its completion signal; start() is called once; the consumer\'s receiver may destroy the operation as soon as a completion signal was delivered',
        'strong exception guarantee of manual_lifetime::construct_with: a throwing connect() leaves nothing constructed; unifex::start() and the destructor of the inner operation do not throw',
        'a throwing receiver set_value leaves the receiver un-completed (the library then calls set_error on it): EV_set_value counts a completion only when it returns normally',
        'the element is received by forwarding reference: it is taken to live inside the inner next operation that produced it (e.g. next(stream) = just(x)) and to die with it (reference token extracted: sv_ref)',
        'the round-by-round recursion (the re-subscribed inner next() completing inside unifex::start) is not unrolled: one consumed element per unit (cut point), chained by lemma_filter_lifecycle for any number of rejected elements; termination / stack depth not claimed',
        'an exception from connect(next(stream)) in the operation\'s constructor propagates out of connect(next(filter_stream), receiver) with nothing constructed (~type() does not run); the mem-initialisers stream_(stream), filter_(filter), receiver_(...) are not modelled',
        'transform_stream / via_stream / on_stream are compositions: the per-call behaviour of next_adapt_stream / adapt_stream (ONE inner next / cleanup sender per outer call, handed to the adaptor, result returned) is verified in group for_each_adapt; then / finally / sequence in their own groups.  Checked here: WHICH combinator is used (hence whether cleanup is adapted too), that the adaptor closure captures the caller\'s function / scheduler, and that the closure applies then / via / on ONCE to the sender it is given, with the arguments in the documented positions',
        'via(sender, s) = finally(sender, schedule(s)) and on(s, sender) = sequence(schedule(s), with_query_value(sender, get_scheduler, s)): the default overloads; a tag_invoke customisation of via / on for a particular sender type is the customiser\'s business',
        'sequential code: no atomics, vf_interfere is empty; next_ and nextEngaged_ are touched only by the extracted spans (closed-world scan)',
    ],
    drops=['template genericity (StreamSender, FilterFunc, Receiver, Values...: one symbolic instantiation; the element is one scalar, errors are integer tokens)',
           'reference members -> pointers: op_ (`auto& op = op_;` -> `struct flt_op* op = op_;`), stream_ / filter_ of the sender and of the operation (int* to the stream object\'s members)',
           'UNIFEX_TRY / UNIFEX_CATCH -> block-scoped VF_IN_TRY + goto vf_catch_body at the may-throw stubs (predicate, connect, receiver set_value)',
           'the connect lambda inside construct_with: kept: the slot, which stream operation (next) of which stream; dropped: the receiver object next_receiver_t{op}',
           'perfect forwarding (std::forward / (T&&) casts / (decltype(sender))sender), std::as_const',
           'adaptor lambdas [x = (T&&) y](auto&& sender) mutable { ... }: the body is extracted as a function of (closure, sender), the capture is a member of the closure; in the enclosing function the lambda expression is the token EV_closure(y)',
           'exception specifications; receiver queries (tag_invoke forwarding), visit_continuations, sender traits, the filter_stream CPO and the bind_back overloads (no function bodies beyond forwarding)',
           'typed_via_stream: the variable\'s type `_via_stream::_fn` -> the constant FN_via_stream'],
)
