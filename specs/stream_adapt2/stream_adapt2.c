/* C13 (scoped) / C02: stream adaptors, second group.
 *
 * (1) include/unifex/filter_stream.hpp.  next(filter_stream) is a sender whose operation keeps ONE inner next(stream) operation in
 *     manual_lifetime storage `next_` (discriminator nextEngaged_, read by the destructor).  The inner operation's receiver
 *       set_value(v):  evaluate the predicate on v;  true  -> forward v to the consumer (the inner op is left to the destructor);
 *                      false -> destroy the completed inner op, connect a NEW next(stream) into the same storage, start it
 *                      (the re-subscription loop set_value -> start -> set_value ...);  predicate / connect / consumer set_value
 *                      throws -> set_error(current_exception)
 *       set_done / set_error: forwarded unchanged, nothing re-subscribed.
 *     Obligations (property text): each outer next() completes the consumer exactly once, with the FIRST element that satisfies the
 *     predicate (every element consumed before it was rejected: the dropped elements are exactly those), or with the inner stream's
 *     done / error unchanged, or with the exception; the inner op is destroyed exactly once, before the new one is constructed, never
 *     while running; nothing is constructed and left behind on a throw path; after done / error no further inner next() is started;
 *     nothing of the operation is touched once the consumer was completed or a started inner op may have completed everything inline.
 *     The loop is verified at a cut point (one consumed element per unit) and chained for any number of rejected elements by
 *     lemma_flt_lifecycle.  cleanup(filter_stream) IS cleanup(inner stream); next(filter_stream) is the sender over the SAME inner stream.
 * (2) transform_stream.hpp, via_stream.hpp (typed_via_stream.hpp), on_stream.hpp: one-statement compositions over next_adapt_stream /
 *     adapt_stream (verified per call in group for_each_adapt) -- WHAT is composed with WHAT, in which argument position; and what
 *     via(sender, s) / on(s, sender) are (where the scheduler transition sits relative to the inner stream operation).
 * Bodies marked @BODY / @EXPR are extracted from /repo on every run; everything else here is specification. */
#include <stddef.h>
#include <stdint.h>

struct fs_stream { int stream_; int filter_; };                     /* _filter_stream::type: owns the inner stream and the predicate */
struct flt_sender { int* stream_; int* filter_; };                  /* _filter::_sender::type: references to them */
struct flt_op { int* stream_; int* filter_; int receiver_; _Bool nextEngaged_; };   /* _filter::_op::type (next_ is the ghost slot) */
struct flt_rcv { struct flt_op* op_; };                             /* _filter::_next_receiver::type */
struct clos { int func; int s; };                                   /* closure object of an adaptor lambda: its one capture */

enum { SL_next_ };
enum { K_next, K_cleanup };
enum { LS_NONE, LS_ALIVE, LS_STARTED, LS_COMPLETING };             /* nothing / connected / started, running / has called its receiver */
enum { CH_NONE, CH_VALUE, CH_ERROR, CH_ERROR_EXCEPTION, CH_DONE };
enum { VF_IN_TRY = 0 };                                             /* shadowed by a block-scoped VF_IN_TRY = 1 inside every UNIFEX_TRY block */
enum { CB_none, CB_adapt_stream, CB_next_adapt_stream, CB_cleanup_adapt_stream };
enum { FN_none, FN_via_stream, FN_on_stream, FN_tfx_stream, FN_filter_stream };
enum { AL_none, AL_then, AL_via, AL_on };
#define VF_NO_TOK 0
#define VF_get_scheduler 4711                                       /* the get_scheduler CPO (a tag) */
#define VF_REF(x) (x)                                               /* std::ref(func): the closure's own copy, by reference */

struct vf_ghost {
  /* ---- filter ---- */
  int* inner; int* pred;               /* the inner stream / the predicate of the filter stream under test */
  uint8_t slot; unsigned acts, deacts, starts;
  _Bool running; int signal;           /* the inner next()'s completion callback is executing; the channel it completed on */
  _Bool in_ctor, in_dtor, in_start, started;
  _Bool connect_tried;
  unsigned pred_calls; _Bool pred_result; int64_t pred_arg;
  _Bool pred_threw, connect_threw, sv_threw; int cur_exc;
  int64_t element; int err_in;         /* the element / error the inner next() completed with */
  unsigned consumed, rejected;         /* elements the inner stream produced in this outer next() / of those, with predicate false */
  unsigned completed; int channel; int64_t delivered; int delivered_tok;
  uint8_t slot_atc;                    /* the slot when the completion signal was delivered */
  _Bool dead; struct flt_op snap;      /* the operation may have been destroyed; its bytes then */
  _Bool rcv_dead, payload_dead;
  /* ---- sender / stream / compositions ---- */
  unsigned ops_made, senders_made, inner_nexts, inner_cleanups;
  int* mk_stream; int* mk_filter; int mk_receiver, mk_tok, cleanup_sender;
  unsigned closures, composes, algs;
  int clos_cap, clos_tok, comp_kind, comp_stream, comp_adaptor, comp_tok;
  int alg_kind, alg_a, alg_b, alg_tok;
  unsigned schedules, wqvs; int sch_of, sch_tok, wqv_sender, wqv_cpo, wqv_value, wqv_tok;
};
static struct vf_ghost G;
static struct fs_stream FSTR;
static struct flt_sender SND;
static struct flt_op OP;
static struct flt_rcv RCV;
static struct clos CL;

#include "vf.h"
static void vf_interfere(void) {}      /* sequential code: no atomics, no environment steps */
static _Bool vf_nb(void) { return VF_nondet_bool() ? 1 : 0; }       /* an uninitialised _Bool may hold any byte: normalise */
static int vf_fresh_tok(void) { int t = VF_nondet_int(); __CPROVER_assume(t > 0 && t < (1 << 20)); return t; }

/* member initialiser of the discriminator, as written in the class (a member without initialiser is left nondeterministic) */
#define ENGAGED_INIT_INTO(lv) do { _Bool vf_s /*@EXPR engaged_init*/; (lv) = vf_s; } while (0)
/* the reference token of set_value(Values&&... values) (extracted; empty = by value): by reference the element lives in the inner
 * next operation that produced it and dies with it */
static const _Bool VF_VALUES_BY_REF = sizeof("/*@EXPR sv_ref*/") > 1;
/* the type of the deprecated alias typed_via_stream */
#define TYPED_VIA_FN (/*@EXPR typed_via_fn*/)

/* an exception inside a UNIFEX_TRY block reaches its handler; anywhere else in a noexcept function it is std::terminate */
#define VF_MAY_THROW(e) do { if (e) { if (VF_IN_TRY) goto vf_catch_body; VF_terminate(); } } while (0)
#define VF_MAY_THROW_NOTRY(e) do { if (e) { VF_terminate(); } } while (0)      /* in a function body that has no handler at all */

#define DEAD_MSG "C02: no access to the operation once it may have been destroyed (completion signal delivered, or the started inner next() may have completed everything inline)"
#define VF_ALIVE(p) ({ VF_P(!G.dead, DEAD_MSG); (p); })
#define VF_RCV_ALIVE(r) ({ VF_P(!G.rcv_dead, "C02: no access to the inner operation's receiver object after the inner operation that contains it was destroyed"); (r); })
#define VF_OP_EQ(a, b) ((a).stream_ == (b).stream_ && (a).filter_ == (b).filter_ && (a).receiver_ == (b).receiver_ && (a).nextEngaged_ == (b).nextEngaged_)
#define UNTOUCHED (!G.dead || VF_OP_EQ(OP, G.snap))
#define VF_DISCR(o) (*({ VF_P(!G.dead, DEAD_MSG); \
  VF_P(!(o)->nextEngaged_ == (G.slot == LS_NONE), "C02: the discriminator nextEngaged_ equals the ghost at every read: true exactly when an inner operation is alive"); &(o)->nextEngaged_; }))
#define PAYLOAD_MSG "C02/C13: the element is used only while the inner operation that holds it is alive (received by reference: it dies with that operation)"

/* the operation may be destroyed now: its bytes are arbitrary from here on and must not be touched */
static void vf_die(void) {
  struct flt_op f;
  OP.stream_ = VF_nondet_bool() ? &FSTR.stream_ : NULL; OP.filter_ = VF_nondet_bool() ? &FSTR.filter_ : NULL; OP.receiver_ = f.receiver_; OP.nextEngaged_ = vf_nb();
  G.snap = OP; G.dead = 1; G.rcv_dead = 1; RCV.op_ = NULL;
}

/* ---------------- event stubs: filter ---------------- */
#define EV_PRE(op) do { VF_P((op) == &OP, "the receiver's op_ is the operation it was connected for"); VF_P(!G.dead, DEAD_MSG); } while (0)
#define THREW (G.pred_threw || G.connect_threw || G.sv_threw)

/* std::invoke(op.filter_, std::as_const(values)...): the user's predicate */
static _Bool EV_pred(struct flt_op* op, int* fn, int64_t v, _Bool* result, int in_try) {
  VF_CANARY("predicate reachable");
  EV_PRE(op);
  VF_P(G.running && G.signal == CH_VALUE && G.completed == 0, "C13: the predicate is evaluated only for an element produced by the inner next()");
  VF_P(G.pred_calls == 0 && G.deacts == 0 && !G.connect_tried, "C13: the predicate is evaluated once per element, before the inner operation is destroyed or anything is re-connected");
  VF_P(fn == G.pred, "C13: the stream's own predicate is applied");
  VF_P(v == G.element, "C13: the predicate is applied to the element that arrived");
  VF_P(!G.payload_dead, PAYLOAD_MSG);
  G.pred_calls++; G.pred_arg = v;
  if (vf_nb()) {
    if (!in_try) return 1;              /* no handler: VF_MAY_THROW reports std::terminate */
    G.pred_threw = 1; G.cur_exc = vf_fresh_tok(); return 1;
  }
  G.pred_result = vf_nb(); *result = G.pred_result;
  if (!G.pred_result) G.rejected++;    /* this element is to be dropped */
  return 0;
}
/* next_.destruct() */
static void EV_destruct(struct flt_op* op, int s) {
  EV_PRE(op);
  VF_P(s == SL_next_, "the inner operation slot");
  VF_P(G.slot != LS_NONE, "C02: the inner operation is destroyed exactly once, and only if one is alive");
  VF_P(G.slot != LS_STARTED, "C02: the inner operation is never destroyed before it has completed");
  if (G.slot == LS_COMPLETING)
    VF_P(G.in_dtor || (G.running && G.pred_calls == 1 && !G.pred_threw && !G.pred_result && G.deacts == 0),
         "C13/C02: a completed inner next() is destroyed by its own value completion after the predicate rejected the element, or by the destructor");
  else
    VF_P(G.in_dtor, "C02: a connected, never started inner operation is destroyed only by the operation's destructor");
  G.slot = LS_NONE; G.deacts++;
  if (G.running && !G.in_dtor) { G.rcv_dead = 1; RCV.op_ = NULL; if (VF_VALUES_BY_REF) G.payload_dead = 1; }     /* the receiver the callback runs on lived inside that operation */
}
/* next_.construct_with([&] { return connect(next(stream_), next_receiver_t{op}); }) */
static _Bool EV_connect(struct flt_op* op, int s, int kind, int* stream, int in_try) {
  EV_PRE(op);
  VF_P(s == SL_next_ && kind == K_next, "C13: next(stream) -- not cleanup -- is connected into the inner operation slot");
  VF_P(stream == G.inner, "C13: every inner next() of one outer next() is requested from the SAME inner stream");
  VF_P(G.slot == LS_NONE, "C02: the new inner operation is constructed only into storage in which nothing is alive: the previous one was destroyed first");
  VF_P(!G.connect_tried, "C13: one re-subscription per consumed element");
  VF_P(G.completed == 0, "C01: nothing is constructed after the completion signal");
  VF_P(G.in_ctor || (G.running && G.signal == CH_VALUE && G.pred_calls == 1 && !G.pred_threw && !G.pred_result && G.deacts == 1),
       "C13: a further inner next() is requested only after a VALUE that the predicate rejected -- never after done / error, never for an element that passes");
  G.connect_tried = 1;
  if (vf_nb()) {
    if (!in_try) return 1;
    G.connect_threw = 1; G.cur_exc = vf_fresh_tok(); return 1;      /* strong guarantee: nothing constructed */
  }
  G.slot = LS_ALIVE; G.acts++;
  return 0;
}
/* unifex::start(next_.get()): the inner next() may complete inline; further rounds may run, to the end, and the consumer may destroy the operation */
static void EV_start(struct flt_op* op, int s) {
  EV_PRE(op);
  VF_P(s == SL_next_ && G.slot == LS_ALIVE, "C01/C02: the inner operation is started exactly once, after it was connected");
  VF_P(G.completed == 0, "C01: nothing is started after the completion signal");
  VF_P(G.in_start || (G.running && G.acts == 1), "C13: an inner next() is started by start() or by the re-subscription that connected it");
  VF_P(op->nextEngaged_, "C02: the discriminator is set BEFORE the inner operation is started (it may complete inline, and the consumer may then destroy the operation)");
  G.slot = LS_STARTED; G.starts++; if (G.in_start) G.started = 1;
  vf_die();
}
static void vf_final_pre(struct flt_op* op) {
  EV_PRE(op);
  VF_P(G.started && G.running, "C01: the consumer is completed only from the inner next()'s completion, never before start()");
  VF_P(G.completed == 0, "C01: the consumer is completed at most once per outer next()");
  VF_P(G.slot == LS_NONE || G.slot == LS_COMPLETING, "C02: no inner operation is running (or connected and unstarted) when the completion signal is delivered");
  VF_P(!op->nextEngaged_ == (G.slot == LS_NONE), "C02: at the completion signal the discriminator says exactly whether an inner operation is alive: the destructor, which may run next, destroys it exactly once");
}
static void vf_final(int ch) { G.completed++; G.channel = ch; G.slot_atc = G.slot; vf_die(); }
static _Bool EV_set_value(struct flt_op* op, int64_t v, int in_try) {
  VF_CANARY("set_value reachable");
  vf_final_pre(op);
  VF_P(G.signal == CH_VALUE && G.pred_calls == 1 && !G.pred_threw && G.pred_result, "C13: only an element for which the predicate returned true is delivered");
  VF_P(v == G.element && G.deacts == 0 && !G.payload_dead, "C13: the element delivered is the element that arrived, unchanged (" PAYLOAD_MSG ")");
  if (vf_nb()) {
    if (!in_try) return 1;
    G.sv_threw = 1; G.cur_exc = vf_fresh_tok(); return 1;            /* a throwing set_value leaves the consumer un-completed */
  }
  G.delivered = v; vf_final(CH_VALUE);
  return 0;
}
static int vf_current_exception(void) {
  VF_P(THREW, "std::current_exception() is read inside a handler, after a may-throw event threw");
  return G.cur_exc;
}
static void EV_set_error_exception(struct flt_op* op, int tok) {
  VF_CANARY("set_error(current_exception) reachable");
  vf_final_pre(op);
  VF_P(THREW && tok == G.cur_exc, "C02: set_error(current_exception) reports exactly the exception that was thrown");
  G.delivered_tok = tok; vf_final(CH_ERROR_EXCEPTION);
}
static void EV_set_error(struct flt_op* op, int tok) {
  vf_final_pre(op);
  VF_P(G.signal == CH_ERROR && tok == G.err_in, "C13: the inner stream's error is forwarded unchanged, only when the inner next() completed with an error");
  G.delivered_tok = tok; vf_final(CH_ERROR);
}
static void EV_set_done(struct flt_op* op) {
  vf_final_pre(op);
  VF_P(G.signal == CH_DONE, "C13: done is forwarded only when the inner next() completed with done");
  vf_final(CH_DONE);
}

/* ---------------- contracts: filter ---------------- */
#define A_FLT G, OP, RCV
#define NOACT (G.acts == 0 && G.deacts == 0 && G.starts == 0 && !G.connect_tried)
#define FRESH0 (NOACT && G.pred_calls == 0 && !G.pred_threw && !G.connect_threw && !G.sv_threw && !G.dead && !G.rcv_dead && !G.payload_dead \
  && G.channel == CH_NONE && G.cur_exc == VF_NO_TOK)
#define FRESH (FRESH0 && !G.in_ctor && !G.in_dtor && !G.in_start)
#define OP_OK (OP.stream_ == G.inner && OP.filter_ == G.pred && G.inner == &FSTR.stream_ && G.pred == &FSTR.filter_)
#define RCV_OK (self == &RCV && RCV.op_ == &OP && OP_OK)
/* the inner next() is inside its completion call on channel ch; the consumer is not completed yet */
#define COMPLETING_ON(ch) (G.slot == LS_COMPLETING && OP.nextEngaged_ && G.running && G.signal == (ch) && G.started && G.completed == 0)
#define FINAL(ch) (G.completed == 1 && G.channel == (ch) && G.dead)

/* one round of the re-subscription loop: ONE inner value consumed (cut point) */
void flt_rcv_set_value(struct flt_rcv* self, int64_t values)
__CPROVER_requires(RCV_OK && FRESH && COMPLETING_ON(CH_VALUE) && values == G.element && G.consumed == G.rejected + 1 && G.consumed < 0xffffffffu)
__CPROVER_assigns(A_FLT)
__CPROVER_ensures(UNTOUCHED)
__CPROVER_ensures(G.pred_calls == 1 && G.pred_arg == __CPROVER_old(values))                          /* C13: the predicate is asked exactly once, about this element */
__CPROVER_ensures(G.completed + G.starts == 1)                                                       /* C01/C13: exactly one of: the consumer completed once / one fresh inner next() started */
__CPROVER_ensures((!THREW && G.pred_result) ==> (FINAL(CH_VALUE) && G.delivered == __CPROVER_old(values) && G.slot == LS_COMPLETING && G.slot_atc == LS_COMPLETING \
                   && G.acts == 0 && G.deacts == 0 && !G.connect_tried && G.rejected == __CPROVER_old(G.rejected) && G.consumed == G.rejected + 1))   /* C13: predicate true: THIS element is delivered; everything consumed before it was rejected */
__CPROVER_ensures((!THREW && !G.pred_result) ==> (G.completed == 0 && G.deacts == 1 && G.acts == 1 && G.slot == LS_STARTED && G.dead \
                   && G.rejected == __CPROVER_old(G.rejected) + 1 && G.consumed == G.rejected))     /* C13/C02: predicate false: the element is dropped; old inner op destroyed, THEN exactly one fresh one connected and started */
__CPROVER_ensures(G.pred_threw ==> (FINAL(CH_ERROR_EXCEPTION) && G.delivered_tok == G.cur_exc && G.slot == LS_COMPLETING && G.acts == 0 && G.deacts == 0 && !G.connect_tried))   /* predicate threw: error, the completed inner op is left to the destructor */
__CPROVER_ensures(G.connect_threw ==> (FINAL(CH_ERROR_EXCEPTION) && G.delivered_tok == G.cur_exc && G.slot == LS_NONE && G.slot_atc == LS_NONE && G.acts == 0 && G.deacts == 1 \
                   && !G.pred_result))                                                               /* C02: re-connect threw: the old op was destroyed, nothing was constructed, nothing is left behind */
__CPROVER_ensures(G.sv_threw ==> (FINAL(CH_ERROR_EXCEPTION) && G.delivered_tok == G.cur_exc && G.slot == LS_COMPLETING && G.acts == 0 && G.deacts == 0 && G.pred_result))         /* the consumer's set_value threw: set_error on the same receiver */
__CPROVER_ensures(G.consumed == __CPROVER_old(G.consumed) && G.element == __CPROVER_old(G.element))
/*@BODY rcv_set_value*/

/* the inner stream is exhausted: done is forwarded, nothing re-subscribed; the completed inner op is left to the destructor */
void flt_rcv_set_done(struct flt_rcv* self)
__CPROVER_requires(RCV_OK && FRESH && COMPLETING_ON(CH_DONE) && G.consumed == G.rejected)
__CPROVER_assigns(A_FLT)
__CPROVER_ensures(UNTOUCHED && FINAL(CH_DONE) && NOACT && G.slot == LS_COMPLETING && G.pred_calls == 0 && !THREW)
__CPROVER_ensures(G.consumed == __CPROVER_old(G.consumed) && G.rejected == __CPROVER_old(G.rejected))
/*@BODY rcv_set_done*/

/* the inner stream failed: its error is forwarded unchanged, nothing re-subscribed */
void flt_rcv_set_error(struct flt_rcv* self, int e)
__CPROVER_requires(RCV_OK && FRESH && COMPLETING_ON(CH_ERROR) && e == G.err_in && e != VF_NO_TOK && G.consumed == G.rejected)
__CPROVER_assigns(A_FLT)
__CPROVER_ensures(UNTOUCHED && FINAL(CH_ERROR) && G.delivered_tok == __CPROVER_old(e) && NOACT && G.slot == LS_COMPLETING && G.pred_calls == 0 && !THREW)
__CPROVER_ensures(G.consumed == __CPROVER_old(G.consumed) && G.rejected == __CPROVER_old(G.rejected))
/*@BODY rcv_set_error*/

/* constructor body (after the mem-initialisers): connect the first next(stream); a throwing connect propagates */
void flt_op_ctor(struct flt_op* self)
__CPROVER_requires(self == &OP && OP_OK && G.slot == LS_NONE && !G.started && G.completed == 0 && !G.running && NOACT && G.pred_calls == 0 && !THREW && !G.dead && !G.rcv_dead \
                   && G.in_ctor && !G.in_dtor && !G.in_start)
__CPROVER_assigns(A_FLT)
__CPROVER_ensures(G.completed == 0 && G.starts == 0 && G.deacts == 0 && G.pred_calls == 0 && !G.dead && OP_OK)
__CPROVER_ensures(G.connect_tried && G.acts <= 1)
__CPROVER_ensures(G.acts == 1 ==> (G.slot == LS_ALIVE && OP.nextEngaged_))          /* C02: connected: the discriminator says so */
__CPROVER_ensures(G.acts == 0 ==> (G.slot == LS_NONE))                               /* connect threw: nothing constructed, the exception leaves the constructor */
/*@BODY op_ctor*/

void flt_op_start(struct flt_op* self)
__CPROVER_requires(self == &OP && OP_OK && G.slot == LS_ALIVE && OP.nextEngaged_ && !G.started && G.completed == 0 && !G.running && FRESH0 && G.in_start && !G.in_ctor && !G.in_dtor)
__CPROVER_assigns(A_FLT)
__CPROVER_ensures(UNTOUCHED && G.dead && G.starts == 1 && G.slot == LS_STARTED && G.started && G.acts == 0 && G.deacts == 0 && !G.connect_tried && G.pred_calls == 0 && G.completed == 0)
/*@BODY op_start*/

/* by the owner: before start(), or after the completion signal */
#define ST_UNSTARTED (G.slot == LS_ALIVE && OP.nextEngaged_ && !G.started && G.completed == 0)
#define ST_DONE_KEPT (G.slot == LS_COMPLETING && OP.nextEngaged_ && G.started && G.completed == 1)   /* value / done / error forwarded, predicate or set_value threw */
#define ST_DONE_EMPTY (G.slot == LS_NONE && !OP.nextEngaged_ && G.started && G.completed == 1)       /* the re-connect threw */
void flt_op_dtor(struct flt_op* self)
__CPROVER_requires(self == &OP && OP_OK && !G.running && NOACT && !G.dead && !G.rcv_dead && G.in_dtor && !G.in_ctor && !G.in_start && (ST_UNSTARTED || ST_DONE_KEPT || ST_DONE_EMPTY))
__CPROVER_assigns(A_FLT)
__CPROVER_ensures(G.slot == LS_NONE && G.acts == 0 && G.starts == 0 && G.completed == __CPROVER_old(G.completed))
__CPROVER_ensures(G.deacts == (__CPROVER_old(G.slot) != LS_NONE ? 1 : 0))            /* C02: whatever inner operation is left is destroyed exactly once */
/*@BODY op_dtor*/

/* ---------------- event stubs and contracts: filter sender / filter stream ---------------- */
static int EV_make_op(int* stream, int* filter, int receiver) {
  VF_P(G.ops_made == 0, "one operation per connect");
  G.ops_made++; G.mk_stream = stream; G.mk_filter = filter; G.mk_receiver = receiver; G.mk_tok = vf_fresh_tok();
  return G.mk_tok;
}
static int EV_make_next_sender(int* stream, int* filter) {
  VF_P(G.senders_made == 0 && G.inner_cleanups == 0 && G.inner_nexts == 0, "one sender per outer next()");
  G.senders_made++; G.mk_stream = stream; G.mk_filter = filter; G.mk_tok = vf_fresh_tok();
  return G.mk_tok;
}
static int EV_inner_next(int* stream) {     /* a direct next(inner) from the stream customisation: the filter must go through its own sender */
  G.inner_nexts++; G.mk_stream = stream; return vf_fresh_tok();
}
static int EV_inner_cleanup(int* stream) {
  VF_P(stream == G.inner, "C13: cleanup is requested from the filter stream's OWN inner stream");
  VF_P(G.inner_cleanups == 0 && G.senders_made == 0 && G.inner_nexts == 0, "C13: exactly one inner stream operation per outer call");
  G.inner_cleanups++; G.cleanup_sender = vf_fresh_tok();
  return G.cleanup_sender;
}
#define NOTHING_MADE (G.ops_made == 0 && G.senders_made == 0 && G.inner_nexts == 0 && G.inner_cleanups == 0)

/* connect(next(filter_stream), receiver): the operation is made over the sender's stream and predicate */
int flt_sender_connect(struct flt_sender* self, int receiver)
__CPROVER_requires(self == &SND && SND.stream_ == &FSTR.stream_ && SND.filter_ == &FSTR.filter_ && NOTHING_MADE)
__CPROVER_assigns(G)
__CPROVER_ensures(G.ops_made == 1 && G.mk_stream == &FSTR.stream_ && G.mk_filter == &FSTR.filter_ && G.mk_receiver == __CPROVER_old(receiver) && __CPROVER_return_value == G.mk_tok)
__CPROVER_ensures(G.senders_made == 0 && G.inner_nexts == 0 && G.inner_cleanups == 0)
/*@BODY snd_connect*/

/* next(filter_stream): the filtering sender over the stream's OWN inner stream and predicate; no inner stream operation is created yet */
int fs_next(struct fs_stream* s)
__CPROVER_requires(s == &FSTR && G.inner == &FSTR.stream_ && NOTHING_MADE)
__CPROVER_assigns(G)
__CPROVER_ensures(G.senders_made == 1 && G.mk_stream == &FSTR.stream_ && G.mk_filter == &FSTR.filter_ && __CPROVER_return_value == G.mk_tok)
__CPROVER_ensures(G.inner_cleanups == 0 && G.inner_nexts == 0 && G.ops_made == 0)
/*@BODY fs_next*/

/* cleanup(filter_stream) IS cleanup(inner stream): exactly one, returned unchanged */
int fs_cleanup(struct fs_stream* s)
__CPROVER_requires(s == &FSTR && G.inner == &FSTR.stream_ && NOTHING_MADE)
__CPROVER_assigns(G)
__CPROVER_ensures(G.inner_cleanups == 1 && __CPROVER_return_value == G.cleanup_sender && G.senders_made == 0 && G.inner_nexts == 0 && G.ops_made == 0)
/*@BODY fs_cleanup*/

/* ---------------- event stubs and contracts: transform_stream / via_stream / on_stream ---------------- */
/* the adaptor lambda expression [x = (T&&) y](auto&& sender) mutable { ... }: a closure capturing y */
static int EV_closure(int captured) {
  VF_P(G.closures == 0 && G.composes == 0, "one adaptor closure, made before the composition");
  G.closures++; G.clos_cap = captured; G.clos_tok = vf_fresh_tok();
  return G.clos_tok;
}
/* next_adapt_stream / adapt_stream / cleanup_adapt_stream (stream, adaptor) */
static int EV_compose(int kind, int stream, int adaptor) {
  VF_P(G.composes == 0, "one composition");
  G.composes++; G.comp_kind = kind; G.comp_stream = stream; G.comp_adaptor = adaptor; G.comp_tok = vf_fresh_tok();
  return G.comp_tok;
}
static int vf_alg(int kind, int a, int b) {
  VF_P(G.algs == 0, "C13: the adaptor applies ONE algorithm, once, to the sender it is given (each inner next / cleanup sender is used once per outer call)");
  G.algs++; G.alg_kind = kind; G.alg_a = a; G.alg_b = b; G.alg_tok = vf_fresh_tok();
  return G.alg_tok;
}
static int EV_then(int sender, int fn) { return vf_alg(AL_then, sender, fn); }
static int EV_via(int sender, int sched) { return vf_alg(AL_via, sender, sched); }
static int EV_on(int sched, int sender) { return vf_alg(AL_on, sched, sender); }
static int EV_schedule(int sched) {
  VF_P(G.schedules == 0, "one schedule() sender");
  G.schedules++; G.sch_of = sched; G.sch_tok = vf_fresh_tok();
  return G.sch_tok;
}
static int EV_with_query_value(int sender, int cpo, int value) {
  VF_P(G.wqvs == 0, "one with_query_value");
  G.wqvs++; G.wqv_sender = sender; G.wqv_cpo = cpo; G.wqv_value = value; G.wqv_tok = vf_fresh_tok();
  return G.wqv_tok;
}
enum { AL_finally = 10, AL_sequence };
static int EV_finally(int source, int completion) { return vf_alg(AL_finally, source, completion); }
static int EV_sequence(int first, int second) { return vf_alg(AL_sequence, first, second); }

#define C_FRESH (G.closures == 0 && G.composes == 0 && G.algs == 0 && G.schedules == 0 && G.wqvs == 0)
/* <combinator>(stream, closure capturing cap): nothing runs at composition time */
#define COMPOSED(kind, stream, cap) (G.closures == 1 && G.clos_cap == (cap) && G.composes == 1 && G.comp_kind == (kind) && G.comp_stream == (stream) \
  && G.comp_adaptor == G.clos_tok && __CPROVER_return_value == G.comp_tok && G.algs == 0 && G.schedules == 0 && G.wqvs == 0)
#define APPLIED(kind, a, b) (G.algs == 1 && G.alg_kind == (kind) && G.alg_a == (a) && G.alg_b == (b) && __CPROVER_return_value == G.alg_tok && G.closures == 0 && G.composes == 0)

/* transform_stream(stream, func) == next_adapt_stream(stream, [func](sender) { return then(sender, ref(func)); }): ONLY next is adapted,
 * cleanup(transform_stream) is cleanup(inner) unchanged (next_adapt_stream, group for_each_adapt) */
int tfx_call(int stream, int func)
__CPROVER_requires(C_FRESH)
__CPROVER_assigns(G)
__CPROVER_ensures(COMPOSED(CB_next_adapt_stream, __CPROVER_old(stream), __CPROVER_old(func)))
/*@BODY tfx_call*/

/* the adaptor: next = then(next(inner), func): the element is func(element of the inner stream), done / error pass through (then) */
int tfx_lambda(struct clos* self, int sender)
__CPROVER_requires(self == &CL && C_FRESH)
__CPROVER_assigns(G)
__CPROVER_ensures(APPLIED(AL_then, __CPROVER_old(sender), VF_REF(CL.func)) && G.schedules == 0 && G.wqvs == 0)
/*@BODY tfx_lambda*/

/* via_stream(scheduler, stream) / via_stream(stream, scheduler) == adapt_stream(stream, [s = scheduler](sender) { return via(sender, s); }):
 * the single-adaptor form: BOTH next and cleanup of the inner stream are adapted (adapt_stream, group for_each_adapt) */
int via_call_a(int scheduler, int stream)
__CPROVER_requires(C_FRESH)
__CPROVER_assigns(G)
__CPROVER_ensures(COMPOSED(CB_adapt_stream, __CPROVER_old(stream), __CPROVER_old(scheduler)))
/*@BODY via_call_a*/

int via_lambda_a(struct clos* self, int sender)
__CPROVER_requires(self == &CL && C_FRESH)
__CPROVER_assigns(G)
__CPROVER_ensures(APPLIED(AL_via, __CPROVER_old(sender), CL.s) && G.schedules == 0 && G.wqvs == 0)       /* via(<inner sender>, <the captured scheduler>) */
/*@BODY via_lambda_a*/

int via_call_b(int stream, int scheduler)
__CPROVER_requires(C_FRESH)
__CPROVER_assigns(G)
__CPROVER_ensures(COMPOSED(CB_adapt_stream, __CPROVER_old(stream), __CPROVER_old(scheduler)))
/*@BODY via_call_b*/

int via_lambda_b(struct clos* self, int sender)
__CPROVER_requires(self == &CL && C_FRESH)
__CPROVER_assigns(G)
__CPROVER_ensures(APPLIED(AL_via, __CPROVER_old(sender), CL.s) && G.schedules == 0 && G.wqvs == 0)
/*@BODY via_lambda_b*/

/* on_stream == adapt_stream(stream, [s = scheduler](sender) { return on(s, sender); }) */
int on_call_a(int scheduler, int stream)
__CPROVER_requires(C_FRESH)
__CPROVER_assigns(G)
__CPROVER_ensures(COMPOSED(CB_adapt_stream, __CPROVER_old(stream), __CPROVER_old(scheduler)))
/*@BODY on_call_a*/

int on_lambda_a(struct clos* self, int sender)
__CPROVER_requires(self == &CL && C_FRESH)
__CPROVER_assigns(G)
__CPROVER_ensures(APPLIED(AL_on, CL.s, __CPROVER_old(sender)) && G.schedules == 0 && G.wqvs == 0)        /* on(<the captured scheduler>, <inner sender>) */
/*@BODY on_lambda_a*/

int on_call_b(int stream, int scheduler)
__CPROVER_requires(C_FRESH)
__CPROVER_assigns(G)
__CPROVER_ensures(COMPOSED(CB_adapt_stream, __CPROVER_old(stream), __CPROVER_old(scheduler)))
/*@BODY on_call_b*/

int on_lambda_b(struct clos* self, int sender)
__CPROVER_requires(self == &CL && C_FRESH)
__CPROVER_assigns(G)
__CPROVER_ensures(APPLIED(AL_on, CL.s, __CPROVER_old(sender)) && G.schedules == 0 && G.wqvs == 0)
/*@BODY on_lambda_b*/

/* via(source, scheduler) == finally(source, schedule(scheduler)): the source (inner next / cleanup) runs FIRST, then the hop to the
 * scheduler, then the source's result is delivered (finally, group finally) */
int via_default(int source, int scheduler)
__CPROVER_requires(C_FRESH)
__CPROVER_assigns(G)
__CPROVER_ensures(G.schedules == 1 && G.sch_of == __CPROVER_old(scheduler) && APPLIED(AL_finally, __CPROVER_old(source), G.sch_tok) && G.wqvs == 0)
/*@BODY via_default*/

/* on(scheduler, sender) == sequence(schedule(scheduler), with_query_value(sender, get_scheduler, scheduler)): the hop FIRST, then the
 * sender (inner next / cleanup) runs on the scheduler's context and sees it as its get_scheduler */
int on_default(int scheduler, int sender)
__CPROVER_requires(C_FRESH)
__CPROVER_assigns(G)
__CPROVER_ensures(G.schedules == 1 && G.sch_of == __CPROVER_old(scheduler) && G.wqvs == 1 && G.wqv_sender == __CPROVER_old(sender) && G.wqv_cpo == VF_get_scheduler \
                  && G.wqv_value == __CPROVER_old(scheduler) && APPLIED(AL_sequence, G.sch_tok, G.wqv_tok))
/*@BODY on_default*/

/* ---------------- harnesses ---------------- */
enum { H_NONE, H_UNSTARTED, H_VALUE, H_DONE, H_ERROR, H_DONE_KEPT, H_DONE_EMPTY };
static void h_zero(void) {
  G.inner = &FSTR.stream_; G.pred = &FSTR.filter_;
  G.slot = LS_NONE; G.acts = 0; G.deacts = 0; G.starts = 0; G.running = 0; G.signal = CH_NONE; G.in_ctor = 0; G.in_dtor = 0; G.in_start = 0; G.started = 0; G.connect_tried = 0;
  G.pred_calls = 0; G.pred_result = 0; G.pred_arg = 0; G.pred_threw = 0; G.connect_threw = 0; G.sv_threw = 0; G.cur_exc = VF_NO_TOK;
  G.element = VF_nondet_i64(); G.err_in = VF_NO_TOK; G.consumed = 0; G.rejected = 0; G.completed = 0; G.channel = CH_NONE; G.delivered = 0; G.delivered_tok = VF_NO_TOK; G.slot_atc = LS_NONE;
  G.dead = 0; G.rcv_dead = 0; G.payload_dead = 0;
  G.ops_made = 0; G.senders_made = 0; G.inner_nexts = 0; G.inner_cleanups = 0; G.mk_stream = NULL; G.mk_filter = NULL; G.mk_receiver = -1; G.mk_tok = -1; G.cleanup_sender = -1;
  G.closures = 0; G.composes = 0; G.algs = 0; G.clos_cap = -1; G.clos_tok = -1; G.comp_kind = CB_none; G.comp_stream = -1; G.comp_adaptor = -1; G.comp_tok = -1;
  G.alg_kind = AL_none; G.alg_a = -1; G.alg_b = -1; G.alg_tok = -1; G.schedules = 0; G.wqvs = 0; G.sch_of = -1; G.sch_tok = -1; G.wqv_sender = -1; G.wqv_cpo = -1; G.wqv_value = -1; G.wqv_tok = -1;
  FSTR.stream_ = VF_nondet_int(); FSTR.filter_ = VF_nondet_int();
  SND.stream_ = &FSTR.stream_; SND.filter_ = &FSTR.filter_;
  CL.func = vf_fresh_tok(); CL.s = vf_fresh_tok();
}
static void h_state(int st) {
  h_zero();
  OP.stream_ = &FSTR.stream_; OP.filter_ = &FSTR.filter_; OP.receiver_ = VF_nondet_int(); ENGAGED_INIT_INTO(OP.nextEngaged_); RCV.op_ = &OP;
  G.snap = OP;
  if (st >= H_VALUE) G.started = 1;
  switch (st) {
    case H_UNSTARTED: G.slot = LS_ALIVE; OP.nextEngaged_ = 1; break;
    case H_VALUE: case H_DONE: case H_ERROR:
      G.slot = LS_COMPLETING; OP.nextEngaged_ = 1; G.running = 1; G.signal = st == H_VALUE ? CH_VALUE : st == H_DONE ? CH_DONE : CH_ERROR;
      G.rejected = VF_nondet_u32(); __CPROVER_assume(G.rejected < 0xfffffff0u);                  /* any number of elements were rejected before */
      G.consumed = G.rejected + (st == H_VALUE ? 1u : 0u);
      if (st == H_ERROR) G.err_in = vf_fresh_tok();
      break;
    case H_DONE_KEPT: G.slot = LS_COMPLETING; OP.nextEngaged_ = 1; G.completed = 1; break;
    case H_DONE_EMPTY: G.slot = LS_NONE; OP.nextEngaged_ = 0; G.completed = 1; break;
    default: break;
  }
}
void h_rcv_set_value(void) {
  h_state(H_VALUE); flt_rcv_set_value(&RCV, G.element);
  VF_CANARY("after filter set_value");
  if (!THREW && G.pred_result) { VF_CANARY("predicate true: the element is delivered"); }
  if (!THREW && !G.pred_result) { VF_CANARY("predicate false: re-subscribed"); }
  if (G.pred_threw) { VF_CANARY("the predicate can throw"); }
  if (G.connect_threw) { VF_CANARY("the re-connect can throw"); }
  if (G.sv_threw) { VF_CANARY("the consumer's set_value can throw"); }
  if (G.rejected > 5) { VF_CANARY("not only the first elements"); }
}
void h_rcv_set_done(void) { h_state(H_DONE); flt_rcv_set_done(&RCV); VF_CANARY("after filter set_done"); if (G.rejected > 0) { VF_CANARY("done after rejected elements"); } }
void h_rcv_set_error(void) { h_state(H_ERROR); flt_rcv_set_error(&RCV, G.err_in); VF_CANARY("after filter set_error"); }
void h_op_ctor(void) {
  h_state(H_NONE); G.in_ctor = 1; flt_op_ctor(&OP);
  VF_CANARY("after the constructor");
  if (G.acts == 0) { VF_CANARY("connect(next(stream)) can throw in the constructor"); } else { VF_CANARY("first inner next() connected"); }
}
void h_op_start(void) { h_state(H_UNSTARTED); G.in_start = 1; flt_op_start(&OP); VF_CANARY("after start()"); }
void h_op_dtor(void) {
  int k = VF_nondet_int();
  h_state(k == 0 ? H_UNSTARTED : k == 1 ? H_DONE_KEPT : H_DONE_EMPTY); G.in_dtor = 1;
  flt_op_dtor(&OP); VF_CANARY("after the destructor");
  if (k == 0) { VF_CANARY("destructor of a never-started operation"); } else if (k == 1) { VF_CANARY("destructor with the completed inner operation still alive"); } else { VF_CANARY("destructor after the re-connect threw"); }
}
void h_snd_connect(void) { h_zero(); (void)flt_sender_connect(&SND, vf_fresh_tok()); VF_CANARY("after connect(next(filter_stream))"); }
void h_fs_next(void) { h_zero(); (void)fs_next(&FSTR); VF_CANARY("after next(filter_stream)"); }
void h_fs_cleanup(void) { h_zero(); (void)fs_cleanup(&FSTR); VF_CANARY("after cleanup(filter_stream)"); }
void h_tfx_call(void) { h_zero(); (void)tfx_call(vf_fresh_tok(), vf_fresh_tok()); VF_CANARY("after transform_stream(stream, func)"); }
void h_tfx_lambda(void) { h_zero(); (void)tfx_lambda(&CL, vf_fresh_tok()); VF_CANARY("after the transform adaptor"); }
void h_via_call_a(void) { h_zero(); (void)via_call_a(vf_fresh_tok(), vf_fresh_tok()); VF_CANARY("after via_stream(scheduler, stream)"); }
void h_via_lambda_a(void) { h_zero(); (void)via_lambda_a(&CL, vf_fresh_tok()); VF_CANARY("after the via adaptor (a)"); }
void h_via_call_b(void) { h_zero(); (void)via_call_b(vf_fresh_tok(), vf_fresh_tok()); VF_CANARY("after via_stream(stream, scheduler)"); }
void h_via_lambda_b(void) { h_zero(); (void)via_lambda_b(&CL, vf_fresh_tok()); VF_CANARY("after the via adaptor (b)"); }
void h_on_call_a(void) { h_zero(); (void)on_call_a(vf_fresh_tok(), vf_fresh_tok()); VF_CANARY("after on_stream(scheduler, stream)"); }
void h_on_lambda_a(void) { h_zero(); (void)on_lambda_a(&CL, vf_fresh_tok()); VF_CANARY("after the on adaptor (a)"); }
void h_on_call_b(void) { h_zero(); (void)on_call_b(vf_fresh_tok(), vf_fresh_tok()); VF_CANARY("after on_stream(stream, scheduler)"); }
void h_on_lambda_b(void) { h_zero(); (void)on_lambda_b(&CL, vf_fresh_tok()); VF_CANARY("after the on adaptor (b)"); }
void h_via_default(void) { h_zero(); (void)via_default(vf_fresh_tok(), vf_fresh_tok()); VF_CANARY("after via(source, scheduler)"); }
void h_on_default(void) { h_zero(); (void)on_default(vf_fresh_tok(), vf_fresh_tok()); VF_CANARY("after on(scheduler, sender)"); }

/* ---------------- M4 lemmas over the contracts' predicates ---------------- */
/* abstract life cycle of one outer next(): one step = one verified call (its contract), or "the started inner next() calls its
 * receiver" (the child's C01, assumed).  Chains the cut-point contract of set_value over ANY number of rejected elements. */
struct lst { uint8_t slot; _Bool eng, started, destroyed, term, cthrow; unsigned completed; int channel, sig; unsigned consumed, rejected, nstarts; };
enum { T_START, T_INNER_CALLS, T_V_PASS, T_V_REJECT, T_V_PRED_THROW, T_V_CONNECT_THROW, T_V_SV_THROW, T_DONE, T_ERROR, T_DTOR, T_N };
#define L_UNSTARTED(x) ((x).slot == LS_ALIVE && (x).eng && !(x).started && (x).completed == 0)                  /* ST_UNSTARTED */
#define L_DONE_KEPT(x) ((x).slot == LS_COMPLETING && (x).eng && (x).started && (x).completed == 1)             /* ST_DONE_KEPT */
#define L_DONE_EMPTY(x) ((x).slot == LS_NONE && !(x).eng && (x).started && (x).completed == 1)                 /* ST_DONE_EMPTY */
#define L_COMPLETING_ON(x, ch) ((x).slot == LS_COMPLETING && (x).eng && (x).sig == (ch) && (x).started && (x).completed == 0)   /* COMPLETING_ON */
static _Bool l_step(struct lst o, struct lst* out, int t, int sig) {
  struct lst x = o; _Bool en = 0;
  switch (t) {
  case T_START:           en = !o.destroyed && L_UNSTARTED(o);                                                  /* flt_op_start */
                          x.slot = LS_STARTED; x.started = 1; x.nstarts = o.nstarts + 1; break;
  case T_INNER_CALLS:     en = !o.destroyed && o.slot == LS_STARTED && (sig == CH_VALUE || sig == CH_DONE || sig == CH_ERROR);   /* the inner next() calls its receiver */
                          x.slot = LS_COMPLETING; x.sig = sig; if (sig == CH_VALUE) x.consumed = o.consumed + 1; break;
  case T_V_PASS:          en = !o.destroyed && L_COMPLETING_ON(o, CH_VALUE) && o.consumed == o.rejected + 1;   /* flt_rcv_set_value, predicate true */
                          x.completed = 1; x.channel = CH_VALUE; x.term = 1; break;
  case T_V_REJECT:        en = !o.destroyed && L_COMPLETING_ON(o, CH_VALUE) && o.consumed == o.rejected + 1;   /* predicate false, re-subscribed */
                          x.slot = LS_STARTED; x.rejected = o.rejected + 1; x.nstarts = o.nstarts + 1; break;
  case T_V_PRED_THROW:    en = !o.destroyed && L_COMPLETING_ON(o, CH_VALUE) && o.consumed == o.rejected + 1;
                          x.completed = 1; x.channel = CH_ERROR_EXCEPTION; x.term = 1; break;
  case T_V_CONNECT_THROW: en = !o.destroyed && L_COMPLETING_ON(o, CH_VALUE) && o.consumed == o.rejected + 1;
                          x.completed = 1; x.channel = CH_ERROR_EXCEPTION; x.slot = LS_NONE; x.eng = 0; x.rejected = o.rejected + 1; x.cthrow = 1; break;
  case T_V_SV_THROW:      en = !o.destroyed && L_COMPLETING_ON(o, CH_VALUE) && o.consumed == o.rejected + 1;
                          x.completed = 1; x.channel = CH_ERROR_EXCEPTION; x.term = 1; break;
  case T_DONE:            en = !o.destroyed && L_COMPLETING_ON(o, CH_DONE) && o.consumed == o.rejected;        /* flt_rcv_set_done */
                          x.completed = 1; x.channel = CH_DONE; break;
  case T_ERROR:           en = !o.destroyed && L_COMPLETING_ON(o, CH_ERROR) && o.consumed == o.rejected;       /* flt_rcv_set_error */
                          x.completed = 1; x.channel = CH_ERROR; break;
  default:                en = !o.destroyed && (L_UNSTARTED(o) || L_DONE_KEPT(o) || L_DONE_EMPTY(o));          /* flt_op_dtor */
                          x.destroyed = 1; x.slot = LS_NONE; break;
  }
  *out = x;
  return en;
}
#define L_PENDING(x) ((x).slot == LS_COMPLETING && (x).sig == CH_VALUE && (x).completed == 0)
#define L_REACH(x) ( (x).slot <= LS_COMPLETING && (x).completed <= 1 \
   && ((x).destroyed ? (x).slot == LS_NONE : (x).eng == ((x).slot != LS_NONE)) \
   && (!(x).started ? ((x).completed == 0 && (x).consumed == 0 && (x).rejected == 0 && (x).nstarts == 0 && !(x).term && !(x).cthrow && ((x).destroyed || (x).slot == LS_ALIVE)) : 1) \
   && ((x).started ? (x).slot != LS_ALIVE : 1) \
   && (((x).started && (x).completed == 0) ? (!(x).destroyed && ((x).slot == LS_STARTED || (x).slot == LS_COMPLETING) && !(x).term && !(x).cthrow) : 1) \
   && ((x).completed == 1 ? ((x).started && ((x).slot == LS_NONE || (x).slot == LS_COMPLETING)) : 1) \
   && (x).consumed == (x).rejected + (L_PENDING(x) ? 1u : 0u) + ((x).term ? 1u : 0u) \
   && ((x).started ? (x).nstarts + ((x).cthrow ? 1u : 0u) == (x).rejected + 1u : 1) \
   && (((x).slot == LS_COMPLETING && (x).completed == 0) ? ((x).sig == CH_VALUE || (x).sig == CH_DONE || (x).sig == CH_ERROR) : 1) \
   && (((x).completed == 1 && (x).channel == CH_VALUE) ? ((x).term && !(x).cthrow) : 1) \
   && (((x).completed == 1 && ((x).channel == CH_DONE || (x).channel == CH_ERROR)) ? (!(x).term && !(x).cthrow) : 1) \
   && ((x).completed == 1 ? ((x).channel == CH_VALUE || (x).channel == CH_DONE || (x).channel == CH_ERROR || (x).channel == CH_ERROR_EXCEPTION) : 1) \
   && ((x).cthrow ? ((x).completed == 1 && (x).channel == CH_ERROR_EXCEPTION && !(x).term && ((x).destroyed || (x).slot == LS_NONE)) : 1) )
void lemma_flt_lifecycle(void) {
  struct lst o, n; int t = VF_nondet_int(), sig = VF_nondet_int();
  o.slot = VF_nondet_u8(); o.eng = vf_nb(); o.started = vf_nb(); o.destroyed = vf_nb(); o.term = vf_nb(); o.cthrow = vf_nb(); o.completed = VF_nondet_u32();
  o.channel = VF_nondet_int(); o.sig = VF_nondet_int(); o.consumed = VF_nondet_u32(); o.rejected = VF_nondet_u32(); o.nstarts = VF_nondet_u32();
  __CPROVER_assume(t >= 0 && t < T_N && o.consumed < 0xfffffff0u && o.rejected < 0xfffffff0u && o.nstarts < 0xfffffff0u);
  __CPROVER_assume(L_REACH(o));
  __CPROVER_assume(l_step(o, &n, t, sig));
  VF_CANARY("lemma premises satisfiable");
  if (t == T_START) { VF_CANARY("start enabled"); } if (t == T_V_PASS) { VF_CANARY("value/pass enabled"); } if (t == T_V_REJECT) { VF_CANARY("value/reject enabled"); }
  if (t == T_V_REJECT && o.rejected > 3) { VF_CANARY("reject after many rejects enabled"); }
  if (t == T_V_PRED_THROW) { VF_CANARY("value/predicate throws enabled"); } if (t == T_V_CONNECT_THROW) { VF_CANARY("value/connect throws enabled"); }
  if (t == T_V_SV_THROW) { VF_CANARY("value/set_value throws enabled"); } if (t == T_DONE) { VF_CANARY("done enabled"); } if (t == T_ERROR) { VF_CANARY("error enabled"); }
  if (t == T_DTOR && o.started) { VF_CANARY("dtor after completion enabled"); } if (t == T_DTOR && !o.started) { VF_CANARY("dtor unstarted enabled"); }
  VF_P(L_REACH(n), "lemma: the life-cycle invariant (discriminator == an inner op is alive; at most one completion; consumed = rejected (+ the one pending / delivered)) is inductive over the contracts: every round starts in the state the previous round left");
  VF_P(o.completed == 1 ==> t == T_DTOR, "lemma C01/C13: after the consumer was completed (value, done, error or exception) nothing but the destructor is enabled: no further inner next() is started");
  VF_P(n.nstarts > o.nstarts ==> (n.nstarts == o.nstarts + 1 && (t == T_START || (t == T_V_REJECT && o.sig == CH_VALUE))), "lemma C13: an inner next() is started only by start() or for a VALUE that the predicate rejected");
  VF_P((n.completed == 1 && n.channel == CH_VALUE) ==> n.consumed == n.rejected + 1, "lemma C13: the element delivered is the first that satisfied the predicate: every element consumed before it in this next() was rejected, and only those were dropped");
  VF_P((n.completed == 1 && (n.channel == CH_DONE || n.channel == CH_ERROR)) ==> n.consumed == n.rejected, "lemma C13: done / error of the inner stream is forwarded only after every consumed element was rejected (no element swallowed that satisfied the predicate)");
  VF_P(o.slot == LS_STARTED ==> t == T_INNER_CALLS, "lemma C02: while the inner next() runs the operation only waits for it (it is neither destroyed nor re-connected)");
  VF_P((!o.destroyed && (!o.started || o.completed == 1)) ==> (L_UNSTARTED(o) || L_DONE_KEPT(o) || L_DONE_EMPTY(o)), "lemma C02: whenever the owner may destroy the operation (unstarted, or completed) the destructor's precondition holds");
  VF_P(n.destroyed ==> n.slot == LS_NONE, "lemma C02: after the destructor nothing is alive");
}
void lemma_flt_init(void) {
  struct lst i; i.slot = LS_ALIVE; i.eng = 1; i.started = 0; i.destroyed = 0; i.term = 0; i.cthrow = 0; i.completed = 0; i.channel = CH_NONE; i.sig = CH_NONE; i.consumed = 0; i.rejected = 0; i.nstarts = 0;
  VF_CANARY("lemma_flt_init reachable");
  VF_P(L_UNSTARTED(i) && L_REACH(i), "lemma: a constructed operation (flt_op_ctor, connect succeeded) is in the unstarted state and satisfies the invariant");
}
/* where the scheduler transition sits: positions in finally(source, completion) [source runs first, then completion, then the source's
 * result is delivered] and sequence(first, second) [first, then second] -- taken from the contracts of via_default / on_default and of the
 * adaptor closures */
void lemma_scheduler_streams(void) {
  int inner = vf_fresh_tok(), sched = vf_fresh_tok(), hop = vf_fresh_tok(), wq = vf_fresh_tok();
  __CPROVER_assume(inner != hop && inner != wq && hop != wq);
  /* via adaptor: via(a = inner, b = sched); via_default: finally(a, schedule(b)) */
  int via_a = inner, via_b = sched; int fin_source = via_a, fin_completion = hop; int hop_of = via_b;
  /* on adaptor: on(a = sched, b = inner); on_default: sequence(schedule(a), with_query_value(b, get_scheduler, a)) */
  int on_a = sched, on_b = inner; int seq_first = hop, seq_second = wq; int hop2_of = on_a, wq_sender = on_b, wq_value = on_a;
  VF_CANARY("lemma_scheduler_streams reachable");
  VF_P(fin_source == inner && fin_completion == hop && hop_of == sched, "lemma C13: via_stream: the inner next / cleanup sender runs first, then the transition to the given scheduler, then its result reaches the consumer");
  VF_P(seq_first == hop && hop2_of == sched && seq_second == wq && wq_sender == inner && wq_value == sched, "lemma C13: on_stream: the transition to the given scheduler first, then the inner next / cleanup sender, which sees that scheduler");
  VF_P(TYPED_VIA_FN == FN_via_stream, "lemma C13: typed_via_stream is via_stream's function object (same adaptor)");
}
