H = 'include/unifex/repeat_effect_until.hpp'
NS = r'namespace _repeat_effect_until \{'
RCVR = r'class _rcvr<Source, Predicate, Receiver>::type \{'
OPCLS = r'class _op<Source, Predicate, Receiver>::type \{'

CONNECT = r'auto& sourceOp = op->(\w+)\.construct_with\(\s*\[&\]%s \{ return unifex::connect\(op->source_, type\{op\}\); \}\);'

# call abstractions.  The same three calls (predicate, set_value, connect) occur once unguarded (the `if constexpr` branch for statically
# nothrow instantiations) and once inside UNIFEX_TRY: the block-scoped constant VF_IN_TRY (0 at file scope, 1 inside a try block)
# tells the stub which one it is; VF_MAY_THROW jumps to the handler inside a try block and is std::terminate outside (noexcept function).
rcv_ctx = dict(cls='re_rcvr', members=['op_'], methods=[], pre=[
    # which `if constexpr` branch an instantiation takes: one symbolic configuration constant, BOTH branches verified
    (r'std::is_nothrow_invocable_v<Predicate&> &&\s*is_nothrow_connectable_v<Source&, type> &&\s*'
     r'is_nothrow_tag_invocable_v<tag_t<unifex::set_value>, Receiver>', 'CFG_nothrow'),
    (r'op->(\w+)\.destruct\(\);', r'EV_destruct(op, SL_\1);'),
    (r'op->predicate_\(\)', r'({ _Bool vf_pred = 0; VF_MAY_THROW(EV_predicate(op, &vf_pred, VF_IN_TRY)); vf_pred; })'),
    (r'unifex::set_value\(std::move\(op->receiver_\)\);', 'VF_MAY_THROW(EV_set_value(op, VF_IN_TRY));'),
    (CONNECT % r'\(\) noexcept', r'VF_MAY_THROW(EV_connect(op, SL_\1, VF_IN_TRY, 1));'),
    (CONNECT % '', r'VF_MAY_THROW(EV_connect(op, SL_\1, VF_IN_TRY, 0));'),
    (r'unifex::start\(sourceOp\);', 'EV_start_connected(op);'),
    (r'unifex::set_error\(std::move\((op_?)->receiver_\), std::current_exception\(\)\);', r'EV_set_error(\1, PAY_EXCEPTION);'),
    (r'unifex::set_done\(std::move\(op_->receiver_\)\);', 'EV_set_done(op_);'),
    (r'unifex::set_error\(std::move\(op_->receiver_\), \(Error&&\)(\w+)\);', r'EV_set_error(op_, \1);'),
    # UNIFEX_TRY { A } UNIFEX_CATCH(...) { B } -> { A' } if (0) { vf_catch_body: ; B }   (spec-level rule, DESIGN 3.1 last row)
    (r'UNIFEX_TRY\s*\{', '{ enum { VF_IN_TRY = 1 };'),
    (r'\}\s*UNIFEX_CATCH\s*\(\.\.\.\)\s*\{', '} if (0) { vf_catch_body: ;'),
], post=[
    # instrumentation only: every READ of the discriminator is compared with the ghost
    (r'\bop->isSourceOpConstructed_\b(?!\s*=(?!=))', 'VF_DISCR(op)'),
])
op_ctx = dict(cls='re_op', members=['isSourceOpConstructed_'], methods=[], pre=[
    (r'sourceOp_\.construct_with\(\s*\[&\] \{ return unifex::connect\(source_, _receiver_t\{this\}\); \}\);', 'if (EV_connect(this, SL_sourceOp_, 1, 0)) return;'),
    (r'(?<![\w>.])(sourceOp_)\.destruct\(\);', r'EV_destruct(this, SL_\1);'),
    (r'unifex::start\((\w+)\.get\(\)\)', r'EV_start_source(this, SL_\1)'),
], post=[
    (r'\bself->isSourceOpConstructed_\b(?!\s*=(?!=))', 'VF_DISCR(self)'),
])

SPEC = dict(
    properties=['C02', 'C05', 'C01'],
    ctx={},
    extracts={
        'constructed_init': dict(file=H, kind='expr', sig=r'bool isSourceOpConstructed_\s*(=?[^;]*);'),
        'rcv_set_value': dict(file=H, sig=r'void set_value\(\) noexcept', within=[NS, RCVR], ctx=rcv_ctx, must_contain=[r'predicate_']),
        'rcv_set_done': dict(file=H, sig=r'void set_done\(\) noexcept', within=[NS, RCVR], ctx=rcv_ctx),
        'rcv_set_error': dict(file=H, sig=r'void set_error\(Error&& error\) noexcept', within=[NS, RCVR], ctx=rcv_ctx),
        'op_ctor': dict(file=H, sig=r'explicit type\(Source2&& source, Predicate2&& predicate, Receiver2&& dest\)', within=[NS, OPCLS], ctx=op_ctx, must_contain=[r'_receiver_t\{this\}']),
        'op_dtor': dict(file=H, sig=r'~type\(\)', within=[NS, OPCLS], ctx=op_ctx),
        'op_start': dict(file=H, sig=r'void start\(\) & noexcept', within=[NS, OPCLS], ctx=op_ctx),
    },
    closed_world=[dict(file=H, within=NS, members=['isSourceOpConstructed_', 'sourceOp_'],
                       allow=[r'bool isSourceOpConstructed_\s*(?:=[^;]*)?;', r'manual_lifetime<source_op_t> sourceOp_;'])],
    units=[
        dict(name='receiver_set_value', harness='h_rcv_set_value', enforce='re_rcvr_set_value'),
        dict(name='receiver_set_done', harness='h_rcv_set_done', enforce='re_rcvr_set_done'),
        dict(name='receiver_set_error', harness='h_rcv_set_error', enforce='re_rcvr_set_error'),
        dict(name='op_ctor', harness='h_op_ctor', enforce='re_op_ctor'),
        dict(name='op_start', harness='h_op_start', enforce='re_op_start'),
        dict(name='op_dtor', harness='h_op_dtor', enforce='re_op_dtor'),
        dict(name='lemma_re_lifecycle', harness='lemma_re_lifecycle', mode='lemma'),
        dict(name='lemma_re_init', harness='lemma_re_init', mode='lemma'),
    ],
    assumptions=[
        'the source operation completes exactly once per round through exactly one of the receiver\'s set_value / set_error / set_done, as its last action, and not before it was started (C01 for the child)',
        'caller obligation: the repeat_effect_until operation is destroyed only before start() or after it delivered its completion signal; start() is called once',
        'the receiver may destroy the operation as soon as a completion signal was delivered; the re-started source may complete (and the loop run on, to the end) before start() returns',
        'strong exception guarantee of manual_lifetime::construct_with: a throwing connect() leaves nothing constructed; unifex::start() and destructors do not throw',
        'a throwing receiver set_value (only possible in the try-block form) leaves the receiver un-completed (the library then calls set_error on it)',
        'the round-by-round recursion (source completing inside start) is not unrolled: one round per unit, chained by the lifecycle lemma; termination / stack depth not claimed',
    ],
    drops=['template genericity', '`if constexpr` on the three is_nothrow_* traits -> one symbolic configuration constant CFG_nothrow, both branches verified',
           'UNIFEX_TRY / UNIFEX_CATCH -> block-scoped VF_IN_TRY + goto vf_catch_body at the may-throw stubs (predicate, receiver set_value, connect)',
           'payload of set_error (token), set_value is void', 'constructor member initialisers (source_, predicate_, receiver_) not modelled; an exception from connect propagates out of the constructor',
           'receiver queries, visit_continuations, receiver move constructor'],
)
