/* C02 / C05 / C01 (scoped): include/unifex/repeat_effect_until.hpp -- the loop "source completes with a value -> destroy the
 * source operation -> predicate -> set_value, or re-connect the source into the SAME manual_lifetime and start it";
 * `isSourceOpConstructed_` is the discriminator the destructor reads.
 * Bodies marked @BODY / @EXPR are extracted from /repo on every run; everything else here is specification.
 *
 * Sequential code, no atomics: no interference; the content is in the event stubs (slot ghost G.slot in { EMPTY, ALIVE, STARTED }). */
#include <stddef.h>
#include <stdint.h>

struct re_op { int source_; int predicate_; int receiver_; _Bool isSourceOpConstructed_; };
struct re_rcvr { struct re_op* op_; };

enum { SL_sourceOp_, SL_N };
enum { SS_EMPTY, SS_ALIVE, SS_STARTED };
enum { CH_NONE, CH_VALUE, CH_ERROR, CH_DONE };
#define PAY_EXCEPTION (-1)
enum { VF_IN_TRY = 0 };          /* shadowed by a block-scoped VF_IN_TRY = 1 inside every UNIFEX_TRY block */

struct vf_ghost {
  uint8_t slot; unsigned acts, deacts;
  _Bool child_completed;       /* the source operation of this round has delivered its completion signal to us */
  _Bool running;               /* the source's completion callback is executing */
  _Bool in_dtor, in_ctor, started;
  _Bool connected, connect_tried;
  unsigned pred_calls, child_starts; _Bool pred_result;
  unsigned completed; int channel; int payload;
  _Bool dead, progressed; struct re_op snap;
  _Bool pred_threw, connect_threw, rcv_threw;
};
static struct vf_ghost G;
static struct re_op OP;
static struct re_rcvr RCV;
static _Bool CFG_nothrow;        /* nothrow predicate && nothrow connect && nothrow receiver set_value */

/* member initialiser of the discriminator, as written in the class (a member without initialiser is left nondeterministic) */
#define CONSTRUCTED_INIT_INTO(lv) do { _Bool vf_s /*@EXPR constructed_init*/; (lv) = vf_s; } while (0)

#include "vf.h"
static void vf_interfere(void) {}
#define IMP(a, b) (!(a) || (b))
/* an exception inside a UNIFEX_TRY block reaches its handler; anywhere else in a noexcept function it is std::terminate */
#define VF_MAY_THROW(e) do { if (e) { if (VF_IN_TRY) goto vf_catch_body; VF_terminate(); } } while (0)

/* ---- states: (source slot, discriminator, completions) ---- */
#define ST_UNSTARTED(ss, fl, co)   ((ss) == SS_ALIVE && (fl) && (co) == 0)
#define ST_RUN(ss, fl, co)         ((ss) == SS_STARTED && (fl) && (co) == 0)
#define ST_DONE_SOURCE(ss, fl, co) ((ss) == SS_STARTED && (fl) && (co) == 1)   /* the source's done / error was forwarded: the completed source operation is left to the destructor */
#define ST_DONE_EMPTY(ss, fl, co)  ((ss) == SS_EMPTY && !(fl) && (co) == 1)    /* predicate said stop (set_value), or predicate / connect / set_value threw (set_error) */
#define NOW(ST) ST(G.slot, OP.isSourceOpConstructed_, G.completed)

static void vf_op_may_be_gone(void) {
  struct re_op f;
  OP.source_ = f.source_; OP.predicate_ = f.predicate_; OP.receiver_ = f.receiver_; OP.isSourceOpConstructed_ = f.isSourceOpConstructed_;
  G.snap = OP; G.dead = 1;
}
#define UNTOUCHED_IF_DEAD (!G.dead || (OP.source_ == G.snap.source_ && OP.predicate_ == G.snap.predicate_ && OP.receiver_ == G.snap.receiver_ && OP.isSourceOpConstructed_ == G.snap.isSourceOpConstructed_))
#define VF_DISCR(o) (*({ VF_P(!G.dead, "the discriminator is not read after the operation may have been destroyed"); \
  VF_P(!(o)->isSourceOpConstructed_ == (G.slot == SS_EMPTY), "the discriminator isSourceOpConstructed_ equals the ghost at every read: true exactly when the source operation is alive"); &(o)->isSourceOpConstructed_; }))

/* ---------------- event stubs ---------------- */
#define EV_PRE(op) do { VF_P((op) == &OP, "the receiver's op_ is the operation it was connected for"); \
  VF_P(!G.dead, "nothing of the operation is touched after its completion signal was delivered / after the re-started source may have finished it"); } while (0)
#define UNGUARDED_OK(in_try) do { if (!(in_try)) VF_P(CFG_nothrow, "the unguarded form (no try block) is used only in instantiations where predicate, connect and the receiver's set_value are statically nothrow"); } while (0)

static void EV_destruct(struct re_op* op, int s) {
  EV_PRE(op);
  VF_P(s == SL_sourceOp_, "the source operation slot");
  VF_P(G.slot != SS_EMPTY, "the source operation is destroyed exactly once per round, and only if it was constructed");
  if (G.slot == SS_STARTED) VF_P(G.running || (G.in_dtor && G.child_completed), "a started source operation is destroyed only by its OWN completion, or by the destructor after it completed (never before it has completed)");
  else VF_P(G.in_dtor, "a connected, never started source operation is destroyed only by the operation's destructor");
  G.slot = SS_EMPTY; G.deacts++;
}
/* predicate_() */
static _Bool EV_predicate(struct re_op* op, _Bool* result, int in_try) {
  EV_PRE(op);
  VF_P(G.running && G.pred_calls == 0 && !G.connect_tried, "the predicate is evaluated once per round, after the source completed with a value and before anything is re-connected");
  UNGUARDED_OK(in_try);
  G.pred_calls++;
  if (in_try && VF_nondet_bool()) { G.pred_threw = 1; return 1; }
  G.pred_result = VF_nondet_bool(); *result = G.pred_result;
  return 0;
}
/* sourceOp_.construct_with([&]{ return connect(source_, receiver{op}); }) */
static _Bool EV_connect(struct re_op* op, int s, int in_try, _Bool lambda_noexcept) {
  EV_PRE(op);
  VF_P(s == SL_sourceOp_, "the source operation slot");
  VF_P(G.slot == SS_EMPTY, "the source is re-connected only into storage in which nothing is alive: the previous round's operation was destroyed first");
  VF_P(!G.connect_tried, "one re-connect per round");
  VF_P(G.in_ctor || (G.running && G.deacts == 1 && G.pred_calls == 1 && !G.pred_result), "the source is re-connected only after the previous round completed with a value and the predicate returned false");
  G.connect_tried = 1;
  UNGUARDED_OK(in_try && !lambda_noexcept);
  if (in_try && !lambda_noexcept && VF_nondet_bool()) { G.connect_threw = 1; return 1; }   /* strong guarantee: nothing constructed */
  G.slot = SS_ALIVE; G.acts++; G.connected = 1;
  return 0;
}
static void vf_child_started(void) {
  G.child_starts++;
  if (VF_nondet_bool()) { G.progressed = 1; vf_op_may_be_gone(); }     /* the source completed inside start(): further rounds ran, possibly to the end */
}
static void EV_start_connected(struct re_op* op) {
  EV_PRE(op);
  VF_P(G.connected && G.slot == SS_ALIVE, "the re-connected source operation is started once, while alive");
  VF_P(op->isSourceOpConstructed_, "the discriminator is set before the re-connected source is started (it may complete, and the operation be destroyed, inside start)");
  G.slot = SS_STARTED;
  vf_child_started();
}
static void EV_start_source(struct re_op* op, int s) {
  EV_PRE(op);
  VF_P(s == SL_sourceOp_ && G.slot == SS_ALIVE, "start() starts the connected source operation, once");
  G.slot = SS_STARTED; G.started = 1;
  vf_child_started();
}
static void vf_final_pre(struct re_op* op) {
  EV_PRE(op);
  VF_P(G.started, "no completion signal before start()");
  VF_P(G.completed == 0, "the receiver is completed at most once");
  VF_P(!op->isSourceOpConstructed_ == (G.slot == SS_EMPTY), "at the completion signal the discriminator says exactly whether a source operation is alive: the destructor, which runs next, destroys it exactly once");
  VF_P(G.slot == SS_EMPTY || G.running, "a source operation left to the destructor is the one whose completion is being forwarded (it has completed)");
}
static void vf_final(int ch, int payload) {
  G.completed++; G.channel = ch; G.payload = payload;
  if (G.running) G.child_completed = 1;
  vf_op_may_be_gone();
}
static _Bool EV_set_value(struct re_op* op, int in_try) {
  vf_final_pre(op);
  UNGUARDED_OK(in_try);
  if (in_try && VF_nondet_bool()) { G.rcv_threw = 1; return 1; }     /* a throwing set_value leaves the receiver un-completed */
  vf_final(CH_VALUE, 0);
  return 0;
}
static void EV_set_error(struct re_op* op, int token) { vf_final_pre(op); vf_final(CH_ERROR, token); }
static void EV_set_done(struct re_op* op) { vf_final_pre(op); vf_final(CH_DONE, 0); }

/* ---------------- functions under contract ---------------- */
#define NOACT (G.acts == 0 && G.deacts == 0)
#define FRESH (NOACT && !G.connected && !G.connect_tried && G.pred_calls == 0 && G.child_starts == 0 && !G.dead && !G.progressed && !G.pred_threw && !G.connect_threw && !G.rcv_threw \
  && !G.in_dtor && !G.in_ctor && G.channel == CH_NONE && !G.child_completed)
#define RCV_OK (self == &RCV && RCV.op_ == &OP)
#define FINAL(ch, pay) (G.completed == 1 && G.channel == (ch) && G.payload == (pay))
#define THREW (G.pred_threw || G.connect_threw || G.rcv_threw)

/* one round of the loop */
void re_rcvr_set_value(struct re_rcvr* self)
__CPROVER_requires(RCV_OK && NOW(ST_RUN) && G.started && G.running && FRESH)
__CPROVER_assigns(G, OP)
__CPROVER_ensures(UNTOUCHED_IF_DEAD)
__CPROVER_ensures(G.deacts == 1 && G.pred_calls == 1)                /* the completed source operation is destroyed exactly once per round; the predicate is asked once */
__CPROVER_ensures(G.completed + G.child_starts == 1)                 /* exactly one of: next round started / completion delivered */
__CPROVER_ensures((!THREW && G.pred_result) ==> (FINAL(CH_VALUE, 0) && G.slot == SS_EMPTY && G.acts == 0 && !G.connect_tried))         /* predicate true: complete with void, nothing re-connected */
__CPROVER_ensures((!THREW && !G.pred_result) ==> (G.completed == 0 && G.slot == SS_STARTED && G.acts == 1 && (G.dead || OP.isSourceOpConstructed_)))  /* predicate false: destroyed, THEN re-connected into the same storage, started */
__CPROVER_ensures(THREW ==> (FINAL(CH_ERROR, PAY_EXCEPTION) && G.slot == SS_EMPTY && G.acts == 0 && !CFG_nothrow))   /* predicate / connect / set_value threw: set_error(current_exception) with nothing alive */
/*@BODY rcv_set_value*/

void re_rcvr_set_done(struct re_rcvr* self)
__CPROVER_requires(RCV_OK && NOW(ST_RUN) && G.started && G.running && FRESH)
__CPROVER_assigns(G, OP)
__CPROVER_ensures(UNTOUCHED_IF_DEAD && NOACT && G.slot == SS_STARTED && FINAL(CH_DONE, 0) && G.pred_calls == 0 && G.child_starts == 0 && !G.connect_tried)   /* done ends the loop, forwarded; the completed source op is left to the destructor */
/*@BODY rcv_set_done*/

void re_rcvr_set_error(struct re_rcvr* self, int error)
__CPROVER_requires(RCV_OK && NOW(ST_RUN) && G.started && G.running && FRESH)
__CPROVER_assigns(G, OP)
__CPROVER_ensures(UNTOUCHED_IF_DEAD && NOACT && G.slot == SS_STARTED && FINAL(CH_ERROR, error) && G.pred_calls == 0 && G.child_starts == 0 && !G.connect_tried)   /* an error ends the loop, forwarded unchanged */
/*@BODY rcv_set_error*/

void re_op_ctor(struct re_op* self)
__CPROVER_requires(self == &OP && G.slot == SS_EMPTY && !G.started && G.completed == 0 && !G.running && NOACT && !G.connect_tried && !G.connected && !G.dead && G.in_ctor && !G.connect_threw && G.child_starts == 0)
__CPROVER_assigns(G, OP)
__CPROVER_ensures(G.completed == 0 && G.child_starts == 0 && G.pred_calls == 0)
__CPROVER_ensures(!G.connect_threw ==> NOW(ST_UNSTARTED))            /* the discriminator's initial value matches the freshly connected source */
__CPROVER_ensures(G.connect_threw ==> G.slot == SS_EMPTY)
/*@BODY op_ctor*/

void re_op_start(struct re_op* self)
__CPROVER_requires(self == &OP && NOW(ST_UNSTARTED) && !G.started && !G.running && FRESH)
__CPROVER_assigns(G, OP)
__CPROVER_ensures(UNTOUCHED_IF_DEAD && G.child_starts == 1 && G.slot == SS_STARTED && G.started && NOACT && (G.dead || OP.isSourceOpConstructed_) && G.pred_calls == 0)
__CPROVER_ensures(G.completed == 0)
/*@BODY op_start*/

void re_op_dtor(struct re_op* self)
__CPROVER_requires(self == &OP && !G.running && NOACT && !G.dead && G.in_dtor \
  && (NOW(ST_UNSTARTED) || (NOW(ST_DONE_SOURCE) && G.child_completed) || NOW(ST_DONE_EMPTY)))
__CPROVER_assigns(G, OP)
__CPROVER_ensures(G.slot == SS_EMPTY && G.completed == __CPROVER_old(G.completed) && G.child_starts == __CPROVER_old(G.child_starts))
__CPROVER_ensures(G.deacts == (__CPROVER_old(G.slot) != SS_EMPTY ? 1 : 0) && G.acts == 0)    /* whatever source operation is left is destroyed exactly once */
/*@BODY op_dtor*/

/* ---------------- harnesses ---------------- */
enum { H_NONE, H_UNSTARTED, H_RUN, H_DONE_SOURCE, H_DONE_EMPTY };
static int h_token(void) { int t = VF_nondet_int(); __CPROVER_assume(t > 0); return t; }
static void h_state(int st) {
  G.slot = SS_EMPTY; G.acts = 0; G.deacts = 0; G.child_completed = 0; G.running = 0; G.in_dtor = 0; G.in_ctor = 0; G.started = 0; G.connected = 0; G.connect_tried = 0;
  G.pred_calls = 0; G.child_starts = 0; G.pred_result = 0; G.completed = 0; G.channel = CH_NONE; G.payload = 0; G.dead = 0; G.progressed = 0; G.pred_threw = 0; G.connect_threw = 0; G.rcv_threw = 0;
  CFG_nothrow = VF_nondet_bool();
  OP.source_ = VF_nondet_int(); OP.predicate_ = VF_nondet_int(); OP.receiver_ = VF_nondet_int(); CONSTRUCTED_INIT_INTO(OP.isSourceOpConstructed_); RCV.op_ = &OP;
  if (st >= H_RUN) G.started = 1;
  switch (st) {
    case H_UNSTARTED: G.slot = SS_ALIVE; OP.isSourceOpConstructed_ = 1; break;
    case H_RUN: G.slot = SS_STARTED; OP.isSourceOpConstructed_ = 1; G.running = 1; break;
    case H_DONE_SOURCE: G.slot = SS_STARTED; OP.isSourceOpConstructed_ = 1; G.child_completed = 1; G.completed = 1; break;
    case H_DONE_EMPTY: OP.isSourceOpConstructed_ = 0; G.completed = 1; break;
    default: break;
  }
}
void h_rcv_set_value(void) {
  h_state(H_RUN); re_rcvr_set_value(&RCV); VF_CANARY("after set_value");
  if (CFG_nothrow) { VF_CANARY("nothrow configuration"); } else { VF_CANARY("may-throw configuration"); }
  if (G.pred_threw) { VF_CANARY("the predicate can throw"); }
  if (G.connect_threw) { VF_CANARY("re-connecting the source can throw"); }
  if (G.rcv_threw) { VF_CANARY("the receiver's set_value can throw"); }
  if (!THREW && G.pred_result) { VF_CANARY("predicate true: loop ends"); }
  if (!THREW && !G.pred_result) { VF_CANARY("predicate false: next round"); }
  if (G.progressed) { VF_CANARY("the next round can complete inside start"); }
}
void h_rcv_set_done(void) { h_state(H_RUN); re_rcvr_set_done(&RCV); VF_CANARY("after set_done"); }
void h_rcv_set_error(void) { h_state(H_RUN); re_rcvr_set_error(&RCV, h_token()); VF_CANARY("after set_error"); }
void h_op_ctor(void) {
  h_state(H_NONE); G.in_ctor = 1; re_op_ctor(&OP); VF_CANARY("after the constructor");
  if (G.connect_threw) { VF_CANARY("connect(source) can throw in the constructor"); } else { VF_CANARY("source connected"); }
}
void h_op_start(void) { h_state(H_UNSTARTED); re_op_start(&OP); VF_CANARY("after start()"); if (G.progressed) { VF_CANARY("the source can complete inside start()"); } }
void h_op_dtor(void) {
  int k = VF_nondet_int();
  h_state(k == 0 ? H_UNSTARTED : k == 1 ? H_DONE_SOURCE : H_DONE_EMPTY); G.in_dtor = 1;
  re_op_dtor(&OP); VF_CANARY("after the destructor");
  if (k == 0) { VF_CANARY("destructor of a never-started operation"); } else if (k == 1) { VF_CANARY("destructor after the source's done/error was forwarded"); } else { VF_CANARY("destructor after the loop ended by predicate or failure"); }
}

/* ---------------- M4 lemmas over the contracts ---------------- */
struct re_state { uint8_t ss; _Bool fl; unsigned co; };
#define AT(ST, s) ST((s).ss, (s).fl, (s).co)
#define INV(s) (AT(ST_UNSTARTED, s) || AT(ST_RUN, s) || AT(ST_DONE_SOURCE, s) || AT(ST_DONE_EMPTY, s))
void lemma_re_lifecycle(void) {
  struct re_state a, b;
  a.ss = VF_nondet_u8(); a.fl = VF_nondet_bool(); a.co = VF_nondet_u32(); b.ss = VF_nondet_u8(); b.fl = VF_nondet_bool(); b.co = VF_nondet_u32();
  __CPROVER_assume(INV(a));
  int step = VF_nondet_int();
  _Bool en =
      step == 0 ? (AT(ST_UNSTARTED, a) && AT(ST_RUN, b))                               /* start() */
    : step == 1 ? (AT(ST_RUN, a) && (AT(ST_RUN, b) || AT(ST_DONE_EMPTY, b)))          /* set_value: next round, or set_value / set_error delivered */
    : step == 2 ? (AT(ST_RUN, a) && AT(ST_DONE_SOURCE, b))                            /* set_done / set_error forwarded */
    : 0;
  __CPROVER_assume(en);
  VF_CANARY("lemma premises satisfiable");
  if (step == 1 && b.co == 0) { VF_CANARY("lemma: next-round step possible"); }
  VF_P(INV(b), "lemma: every contract step leads from a named state to a named state: a round starts in the state the previous round (or start()) left");
  VF_P(!a.fl == (a.ss == SS_EMPTY), "lemma: between callbacks the discriminator is true exactly when the source operation is alive (what the destructor relies on)");
  VF_P(IMP(a.ss != SS_STARTED || a.co == 1, AT(ST_UNSTARTED, a) || AT(ST_DONE_SOURCE, a) || AT(ST_DONE_EMPTY, a)), "lemma: whenever the operation may be destroyed (unstarted or completed) the destructor's precondition holds");
  VF_P(b.co >= a.co && b.co <= 1 && a.co == 0, "lemma: one completion signal at most; no step is enabled after it");
}
void lemma_re_init(void) {
  struct re_state i; i.ss = SS_ALIVE; CONSTRUCTED_INIT_INTO(i.fl); i.co = 0;
  VF_P(AT(ST_UNSTARTED, i), "lemma: a freshly constructed operation is in the unstarted state (isSourceOpConstructed_ initialised to true, source connected)");
  VF_P(INV(i), "lemma: the initial state satisfies the invariant");
  VF_CANARY("lemma_re_init reachable");
}
