AQ = 'include/unifex/detail/atomic_intrusive_queue.hpp'
IQ = 'include/unifex/detail/intrusive_queue.hpp'
IS = 'include/unifex/detail/intrusive_stack.hpp'
CLS = r'class atomic_intrusive_queue \{'
IQCLS = r'class intrusive_queue \{'
ISCLS = r'class intrusive_stack \{'

TYPEMAP = [(r'\bItem\b', 'struct item'),
           (r'\bintrusive_queue\b', 'struct iqueue'), (r'\bintrusive_stack\b', 'struct istack')]

ctx = dict(
    cls='AQ',
    members=['head_'],
    methods=['producer_inactive_value', 'try_mark_inactive'],
    atomic=['head_'],
    ptrmem={'Next': 'next_'},
    typemap=TYPEMAP,
    pre=[(r'intrusive_queue<Item, Next>::make_reversed\(\s*', 'IQ_make_reversed('),
         (r'intrusive_stack<Item, Next>::adopt\(\s*', 'IS_adopt(')],
)
ret_iq = dict(pre=[(r'return \{\};', 'return IQ_empty();')])
ret_is = dict(pre=[(r'return \{\};', 'return IS_empty();')])

# CAS retry loops (scalar state: the candidate head value, never dereferenced)
ENQ_LOOP = ('__CPROVER_assigns(oldValue, IT.next_, Q.head_, G.lin_old, G.lin_new, G.lin_count, G.it_next_at_lin)\n'
            '__CPROVER_loop_invariant(G.lin_count == 0)')
EOM_LOOP = ('__CPROVER_assigns(oldValue, newValue, IT.next_, Q.head_, G.lin_old, G.lin_new, G.lin_count, G.it_next_at_lin)\n'
            '__CPROVER_loop_invariant(G.lin_count == 0)')

SPEC = dict(
    properties=['C06', 'C14', 'C15'],
    ctx=ctx,
    extracts={
        'ctor_default': dict(file=AQ, kind='expr', sig=r'atomic_intrusive_queue\(\) noexcept : head_\(([^)]*)\) \{\}'),
        'ctor_flag': dict(file=AQ, kind='expr',
                          sig=r'explicit atomic_intrusive_queue\(bool initiallyActive\) noexcept\s*: head_\((.*?)\) \{\}'),
        'producer_inactive_value': dict(file=AQ, sig=r'void\* producer_inactive_value\(\) const noexcept'),
        'try_mark_active': dict(file=AQ, sig=r'bool try_mark_active\(\) noexcept'),
        'enqueue_or_mark_active': dict(file=AQ, sig=r'bool enqueue_or_mark_active\(Item\* item\) noexcept', loops={0: EOM_LOOP}),
        'enqueue': dict(file=AQ, sig=r'bool enqueue\(Item\* item\) noexcept', loops={0: ENQ_LOOP}),
        'dequeue_all': dict(file=AQ, sig=r'intrusive_queue<Item, Next> dequeue_all\(\) noexcept', ctx=ret_iq),
        'dequeue_all_reversed': dict(file=AQ, sig=r'intrusive_stack<Item, Next> dequeue_all_reversed\(\) noexcept', ctx=ret_is),
        'try_mark_inactive': dict(file=AQ, sig=r'bool try_mark_inactive\(\) noexcept'),
        'try_mark_inactive_or_dequeue_all': dict(file=AQ, sig=r'try_mark_inactive_or_dequeue_all\(\) noexcept', ctx=ret_iq),
        # the single-owner containers the consumer receives
        'iq_head_init': dict(file=IQ, kind='expr', sig=r'Item\* head_ = ([^;]*);', within=IQCLS),
        'iq_tail_init': dict(file=IQ, kind='expr', sig=r'Item\* tail_ = ([^;]*);', within=IQCLS),
        'make_reversed': dict(file=IQ, sig=r'static intrusive_queue make_reversed\(Item\* list\) noexcept'),
        'is_head_init': dict(file=IS, kind='expr', sig=r'intrusive_stack\(\) : head_\(([^)]*)\) \{\}', within=ISCLS),
        'adopt': dict(file=IS, sig=r'static intrusive_stack adopt\(T\* head\) noexcept'),
    },
    closed_world=[dict(file=AQ, members=['head_'], within=CLS,
                       allow=[r'atomic_intrusive_queue\(\) noexcept : head_\(',
                              r'explicit atomic_intrusive_queue\(bool initiallyActive\) noexcept\s*: head_\(',
                              r'(?s)~atomic_intrusive_queue\(\) \{.*?\n  \}',   # destructor: assertion only (queue drained)
                              r'std::atomic<void\*> head_;'])],
    units=[
        dict(name='try_mark_active', harness='h_try_mark_active', enforce='AQ_try_mark_active'),
        dict(name='enqueue_or_mark_active', harness='h_enqueue_or_mark_active', enforce='AQ_enqueue_or_mark_active', expect_loop_obligations=True),
        dict(name='enqueue', harness='h_enqueue', enforce='AQ_enqueue', expect_loop_obligations=True),
        dict(name='dequeue_all', harness='h_dequeue_all', enforce='AQ_dequeue_all'),
        dict(name='dequeue_all_reversed', harness='h_dequeue_all_reversed', enforce='AQ_dequeue_all_reversed'),
        dict(name='try_mark_inactive', harness='h_try_mark_inactive', enforce='AQ_try_mark_inactive'),
        dict(name='try_mark_inactive_or_dequeue_all', harness='h_try_mark_inactive_or_dequeue_all',
             enforce='AQ_try_mark_inactive_or_dequeue_all', replace=['AQ_try_mark_inactive']),
        dict(name='make_reversed_bounded', harness='h_make_reversed_bounded', mode='bounded', unwind=8,
             defines=['VF_VERIFY_MAKE_REVERSED']),
        dict(name='dequeue_all_bounded', harness='h_dequeue_all_bounded', mode='bounded', unwind=8,
             defines=['VF_VERIFY_MAKE_REVERSED']),
        dict(name='lemma_queue_init', harness='lemma_queue_init', mode='lemma'),
        dict(name='lemma_queue_rely', harness='lemma_queue_rely', mode='lemma'),
        dict(name='lemma_queue_one_waker', harness='lemma_queue_one_waker', mode='lemma'),
        dict(name='lemma_queue_no_lost_item', harness='lemma_queue_no_lost_item', mode='lemma'),
    ],
    assumptions=[
        'single consumer: try_mark_inactive, try_mark_inactive_or_dequeue_all, dequeue_all and dequeue_all_reversed are called by one '
        'party at a time (ghost i_am_consumer) and only while the queue is active (documented precondition; the code asserts it)',
        'an item is enqueued at most once at a time (it is not in the queue when enqueue / enqueue_or_mark_active is called), and the '
        'address of head_ is not the address of an item (the inactive sentinel)',
        'chain membership beyond the two-item window of the lemmas follows by induction from "item->next == previous head" '
        '(the successor of a chain member is a chain member); the global reversal postcondition of make_reversed is a bounded check (N <= 6)',
        'atomics sequentially consistent',
        'is_empty() does not exist in this version of atomic_intrusive_queue.hpp',
    ],
    drops=['memory orders', 'noexcept/[[nodiscard]]', 'template genericity: Item -> struct item, Next -> next_ (one instantiation)',
           'return {} -> default-constructed container built from the member initialisers',
           '~atomic_intrusive_queue (assertion that the queue was drained) is classified, not extracted'],
)
