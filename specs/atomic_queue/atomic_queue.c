/* C06 item 5 / C14 / C15: atomic_intrusive_queue (include/unifex/detail/atomic_intrusive_queue.hpp),
 * the multi-producer single-consumer inbox with an "consumer inactive" sentinel.
 *
 * M1 on the single word head_:   INACT (= address of head_ itself)  consumer idle, must be woken
 *                                NULL                                consumer active, inbox empty
 *                                item*                               consumer active, LIFO chain of items (item->next_)
 * Bodies marked @BODY/@EXPR are extracted from /repo on every run; everything else is specification.
 * The operand item is IT; W1/W2 stand for items of other producers; the chain behind them is never
 * dereferenced by the functions verified here (make_reversed, the only walk, is a bounded unit). */
#include <stddef.h>
#include <stdint.h>
struct item { struct item* next_; };
struct aq { void* head_; };
struct iqueue { struct item* head_; struct item* tail_; };
struct istack { struct item* head_; };

struct vf_ghost {
  _Bool i_am_consumer;          /* the verified call is made by the (single) consumer */
  void* lin_old; void* lin_new; /* values at the call's own successful write to head_ */
  unsigned lin_count;           /* number of successful writes of the call */
  struct item* it_next_at_lin;  /* IT.next_ at that write (what a later consumer finds behind IT) */
  unsigned mr_calls;            /* hand-overs of a taken chain to make_reversed */
  struct item* mr_arg;          /* the chain handed over */
  _Bool quiet;                  /* bounded sequential cross-check only: no environment steps */
};
static struct vf_ghost G;
static struct aq Q;
static struct item IT, W1, W2;
static char vf_opaque_obj;
#define OPAQUE ((struct item*)&vf_opaque_obj)

static void vf_guar(void* p, void* o, void* n);
#define VF_G(p, o, n) vf_guar((void*)(p), (void*)(o), (void*)(n))
#include "vf.h"

/* ---------------- protocol predicates and contracts (from the property statement): aq_contract.h ---------------- */
#include "aq_contract.h"
#define INACT AQ_INACT(&Q)
#define STEP_PUSH(o, n, it, itn)  AQ_STEP_PUSH(&Q, o, n, it, itn)
#define STEP_MARK_ACTIVE(o, n)    AQ_STEP_MARK_ACTIVE(&Q, o, n)
#define STEP_MARK_INACTIVE(o, n)  AQ_STEP_MARK_INACTIVE(&Q, o, n)
#define STEP_TAKE_ALL(o, n)       AQ_STEP_TAKE_ALL(&Q, o, n)
#define RELY_CONSUMER(o, n)       AQ_RELY_CONSUMER(&Q, o, n)
#define RELY_PRODUCER(o, n)       AQ_RELY_PRODUCER(&Q, o, n, &IT)

static void vf_guar(void* p, void* o, void* n) {
  VF_P(p == (void*)&Q.head_, "atomic write to an unexpected location");
  VF_P(G.lin_count == 0, "an operation writes head_ at most once (one linearisation point)");
  VF_P(STEP_PUSH(o, n, &IT, IT.next_) || STEP_MARK_ACTIVE(o, n) || STEP_MARK_INACTIVE(o, n) || STEP_TAKE_ALL(o, n),
       "guarantee: every write to head_ is push(item, item->next = previous head or NULL over the sentinel), mark-active(sentinel -> NULL), mark-inactive(NULL -> sentinel) or take-all(chain -> NULL)");
  VF_P((STEP_MARK_INACTIVE(o, n) || STEP_TAKE_ALL(o, n)) ==> G.i_am_consumer,
       "guarantee: only the consumer marks the queue inactive or takes the chain");
  G.lin_old = o; G.lin_new = n; G.lin_count++; G.it_next_at_lin = IT.next_;
}

static void vf_interfere(void) {
  if (G.quiet) return;
  void* o = Q.head_;
  int k = VF_nondet_int();
  void* n = k == 0 ? INACT : k == 1 ? NULL : k == 2 ? (void*)&W1 : k == 3 ? (void*)&W2 : o;
  __CPROVER_assume(G.i_am_consumer ? RELY_CONSUMER(o, n) : RELY_PRODUCER(o, n));
  Q.head_ = n;
}

/* ---------------- construction: initial state from the member initialisers ---------------- */
void* AQ_producer_inactive_value(struct aq* self)
/*@BODY producer_inactive_value*/

static void AQ_init_default(struct aq* self) { self->head_ = /*@EXPR ctor_default*/; }
static void AQ_init_flag(struct aq* self, _Bool initiallyActive) { self->head_ = /*@EXPR ctor_flag*/; }

static struct iqueue IQ_empty(void) { struct iqueue q; q.head_ = /*@EXPR iq_head_init*/; q.tail_ = /*@EXPR iq_tail_init*/; return q; }
static struct istack IS_empty(void) { struct istack s; s.head_ = /*@EXPR is_head_init*/; return s; }

static struct istack IS_adopt(struct item* head)
/*@BODY adopt*/

#ifdef VF_VERIFY_MAKE_REVERSED
static struct iqueue IQ_make_reversed(struct item* list)
/*@BODY make_reversed*/
#else
/* contract stub of intrusive_queue::make_reversed (the walk itself is the bounded unit): records the
 * hand-over; result: empty iff the list is empty, newest item (the old head) at the tail */
static struct iqueue IQ_make_reversed(struct item* list) {
  VF_P(G.mr_calls == 0, "a taken chain is handed over exactly once");
  G.mr_calls++; G.mr_arg = list;
  struct iqueue r;
  r.tail_ = list;
  r.head_ = list == NULL ? NULL : (VF_nondet_bool() ? list : OPAQUE);
  return r;
}
#endif

/* ---------------- functions under contract ---------------- */

/* producers (any thread) */
_Bool AQ_try_mark_active(struct aq* self)
__CPROVER_requires(self == &Q && AQ_REQ_ANY(&Q))
__CPROVER_assigns(AQ_ASSIGNS_ANY(&Q))
__CPROVER_ensures(AQ_ENS_TRY_MARK_ACTIVE(&Q, __CPROVER_return_value)) /* true <=> this call made the transition sentinel -> active-empty; false only if observed active */
/*@BODY try_mark_active*/

_Bool AQ_enqueue_or_mark_active(struct aq* self, struct item* item)
__CPROVER_requires(self == &Q && item == &IT && AQ_REQ_PRODUCER(&Q, &IT))
__CPROVER_assigns(AQ_ASSIGNS_PRODUCER(&Q, &IT))
__CPROVER_ensures(AQ_ENS_EOMA_ONCE(&Q, &IT, __CPROVER_return_value)) /* exactly one successful write */
__CPROVER_ensures(AQ_ENS_EOMA_INACTIVE(&Q, &IT, __CPROVER_return_value)) /* was inactive: marked active, item NOT enqueued, returns false */
__CPROVER_ensures(AQ_ENS_EOMA_ACTIVE(&Q, &IT, __CPROVER_return_value)) /* was active: pushed in front of the previous head, returns true */
/*@BODY enqueue_or_mark_active*/

_Bool AQ_enqueue(struct aq* self, struct item* item)
__CPROVER_requires(self == &Q && item == &IT && AQ_REQ_PRODUCER(&Q, &IT))
__CPROVER_assigns(AQ_ASSIGNS_PRODUCER(&Q, &IT))
__CPROVER_ensures(AQ_ENS_ENQUEUE_PUSHED(&Q, &IT, __CPROVER_return_value)) /* the item is in the list in both cases */
__CPROVER_ensures(AQ_ENS_ENQUEUE_NEXT(&Q, &IT, __CPROVER_return_value)) /* behind it: the previous head, or nothing over the sentinel */
__CPROVER_ensures(AQ_ENS_ENQUEUE_WAKE(&Q, &IT, __CPROVER_return_value)) /* true for exactly the call whose CAS replaced the inactive sentinel */
/*@BODY enqueue*/

/* consumer only, queue active */
struct iqueue AQ_dequeue_all(struct aq* self)
__CPROVER_requires(self == &Q && AQ_REQ_CONSUMER(&Q))
__CPROVER_assigns(AQ_ASSIGNS_CONSUMER(&Q))
__CPROVER_ensures(AQ_ENS_DEQUEUE_ALL_NONE(&Q, __CPROVER_return_value)) /* nothing taken only if the inbox was observed empty */
__CPROVER_ensures(AQ_ENS_DEQUEUE_ALL_STEP(&Q, __CPROVER_return_value)) /* one atomic step empties the inbox */
__CPROVER_ensures(AQ_ENS_DEQUEUE_ALL_WHOLE(&Q, __CPROVER_return_value)) /* and the WHOLE old chain (from its head) is what the caller receives */
/*@BODY dequeue_all*/

struct istack AQ_dequeue_all_reversed(struct aq* self)
__CPROVER_requires(self == &Q && AQ_REQ_CONSUMER(&Q))
__CPROVER_assigns(AQ_ASSIGNS_ANY(&Q))
__CPROVER_ensures(AQ_ENS_DEQUEUE_ALL_REVERSED(&Q, __CPROVER_return_value)) /* takes the whole chain atomically, newest first; nothing only if observed empty */
/*@BODY dequeue_all_reversed*/

_Bool AQ_try_mark_inactive(struct aq* self)
__CPROVER_requires(self == &Q && AQ_REQ_CONSUMER(&Q))
__CPROVER_assigns(AQ_ASSIGNS_ANY(&Q))
__CPROVER_ensures(AQ_ENS_TRY_MARK_INACTIVE(&Q, __CPROVER_return_value)) /* succeeds only on an empty active queue; fails only because items were observed, nothing written */
/*@BODY try_mark_inactive*/

struct iqueue AQ_try_mark_inactive_or_dequeue_all(struct aq* self)
__CPROVER_requires(self == &Q && AQ_REQ_CONSUMER(&Q))
__CPROVER_assigns(AQ_ASSIGNS_CONSUMER(&Q))
__CPROVER_ensures(AQ_ENS_TMIODA_ONCE(&Q, __CPROVER_return_value)) /* exactly one of the two transitions */
__CPROVER_ensures(AQ_ENS_TMIODA_INACTIVE(&Q, __CPROVER_return_value)) /* installs the sentinel only over an empty inbox and returns nothing */
__CPROVER_ensures(AQ_ENS_TMIODA_TAKE(&Q, __CPROVER_return_value)) /* or takes EVERYTHING: head becomes NULL, returned list = old head chain */
/*@BODY try_mark_inactive_or_dequeue_all*/

/* ---------------- harnesses ---------------- */
static void h_init(_Bool consumer) {
  int k = VF_nondet_int();
  Q.head_ = k == 1 ? NULL : k == 2 ? (void*)&W1 : k == 3 ? (void*)&W2 : (consumer ? NULL : INACT);
  IT.next_ = VF_nondet_bool() ? &W1 : (VF_nondet_bool() ? OPAQUE : NULL);
  W1.next_ = VF_nondet_bool() ? &W2 : (VF_nondet_bool() ? OPAQUE : NULL);
  W2.next_ = VF_nondet_bool() ? OPAQUE : NULL;
  G.i_am_consumer = consumer; G.lin_old = NULL; G.lin_new = NULL; G.lin_count = 0; G.it_next_at_lin = NULL; G.mr_calls = 0; G.mr_arg = NULL; G.quiet = 0;
}
#ifndef VF_VERIFY_MAKE_REVERSED
void h_try_mark_active(void) { h_init(VF_nondet_bool()); _Bool r = AQ_try_mark_active(&Q); VF_CANARY("after try_mark_active"); if (r) { VF_CANARY("try_mark_active can succeed"); } else { VF_CANARY("try_mark_active can fail"); } }
void h_enqueue_or_mark_active(void) { h_init(VF_nondet_bool()); _Bool r = AQ_enqueue_or_mark_active(&Q, &IT); VF_CANARY("after enqueue_or_mark_active"); if (r) { VF_CANARY("enqueue_or_mark_active can enqueue"); } else { VF_CANARY("enqueue_or_mark_active can mark active"); } }
void h_enqueue(void) { h_init(VF_nondet_bool()); _Bool r = AQ_enqueue(&Q, &IT); VF_CANARY("after enqueue"); if (r) { VF_CANARY("enqueue can find the consumer inactive"); } else { VF_CANARY("enqueue can find the consumer active"); } }
void h_dequeue_all(void) { h_init(1); struct iqueue r = AQ_dequeue_all(&Q); VF_CANARY("after dequeue_all"); if (r.head_) { VF_CANARY("dequeue_all can take a chain"); } else { VF_CANARY("dequeue_all can find nothing"); } }
void h_dequeue_all_reversed(void) { h_init(1); struct istack r = AQ_dequeue_all_reversed(&Q); VF_CANARY("after dequeue_all_reversed"); if (r.head_) { VF_CANARY("dequeue_all_reversed can take a chain"); } }
void h_try_mark_inactive(void) { h_init(1); _Bool r = AQ_try_mark_inactive(&Q); VF_CANARY("after try_mark_inactive"); if (r) { VF_CANARY("try_mark_inactive can succeed"); } else { VF_CANARY("try_mark_inactive can fail"); } }
void h_try_mark_inactive_or_dequeue_all(void) { h_init(1); struct iqueue r = AQ_try_mark_inactive_or_dequeue_all(&Q); VF_CANARY("after try_mark_inactive_or_dequeue_all"); if (r.head_) { VF_CANARY("can take the chain"); } else { VF_CANARY("can mark inactive"); } }
#else
/* ---------------- M3 bounded: the list walk of make_reversed on chains of <= NB items ---------------- */
#define NB 6
static struct item N[NB];
static unsigned build_chain(void) {
  unsigned len = VF_nondet_u32();
  __CPROVER_assume(len <= NB);
  for (unsigned i = 0; i < NB; i++) N[i].next_ = (i + 1 < len) ? &N[i + 1] : NULL;   /* N[0] newest (head) ... N[len-1] oldest */
  return len;
}
static void check_reversed(struct iqueue r, unsigned len) {
  VF_P(len == 0 ==> (r.head_ == NULL && r.tail_ == NULL), "bounded: reversing nothing gives the empty queue");
  VF_P(len > 0 ==> (r.head_ == &N[len - 1] && r.tail_ == &N[0]), "bounded: the oldest item is at the front, the newest at the back (FIFO)");
  VF_P(len > 0 ==> N[0].next_ == NULL, "bounded: the reversed list is NULL-terminated at the newest item");
  for (unsigned i = 1; i < NB; i++) { if (i < len) { VF_P(N[i].next_ == &N[i - 1], "bounded: every item is followed by the item enqueued right after it (no item lost or duplicated)"); } }
}
void h_make_reversed_bounded(void) {
  unsigned len = build_chain();
  struct iqueue r = IQ_make_reversed(len ? &N[0] : NULL);
  check_reversed(r, len);
  VF_CANARY("after make_reversed");
  if (len == NB) { VF_CANARY("longest chain reachable"); }
}
void h_dequeue_all_bounded(void) {
  /* sequential end-to-end cross-check: consumer, no interference between the load and the exchange */
  unsigned len = build_chain();
  G.i_am_consumer = 1; G.lin_count = 0; G.mr_calls = 0; G.quiet = 1;
  Q.head_ = len ? (void*)&N[0] : NULL;
  struct iqueue r = VF_nondet_bool() ? AQ_dequeue_all(&Q) : AQ_try_mark_inactive_or_dequeue_all(&Q);
  check_reversed(r, len);
  VF_P(len > 0 ==> Q.head_ == NULL, "bounded: the inbox is empty after the take");
  VF_CANARY("after dequeue_all (bounded)");
}
#endif

/* ---------------- M4 lemmas over the contracts ---------------- */
static void* lemma_pick(void) {
  int k = VF_nondet_int();
  return k == 0 ? INACT : k == 1 ? NULL : k == 2 ? (void*)&IT : k == 3 ? (void*)&W1 : (void*)&W2;
}
void lemma_queue_init(void) {
  struct aq* self = &Q;
  AQ_init_default(&Q);
  VF_P(Q.head_ == NULL, "lemma: a default-constructed queue is active and empty");
  _Bool a = VF_nondet_bool();
  AQ_init_flag(&Q, a);
  VF_P(a ? Q.head_ == NULL : Q.head_ == INACT, "lemma: atomic_intrusive_queue(initiallyActive) starts active-empty or at the inactive sentinel");
  VF_P(AQ_producer_inactive_value(&Q) == INACT, "lemma: the inactive sentinel is the address of head_");
  VF_P(INACT != NULL && INACT != (void*)&IT && INACT != (void*)&W1 && INACT != (void*)&W2, "lemma: the sentinel is neither NULL nor an item");
  struct iqueue e = IQ_empty(); struct istack s = IS_empty();
  VF_P(e.head_ == NULL && e.tail_ == NULL && s.head_ == NULL, "lemma: default-constructed containers are empty");
  VF_CANARY("lemma_queue_init reachable");
}
/* one step of ANOTHER party with operand item W1, summarised by its contract */
void lemma_queue_rely(void) {
  void* o = lemma_pick(); void* n = lemma_pick();
  W1.next_ = VF_nondet_bool() ? (struct item*)o : (VF_nondet_bool() ? OPAQUE : NULL);
  __CPROVER_assume(o != (void*)&W1);   /* their item is not in the queue yet */
  _Bool producer_step = STEP_PUSH(o, n, &W1, W1.next_) || STEP_MARK_ACTIVE(o, n);
  _Bool consumer_step = STEP_MARK_INACTIVE(o, n) || STEP_TAKE_ALL(o, n);
  __CPROVER_assume(producer_step || consumer_step);
  VF_CANARY("lemma premises satisfiable");
  VF_P(producer_step ==> RELY_CONSUMER(o, n), "lemma: every producer step is allowed by the consumer's rely (active stays active, non-empty stays non-empty)");
  VF_P(RELY_PRODUCER(o, n), "lemma: no step of another party publishes my unpublished item");
  VF_P(n == INACT || n == NULL || n == (void*)&W1, "lemma: head_ is always the sentinel, NULL or an item");
  VF_P(!(producer_step && consumer_step), "lemma: producer and consumer steps are disjoint");
}
/* two consecutive steps of any parties without a mark-inactive in between: at most one of them starts at the sentinel */
void lemma_queue_one_waker(void) {
  void* s0 = lemma_pick(); void* s1 = lemma_pick(); void* s2 = lemma_pick();
  struct item* a = VF_nondet_bool() ? &W1 : &IT; struct item* b = VF_nondet_bool() ? &W2 : &IT;
  a->next_ = VF_nondet_bool() ? (struct item*)s0 : NULL;
  _Bool push1 = STEP_PUSH(s0, s1, a, a->next_), act1 = STEP_MARK_ACTIVE(s0, s1), take1 = STEP_TAKE_ALL(s0, s1), idle1 = STEP_MARK_INACTIVE(s0, s1);
  __CPROVER_assume(push1 || act1 || take1 || idle1);
  _Bool wake1 = push1 && s0 == INACT;                 /* enqueue's return value, by its contract */
  _Bool acq1 = act1;                                  /* try_mark_active true / enqueue_or_mark_active false, by their contracts */
  if (b != a) b->next_ = VF_nondet_bool() ? (struct item*)s1 : NULL;
  _Bool push2 = STEP_PUSH(s1, s2, b, b->next_), act2 = STEP_MARK_ACTIVE(s1, s2), take2 = STEP_TAKE_ALL(s1, s2), idle2 = STEP_MARK_INACTIVE(s1, s2);
  __CPROVER_assume(push2 || act2 || take2 || idle2);
  _Bool wake2 = push2 && s1 == INACT;
  _Bool acq2 = act2;
  VF_CANARY("lemma premises satisfiable");
  VF_P((s0 == INACT) ==> (s1 != INACT), "lemma: every step that starts at the sentinel removes it");
  VF_P((s1 == INACT) ==> idle1, "lemma: only the consumer's mark-inactive step installs the sentinel");
  VF_P(idle1 ==> s0 == NULL, "lemma: the sentinel is installed only over an empty inbox");
  VF_P((s0 != INACT && !idle1) ==> s1 != INACT, "lemma: without a mark-inactive step an active queue stays active");
  VF_P(!idle1 ==> !((wake1 || acq1) && (wake2 || acq2)), "lemma: at most one step per idle period is told that the consumer was inactive (one waker / one acquirer)");
  VF_P((wake1 || acq1) == (s0 == INACT && !idle1), "lemma: the step that removes the sentinel is exactly the one that is told so");
}
/* the item IT has been published by its push; whatever happens next, it is not lost */
void lemma_queue_no_lost_item(void) {
  void* o0 = lemma_pick(); void* n0 = lemma_pick();
  __CPROVER_assume(o0 != (void*)&IT);
  IT.next_ = VF_nondet_bool() ? (struct item*)o0 : NULL;
  __CPROVER_assume(STEP_PUSH(o0, n0, &IT, IT.next_));          /* enqueue / enqueue_or_mark_active(enqueued) */
  _Bool wake = (o0 == INACT);
  VF_P(!wake ==> (o0 != INACT && IT.next_ == (struct item*)o0), "lemma: a producer that is not told to wake found the consumer active and linked the whole previous chain behind its item");
  VF_P(wake ==> IT.next_ == NULL, "lemma: over the sentinel the item starts a fresh chain");
  /* later: IT is still within reach of head_ (directly, or behind one other item W1) */
  void* o1 = VF_nondet_bool() ? (void*)&IT : (void*)&W1;
  if (o1 == (void*)&W1) W1.next_ = &IT;
#define REACH_IT(h) ((h) == (void*)&IT || ((h) == (void*)&W1 && W1.next_ == &IT) || ((h) == (void*)&W2 && (W2.next_ == &IT || (W2.next_ == &W1 && W1.next_ == &IT))))
  void* n1 = lemma_pick();
  W2.next_ = VF_nondet_bool() ? (struct item*)o1 : NULL;
  _Bool push = STEP_PUSH(o1, n1, &W2, W2.next_), act = STEP_MARK_ACTIVE(o1, n1), take = STEP_TAKE_ALL(o1, n1), idle = STEP_MARK_INACTIVE(o1, n1);
  __CPROVER_assume(push || act || take || idle);
  VF_CANARY("lemma premises satisfiable");
  VF_P(!idle && !act, "lemma: while a published item is in the chain the consumer cannot go (or be found) inactive");
  VF_P(push ==> REACH_IT(n1), "lemma: a later push keeps every earlier item in the chain");
  VF_P(take ==> (n1 == NULL && REACH_IT(o1)), "lemma: the take-all step hands the consumer a chain (= old head, by the contracts) that contains the item");
  VF_P(push || take, "lemma: the only steps enabled on a non-empty queue are push and take-all");
}
