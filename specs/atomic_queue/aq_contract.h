/* Protocol predicates and CONTRACTS of atomic_intrusive_queue<Item, &Item::next_> as macros, so that
 *   - specs/atomic_queue/atomic_queue.c ENFORCES them on the extracted bodies, and
 *   - client groups (specs/mutex_v1) REPLACE calls by exactly the same text (declaration + contract, or contract stub).
 * No library code in here.  Parameters: q = the queue object (struct aq*), it = the caller's operand item, rv = return value.
 * The including file provides  struct item { struct item* next_; ... },  struct aq { void* head_; },
 * struct iqueue { head_, tail_ },  struct istack { head_ },  and ONE ghost struct G with the fields
 *   _Bool i_am_consumer;  void* lin_old, *lin_new;  unsigned lin_count;  struct item* it_next_at_lin;
 *   unsigned mr_calls;  struct item* mr_arg;                                                          */
#ifndef AQ_CONTRACT_H
#define AQ_CONTRACT_H

/* head_ :  AQ_INACT(q) (= address of head_ itself)  consumer idle, must be woken
 *          NULL                                      consumer active, inbox empty
 *          item*                                     consumer active, LIFO chain of items (item->next_) */
#define AQ_INACT(q) ((void*)&(q)->head_)

/* the four legal steps on head_ (o -> n); itn = it->next_ at the moment of the step */
#define AQ_STEP_PUSH(q, o, n, it, itn)  ((n) == (void*)(it) && (itn) == ((o) == AQ_INACT(q) ? (struct item*)NULL : (struct item*)(o)))
#define AQ_STEP_MARK_ACTIVE(q, o, n)    ((o) == AQ_INACT(q) && (n) == NULL)
#define AQ_STEP_MARK_INACTIVE(q, o, n)  ((o) == NULL && (n) == AQ_INACT(q))                       /* consumer only */
#define AQ_STEP_TAKE_ALL(q, o, n)       ((o) != AQ_INACT(q) && (o) != NULL && (n) == NULL)        /* consumer only */

/* rely of the consumer: producers push (never remove) and may mark an idle queue active; nobody else marks it
 * inactive or takes the chain: active stays active, non-empty stays non-empty */
#define AQ_RELY_CONSUMER(q, o, n) (((o) != AQ_INACT(q) ==> (n) != AQ_INACT(q)) && (((o) != AQ_INACT(q) && (o) != NULL) ==> (n) != NULL))
/* rely of a producer: anything, except that its own unpublished item does not appear */
#define AQ_RELY_PRODUCER(q, o, n, it) ((n) != (void*)(it))

/* ---- preconditions ---- */
#define AQ_REQ_ANY(q)           (G.lin_count == 0)
#define AQ_REQ_PRODUCER(q, it)  (G.lin_count == 0 && (q)->head_ != (void*)(it))   /* the item is not in the queue */
#define AQ_REQ_CONSUMER(q)      (G.i_am_consumer && (q)->head_ != AQ_INACT(q) && G.lin_count == 0 && G.mr_calls == 0)   /* single consumer, queue active */

/* a replaced contract havocs a _Bool result as a byte: pin it to a canonical truth value (trivially true of a real _Bool) */
#define AQ_BOOL(rv) ((rv) == 0 || (rv) == 1)

/* ---- postconditions (over the values at the call's own successful write: G.lin_old -> G.lin_new) ---- */
/* try_mark_active: true <=> this call performed the transition sentinel -> active-empty;
 * false only if the queue was observed active (strong CAS: no spurious failure) */
#define AQ_ENS_TRY_MARK_ACTIVE(q, rv) \
  (AQ_BOOL(rv) && (rv) == (G.lin_count == 1) && G.lin_count <= 1 \
   && (G.lin_count == 1 ==> (G.lin_old == AQ_INACT(q) && G.lin_new == NULL)) \
   && (!(rv) ==> (q)->head_ != AQ_INACT(q)))

/* enqueue_or_mark_active: exactly one successful write.  Was inactive: marked active, item NOT enqueued, returns false.
 * Was active: item pushed in front of the previous head (item->next_ == previous head), returns true */
#define AQ_ENS_EOMA_ONCE(q, it, rv)     (G.lin_count == 1 && AQ_BOOL(rv))
#define AQ_ENS_EOMA_INACTIVE(q, it, rv) (G.lin_old == AQ_INACT(q) ==> (G.lin_new == NULL && !(rv)))
#define AQ_ENS_EOMA_ACTIVE(q, it, rv)   (G.lin_old != AQ_INACT(q) ==> (G.lin_new == (void*)(it) && G.it_next_at_lin == (struct item*)G.lin_old && (rv)))
#define AQ_ENS_EOMA(q, it, rv)          (AQ_ENS_EOMA_ONCE(q, it, rv) && AQ_ENS_EOMA_INACTIVE(q, it, rv) && AQ_ENS_EOMA_ACTIVE(q, it, rv))

/* enqueue: the item is in the list in both cases; behind it the previous head, or nothing over the sentinel;
 * returns true for exactly the call whose CAS replaced the inactive sentinel */
#define AQ_ENS_ENQUEUE_PUSHED(q, it, rv) (G.lin_count == 1 && G.lin_new == (void*)(it))
#define AQ_ENS_ENQUEUE_NEXT(q, it, rv)   (G.it_next_at_lin == (G.lin_old == AQ_INACT(q) ? (struct item*)NULL : (struct item*)G.lin_old))
#define AQ_ENS_ENQUEUE_WAKE(q, it, rv)   (AQ_BOOL(rv) && (rv) == (G.lin_old == AQ_INACT(q)))
#define AQ_ENS_ENQUEUE(q, it, rv)        (AQ_ENS_ENQUEUE_PUSHED(q, it, rv) && AQ_ENS_ENQUEUE_NEXT(q, it, rv) && AQ_ENS_ENQUEUE_WAKE(q, it, rv))

/* dequeue_all: nothing taken only if the inbox was observed empty; otherwise ONE atomic step empties the inbox and the
 * WHOLE old chain (from its head) is what is handed to make_reversed and returned (newest item = old head at the tail) */
#define AQ_ENS_DEQUEUE_ALL_NONE(q, rv)  (G.lin_count == 0 ==> ((q)->head_ == NULL && G.mr_calls == 0 && (rv).head_ == NULL && (rv).tail_ == NULL))
#define AQ_ENS_DEQUEUE_ALL_STEP(q, rv)  (G.lin_count != 0 ==> (G.lin_count == 1 && G.lin_new == NULL && G.lin_old != NULL && G.lin_old != AQ_INACT(q)))
#define AQ_ENS_DEQUEUE_ALL_WHOLE(q, rv) (G.lin_count != 0 ==> (G.mr_calls == 1 && (void*)G.mr_arg == G.lin_old && (void*)(rv).tail_ == G.lin_old && (rv).head_ != NULL))
#define AQ_ENS_DEQUEUE_ALL(q, rv)       (AQ_ENS_DEQUEUE_ALL_NONE(q, rv) && AQ_ENS_DEQUEUE_ALL_STEP(q, rv) && AQ_ENS_DEQUEUE_ALL_WHOLE(q, rv))

/* dequeue_all_reversed: same, the chain is returned as it is (newest first) */
#define AQ_ENS_DEQUEUE_ALL_REVERSED(q, rv) \
  ((G.lin_count == 0 ==> ((q)->head_ == NULL && (rv).head_ == NULL)) \
   && (G.lin_count != 0 ==> (G.lin_count == 1 && G.lin_new == NULL && G.lin_old != NULL && G.lin_old != AQ_INACT(q) && (void*)(rv).head_ == G.lin_old)))

/* try_mark_inactive: succeeds only on an empty active queue; fails only because items were observed, nothing written */
#define AQ_ENS_TRY_MARK_INACTIVE(q, rv) \
  (AQ_BOOL(rv) && (rv) == (G.lin_count == 1) && G.lin_count <= 1 \
   && (G.lin_count == 1 ==> (G.lin_old == NULL && G.lin_new == AQ_INACT(q) && (q)->head_ == AQ_INACT(q))) \
   && (!(rv) ==> (G.lin_count == 0 && (q)->head_ != NULL && (q)->head_ != AQ_INACT(q))))

/* try_mark_inactive_or_dequeue_all: exactly one of the two transitions: installs the sentinel only over an empty inbox
 * and returns nothing, or takes EVERYTHING: head becomes NULL, returned list = old head chain */
#define AQ_ENS_TMIODA_ONCE(q, rv)     (G.lin_count == 1)
#define AQ_ENS_TMIODA_INACTIVE(q, rv) (G.lin_new == AQ_INACT(q) ==> (G.lin_old == NULL && G.mr_calls == 0 && (rv).head_ == NULL && (rv).tail_ == NULL))
#define AQ_ENS_TMIODA_TAKE(q, rv)     (G.lin_new != AQ_INACT(q) ==> (G.lin_new == NULL && G.lin_old != NULL && G.lin_old != AQ_INACT(q) && G.mr_calls == 1 \
                                        && (void*)G.mr_arg == G.lin_old && (void*)(rv).tail_ == G.lin_old && (rv).head_ != NULL))
#define AQ_ENS_TMIODA(q, rv)          (AQ_ENS_TMIODA_ONCE(q, rv) && AQ_ENS_TMIODA_INACTIVE(q, rv) && AQ_ENS_TMIODA_TAKE(q, rv))

/* frame of every operation on q with operand it */
#define AQ_ASSIGNS_PRODUCER(q, it) (q)->head_, (it)->next_, G.lin_old, G.lin_new, G.lin_count, G.it_next_at_lin
#define AQ_ASSIGNS_ANY(q)          (q)->head_, G.lin_old, G.lin_new, G.lin_count, G.it_next_at_lin
#define AQ_ASSIGNS_CONSUMER(q)     (q)->head_, G.lin_old, G.lin_new, G.lin_count, G.it_next_at_lin, G.mr_calls, G.mr_arg   /* operations that hand a chain to make_reversed */
#endif
