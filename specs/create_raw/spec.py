B = 'include/unifex/create_basic_sender.hpp'
R = 'include/unifex/create_raw_sender.hpp'
L = 'include/unifex/detail/lambda_op.hpp'
STATE = r'struct _state \{'
GUARD = r'struct guard \{'
LOCKABLE = r'struct _lockable \{'
STOPCB = r'struct _stop_callback \{'
OP = r'class _op \{'
CALLBACK = r'class _callback : private Base \{'
SAFE = r'struct _safe_cb_base \{'
UNSAFE = r'struct _unsafe_cb_base \{'
WRAP = r'struct _receiver_wrapper<false, SendsDone, Receiver, ValueTypes\.\.\.> \{'
RAWSND = r'struct _sender : public Tr \{'
LOP_PLAIN = r'struct _op<Callable, false> \{'
LOP_EVT = r'struct _op<Lambda, true> \{'

TRY_CATCH = [(r'UNIFEX_TRY\s*\{', '{'), (r'\}\s*UNIFEX_CATCH\s*\(\.\.\.\)\s*\{', '} if (0) { vf_catch: ;')]
# call abstractions shared by the _op members, the stop callback and start
PRE = [
    # the recursive lock + recursion count: `auto guard{lock()};` is a _state::guard (lock_guard + ++recursion_ / --recursion_)
    (r'auto guard\{(?:op_\.|self\.)?lock\(\)\};', 'op_guard guard;'),
    (r'\bop_\.', 'op_->'),
    (r'\bself\.', 'self->'),
    (r'std::current_exception\(\)', ''),
    # the receiver wrapper (deferred completion), the stop callback storage, the shared_ptr<void*> holder
    (r'receiver_\.set_value\(std::forward<decltype\(args\)>\(args\)\.\.\.\);', 'EV_defer(this, DK_VALUE);'),
    (r'receiver_\.set_error\(ex\);', 'EV_defer(this, DK_ERROR);'),
    (r'receiver_\.set_done\(\);', 'EV_defer(this, DK_DONE);'),
    (r'stop_\.construct\(\s*get_stop_token\(receiver_\.get_receiver\(\)\), _stop_callback<_op>\{\*this\}\);', 'EV_stop_construct(this);'),
    (r'stop_\.destruct\(\);', 'EV_stop_destruct(this);'),
    (r'receiver_\.complete\(\);', 'EV_receiver_complete(this);'),
    (r'((?:\w+->)*)safe_cb_holder_\.reset\(\)', r'EV_holder_reset(&\1safe_cb_holder_)'),
    (r'std::make_shared<void\*>\(this\)', 'EV_make_shared(this)'),
    # the user's body (all events); a throwing body is possible where the code provides for it
    (r'(?<![\w.>])body\(_event<_event_type::start>\{\}\);', 'if (EV_body(this, EVT_START)) { VF_THROW(); return 0; }'),
    (r'(?<![\w.>])body\(Event\{\}, std::forward<Args>\(args\)\.\.\.\);', 'if (EV_body(this, EVT_CALLBACK)) goto vf_catch;'),
    (r'const _event<_event_type::stop> event\{\};', ''),
    (r'op_->body\(event\);', 'if (EV_body(op_, EVT_STOP)) goto vf_catch;'),
    # configuration: both branches of every `if constexpr` are verified
    (r'Tr::sends_done', 'VF_CFG_sends_done'),
    (r'(?<![\w.>])nothrow_on_start\(\)', 'VF_CFG_nothrow_start'),
    (r'Op::nothrow_on_stop\(\)', 'VF_CFG_nothrow_stop'),
    (r'\b_state::(\w+)\b', r'\1'),
    # start(): the exception leaves start_impl() (its guard unwinds) and is caught in tag_invoke
    (r'completed = self->start_impl\(\);(?=\s*\}\s*UNIFEX_CATCH)', 'completed = op_start_impl(self); if (VF_THREW()) goto vf_catch;'),
] + TRY_CATCH
# instrumentation only: every access to the operation asserts that it has not been destroyed
POST = [
    (r'\bself->op_->', 'VF_ALIVE(self->op_)->'),
    (r'\bself->(?!op_\b)', 'VF_ALIVE(self)->'),
    (r'\bNULL\b', '0'),
]
OBJ = {'finished': 'state_finished', 'completed': 'state_completed', 'not_started': 'state_not_started', 'set_started': 'state_set_started',
       'set_finished': 'state_set_finished', 'start_impl': 'op_start_impl', 'set_error': 'op_set_error', 'set_done': 'op_set_done', 'complete': 'op_complete'}

base = dict(typemap=[(r'\bOp\s*\*', 'struct op*')])
op_ctx = dict(cls='op', members=['state_', 'safe_cb_holder_', 'receiver_', 'stop_', 'ctx_', 'lock_factory_', 'body_'],
              methods=['set_error', 'complete'], obj_methods=OBJ, pre=PRE, post=POST,
              raii={'op_guard': ('OP_GUARD_CTOR', 'OP_GUARD_DTOR')})
st_ctx = dict(cls='state', members=['recursion_', 'phase_'], methods=['finished'], post=[(r'\bself->', 'VF_ALIVE(self)->')])
gd_ctx = dict(cls='guard', members=['recursion_'], post=[(r'\bself->recursion_', '(*VF_ALIVE(self->recursion_))')])
scb_ctx = dict(op_ctx, cls='stop_callback', members=['op_'], methods=[])


# _callback<Op, Base, Event, Fallback, Args...>::operator(): one instantiation per base class
def cb_ctx(kind):
    return dict(cls=kind + '_cb', members=['weak_', 'op_', 'fallback_'],
                pre=[(r'(?s)if \(auto ptr = this->get\(\)\) \{(.*?\n)    \}', r'{ %s_ptr ptr; if (%s_ptr_bool(&ptr)) {\1    } }' % (kind, kind)),
                     (r'ptr\.template op<Op>\(\)->template callback_impl<nothrow_body, Event>\(\s*std::forward<Args>\(args\)\.\.\.\)', 'op_callback_impl(%s_ptr_op(&ptr), VF_CFG_nothrow_body)' % kind),
                     (r'!std::is_same_v<Fallback, _do_nothing>', 'VF_CFG_has_fallback'),
                     (r'std::move\(fallback_\)\(std::forward<Args>\(args\)\.\.\.\);', 'EV_fallback(this);')],
                raii={kind + '_ptr': (kind.upper() + '_PTR_CTOR', kind.upper() + '_PTR_DTOR')}, post=[(r'\bNULL\b', '0')])


# the probe type passed to the lambda is kept as the event argument of the stub
LOP_PRE = [(r'std::is_invocable_v<Lambda&, _st(?:art|op)_probe, _op\*>', 'VF_CFG_takes_self'),
           (r'lambda_\(_(start|stop)_probe\{\}, this\);', lambda m: 'EV_lambda(this, LE_%s, 1);' % m.group(1).upper()),
           (r'lambda_\(_(start|stop)_probe\{\}\);', lambda m: 'EV_lambda(this, LE_%s, 0);' % m.group(1).upper())]
ptr_ctx = dict(cls='ptr', members=['ptr_'], post=[(r'\bNULL\b', '0')])

SPEC = dict(
    properties=['C19', 'C02'],
    ctx=base,
    extracts={
        # ---- _state: phase + recursion count, the guard, the default (recursive mutex) lock factory
        'phase_enum': dict(file=B, kind='expr', sig=r'enum phase : uint8_t \{([^}]*)\};'),
        'recursion_init': dict(file=B, kind='expr', sig=r'uint16_t recursion_\{([^}]*)\};'),
        'phase_init': dict(file=B, kind='expr', sig=r'phase phase_\{([^}]*)\};'),
        'holder_init': dict(file=B, kind='expr', sig=r'_safe_cb_base::holder safe_cb_holder_\{([^}]*)\};', ctx=dict(post=[(r'\bNULL\b', '0')])),
        'state_finished': dict(file=B, sig=r'bool finished\(\) const noexcept', within=STATE, ctx=st_ctx),
        'state_completed': dict(file=B, sig=r'bool completed\(\) const noexcept', within=STATE, ctx=st_ctx),
        'state_not_started': dict(file=B, sig=r'bool not_started\(\) const noexcept', within=STATE, ctx=st_ctx),
        'state_set_started': dict(file=B, sig=r'void set_started\(\) noexcept', within=STATE, ctx=st_ctx),
        'state_set_finished': dict(file=B, sig=r'void set_finished\(\) noexcept', within=STATE, ctx=st_ctx),
        'guard_recursion_init': dict(file=B, kind='expr', sig=r', recursion_\((state\.recursion_)\) \{', ctx=dict(pre=[(r'\bstate\.', 'state->')])),
        'guard_ctor': dict(file=B, sig=r'guard\(_state& state, ArgRefs\.\.\. args\) noexcept', within=[STATE, GUARD], ctx=gd_ctx, must_contain=[r'\+\+recursion_']),
        'guard_dtor': dict(file=B, sig=r'~guard\(\) noexcept', within=[STATE, GUARD], ctx=gd_ctx, must_contain=[r'--recursion_']),
        'lock_factory': dict(file=B, sig=r'auto operator\(\)\(_lockable& state\) const noexcept', within=LOCKABLE,
                             ctx=dict(cls='lockable', pre=[(r'return std::lock_guard\{state\.mutex_\};', 'VF_RLOCK(&state->mutex_); return;')])),
        # ---- _op
        'op_set_value': dict(file=B, sig=r'void set_value\(Ts&&\.\.\. args\) noexcept', within=OP, ctx=op_ctx),
        'op_set_error': dict(file=B, sig=r'void set_error\(std::exception_ptr ex\) noexcept', within=OP, ctx=op_ctx),
        # (a requires-clause before the body defeats the brace locator: the body is taken as the text of the block)
        'op_set_done': dict(file=B, kind='expr', sig=r'(?s)void set_done\(\) noexcept\s*requires Tr::sends_done\s*(\{.*?\n  \})', within=OP, ctx=op_ctx),
        'op_start': dict(file=B, sig=r'friend void tag_invoke\(tag_t<start>, _op& self\) noexcept', within=OP, ctx=op_ctx),
        'op_start_impl': dict(file=B, sig=r'bool start_impl\(\) noexcept\(nothrow_on_start\(\)\)', within=OP, ctx=op_ctx),
        'op_callback_impl': dict(file=B, sig=r'bool callback_impl\(Args&&\.\.\. args\) noexcept', within=OP, ctx=op_ctx),
        'op_complete': dict(file=B, sig=r'void complete\(\) noexcept', within=OP, ctx=op_ctx, must_contain=[r'receiver_\.complete']),
        'op_safe_cb_holder': dict(file=B, sig=r'const _safe_cb_base::holder& safe_cb_holder\(\) noexcept', within=OP, ctx=op_ctx),
        'op_dtor': dict(file=B, sig=r'~_op\(\) noexcept', within=OP, ctx=op_ctx),
        'stop_callback': dict(file=B, sig=r'void operator\(\)\(\) const noexcept', within=STOPCB, ctx=scb_ctx),
        # ---- callbacks
        'safe_get': dict(file=B, sig=r'ptr get\(\) const noexcept', within=SAFE,
                         ctx=dict(cls='safe_cb', members=['weak_'], pre=[(r'ptr\{weak_\.lock\(\)\}', 'safe_ptr_make(EV_weak_lock(this))')])),
        'safe_ptr_op': dict(file=B, sig=r'Op\* op\(\) const noexcept', within=SAFE, ctx=ptr_ctx),
        'safe_ptr_bool': dict(file=B, sig=r'operator bool\(\) const noexcept', within=SAFE, ctx=ptr_ctx),
        'unsafe_get': dict(file=B, sig=r'ptr get\(\) const noexcept', within=UNSAFE,
                           ctx=dict(cls='unsafe_cb', members=['op_'], pre=[(r'ptr\{op_\}', 'unsafe_ptr_make(op_)')])),
        'unsafe_ptr_op': dict(file=B, sig=r'Op\* op\(\) const noexcept', within=UNSAFE, ctx=ptr_ctx),
        'unsafe_ptr_bool': dict(file=B, sig=r'operator bool\(\) const noexcept', within=UNSAFE, ctx=ptr_ctx),
        'safe_call': dict(file=B, sig=r'void operator\(\)\(Args\.\.\. args\) const noexcept', within=CALLBACK, ctx=cb_ctx('safe')),
        'unsafe_call': dict(file=B, sig=r'void operator\(\)\(Args\.\.\. args\) const noexcept', within=CALLBACK, ctx=cb_ctx('unsafe')),
        # ---- the receiver wrapper's delivery of the stored result
        'wrapper_complete': dict(file=B, sig=r'void complete\(\) noexcept', within=WRAP,
                                 ctx=dict(cls='wrapper', pre=[(r'\(\*complete_\)\(this, std::move\(this->receiver_\)\);', 'if (EV_deliver_stored(this)) goto vf_catch;'),
                                                              (r'unifex::set_error\(std::move\(this->receiver_\), std::current_exception\(\)\);', 'EV_deliver_error(this);')] + TRY_CATCH)),
        # ---- create_raw_sender: connect, and the aggregate that gives a callable start() / stop()
        'raw_connect_impl': dict(file=R, sig=r'static auto connect_impl_\(FnRef&& fn, Receiver&& rec\) noexcept\(\s*noexcept\(std::forward<FnRef>\(fn\)\(std::forward<Receiver>\(rec\)\)\)\)', within=RAWSND,
                                 ctx=dict(cls='raw', pre=[(r'using state_t =\s*decltype\(std::forward<FnRef>\(fn\)\(std::forward<Receiver>\(rec\)\)\);', ''),
                                                          (r'std::is_invocable_v<_start_cpo::_fn, state_t&>', 'VF_CFG_has_start'),
                                                          (r'_lambda_op::_op<state_t>\{\s*std::forward<FnRef>\(fn\)\(std::forward<Receiver>\(rec\)\)\}', 'lambda_op_wrap(EV_factory(fn, rec))'),
                                                          (r'std::forward<FnRef>\(fn\)\(std::forward<Receiver>\(rec\)\)', 'EV_factory(fn, rec)')])),
        'raw_connect_rvalue': dict(file=R, sig=r'tag_invoke\(tag_t<connect>, _sender&& self, Receiver&& rec\) noexcept\(noexcept\(\s*connect_impl_\(std::move\(self\.fn_\), std::forward<Receiver>\(rec\)\)\)\)', within=RAWSND,
                                   ctx=dict(cls='raw', pre=[(r'connect_impl_\(std::move\(self\.fn_\), std::forward<Receiver>\(rec\)\)', 'raw_connect_impl(&self->fn_, rec)')])),
        'raw_connect_lvalue': dict(file=R, sig=r'tag_invoke\(tag_t<connect>, _sender& self, Receiver&& rec\) noexcept\(\s*noexcept\(connect_impl_\(self\.fn_, std::forward<Receiver>\(rec\)\)\)\)', within=RAWSND,
                                   ctx=dict(cls='raw', pre=[(r'connect_impl_\(self\.fn_, std::forward<Receiver>\(rec\)\)', 'raw_connect_impl(&self->fn_, rec)')])),
        'lop_plain_start': dict(file=L, sig=r'void start\(\) noexcept', within=LOP_PLAIN, ctx=dict(cls='lop', pre=[(r'callable_\(\);', 'EV_lambda(this, LE_CALL, 0);')])),
        'lop_evt_start': dict(file=L, sig=r'void start\(\) noexcept', within=LOP_EVT,
                              ctx=dict(cls='lop', pre=LOP_PRE)),
        'lop_evt_stop': dict(file=L, sig=r'void stop\(\) noexcept', within=LOP_EVT,
                             ctx=dict(cls='lop', pre=LOP_PRE)),
    },
    closed_world=[dict(file=B, members=['phase_', 'recursion_', 'safe_cb_holder_'],
                       allow=[r', recursion_\(state\.recursion_\) \{', r'uint16_t& recursion_;', r'uint16_t recursion_\{0\};', r'phase phase_\{starting\};',
                              r'_safe_cb_base::holder safe_cb_holder_\{nullptr\};'])],
    units=[
        dict(name='op_set_value', harness='h_op_set_value', enforce='op_set_value', props=['C19']),
        dict(name='op_set_error', harness='h_op_set_error', enforce='op_set_error', props=['C19']),
        dict(name='op_set_done', harness='h_op_set_done', enforce='op_set_done', props=['C19']),
        dict(name='op_safe_cb_holder', harness='h_op_safe_cb_holder', enforce='op_safe_cb_holder', props=['C19']),
        dict(name='op_complete', harness='h_op_complete', enforce='op_complete', props=['C19', 'C02']),
        dict(name='op_callback_impl', harness='h_op_callback_impl', enforce='op_callback_impl', props=['C19', 'C02']),
        dict(name='op_start', harness='h_op_start', enforce='op_start', defines=['VF_START_BODY_DOES_NOT_THROW'], props=['C19', 'C02']),
        dict(name='op_start_body_throws', harness='h_op_start', enforce='op_start', props=['C19', 'C02']),
        dict(name='stop_callback', harness='h_stop_callback', enforce='stop_callback_call', props=['C19', 'C02']),
        dict(name='op_dtor', harness='h_op_dtor', enforce='op_dtor', props=['C19', 'C02']),
        dict(name='safe_callback_expired', harness='h_safe_callback', enforce='safe_callback_call', defines=['VF_STUB_CALLBACK_IMPL', 'VF_CELL_EXPIRED'], props=['C19', 'C02']),
        dict(name='safe_callback_live', harness='h_safe_callback', enforce='safe_callback_call', defines=['VF_STUB_CALLBACK_IMPL', 'VF_OP_PROTECTED'], props=['C19']),
        dict(name='safe_callback_race', harness='h_safe_callback', enforce='safe_callback_call', defines=['VF_STUB_CALLBACK_IMPL'], props=['C19', 'C02']),
        dict(name='unsafe_callback', harness='h_unsafe_callback', enforce='unsafe_callback_call', defines=['VF_STUB_CALLBACK_IMPL'], props=['C19']),
        dict(name='wrapper_complete', harness='h_wrapper_complete', enforce='wrapper_complete', props=['C19']),
        dict(name='raw_connect_rvalue', harness='h_raw_connect_rvalue', enforce='raw_connect_rvalue', props=['C19']),
        dict(name='raw_connect_lvalue', harness='h_raw_connect_lvalue', enforce='raw_connect_lvalue', props=['C19']),
        dict(name='lop_plain_start', harness='h_lop_plain_start', enforce='lop_plain_start', props=['C19']),
        dict(name='lop_evt_start', harness='h_lop_evt_start', enforce='lop_evt_start', props=['C19']),
        dict(name='lop_evt_stop', harness='h_lop_evt_stop', enforce='lop_evt_stop', props=['C19']),
        dict(name='lemma_basic_protocol', harness='lemma_basic_protocol', mode='lemma', props=['C19', 'C02']),
        dict(name='lemma_basic_rely', harness='lemma_basic_rely', mode='lemma', props=['C19']),
        dict(name='lemma_basic_init', harness='lemma_basic_init', mode='lemma', props=['C19']),
    ],
    assumptions=[
        'the operation\'s lock is the default std::recursive_mutex (monitor model: acquiring it from depth 0 lets all other threads run; data protected by it is accessed only under it); a user-supplied lock factory must behave like it',
        'the user\'s body calls op.set_value/set_error/set_done and safe_callback()/safe_cb_holder() only from inside body(...) (i.e. under the lock); the body is modelled as up to three such calls, nested synchronous callbacks / stop requests having the same effects',
        'start() is called once, not under the operation\'s own lock; user callbacks exist only after body(start) has been entered; the operation is not destroyed while start() runs or a completion is pending',
        'the stop callback runs at most once, only while registered; its destructor waits for a run in progress on another thread and is a no-op from inside that run (C03, specs/stop_token)',
        'UNSAFE callbacks (unsafe_callback / unsafe_errback, and the opaque() pair of the unsafe base): the user guarantees that they are not invoked after, or concurrently with, the sender\'s completion (documented MUST NOT): verified only under that assumption (unit unsafe_callback)',
        'unit safe_callback_live assumes that nothing completes the operation between weak_.lock() and callback_impl() taking the lock; without that assumption the obligation fails (unit safe_callback_race, tier thorough: genuine defect, native reproducers probes/native/create_basic_safe_callback_*.cpp)',
        'unit op_start assumes body(start) does not throw (both `if constexpr (nothrow_on_start())` branches are still verified); with a throwing body the obligations fail (unit op_start_body_throws, tier thorough: genuine defect, probes/native/create_basic_start_throw_after_callback_double_completion.cpp)',
        'the receiver may destroy the operation as soon as receiver_.complete() has been called',
        'atomics / mutex sequentially consistent',
    ],
    drops=['template genericity (Tr, Receiver, Body, CtxFactory, LockFactory, ValueTypes..., Event, Fallback, Args...): one instantiation per use site; every `if constexpr` condition is a symbolic constant, both branches verified',
           'payload of callbacks and completion signals; std::exception_ptr / std::current_exception()',
           'receiver_ (the _receiver_wrapper: defer_complete_with / manual_lifetime_union / finalizer_: lambda-valued members) -> EV_defer / EV_receiver_complete; only _receiver_wrapper::complete() is extracted',
           'stop_ (manual_lifetime<stop callback>) -> EV_stop_construct / EV_stop_destruct; get_stop_token(receiver)',
           'std::shared_ptr<void*> / std::weak_ptr<void*> -> a static heap cell HC, strong-reference ghosts (holder, my_refs, inflight_env), weak_.lock() -> EV_weak_lock; std::make_shared -> EV_make_shared',
           'std::lock_guard{state.mutex_} -> VF_RLOCK; the factory selection machinery (_first_valid_factory_result / construct()) is not extracted: the default factory is called with the lockable state',
           '_state::guard: member initialisers and member destruction order written in the template around the extracted constructor / destructor bodies; `auto guard{lock()}` -> RAII rule',
           'exceptions: UNIFEX_TRY/CATCH made explicit by spec-level regexes; the exception leaving start_impl() is a ghost flag (VF_THROW / VF_THREW)',
           '_opaque_safe_cb::callback / _safe_cb_base::from_opaque / _callback::opaque() (C-style context + function pointer pairs): same weak_.lock() + callback_impl() shape as _callback::operator(); not extracted (static member templates with nested if constexpr over Fallback pointer-ness)',
           'create.hpp (create<>() built on create_raw_sender with _create::_op), make_traits.hpp (compile-time only)',
           'create_raw_sender: the sender constructor, _fn::operator() (forwarding), traits machinery'],
)
