#include <stddef.h>
#include <stdint.h>
#include "vf.h"
enum { /*@EXPR phase_enum*/ };
R0 = /*@EXPR recursion_init*/; P0 = /*@EXPR phase_init*/; H0 = /*@EXPR holder_init*/;
_Bool state_finished(struct state_t* self)
/*@BODY state_finished*/
_Bool state_completed(struct state_t* self)
/*@BODY state_completed*/
_Bool state_not_started(struct state_t* self)
/*@BODY state_not_started*/
void state_set_started(struct state_t* self)
/*@BODY state_set_started*/
void state_set_finished(struct state_t* self)
/*@BODY state_set_finished*/
GRI = /*@EXPR guard_recursion_init*/;
void guard_ctor()
/*@BODY guard_ctor*/
void guard_dtor()
/*@BODY guard_dtor*/
void lock_factory()
/*@BODY lock_factory*/
void op_set_value()
/*@BODY op_set_value*/
void op_set_error()
/*@BODY op_set_error*/
void op_set_done()
/*@BODY op_set_done*/
void op_start()
/*@BODY op_start*/
void op_start_impl()
/*@BODY op_start_impl*/
void op_callback_impl()
/*@BODY op_callback_impl*/
void op_complete()
/*@BODY op_complete*/
void op_safe_cb_holder()
/*@BODY op_safe_cb_holder*/
void op_dtor()
/*@BODY op_dtor*/
void stop_callback()
/*@BODY stop_callback*/
void safe_get()
/*@BODY safe_get*/
void safe_ptr_op()
/*@BODY safe_ptr_op*/
void safe_ptr_bool()
/*@BODY safe_ptr_bool*/
void unsafe_get()
/*@BODY unsafe_get*/
void unsafe_ptr_op()
/*@BODY unsafe_ptr_op*/
void unsafe_ptr_bool()
/*@BODY unsafe_ptr_bool*/
void safe_call()
/*@BODY safe_call*/
void unsafe_call()
/*@BODY unsafe_call*/
void wrapper_complete()
/*@BODY wrapper_complete*/
void raw_connect_impl()
/*@BODY raw_connect_impl*/
void raw_connect_rvalue()
/*@BODY raw_connect_rvalue*/
void raw_connect_lvalue()
/*@BODY raw_connect_lvalue*/
void lop_plain_start()
/*@BODY lop_plain_start*/
void lop_evt_start()
/*@BODY lop_evt_start*/
void lop_evt_stop()
/*@BODY lop_evt_stop*/
