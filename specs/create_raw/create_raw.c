/* C19 (+ C02: the operation is not touched after its completion was delivered): include/unifex/create_basic_sender.hpp --
 * _state (phase + recursion count, guard), the default lock factory, _op::{set_value, set_error, set_done, start (tag_invoke), start_impl,
 * callback_impl, complete, safe_cb_holder, ~_op}, _stop_callback::operator(), _callback::operator() for the safe and the unsafe base,
 * _safe_cb_base / _unsafe_cb_base {get, ptr::op, ptr::operator bool}, _receiver_wrapper::complete;
 * include/unifex/create_raw_sender.hpp connect_impl_ + both connect overloads; include/unifex/detail/lambda_op.hpp start / stop.
 * Bodies marked @BODY/@EXPR are extracted from /repo on every run.
 *
 * Monitor model of the operation's recursive mutex: the protected state is phase_, recursion_, safe_cb_holder_ and the result stored in the
 * receiver wrapper (ghost `deferred`).  Acquiring the mutex from depth 0 lets every other thread run first (vf_env: havoc subject to the
 * rely, leaving the monitor invariant LI); the outermost release asserts LI and lets them run again.  The thread that first releases the
 * mutex with `finished && start has run` owns the completion (ghost claim): it alone calls complete(), outside the lock. */
#include <stddef.h>
#include <stdint.h>

struct vf_rmutex { int id; };
struct state_t { uint16_t recursion_; uint8_t phase_; struct vf_rmutex mutex_; };
struct op { struct state_t state_; void** safe_cb_holder_; int receiver_, stop_, ctx_, lock_factory_, body_; };
struct op_guard { uint16_t* recursion_; struct vf_rmutex* locked; };     /* _state::guard: guard_ (the lock_guard) + the reference to recursion_ */
struct stop_callback { struct op* op_; };
struct safe_cb { int weak_; int fallback_; };                            /* _callback<.., _safe_cb_base, ..> */
struct unsafe_cb { void* op_; int fallback_; };                          /* _callback<.., _unsafe_cb_base, ..> */
struct safe_ptr { void** ptr_; };                                        /* _safe_cb_base::ptr: the locked shared_ptr<void*> */
struct unsafe_ptr { void* ptr_; };
struct wrapper { int receiver_; };
struct raw_sender { int fn_; };
struct lop { int lambda_; };

enum { T_START, T_CB, T_STOP, T_DTOR };
enum { ENV_STOP_ONLY, ENV_PROT, ENV_FREE };   /* what the other threads can do while I am outside the lock: only the stop callback can run (before start's
                                                 locked section no user callback exists) / nobody can deliver the completion / anything */
enum { CL_NONE, CL_ME, CL_ENV };
enum { SC_NONE, SC_LIVE, SC_DESTROYED };
enum { DK_NONE, DK_VALUE, DK_ERROR, DK_DONE };
enum { EVT_START, EVT_CALLBACK, EVT_STOP };
enum { LE_CALL, LE_START, LE_STOP };

struct proto { uint8_t ph; _Bool start_ran; uint8_t deferred; _Bool holder; uint8_t claim, completes, stop_cb; _Bool dead; };
struct vf_ghost {
  int me, env_mode;
  _Bool sends_done, nothrow_start, nothrow_stop, nothrow_body, has_fallback, has_start, takes_self;   /* configuration (if constexpr) */
  unsigned depth, depth0;      /* how often my thread holds the recursive mutex now / held it when the call under verification began */
  _Bool start_ran;             /* start_impl's locked section has run */
  uint8_t deferred, kind;      /* results stored in the receiver wrapper, and which */
  uint8_t claim, completes, stop_cb;
  _Bool dead;                  /* the receiver has destroyed the operation */
  _Bool inflight_env;          /* another callback frame somewhere holds a locked shared_ptr to the heap cell */
  unsigned my_refs;            /* locked shared_ptrs held by the call under verification */
  struct op snap;
  /* effects of the call under verification */
  unsigned body_start, body_cb, body_stop, defers, my_completes, stop_constructs, stop_destructs, holder_resets, made_shared, fallbacks, cb_impl_calls;
  unsigned locks, stored, errors, factory_calls, wraps, lambda_calls; int lambda_evt; _Bool lambda_self;
  _Bool threw, any_throw;      /* an exception is in flight out of start_impl / some body threw */
  _Bool locked_once; uint8_t ph_at_lock;   /* phase found at the first acquisition of this call */
  _Bool stopped_before_start;
  _Bool stored_threw, impl_ret, got_ptr;
  _Bool cb_safe;               /* the call under verification is a safe callback: its weak_ptr observes the operation's heap cell */
};
static struct vf_ghost G;
static struct op OP;
static void* HC;               /* the heap cell of std::make_shared<void*>(this) */
static struct stop_callback SCB;
static struct safe_cb SAFE_CB;
static struct unsafe_cb UNSAFE_CB;
static struct wrapper WR;
static struct raw_sender RS;
static struct lop LOP;

#include "vf.h"
static void vf_interfere(void) {}

enum { /*@EXPR phase_enum*/ };
#define VF_ALIVE(p) ({ VF_P(!G.dead, "no access to the operation state after its completion was delivered (the receiver may have destroyed it)"); (p); })
#define VF_CFG_sends_done G.sends_done
#define VF_CFG_nothrow_start G.nothrow_start
#define VF_CFG_nothrow_stop G.nothrow_stop
#define VF_CFG_nothrow_body G.nothrow_body
#define VF_CFG_has_fallback G.has_fallback
#define VF_CFG_has_start G.has_start
#define VF_CFG_takes_self G.takes_self

static _Bool state_finished(struct state_t* self)
/*@BODY state_finished*/
static _Bool state_completed(struct state_t* self)
/*@BODY state_completed*/
static _Bool state_not_started(struct state_t* self)
/*@BODY state_not_started*/
static void state_set_started(struct state_t* self)
/*@BODY state_set_started*/
static void state_set_finished(struct state_t* self)
/*@BODY state_set_finished*/

/* ---------------- protocol predicates (specification) ---------------- */
#define IMP(a, b) (!(a) || (b))
#define FIN(ph) ((ph) == stopped_early || (ph) == completed_normally)
#define PH_REACH(x, y) ((x) == (y) || ((x) == starting && (y) <= completed_normally) || ((x) == started && (y) == completed_normally))
/* monitor invariant: holds whenever no thread holds the mutex */
#define LIV(ph, sr, df, ho, cl, co, sc, dd) ( (ph) <= completed_normally && (df) <= 1 && (co) <= 1 && (cl) <= CL_ENV && (sc) <= SC_DESTROYED \
  && (FIN(ph) == ((df) == 1)) \
  && IMP((ph) == starting, !(sr)) && IMP((ph) == started || (ph) == completed_normally, (sr)) \
  && (((cl) != CL_NONE) == (FIN(ph) && (sr))) /* the completion is owned as soon as the mutex is free with `finished` and start has run */ \
  && IMP((ho), (ph) == started)               /* ... and then the operation holds no reference to the heap cell any more */ \
  && IMP((co) == 1, (cl) != CL_NONE && IMP(G.sends_done, (sc) == SC_DESTROYED)) && IMP((dd), (co) == 1) \
  && IMP(!G.sends_done, (sc) == SC_NONE) && IMP(G.sends_done && (sc) == SC_NONE, (ph) == starting) && IMP(G.sends_done && (sr), (sc) != SC_NONE) \
  && IMP((sc) == SC_DESTROYED, (cl) != CL_NONE) )
#define LI(p) LIV((p).ph, (p).start_ran, (p).deferred, (p).holder, (p).claim, (p).completes, (p).stop_cb, (p).dead)
#define LI_NOW (LIV(OP.state_.phase_, G.start_ran, G.deferred, OP.safe_cb_holder_ != NULL, G.claim, G.completes, G.stop_cb, G.dead) && OP.state_.recursion_ == 0)
#define PROTO_NOW(p) do { (p).ph = OP.state_.phase_; (p).start_ran = G.start_ran; (p).deferred = G.deferred; (p).holder = OP.safe_cb_holder_ != NULL; \
  (p).claim = G.claim; (p).completes = G.completes; (p).stop_cb = G.stop_cb; (p).dead = G.dead; } while (0)

/* what the other threads may have done between two of my observations (mode: see ENV_*) */
#define RELY(a, b, mode) ( PH_REACH((a).ph, (b).ph) && IMP((a).start_ran, (b).start_ran) && (b).deferred >= (a).deferred && (b).completes >= (a).completes \
  && IMP((a).dead, (b).dead) && (b).stop_cb >= (a).stop_cb && IMP((a).stop_cb == SC_NONE, (b).stop_cb == SC_NONE) \
  && IMP((a).claim == CL_ME, (b).claim == CL_ME) && IMP((a).claim == CL_ENV, (b).claim == CL_ENV) && IMP((a).claim == CL_NONE, (b).claim != CL_ME) \
  && IMP((a).claim == CL_ME, (b).ph == (a).ph && (b).start_ran == (a).start_ran && (b).deferred == (a).deferred && (b).holder == (a).holder \
         && (b).completes == (a).completes && (b).stop_cb == (a).stop_cb && (b).dead == (a).dead)   /* nobody but the owner completes; a finished operation runs no body */ \
  && IMP((mode) == ENV_STOP_ONLY, (b).claim == CL_NONE && (b).completes == 0 && !(b).dead && (b).holder == (a).holder && (b).stop_cb == (a).stop_cb \
         && !(b).start_ran && ((b).ph == (a).ph || ((a).ph == starting && (b).ph == stopped_early && (a).stop_cb == SC_LIVE))) \
  && IMP((mode) == ENV_PROT, (b).completes == (a).completes && (b).dead == (a).dead && (b).stop_cb == (a).stop_cb) \
  && IMP(G.me == T_START, (b).start_ran == (a).start_ran) )

#define OP_EQ_SNAP (OP.state_.recursion_ == G.snap.state_.recursion_ && OP.state_.phase_ == G.snap.state_.phase_ && OP.safe_cb_holder_ == G.snap.safe_cb_holder_ \
  && OP.receiver_ == G.snap.receiver_ && OP.stop_ == G.snap.stop_ && OP.ctx_ == G.snap.ctx_ && OP.lock_factory_ == G.snap.lock_factory_ && OP.body_ == G.snap.body_)
#define DEAD_OK (!G.dead || OP_EQ_SNAP)
static void vf_op_dies(void) {
  struct op f;
  OP.state_.recursion_ = f.state_.recursion_; OP.state_.phase_ = f.state_.phase_; OP.safe_cb_holder_ = VF_nondet_bool() ? &HC : NULL;
  OP.receiver_ = f.receiver_; OP.stop_ = f.stop_; OP.ctx_ = f.ctx_; OP.lock_factory_ = f.lock_factory_; OP.body_ = f.body_;
  G.snap = OP; G.dead = 1;
}
static struct proto any_proto(void) {
  struct proto p;
  p.ph = VF_nondet_u8(); p.start_ran = VF_nondet_bool() ? 1 : 0; p.deferred = VF_nondet_u8(); p.holder = VF_nondet_bool() ? 1 : 0; p.claim = VF_nondet_u8();
  p.completes = VF_nondet_u8(); p.stop_cb = VF_nondet_u8(); p.dead = VF_nondet_bool() ? 1 : 0;
  return p;
}
/* strong references to the heap cell: the operation's holder, locked shared_ptrs of this call, locked shared_ptrs of callback frames elsewhere */
#define CELL_ALIVE ((!G.dead && OP.safe_cb_holder_ != NULL) || G.my_refs > 0 || G.inflight_env)
/* the other threads run (only called while my thread does not hold the mutex) */
static void vf_env(void) {
  if (G.me == T_DTOR) return;
  _Bool alive_before = CELL_ALIVE;
  if (G.dead) { if (VF_nondet_bool()) G.inflight_env = 0; return; }
  struct proto a, b;
  PROTO_NOW(a);
  b = any_proto();
  __CPROVER_assume(LI(b) && RELY(a, b, G.env_mode));
  __CPROVER_assume(IMP(G.cb_safe && !a.holder, !b.holder));     /* the cell my weak_ptr observes was created once; a reset holder is not set again (no body runs after completion) */
  if (a.ph == starting && b.ph == stopped_early) G.stopped_before_start = 1;
  if (b.deferred > a.deferred) G.kind = (b.ph == stopped_early && !b.start_ran) ? DK_DONE : (uint8_t)(1 + VF_nondet_u8() % 3);
  if (b.holder) HC = &OP;
  OP.state_.phase_ = b.ph; G.start_ran = b.start_ran; G.deferred = b.deferred; OP.safe_cb_holder_ = b.holder ? &HC : NULL;
  G.claim = b.claim; G.completes = b.completes; G.stop_cb = b.stop_cb;
  /* callback frames of other threads lock the weak_ptr (possible only while the cell is alive) and drop their shared_ptr whenever they return */
  G.inflight_env = (alive_before || b.holder) ? VF_nondet_bool() : 0;
  if (b.dead) vf_op_dies();
}

/* ---------------- the recursive mutex (monitor) ---------------- */
static void vf_rlock(struct vf_rmutex* m) {
  VF_P(!G.dead, "the mutex of a destroyed operation is never locked");
  VF_P(m == &OP.state_.mutex_, "the operation's own mutex");
  if (G.depth == 0) vf_env();              /* every other thread ran until the mutex was free: the state found satisfies LI */
  G.depth++; G.locks++;
  if (!G.locked_once) { G.locked_once = 1; G.ph_at_lock = OP.state_.phase_; }
}
static void vf_runlock(struct vf_rmutex* m) {
  VF_P(!G.dead && m == &OP.state_.mutex_ && G.depth >= 1, "only a held mutex of a live operation is released");
  G.depth--;
  if (G.depth == 0) {
    /* the frame that first leaves the monitor `finished` after start has run owns the completion */
    if (G.me == T_START) G.start_ran = 1;     /* start's locked section(s): set_started() must have moved the phase (LI) */
    if (FIN(OP.state_.phase_) && G.start_ran && G.claim == CL_NONE) G.claim = CL_ME;
    VF_P(LI_NOW, "monitor invariant at the outermost unlock: result stored iff finished, completion owned, holder reset once finished (late safe callbacks find an expired weak_ptr), recursion count back to 0");
    if (G.me == T_START || G.me == T_CB) G.env_mode = ENV_FREE;     /* user callbacks exist now; nothing keeps the others from completing */
    vf_env();
  }
}
#define VF_RLOCK(m) vf_rlock(m)

/* ---------------- event stubs ---------------- */
static void EV_defer(struct op* self, int kind) {           /* receiver_.set_value/set_error/set_done: the result is stored in the wrapper */
  VF_CANARY("a result can be stored");
  VF_P(self == &OP && !G.dead && G.depth >= 1, "a result is stored in the live operation, under its lock");
  VF_P(G.deferred == 0 && G.defers == 0, "at most one completion result is ever stored: exactly one of the racing completions wins");
  VF_P(FIN(OP.state_.phase_), "the phase is `finished` before the result is stored");
  G.deferred = 1; G.kind = (uint8_t)kind; G.defers++;
}
static void EV_stop_construct(struct op* self) {            /* stop_.construct(token, _stop_callback{*this}): may fire inline or concurrently */
  VF_CANARY("stop callback construction reachable");
  VF_P(self == &OP && !G.dead && G.me == T_START && G.sends_done, "the stop callback is registered by start(), for a sender that sends done");
  VF_P(G.stop_cb == SC_NONE && G.stop_constructs == 0 && !G.start_ran, "the stop callback is registered exactly once, before start's locked section");
  G.stop_cb = SC_LIVE; G.stop_constructs++;
  if (G.depth == 0) vf_env();
}
static void EV_stop_destruct(struct op* self) {             /* stop_.destruct(): waits for a run in progress on another thread */
  VF_CANARY("stop callback destruction reachable");
  VF_P(self == &OP && !G.dead && G.sends_done, "the stop callback is destroyed in the live operation");
  VF_P(G.stop_cb == SC_LIVE && G.stop_destructs == 0, "the stop callback is destroyed exactly once (registered, not yet destroyed)");
  VF_P(G.me == T_DTOR || (G.claim == CL_ME && G.depth == 0), "the stop callback is destroyed by the owner of the completion, outside the lock (its destructor waits for a running callback, which takes the lock)");
  if (G.depth == 0) vf_env();
  G.stop_cb = SC_DESTROYED; G.stop_destructs++;
}
static void EV_receiver_complete(struct op* self) {         /* receiver_.complete(): the stored result reaches the receiver, which may destroy the operation */
  VF_CANARY("completion delivery reachable");
  VF_P(self == &OP && !G.dead, "the completion is delivered from the live operation");
  VF_P(G.claim == CL_ME, "only the owner of the completion delivers it");
  VF_P(G.completes == 0 && G.my_completes == 0, "the receiver is completed exactly once");
  VF_P(G.deferred == 1, "a result has been stored before it is delivered");
  VF_P(G.depth == 0, "the completion is delivered outside the operation's lock (the receiver may destroy the mutex)");
  VF_P(!G.sends_done || G.stop_cb == SC_DESTROYED, "the stop callback is destroyed before the receiver is completed");
  VF_P(OP.safe_cb_holder_ == NULL, "the holder is reset before the receiver is completed");
  G.completes = 1; G.my_completes++;
  if (VF_nondet_bool()) vf_op_dies();
}
static void EV_holder_reset(void*** h) {
  VF_P(h == &OP.safe_cb_holder_ && !G.dead && G.depth >= 1, "the holder is reset under the lock");
  *h = NULL; G.holder_resets++;
}
static void** EV_make_shared(struct op* self) {
  VF_P(self == &OP && !G.dead && G.depth >= 1, "the heap cell is created under the lock");
  HC = self; G.made_shared++;
  return &HC;
}

/* ---------------- _state::guard and the default lock factory ---------------- */
static void lockable_factory_call(struct state_t* state)
/*@BODY lock_factory*/
static void guard_ctor(struct op_guard* self, struct state_t* state) {
  /* : guard_(construct(args...)) -- the lock factory is called with the first argument it accepts (the default one takes the lockable state) */
  lockable_factory_call(state); self->locked = &state->mutex_;
  self->recursion_ = &(/*@EXPR guard_recursion_init*/);
  /*@BODY guard_ctor*/
}
static void guard_dtor(struct op_guard* self) {
  /*@BODY guard_dtor*/
  vf_runlock(self->locked);              /* members are destroyed after the destructor's body: guard_ (the lock_guard) unlocks last */
}
#define OP_GUARD_CTOR(g) guard_ctor((g), &VF_ALIVE(VF_CUR_OP)->state_)
#define OP_GUARD_DTOR(g) guard_dtor(g)
#define VF_THROW() (G.threw = 1)
static _Bool VF_THREW(void) { _Bool t = G.threw; G.threw = 0; return t; }

/* ---------------- functions under contract ---------------- */
#define COUNTERS_ZERO (G.body_start == 0 && G.body_cb == 0 && G.body_stop == 0 && G.defers == 0 && G.my_completes == 0 && G.stop_constructs == 0 && G.stop_destructs == 0 \
  && G.holder_resets == 0 && G.made_shared == 0 && G.fallbacks == 0 && G.cb_impl_calls == 0 && G.locks == 0 && !G.threw && !G.any_throw && !G.locked_once && G.my_refs == 0 && !G.got_ptr)
/* state while my thread holds the mutex (called from inside a body) */
#define INSIDE_NOW (G.depth >= 1 && G.depth < 1000 && OP.state_.recursion_ == G.depth && OP.state_.phase_ <= completed_normally && (FIN(OP.state_.phase_) == (G.deferred == 1)) && G.deferred <= 1 \
  && G.claim == CL_NONE && G.completes == 0 && !G.dead && (OP.safe_cb_holder_ == NULL || (OP.safe_cb_holder_ == &HC && HC == &OP)) \
  && (G.sends_done ? G.stop_cb == SC_LIVE : G.stop_cb == SC_NONE))

#define SET_REQ(self) ((self) == &OP && INSIDE_NOW && COUNTERS_ZERO)
#define SET_ENS(K) ( (FIN(__CPROVER_old(OP.state_.phase_)) ==> (G.defers == 0 && OP.state_.phase_ == __CPROVER_old(OP.state_.phase_) && G.kind == __CPROVER_old(G.kind))) \
  && (!FIN(__CPROVER_old(OP.state_.phase_)) ==> (G.defers == 1 && G.kind == (K) && OP.state_.phase_ == (__CPROVER_old(OP.state_.phase_) == starting ? stopped_early : completed_normally))) \
  && G.deferred <= 1 && G.my_completes == 0 && G.holder_resets == 0 && G.locks == 0 )
#define VF_CUR_OP self
void op_set_value(struct op* self)
__CPROVER_requires(SET_REQ(self))
__CPROVER_assigns(OP, G)
__CPROVER_ensures(SET_ENS(DK_VALUE))           /* the first set_* wins; a later one changes nothing */
/*@BODY op_set_value*/
void op_set_error(struct op* self)
__CPROVER_requires(SET_REQ(self))
__CPROVER_assigns(OP, G)
__CPROVER_ensures(SET_ENS(DK_ERROR))
/*@BODY op_set_error*/
void op_set_done(struct op* self)
__CPROVER_requires(SET_REQ(self) && G.sends_done)
__CPROVER_assigns(OP, G)
__CPROVER_ensures(SET_ENS(DK_DONE))
/*@EXPR op_set_done*/

void** op_safe_cb_holder(struct op* self)
__CPROVER_requires(self == &OP && INSIDE_NOW && COUNTERS_ZERO)
__CPROVER_assigns(OP, G, HC)
__CPROVER_ensures(__CPROVER_return_value == &HC && OP.safe_cb_holder_ == &HC && HC == &OP)
__CPROVER_ensures(G.made_shared == (__CPROVER_old(OP.safe_cb_holder_) == NULL ? 1 : 0))     /* one cell per operation */
/*@BODY op_safe_cb_holder*/

/* the user's body: runs under the lock with a reference to the operation; it may complete the operation (any of set_*, any number of
 * times), create safe callbacks, and invoke callbacks / request stop synchronously (nested frames: same effects, never a completion) */
static void vf_user_action(struct op* self) {
  switch (VF_nondet_u8() & 7) {
  case 1: op_set_value(self); break;
  case 2: op_set_error(self); break;
  case 3: if (G.sends_done) op_set_done(self); break;
  case 4: (void)op_safe_cb_holder(self); break;
  default: break;
  }
}
static _Bool EV_body(struct op* self, int evt) {
  VF_P(self == &OP && !G.dead && G.depth >= 1, "the user's body runs on the live operation, under its lock");
  VF_P(!FIN(OP.state_.phase_), "no body (start / callback / stop hook) runs once the operation is finished: late callbacks are no-ops");
  if (evt == EVT_START) {
    VF_P(G.me == T_START && G.body_start == 0 && OP.state_.phase_ == started, "body(start) runs once, from start(), in phase `started`");
    G.body_start++;
  } else if (evt == EVT_STOP) {
    VF_P(G.me == T_STOP && G.sends_done && G.body_stop == 0, "the stop hook runs at most once per stop request");
    VF_P(OP.state_.phase_ == started, "the stop hook runs only for an operation that was started and has not finished");
    G.body_stop++;
  } else {
    VF_P(G.me == T_CB && G.body_cb == 0 && OP.state_.phase_ == started, "a callback's body runs once per invocation, in phase `started`");
    G.body_cb++;
  }
  vf_user_action(self); vf_user_action(self); vf_user_action(self);
  _Bool may_throw = evt == EVT_START ? !G.nothrow_start : (evt == EVT_STOP ? !G.nothrow_stop : !G.nothrow_body);
#ifdef VF_START_BODY_DOES_NOT_THROW
  if (evt == EVT_START) may_throw = 0;
#endif
  if (may_throw && VF_nondet_bool()) { G.any_throw = 1; return 1; }
  return 0;
}

/* _op::complete(): called by the owner of the completion, outside the lock */
void op_complete(struct op* self)
__CPROVER_requires(self == &OP && !G.dead && G.claim == CL_ME && G.depth == 0 && G.completes == 0 && G.deferred == 1 && G.my_completes == 0 && G.stop_destructs == 0)
__CPROVER_requires(OP.safe_cb_holder_ == NULL && G.stop_cb == (G.sends_done ? SC_LIVE : SC_NONE) && G.me != T_DTOR)
__CPROVER_assigns(OP, G, HC)
__CPROVER_ensures(G.my_completes == 1 && G.completes == 1 && G.stop_destructs == (G.sends_done ? 1 : 0))      /* stop callback destroyed (once), then the receiver completed (once) */
__CPROVER_ensures(DEAD_OK)
/*@BODY op_complete*/

static _Bool op_start_impl(struct op* self)
/*@BODY op_start_impl*/

/* a callback arrives (through a safe or an unsafe callback object, from any thread, possibly from inside a body of the same thread) */
#define CB_IMPL_REQ(self) ((self) == &OP && G.me == T_CB && G.depth == G.depth0 && COUNTERS_ZERO && (G.depth0 == 0 ? (LI_NOW && G.claim != CL_ME && G.start_ran) : (INSIDE_NOW && OP.state_.phase_ != starting)))   /* callbacks exist only once body(start) has been entered */
#ifndef VF_STUB_CALLBACK_IMPL
_Bool op_callback_impl(struct op* self, _Bool Noexcept)
__CPROVER_requires(/*P*/ !G.dead)
__CPROVER_requires(CB_IMPL_REQ(self) && Noexcept == G.nothrow_body && G.env_mode != ENV_STOP_ONLY)
__CPROVER_assigns(OP, G, HC)
/* a callback that finds the operation finished is a no-op: no body, nothing stored, nothing delivered, state untouched */
__CPROVER_ensures(__CPROVER_return_value == !FIN(G.ph_at_lock) && G.locked_once)
__CPROVER_ensures(!__CPROVER_return_value ==> (G.body_cb == 0 && G.defers == 0 && G.my_completes == 0 && G.holder_resets == 0 && G.made_shared == 0 && G.stop_destructs == 0))
__CPROVER_ensures(__CPROVER_return_value ==> G.body_cb == 1)
/* it delivers the completion iff it is the frame that left the monitor finished (outermost frame only), exactly once */
__CPROVER_ensures((G.my_completes == 1) == (G.claim == CL_ME) && G.my_completes <= 1 && G.defers <= 1)
__CPROVER_ensures(G.depth0 > 0 ==> (G.my_completes == 0 && G.claim == CL_NONE && G.holder_resets == 0))
__CPROVER_ensures(G.claim == CL_ME ==> (G.depth0 == 0 && __CPROVER_return_value && G.holder_resets == 1 && G.stop_destructs == (G.sends_done ? 1 : 0)))
__CPROVER_ensures(G.depth == G.depth0 && (G.dead || OP.state_.recursion_ == G.depth0))
__CPROVER_ensures(DEAD_OK)                               /* nothing of a destroyed operation is touched */
__CPROVER_ensures(G.body_start == 0 && G.body_stop == 0 && G.stop_constructs == 0)
__CPROVER_ensures(G.any_throw ==> G.deferred == 1)       /* a throwing body ends in a stored result (set_error unless something was stored before) */
/*@BODY op_callback_impl*/
#else
/* contract stub for the callback objects */
static _Bool op_callback_impl(struct op* self, _Bool Noexcept) {
  VF_P(G.cb_impl_calls == 0, "a callback object forwards one invocation once");
  G.cb_impl_calls++;
  VF_P(self == &OP, "the callback reaches the operation it was created for");
  VF_P(!G.dead, "a callback reaches callback_impl() only on an operation that still exists (late safe callbacks become no-ops and touch nothing of the destroyed operation)");
  VF_A(Noexcept == G.nothrow_body, "nothrow_body passed through");
  if (G.dead) return 0;
  _Bool was_finished;
  if (G.depth == 0) vf_env();
  was_finished = FIN(OP.state_.phase_);
  if (G.depth == 0) { G.env_mode = ENV_FREE; vf_env(); }
  G.impl_ret = !was_finished;
  return !was_finished;
}
#endif

/* start(op) */
void op_start(struct op* self)
__CPROVER_requires(self == &OP && G.me == T_START && G.env_mode == ENV_STOP_ONLY && G.depth == 0 && G.depth0 == 0 && COUNTERS_ZERO && !G.stopped_before_start)
__CPROVER_requires(OP.state_.phase_ == (/*@EXPR phase_init*/) && OP.state_.recursion_ == (/*@EXPR recursion_init*/) && OP.safe_cb_holder_ == (/*@EXPR holder_init*/))
__CPROVER_requires(!G.start_ran && G.deferred == 0 && G.claim == CL_NONE && G.completes == 0 && G.stop_cb == SC_NONE && !G.dead && !G.inflight_env)
__CPROVER_assigns(OP, G, HC)
__CPROVER_ensures(G.stop_constructs == (G.sends_done ? 1 : 0))                                 /* stop callback registered once (iff the sender sends done) */
__CPROVER_ensures((G.body_start == 0) == G.stopped_before_start && G.body_start <= 1)          /* body(start) runs unless stop arrived first (then done is sent instead) */
__CPROVER_ensures((G.my_completes == 1) == (G.claim == CL_ME) && G.my_completes <= 1)          /* delivers the completion iff it owns it */
__CPROVER_ensures(G.stopped_before_start ==> (G.claim == CL_ME && G.kind == DK_DONE && G.defers == 0))
__CPROVER_ensures(G.claim == CL_ME ==> (G.stop_destructs == (G.sends_done ? 1 : 0) && G.completes == 1))
__CPROVER_ensures(G.claim != CL_ME ==> G.stop_destructs == 0)
__CPROVER_ensures(G.depth == 0 && (G.dead || OP.state_.recursion_ == 0))
__CPROVER_ensures(DEAD_OK)                               /* start() does not touch an operation that somebody else completed */
__CPROVER_ensures(G.body_cb == 0 && G.body_stop == 0 && G.defers <= 1)
/*@BODY op_start*/
#undef VF_CUR_OP

/* the stop callback (any thread; inline in start's registration; or from inside a body of the same thread) */
#define VF_CUR_OP (self->op_)
void stop_callback_call(struct stop_callback* self)
__CPROVER_requires(self == &SCB && SCB.op_ == &OP && G.me == T_STOP && G.env_mode == ENV_PROT && G.sends_done && G.stop_cb == SC_LIVE && !G.dead && G.depth == G.depth0 && COUNTERS_ZERO)
__CPROVER_requires(G.depth0 == 0 ? (LI_NOW && G.claim != CL_ME) : INSIDE_NOW)
__CPROVER_assigns(OP, G, HC)
/* finished: ignored.  Not started: done is stored instead of start (start() delivers it).  Started: the stop hook runs, once. */
__CPROVER_ensures(G.locked_once)
__CPROVER_ensures(FIN(G.ph_at_lock) ==> (G.body_stop == 0 && G.defers == 0 && G.my_completes == 0 && G.holder_resets == 0))
__CPROVER_ensures(G.ph_at_lock == starting ==> (G.body_stop == 0 && G.defers == 1 && G.kind == DK_DONE && G.my_completes == 0 && G.claim != CL_ME))
__CPROVER_ensures(G.ph_at_lock == started ==> G.body_stop == 1)
__CPROVER_ensures((G.my_completes == 1) == (G.claim == CL_ME) && G.my_completes <= 1 && G.defers <= 1)
__CPROVER_ensures(G.claim == CL_ME ==> (G.depth0 == 0 && G.ph_at_lock == started && G.holder_resets == 1 && G.stop_destructs == 1))
__CPROVER_ensures(G.claim != CL_ME ==> G.stop_destructs == 0)
__CPROVER_ensures(G.depth == G.depth0 && (G.dead || OP.state_.recursion_ == G.depth0))
__CPROVER_ensures(DEAD_OK)
__CPROVER_ensures(G.body_start == 0 && G.body_cb == 0 && G.stop_constructs == 0)
__CPROVER_ensures(G.any_throw ==> G.deferred == 1)
/*@BODY stop_callback*/
#undef VF_CUR_OP

/* ~_op */
#define VF_CUR_OP self
void op_dtor(struct op* self)
__CPROVER_requires(self == &OP && G.me == T_DTOR && G.depth == 0 && !G.dead && COUNTERS_ZERO && LI_NOW)
__CPROVER_requires(G.completes == 1 || (OP.state_.phase_ == starting && G.stop_cb == SC_NONE) || OP.state_.phase_ == started)   /* not destroyed while start() runs or a completion is pending */
__CPROVER_assigns(OP, G)
__CPROVER_ensures(G.stop_cb != SC_LIVE)                                                    /* the stop callback never outlives the operation */
__CPROVER_ensures(G.stop_destructs == (__CPROVER_old(G.stop_cb) == SC_LIVE ? 1 : 0))        /* ... and is destroyed exactly once overall */
/*@BODY op_dtor*/
#undef VF_CUR_OP

/* ---------------- callback objects: _callback<Op, Base, Event, Fallback, Args...>::operator() ---------------- */
static void** EV_weak_lock(struct safe_cb* self) {          /* weak_.lock(): non-null iff some shared_ptr to the heap cell still exists */
  VF_P(self == &SAFE_CB, "the callback's own weak_ptr");
  if (G.depth == 0) vf_env();
  if (CELL_ALIVE) { G.my_refs++; G.got_ptr = 1; return &HC; }
  return NULL;
}
static void EV_fallback(void* self) { VF_P(G.has_fallback && G.fallbacks == 0, "the fallback runs at most once per invocation"); G.fallbacks++; }
static struct safe_ptr safe_ptr_make(void** p) { struct safe_ptr r; r.ptr_ = p; return r; }
static struct unsafe_ptr unsafe_ptr_make(void* p) { struct unsafe_ptr r; r.ptr_ = p; return r; }
static struct safe_ptr safe_cb_get(struct safe_cb* self)
/*@BODY safe_get*/
static struct op* safe_ptr_op(struct safe_ptr* self)
/*@BODY safe_ptr_op*/
static _Bool safe_ptr_bool(struct safe_ptr* self)
/*@BODY safe_ptr_bool*/
static struct unsafe_ptr unsafe_cb_get(struct unsafe_cb* self)
/*@BODY unsafe_get*/
static struct op* unsafe_ptr_op(struct unsafe_ptr* self)
/*@BODY unsafe_ptr_op*/
static _Bool unsafe_ptr_bool(struct unsafe_ptr* self)
/*@BODY unsafe_ptr_bool*/
#define SAFE_PTR_CTOR(p) (*(p) = safe_cb_get(self))
#define SAFE_PTR_DTOR(p) do { if ((p)->ptr_ != NULL) G.my_refs--; } while (0)       /* the locked shared_ptr is released */
#define UNSAFE_PTR_CTOR(p) (*(p) = unsafe_cb_get(self))
#define UNSAFE_PTR_DTOR(p) ((void)0)

#define CB_STATE_REQ (G.me == T_CB && G.depth == G.depth0 && COUNTERS_ZERO && HC == &OP && (G.dead ? (G.depth0 == 0 && OP_EQ_SNAP) : (G.depth0 == 0 ? (LI_NOW && G.claim != CL_ME && G.start_ran) : (INSIDE_NOW && OP.state_.phase_ != starting))))
void safe_callback_call(struct safe_cb* self)
__CPROVER_requires(self == &SAFE_CB && G.cb_safe && CB_STATE_REQ && G.env_mode != ENV_STOP_ONLY)
__CPROVER_assigns(OP, G, HC)
__CPROVER_ensures(G.cb_impl_calls == (G.got_ptr ? 1 : 0) && G.my_refs == 0)
__CPROVER_ensures(G.fallbacks == ((G.has_fallback && !(G.cb_impl_calls == 1 && G.impl_ret)) ? 1 : 0))     /* the fallback runs iff the callback did not reach a live, unfinished operation */
__CPROVER_ensures(DEAD_OK)                                /* a late safe callback touches nothing of the destroyed operation */
#ifdef VF_CELL_EXPIRED
__CPROVER_ensures(G.cb_impl_calls == 0)                   /* expired weak_ptr: no-op (plus fallback) */
#endif
/*@BODY safe_call*/

void unsafe_callback_call(struct unsafe_cb* self)
__CPROVER_requires(self == &UNSAFE_CB && UNSAFE_CB.op_ == (void*)&OP && !G.cb_safe && CB_STATE_REQ && !G.dead && G.env_mode == ENV_PROT)
__CPROVER_assigns(OP, G, HC)
__CPROVER_ensures(G.cb_impl_calls == 1 && G.my_refs == 0)
__CPROVER_ensures(G.fallbacks == ((G.has_fallback && !G.impl_ret) ? 1 : 0))
/*@BODY unsafe_call*/

/* ---------------- _receiver_wrapper::complete(): the stored result reaches the receiver ---------------- */
static _Bool EV_deliver_stored(struct wrapper* self) {
  VF_P(self == &WR && G.stored == 0 && G.errors == 0 && !G.stored_threw, "the stored result is delivered once");
  if (VF_nondet_bool()) { G.stored_threw = 1; return 1; }
  G.stored++; return 0;
}
static void EV_deliver_error(struct wrapper* self) {
  VF_P(self == &WR && G.stored_threw && G.stored == 0 && G.errors == 0, "set_error reaches the receiver only if delivering the stored result threw, once");
  G.errors++;
}
void wrapper_complete(struct wrapper* self)
__CPROVER_requires(self == &WR && G.stored == 0 && G.errors == 0 && !G.stored_threw)
__CPROVER_assigns(G)
__CPROVER_ensures(G.stored + G.errors == 1 && (G.errors == 1) == G.stored_threw)       /* exactly one signal reaches the receiver */
/*@BODY wrapper_complete*/

/* ---------------- create_raw_sender: connect; lambda_op: start / stop ---------------- */
static int EV_factory(int* fn, int rec) {
  VF_P(fn == &RS.fn_ && G.factory_calls == 0, "the factory stored in the sender is invoked exactly once per connect, with the receiver");
  G.factory_calls++; return rec + 1;
}
static int lambda_op_wrap(int state) { VF_P(!G.has_start && G.wraps == 0, "only a result without start() is wrapped in _lambda_op::_op"); G.wraps++; return state; }
static int raw_connect_impl(int* fn, int rec)
/*@BODY raw_connect_impl*/
int raw_connect_rvalue(struct raw_sender* self, int rec)
__CPROVER_requires(self == &RS && G.factory_calls == 0 && G.wraps == 0 && rec >= 0 && rec < 1000)
__CPROVER_assigns(G)
__CPROVER_ensures(G.factory_calls == 1 && G.wraps == (G.has_start ? 0 : 1) && __CPROVER_return_value == rec + 1)
/*@BODY raw_connect_rvalue*/
int raw_connect_lvalue(struct raw_sender* self, int rec)
__CPROVER_requires(self == &RS && G.factory_calls == 0 && G.wraps == 0 && rec >= 0 && rec < 1000)
__CPROVER_assigns(G)
__CPROVER_ensures(G.factory_calls == 1 && G.wraps == (G.has_start ? 0 : 1) && __CPROVER_return_value == rec + 1)
/*@BODY raw_connect_lvalue*/
static void EV_lambda(struct lop* self, int evt, _Bool with_self) {
  VF_P(self == &LOP && G.lambda_calls == 0, "the wrapped callable is invoked once per start() / stop()");
  G.lambda_calls++; G.lambda_evt = evt; G.lambda_self = with_self;
}
void lop_plain_start(struct lop* self)
__CPROVER_requires(self == &LOP && G.lambda_calls == 0)
__CPROVER_assigns(G)
__CPROVER_ensures(G.lambda_calls == 1 && G.lambda_evt == LE_CALL)
/*@BODY lop_plain_start*/
void lop_evt_start(struct lop* self)
__CPROVER_requires(self == &LOP && G.lambda_calls == 0)
__CPROVER_assigns(G)
__CPROVER_ensures(G.lambda_calls == 1 && G.lambda_evt == LE_START && G.lambda_self == G.takes_self)
/*@BODY lop_evt_start*/
void lop_evt_stop(struct lop* self)
__CPROVER_requires(self == &LOP && G.lambda_calls == 0)
__CPROVER_assigns(G)
__CPROVER_ensures(G.lambda_calls == 1 && G.lambda_evt == LE_STOP && G.lambda_self == G.takes_self)
/*@BODY lop_evt_stop*/

/* ---------------- harnesses ---------------- */
static void h_zero(int me, int mode) {
  G.me = me; G.env_mode = mode;
  G.sends_done = VF_nondet_bool() ? 1 : 0; G.nothrow_start = VF_nondet_bool() ? 1 : 0; G.nothrow_stop = VF_nondet_bool() ? 1 : 0; G.nothrow_body = VF_nondet_bool() ? 1 : 0;
  G.has_fallback = VF_nondet_bool() ? 1 : 0; G.has_start = VF_nondet_bool() ? 1 : 0; G.takes_self = VF_nondet_bool() ? 1 : 0;
  G.depth = 0; G.depth0 = 0; G.my_refs = 0; G.inflight_env = 0; G.cb_safe = 0;
  G.body_start = 0; G.body_cb = 0; G.body_stop = 0; G.defers = 0; G.my_completes = 0; G.stop_constructs = 0; G.stop_destructs = 0; G.holder_resets = 0; G.made_shared = 0;
  G.fallbacks = 0; G.cb_impl_calls = 0; G.locks = 0; G.stored = 0; G.errors = 0; G.factory_calls = 0; G.wraps = 0; G.lambda_calls = 0; G.lambda_evt = -1; G.lambda_self = 0;
  G.threw = 0; G.any_throw = 0; G.locked_once = 0; G.ph_at_lock = 0; G.stopped_before_start = 0; G.stored_threw = 0; G.impl_ret = 0; G.got_ptr = 0;
  G.start_ran = 0; G.deferred = 0; G.kind = DK_NONE; G.claim = CL_NONE; G.completes = 0; G.stop_cb = SC_NONE; G.dead = 0;
  HC = &OP; SCB.op_ = &OP; UNSAFE_CB.op_ = &OP;
}
/* any state the monitor invariant allows (mutex free) */
static void h_any_free_state(void) {
  struct proto p = any_proto();
  __CPROVER_assume(LI(p) && p.claim != CL_ME);
  OP.state_.phase_ = p.ph; OP.state_.recursion_ = 0; G.start_ran = p.start_ran; G.deferred = p.deferred; G.kind = p.deferred ? (uint8_t)(1 + VF_nondet_u8() % 3) : DK_NONE;
  OP.safe_cb_holder_ = p.holder ? &HC : NULL; G.claim = p.claim; G.completes = p.completes; G.stop_cb = p.stop_cb;
  if (p.dead) vf_op_dies();
}
/* any state in which my thread already holds the mutex `d` times (the call comes from inside a body) */
static void h_any_inside_state(void) {
  unsigned d = VF_nondet_u8();
  __CPROVER_assume(d >= 1 && d <= 200);
  G.depth = d; G.depth0 = d; OP.state_.recursion_ = (uint16_t)d;
  OP.state_.phase_ = VF_nondet_u8(); G.deferred = VF_nondet_u8(); G.kind = G.deferred ? (uint8_t)(1 + VF_nondet_u8() % 3) : DK_NONE;
  OP.safe_cb_holder_ = VF_nondet_bool() ? &HC : NULL; G.start_ran = 1; G.stop_cb = G.sends_done ? SC_LIVE : SC_NONE;
  __CPROVER_assume(INSIDE_NOW && OP.state_.phase_ != starting);
}
void h_op_set_value(void) { h_zero(T_CB, ENV_PROT); h_any_inside_state(); if (VF_nondet_bool()) { OP.state_.phase_ = starting; G.start_ran = 0; __CPROVER_assume(INSIDE_NOW); } op_set_value(&OP); VF_CANARY("after set_value"); if (G.defers) { VF_CANARY("set_value can win"); } else { VF_CANARY("set_value can lose"); } }
void h_op_set_error(void) { h_zero(T_CB, ENV_PROT); h_any_inside_state(); op_set_error(&OP); VF_CANARY("after set_error"); if (G.defers) { VF_CANARY("set_error can win"); } else { VF_CANARY("set_error can lose"); } }
void h_op_set_done(void) { h_zero(T_STOP, ENV_PROT); G.sends_done = 1; h_any_inside_state(); if (VF_nondet_bool()) { OP.state_.phase_ = starting; G.start_ran = 0; __CPROVER_assume(INSIDE_NOW); } op_set_done(&OP); VF_CANARY("after set_done"); if (G.defers && OP.state_.phase_ == stopped_early) { VF_CANARY("done can be stored before start"); } }
void h_op_safe_cb_holder(void) { h_zero(T_CB, ENV_PROT); h_any_inside_state(); void** r = op_safe_cb_holder(&OP); VF_CANARY("after safe_cb_holder"); if (G.made_shared) { VF_CANARY("first safe callback creates the cell"); } else { VF_CANARY("later ones share it"); } }
void h_op_complete(void) {
  h_zero(T_CB, ENV_FREE); h_any_free_state();
  __CPROVER_assume(!G.dead && G.claim == CL_ENV && G.completes == 0 && OP.safe_cb_holder_ == NULL && G.stop_cb == (G.sends_done ? SC_LIVE : SC_NONE));
  G.claim = CL_ME;
  op_complete(&OP);
  VF_CANARY("after complete()"); if (G.dead) { VF_CANARY("the receiver can destroy the operation"); }
}
void h_op_callback_impl(void) {
  h_zero(T_CB, ENV_PROT);
  if (VF_nondet_bool()) { h_any_free_state(); __CPROVER_assume(!G.dead); } else h_any_inside_state();
  _Bool r = op_callback_impl(&OP, G.nothrow_body);
  VF_CANARY("after callback_impl");
  if (!r) { VF_CANARY("a late callback is a no-op"); }
  if (G.my_completes) { VF_CANARY("a callback can deliver the completion"); }
  if (r && G.depth0 > 0) { VF_CANARY("a nested callback runs its body"); }
  if (r && G.claim == CL_ENV) { VF_CANARY("another thread can complete after this callback returned the lock"); }
  if (G.dead && !G.my_completes) { VF_CANARY("the operation can be gone when the callback returns"); }
  if (G.any_throw) { VF_CANARY("a throwing callback body becomes set_error"); }
  if (G.body_cb) { VF_CANARY("body(callback) reachable"); }
}
void h_op_start(void) {
  h_zero(T_START, ENV_STOP_ONLY);
  OP.state_.phase_ = /*@EXPR phase_init*/; OP.state_.recursion_ = /*@EXPR recursion_init*/; OP.safe_cb_holder_ = /*@EXPR holder_init*/;
  op_start(&OP);
  VF_CANARY("after start()");
  if (G.stopped_before_start) { VF_CANARY("stop before start: done instead of body(start)"); }
  if (G.my_completes && !G.stopped_before_start) { VF_CANARY("body(start) can complete synchronously"); }
  if (!G.my_completes && G.claim == CL_ENV) { VF_CANARY("another thread can complete right after start() released the lock"); }
  if (G.dead && !G.my_completes) { VF_CANARY("the operation can be gone when start() returns"); }
  if (G.claim == CL_NONE) { VF_CANARY("start() can return with the operation pending"); }
  if (G.body_start) { VF_CANARY("body(start) reachable"); }
#ifndef VF_START_BODY_DOES_NOT_THROW
  if (G.any_throw) { VF_CANARY("body(start) can throw"); }
#endif
}
void h_stop_callback(void) {
  h_zero(T_STOP, ENV_PROT); G.sends_done = 1;
  if (VF_nondet_bool()) { h_any_free_state(); __CPROVER_assume(!G.dead && G.stop_cb == SC_LIVE); } else h_any_inside_state();
  stop_callback_call(&SCB);
  VF_CANARY("after the stop callback");
  if (G.ph_at_lock == starting) { VF_CANARY("stop before start"); }
  if (FIN(G.ph_at_lock)) { VF_CANARY("stop after completion is ignored"); }
  if (G.my_completes) { VF_CANARY("the stop hook can complete the operation"); }
  if (G.body_stop && !G.defers) { VF_CANARY("the stop hook can leave the operation pending"); }
  if (G.body_stop) { VF_CANARY("body(stop) reachable"); }
}
void h_op_dtor(void) {
  h_zero(T_DTOR, ENV_PROT); h_any_free_state();
  __CPROVER_assume(!G.dead);
  op_dtor(&OP);
  VF_CANARY("after ~_op"); if (G.stop_destructs) { VF_CANARY("~_op destroys a stop callback left behind"); }
}
static void h_cb_state(void) {
  if (VF_nondet_bool()) { h_any_free_state(); if (G.dead) G.snap = OP; } else h_any_inside_state();
}
void h_safe_callback(void) {
  h_zero(T_CB, ENV_FREE); G.cb_safe = 1;
#if defined(VF_CELL_EXPIRED)
  /* the sender has completed, its holder is reset, no callback frame holds a locked pointer: the operation may be gone */
  h_any_free_state(); if (G.dead) G.snap = OP;
  __CPROVER_assume(G.claim != CL_NONE && (G.dead || OP.safe_cb_holder_ == NULL));
#elif defined(VF_OP_PROTECTED)
  /* ASSUMPTION of this unit: nothing completes the operation between weak_.lock() and callback_impl()'s lock */
  G.env_mode = ENV_PROT; h_cb_state(); __CPROVER_assume(!G.dead && OP.safe_cb_holder_ == &HC);
#else
  h_cb_state(); G.inflight_env = VF_nondet_bool() ? 1 : 0;
#endif
  safe_callback_call(&SAFE_CB);
  VF_CANARY("after the safe callback");
  if (G.cb_impl_calls == 0) { VF_CANARY("an expired safe callback is a no-op"); }
  if (G.fallbacks) { VF_CANARY("the fallback can run"); }
#if !defined(VF_CELL_EXPIRED)
  if (G.cb_impl_calls) { VF_CANARY("a live safe callback reaches callback_impl"); }
#endif
}
void h_unsafe_callback(void) {
  h_zero(T_CB, ENV_PROT);
  h_cb_state(); __CPROVER_assume(!G.dead);       /* user's obligation: an unsafe callback is not invoked after (or while) the sender completes */
  unsafe_callback_call(&UNSAFE_CB);
  VF_CANARY("after the unsafe callback");
}
void h_wrapper_complete(void) { h_zero(T_CB, ENV_PROT); wrapper_complete(&WR); VF_CANARY("after _receiver_wrapper::complete"); if (G.errors) { VF_CANARY("a throwing delivery becomes set_error"); } }
void h_raw_connect_rvalue(void) { h_zero(T_START, ENV_PROT); int r = raw_connect_rvalue(&RS, 7); VF_CANARY("after connect(&&)"); if (G.wraps) { VF_CANARY("callable wrapped"); } else { VF_CANARY("operation state returned as is"); } }
void h_raw_connect_lvalue(void) { h_zero(T_START, ENV_PROT); int r = raw_connect_lvalue(&RS, 7); VF_CANARY("after connect(&)"); }
void h_lop_plain_start(void) { h_zero(T_START, ENV_PROT); lop_plain_start(&LOP); VF_CANARY("after plain start"); }
void h_lop_evt_start(void) { h_zero(T_START, ENV_PROT); lop_evt_start(&LOP); VF_CANARY("after event start"); }
void h_lop_evt_stop(void) { h_zero(T_STOP, ENV_PROT); lop_evt_stop(&LOP); VF_CANARY("after event stop"); }

/* ---------------- M4 lemmas over the contracts ---------------- */
struct lstate { struct proto p; uint8_t owner; };      /* owner of the completion: 0 nobody, else the party */
enum { PT_START = 1, PT_CB, PT_STOP };
enum { S_CONSTRUCT, S_STOP_EARLY, S_START_SECTION, S_CB_SECTION, S_STOP_SECTION, S_COMPLETE, S_DIE, S_NKINDS };
#define REL_CLAIM(owner, who) ((owner) == 0 ? CL_NONE : ((owner) == (who) ? CL_ME : CL_ENV))
/* one locked section of a body: it may finish the operation (first set_* wins) and may create the heap cell; on the way out a finished
 * operation that has been started gets its owner and loses its holder -- exactly what LI_NOW at the outermost unlock demands */
static void body_section(struct lstate* s, uint8_t who) {
  if (VF_nondet_bool()) s->p.holder = 1;
  if (VF_nondet_bool()) { s->p.ph = completed_normally; s->p.deferred = 1; }
  if (FIN(s->p.ph) && s->p.start_ran) { if (s->owner == 0) s->owner = who; s->p.holder = 0; }
}
static _Bool lstep(int kind, struct lstate a, struct lstate* out, uint8_t* actor) {
  struct lstate b = a;
  _Bool en = 0;
  switch (kind) {
  case S_CONSTRUCT: *actor = PT_START; en = G.sends_done && a.p.stop_cb == SC_NONE && a.p.ph == starting && !a.p.start_ran; b.p.stop_cb = SC_LIVE; break;
  case S_STOP_EARLY: *actor = PT_STOP; en = a.p.stop_cb == SC_LIVE && a.p.ph == starting; b.p.ph = stopped_early; b.p.deferred = 1; break;
  case S_START_SECTION: *actor = PT_START; en = !a.p.start_ran && (a.p.ph == starting || a.p.ph == stopped_early) && (G.sends_done ? a.p.stop_cb == SC_LIVE : a.p.stop_cb == SC_NONE);
    b.p.start_ran = 1; if (a.p.ph == starting) { b.p.ph = started; body_section(&b, PT_START); } else { b.owner = PT_START; } break;
  case S_CB_SECTION: *actor = PT_CB; en = a.p.ph == started && !a.p.dead; body_section(&b, PT_CB); break;
  case S_STOP_SECTION: *actor = PT_STOP; en = a.p.ph == started && a.p.stop_cb == SC_LIVE && !a.p.dead; body_section(&b, PT_STOP); break;
  case S_COMPLETE: *actor = a.owner; en = a.owner != 0 && a.p.completes == 0; b.p.stop_cb = G.sends_done ? SC_DESTROYED : SC_NONE; b.p.completes = 1; break;
  case S_DIE: *actor = a.owner; en = a.p.completes == 1 && !a.p.dead; b.p.dead = 1; break;
  default: en = 0;
  }
  *out = b;
  return en;
}
void lemma_basic_protocol(void) {
  G.sends_done = VF_nondet_bool() ? 1 : 0;
  struct lstate a, b; a.p = any_proto(); a.owner = VF_nondet_u8();
  __CPROVER_assume(a.owner <= PT_STOP && a.p.claim == (a.owner ? CL_ENV : CL_NONE) && LI(a.p));
  int kind = VF_nondet_int();
  __CPROVER_assume(kind >= 0 && kind < S_NKINDS);
  uint8_t actor = 0;
  _Bool en = lstep(kind, a, &b, &actor);
  __CPROVER_assume(en);
  b.p.claim = b.owner ? CL_ENV : CL_NONE;
  VF_CANARY("lemma premises satisfiable");
  if (kind == S_START_SECTION && a.p.ph == stopped_early) { VF_CANARY("lemma: start after an early stop"); }
  if (kind == S_STOP_SECTION && b.owner == PT_STOP) { VF_CANARY("lemma: the stop hook completes"); }
  VF_P(LI(b.p), "lemma: every step of every party leaves the monitor invariant");
  VF_P(IMP(a.owner != 0, b.owner == a.owner), "lemma: the completion has one owner, for ever: exactly one of start / callback / stop completes the receiver");
  VF_P(b.p.completes <= 1 && b.p.deferred <= 1 && IMP(kind == S_COMPLETE, a.p.completes == 0 && a.p.deferred == 1), "lemma: one result is stored and it is delivered once");
  VF_P(IMP(FIN(b.p.ph) && b.p.start_ran, !b.p.holder), "lemma: once the sender has finished (mutex free) the operation holds no reference to the heap cell: late safe callbacks see an expired weak_ptr unless a callback frame still holds a locked pointer");
  VF_P(IMP(kind == S_DIE, a.p.completes == 1), "lemma: the operation is destroyed only after the completion was delivered");
  /* guarantee of the actor is within the rely of every other party, in the mode that party is in */
  for (uint8_t who = PT_START; who <= PT_STOP; who++) {
    if (who == actor) continue;
    struct proto ra = a.p, rb = b.p;
    ra.claim = REL_CLAIM(a.owner, who); rb.claim = REL_CLAIM(b.owner, who);
    G.me = who == PT_START ? T_START : (who == PT_CB ? T_CB : T_STOP);
    if (who == PT_START && !a.p.start_ran && a.p.stop_cb != SC_NONE) VF_P(RELY(ra, rb, ENV_STOP_ONLY), "lemma: before start's locked section only the stop callback moves, as start() relies on");
    if (who == PT_START && a.p.start_ran) VF_P(RELY(ra, rb, ENV_FREE), "lemma: steps of the others are allowed by start()'s rely after its locked section");
    if (who == PT_CB && a.p.start_ran) VF_P(RELY(ra, rb, ENV_FREE), "lemma: steps of the others are allowed by a callback's rely");
    if (who == PT_STOP && a.p.stop_cb == SC_LIVE && kind != S_COMPLETE && kind != S_DIE) VF_P(RELY(ra, rb, ENV_PROT), "lemma: while the stop callback runs, every step except the delivery (which waits for it in stop_.destruct()) is allowed by its rely");
  }
}
void lemma_basic_rely(void) {
  G.sends_done = VF_nondet_bool() ? 1 : 0;
  struct proto a = any_proto(), b = any_proto(), c = any_proto();
  int mode = VF_nondet_int();
  __CPROVER_assume(mode >= ENV_STOP_ONLY && mode <= ENV_FREE);
  G.me = VF_nondet_bool() ? T_START : T_CB;
  __CPROVER_assume(LI(a));
  __CPROVER_assume(IMP(mode == ENV_STOP_ONLY, a.claim == CL_NONE && a.completes == 0 && !a.dead && !a.start_ran));
  VF_P(RELY(a, a, mode), "lemma: the rely is reflexive");
  __CPROVER_assume(LI(b) && LI(c) && RELY(a, b, mode) && RELY(b, c, mode));
  VF_CANARY("rely premises satisfiable");
  VF_P(RELY(a, c, mode), "lemma: the rely is transitive");
}
void lemma_basic_init(void) {
  G.sends_done = VF_nondet_bool() ? 1 : 0;
  VF_P(LIV(/*@EXPR phase_init*/, 0, 0, (/*@EXPR holder_init*/) != 0, CL_NONE, 0, SC_NONE, 0) && (/*@EXPR recursion_init*/) == 0, "lemma: a freshly constructed operation satisfies the monitor invariant");
  VF_P(starting != started && started != stopped_early && stopped_early != completed_normally && starting != stopped_early && starting != completed_normally && started != completed_normally && completed_normally <= 3, "lemma: four distinct phases");
  struct state_t s; s.recursion_ = 1;
  G.dead = 0;
  s.phase_ = starting; VF_P(!state_finished(&s) && state_not_started(&s) && !state_completed(&s), "lemma: starting");
  state_set_finished(&s); VF_P(s.phase_ == stopped_early && state_finished(&s) && state_completed(&s), "lemma: finishing before start gives stopped_early");
  state_set_started(&s); VF_P(s.phase_ == stopped_early, "lemma: set_started keeps stopped_early");
  s.phase_ = starting; state_set_started(&s); VF_P(s.phase_ == started && !state_finished(&s) && !state_not_started(&s), "lemma: started");
  state_set_finished(&s); VF_P(s.phase_ == completed_normally && state_finished(&s), "lemma: finishing after start gives completed_normally");
  s.recursion_ = 2; VF_P(!state_completed(&s), "lemma: a nested frame never sees completed()");
  VF_CANARY("lemma_basic_init reachable");
}
