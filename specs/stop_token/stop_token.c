/* C03 (and the C04 hook): inplace_stop_source / inplace_stop_callback_base,
 * source/inplace_stop_token.cpp + include/unifex/inplace_stop_token.hpp.
 *
 * M1 on the lock word state_ (rely/guarantee), M2 on the doubly linked callback list
 * (window = source S, operand callback CB, neighbours W1/W2, opaque far ends; the window
 * is re-built by concrete choice whenever the spin lock is acquired and checked against
 * the lock invariant whenever it is released). */
#include <stddef.h>
#include <stdint.h>
struct inplace_stop_source;
struct inplace_stop_callback_base {
  struct inplace_stop_source* source_;
  struct inplace_stop_callback_base* next_;
  struct inplace_stop_callback_base** prevPtr_;
  _Bool* removedDuringCallback_;
  _Bool callbackCompleted_;
};
struct inplace_stop_source {
  uint8_t state_;
  struct inplace_stop_callback_base* callbacks_;
  int notifyingThreadId_;
};
typedef struct inplace_stop_callback_base cb_t;

enum { PH_UNREG, PH_QUEUED, PH_RUN_ME, PH_RUN_OTHER, PH_DONE };
enum { WIN_NONE, WIN_ADD, WIN_REMOVE, WIN_POP, WIN_EMPTY };
struct vf_ghost {
  _Bool held;              /* the verified call holds the spin lock */
  unsigned acquired, released;
  unsigned flag_set;       /* times this call made the stop flag's 0 -> 1 transition */
  int my_tid;
  int mode;                /* which window / lock invariant applies */
  int cb_phase;            /* phase of the operand callback CB */
  unsigned cb_exec;        /* executions of CB caused by this call */
  _Bool cb_exec_done;      /* the execution of CB (by anyone) has returned */
  _Bool cb_dead;           /* CB removed itself during its callback: object gone */
  cb_t snap;               /* CB's fields when it died */
  cb_t** old_pred;         /* window bookkeeping: CB's predecessor link, old successor, old head */
  cb_t* old_next; cb_t* old_head;
  _Bool inside_cb_on_me;   /* remove_callback is being called from inside CB's own callback */
  unsigned completed_stores;
};
static struct vf_ghost G;
static struct inplace_stop_source S;
static cb_t CB, CB2, W1, W2;   /* CB: operand / popped callback; CB2: the head found when request_stop re-locks */
static _Bool RDC;            /* an executor frame's `removedDuringCallback` local (remove_callback called from inside the callback) */
static char vf_opaque_obj;
#define OPAQUE ((cb_t*)&vf_opaque_obj)

static const uint8_t stop_requested_flag = /*@EXPR stop_requested_flag*/;
static const uint8_t locked_flag = /*@EXPR locked_flag*/;
static const uint8_t state_INIT = /*@EXPR state_init*/;

static void vf_guar(void* p, uint64_t o, uint64_t n);
#define VF_G(p, o, n) vf_guar((void*)(p), (uint64_t)(o), (uint64_t)(n))
#include "vf.h"

static int VF_this_thread_id(void) { return G.my_tid; }
struct spin_wait { int x; };
static void spin_wait_wait(struct spin_wait* s) {}

/* ---- rely: while I hold the lock nobody else writes state_; otherwise others may lock /
 * unlock and may set, never clear, the stop flag.  A running callback finishes
 * (callbackCompleted_ false -> true, only after its execution returned). ---- */
static void vf_interfere(void) {
  if (!G.held) {
    uint8_t o = S.state_, n = VF_nondet_u8();
    __CPROVER_assume(n <= 3 && ((o & 1) ? (n & 1) : 1));
    S.state_ = n;
  }
  if (G.cb_phase == PH_RUN_OTHER && VF_nondet_bool()) {
    CB.removedDuringCallback_ = NULL; CB.callbackCompleted_ = 1; G.cb_exec_done = 1; G.cb_phase = PH_DONE;
  }
}

/* ---- lock invariant, per window mode, checked at every release ---- */
static _Bool li_release(void) {
  switch (G.mode) {
  case WIN_ADD:    /* CB linked at the head, back pointers consistent */
    return S.callbacks_ == &CB && CB.prevPtr_ == &S.callbacks_ && CB.next_ == G.old_head
        && (G.old_head == NULL || (G.old_head == &W1 && W1.prevPtr_ == &CB.next_));
  case WIN_REMOVE: /* CB unlinked: predecessor link points at old successor, successor points back */
    if (G.old_pred != NULL)
      return *G.old_pred == G.old_next && (G.old_next == NULL || (G.old_next == &W2 && W2.prevPtr_ == G.old_pred))
          && (G.old_pred == &S.callbacks_ || S.callbacks_ == G.old_head);
    return S.callbacks_ == G.old_head;   /* not queued: list untouched */
  case WIN_POP:    /* head popped and marked dequeued; new head points back at callbacks_ */
    return CB.prevPtr_ == NULL && S.callbacks_ == G.old_next
        && (G.old_next == NULL || (G.old_next == &W1 && W1.prevPtr_ == &S.callbacks_));
  case WIN_EMPTY:
    return S.callbacks_ == NULL;
  default:
    return 1;
  }
}

static void vf_guar(void* p, uint64_t o, uint64_t n) {
  if (p == (void*)&S.state_) {
    VF_P(G.held || ((o & 2) == 0 && (n & 2) != 0), "guarantee: state_ is written only to acquire the lock from an unlocked value, or while holding it");
    VF_P(!(o & 1) || (n & 1), "guarantee: the stop_requested flag is never cleared (stop_requested() never reverts)");
    if (!G.held) { G.held = 1; G.acquired++; if (!(o & 1) && (n & 1)) G.flag_set++; }
    else if (!(n & 2)) {
      VF_P(li_release(), "lock invariant restored before the lock is released (list links consistent)");
      G.held = 0; G.released++;
    }
  } else if (p == (void*)&CB.callbackCompleted_) {
    VF_P(G.cb_exec_done, "callbackCompleted_ is set only after the callback's execution returned");
    VF_P(!G.cb_dead, "no write to a callback that deregistered itself during its callback");
    VF_P(n == 1, "callbackCompleted_ only goes to true");
    G.completed_stores++;
  } else {
    VF_P(0, "atomic write to an unexpected location");
  }
}

#define POP_HEAD ((G.released >= 1) ? &CB2 : &CB)
/* window construction (M2): every shape the local list invariant allows around the operand */
static void window_build(void) {
  G.old_pred = NULL; G.old_next = NULL; G.old_head = NULL;
  W1.next_ = VF_nondet_bool() ? OPAQUE : NULL; W1.removedDuringCallback_ = NULL; W1.callbackCompleted_ = 0;
  W2.next_ = VF_nondet_bool() ? OPAQUE : NULL; W2.removedDuringCallback_ = NULL; W2.callbackCompleted_ = 0;
  if (G.mode == WIN_ADD) {
    S.callbacks_ = VF_nondet_bool() ? &W1 : NULL; W1.prevPtr_ = &S.callbacks_;
    G.old_head = S.callbacks_;
  } else if (G.mode == WIN_POP) {
    /* hp stands for whatever callback is at the head now: queued, never executed.  After the
     * loop body has released the lock once, the head found on re-locking is a different object */
    cb_t* hp = POP_HEAD;
    S.callbacks_ = VF_nondet_bool() ? hp : NULL;
    hp->prevPtr_ = &S.callbacks_; hp->callbackCompleted_ = 0; hp->removedDuringCallback_ = NULL;
    hp->next_ = VF_nondet_bool() ? &W1 : NULL; W1.prevPtr_ = &hp->next_;
    if (hp == &CB) { G.cb_phase = PH_QUEUED; G.old_next = CB.next_; }
  } else if (G.mode == WIN_REMOVE) {
    /* the phase is decided at the moment the lock is taken */
    if (G.inside_cb_on_me) G.cb_phase = PH_RUN_ME;
    else { int ph = VF_nondet_int(); __CPROVER_assume(ph == PH_QUEUED || ph == PH_RUN_OTHER || ph == PH_DONE); G.cb_phase = ph; }
    if (G.cb_phase == PH_QUEUED) {
      _Bool at_head = VF_nondet_bool();
      if (at_head) { S.callbacks_ = &CB; CB.prevPtr_ = &S.callbacks_; }
      else { S.callbacks_ = VF_nondet_bool() ? &W1 : OPAQUE; W1.next_ = &CB; W1.prevPtr_ = (S.callbacks_ == &W1) ? &S.callbacks_ : (cb_t**)&vf_opaque_obj; CB.prevPtr_ = &W1.next_; }
      CB.next_ = VF_nondet_bool() ? &W2 : NULL; W2.prevPtr_ = &CB.next_;
      CB.callbackCompleted_ = 0; CB.removedDuringCallback_ = NULL;
      G.old_pred = CB.prevPtr_; G.old_next = CB.next_; G.old_head = S.callbacks_;
      S.notifyingThreadId_ = VF_nondet_int();
    } else {
      CB.prevPtr_ = NULL; CB.next_ = VF_nondet_bool() ? OPAQUE : NULL;
      S.callbacks_ = VF_nondet_bool() ? &W1 : NULL; W1.prevPtr_ = &S.callbacks_; G.old_head = S.callbacks_;
      if (G.cb_phase == PH_RUN_ME) { S.notifyingThreadId_ = G.my_tid; CB.removedDuringCallback_ = &RDC; CB.callbackCompleted_ = 0; RDC = 0; }
      else if (G.cb_phase == PH_RUN_OTHER) { S.notifyingThreadId_ = VF_nondet_int(); __CPROVER_assume(S.notifyingThreadId_ != G.my_tid); CB.removedDuringCallback_ = OPAQUE == NULL ? NULL : (_Bool*)&vf_opaque_obj; CB.callbackCompleted_ = 0; }
      else { S.notifyingThreadId_ = VF_nondet_int(); CB.removedDuringCallback_ = NULL; CB.callbackCompleted_ = 1; G.cb_exec_done = 1; }
    }
  }
}

/* ---------------- contracts of the two lock functions (shared by the verified body and by
 * the contract stub used in callers that walk into the list right after locking) ------------ */
#define TRYLOCK_REQ(self) ((self) == &S && !G.held && G.acquired == 0 && G.flag_set == 0 && S.state_ <= 3)
#define TRYLOCK_ENS(rv, set) ( ((rv) == G.held) \
   && ((rv) ==> (S.state_ == ((set) ? 3 : 2) && G.acquired == 1 && G.flag_set == ((set) ? 1 : 0))) /* true: lock held; if asked to, THIS call made the flag's 0->1 transition */ \
   && (!(rv) ==> ((S.state_ & 1) != 0 && G.acquired == 0 && G.flag_set == 0)) )                    /* false: the flag was observed set, nothing written */
#define LOCK_REQ(self) ((self) == &S && !G.held && G.acquired == 0 && S.state_ <= 3)
#define LOCK_ENS(rv) (G.held && G.acquired == 1 && G.flag_set == 0 && ((rv) & 2) == 0 && (rv) <= 3 && S.state_ == ((rv) | 2))

#ifdef VF_VERIFY_LOCKS
_Bool inplace_stop_source_try_lock_unless_stop_requested(struct inplace_stop_source* self, _Bool setStopRequested)
__CPROVER_requires(TRYLOCK_REQ(self))
__CPROVER_assigns(S.state_, G.held, G.acquired, G.flag_set)
__CPROVER_ensures(TRYLOCK_ENS(__CPROVER_return_value, setStopRequested))
/*@BODY try_lock_unless_stop_requested*/

uint8_t inplace_stop_source_lock(struct inplace_stop_source* self)
__CPROVER_requires(LOCK_REQ(self))
__CPROVER_assigns(S.state_, G.held, G.acquired, G.flag_set)
__CPROVER_ensures(LOCK_ENS(__CPROVER_return_value))
/*@BODY lock*/
#else
/* contract stubs: assert requires; havoc + rebuild the window; assume ensures */
static _Bool inplace_stop_source_try_lock_unless_stop_requested(struct inplace_stop_source* self, _Bool setStopRequested) {
  VF_A(TRYLOCK_REQ(self), "precondition of try_lock_unless_stop_requested at the call site");
  vf_interfere();
  _Bool rv = VF_nondet_bool();
  if (rv) { S.state_ = setStopRequested ? 3 : 2; G.held = 1; G.acquired = 1; G.flag_set = setStopRequested ? 1 : 0; window_build(); }
  else { __CPROVER_assume((S.state_ & 1) != 0); }
  __CPROVER_assume(TRYLOCK_ENS(rv, setStopRequested));
  return rv;
}
static uint8_t inplace_stop_source_lock(struct inplace_stop_source* self) {
  VF_A(LOCK_REQ(self), "precondition of lock at the call site");
  vf_interfere();
  uint8_t rv = S.state_ & 1;
  S.state_ = rv | 2; G.held = 1; G.acquired = 1; G.flag_set = 0;
  window_build();
  __CPROVER_assume(LOCK_ENS(rv));
  return rv;
}
#endif

void inplace_stop_source_unlock(struct inplace_stop_source* self, uint8_t oldState)
__CPROVER_requires(self == &S && G.held && G.released == 0 && (oldState & 2) == 0 && oldState <= 3 && S.state_ == (oldState | 2) && G.mode == WIN_NONE)
__CPROVER_assigns(S.state_, G.held, G.released)
__CPROVER_ensures(!G.held && G.released == 1)
/*@BODY unlock*/

_Bool inplace_stop_source_stop_requested(struct inplace_stop_source* self)
__CPROVER_requires(self == &S && !G.held && S.state_ <= 3)
__CPROVER_assigns(S.state_)
__CPROVER_ensures(__CPROVER_return_value == ((S.state_ & 1) != 0)) /* the flag as loaded; with the guarantee "never cleared" it never reverts */
/*@BODY stop_requested*/

/* ---- registration ---- */
_Bool inplace_stop_source_try_add_callback(struct inplace_stop_source* self, cb_t* callback)
__CPROVER_requires(self == &S && callback == &CB && !G.held && G.acquired == 0 && G.released == 0 && G.flag_set == 0 && S.state_ <= 3 && G.mode == WIN_ADD && G.cb_phase == PH_UNREG)
__CPROVER_assigns(S.state_, S.callbacks_, CB.next_, CB.prevPtr_, W1, W2, G.held, G.acquired, G.released, G.flag_set, G.old_pred, G.old_next, G.old_head)
__CPROVER_ensures(!G.held && G.acquired == G.released)
__CPROVER_ensures(__CPROVER_return_value ==> (G.acquired == 1 && S.state_ == 0 && S.callbacks_ == &CB && CB.prevPtr_ == &S.callbacks_ && CB.next_ == G.old_head)) /* registered: at the head, stop flag was clear at the linearisation, lock released */
__CPROVER_ensures(!__CPROVER_return_value ==> (G.acquired == 0 && (S.state_ & 1) != 0)) /* refused only because stop was already requested; list untouched */
/*@BODY try_add_callback*/

static void EV_execute(cb_t* cb);

void inplace_stop_callback_base_register_callback(cb_t* self)
__CPROVER_requires(self == &CB && (CB.source_ == &S || CB.source_ == NULL) && !G.held && G.acquired == 0 && G.released == 0 && G.flag_set == 0 && S.state_ <= 3 && G.mode == WIN_ADD && G.cb_phase == PH_UNREG && G.cb_exec == 0 && !G.cb_dead)
__CPROVER_assigns(S.state_, S.callbacks_, CB.source_, CB.next_, CB.prevPtr_, W1, W2, G.held, G.acquired, G.released, G.flag_set, G.old_pred, G.old_next, G.old_head, G.cb_exec, G.cb_exec_done)
/* exactly one of: registered (never run by this call) / run once synchronously with source_ cleared / no source: nothing */
__CPROVER_ensures(__CPROVER_old(CB.source_) == NULL ==> (G.cb_exec == 0 && G.acquired == 0))
__CPROVER_ensures(__CPROVER_old(CB.source_) != NULL ==> ((G.acquired == 1 && G.cb_exec == 0 && CB.source_ == &S && S.callbacks_ == &CB) || (G.acquired == 0 && G.cb_exec == 1 && CB.source_ == NULL && (S.state_ & 1) != 0)))
/*@BODY register_callback*/

/* ---- deregistration ---- */
void inplace_stop_source_remove_callback(struct inplace_stop_source* self, cb_t* callback)
__CPROVER_requires(self == &S && callback == &CB && !G.held && G.acquired == 0 && G.released == 0 && S.state_ <= 3 && G.mode == WIN_REMOVE && G.cb_exec == 0 && !G.cb_dead)
__CPROVER_assigns(S.state_, S.callbacks_, S.notifyingThreadId_, CB.next_, CB.prevPtr_, CB.removedDuringCallback_, CB.callbackCompleted_, W1, W2, RDC, G.held, G.acquired, G.released, G.flag_set, G.old_pred, G.old_next, G.old_head, G.cb_phase, G.cb_exec_done)
__CPROVER_ensures(!G.held && G.acquired == 1 && G.released == 1) /* took and released the lock once */
__CPROVER_ensures(G.old_pred != NULL ==> (G.cb_exec == 0 && G.cb_phase == PH_QUEUED)) /* still registered: unlinked under the lock (lock invariant checked at release), never executed */
__CPROVER_ensures((G.old_pred == NULL && G.inside_cb_on_me) ==> RDC == 1) /* deregistering from inside its own callback: tells the notifier, does not wait (no self-deadlock) */
__CPROVER_ensures((G.old_pred == NULL && !G.inside_cb_on_me) ==> (G.cb_phase == PH_DONE && G.cb_exec_done)) /* popped by another thread: returns only after the callback finished */
__CPROVER_ensures(G.cb_exec == 0)
/*@BODY remove_callback*/

void inplace_stop_callback_dtor(cb_t* self)
__CPROVER_requires(self == &CB && (CB.source_ == &S || CB.source_ == NULL) && !G.held && G.acquired == 0 && G.released == 0 && S.state_ <= 3 && G.mode == WIN_REMOVE && G.cb_exec == 0 && !G.cb_dead)
__CPROVER_assigns(S.state_, S.callbacks_, S.notifyingThreadId_, CB.next_, CB.prevPtr_, CB.removedDuringCallback_, CB.callbackCompleted_, W1, W2, RDC, G.held, G.acquired, G.released, G.flag_set, G.old_pred, G.old_next, G.old_head, G.cb_phase, G.cb_exec_done)
__CPROVER_ensures(__CPROVER_old(CB.source_) == NULL ==> G.acquired == 0) /* never registered (or ran synchronously): nothing to remove */
__CPROVER_ensures(__CPROVER_old(CB.source_) != NULL ==> (G.acquired == 1 && G.released == 1 && !G.held)) /* registered: remove_callback exactly once */
/*@BODY callback_dtor*/

/* ---- request_stop: entry / exit segment (loop replaced by its cut-point stub) and loop body segment ---- */
#define RS_INV(hp) (G.held && S.state_ == 3 && S.notifyingThreadId_ == G.my_tid && G.mode == WIN_POP \
   && (S.callbacks_ == NULL || (S.callbacks_ == (hp) && (hp)->prevPtr_ == &S.callbacks_ && !(hp)->callbackCompleted_ && (hp)->removedDuringCallback_ == NULL \
        && ((hp)->next_ == NULL || ((hp)->next_ == &W1 && W1.prevPtr_ == &(hp)->next_)))))

static void request_stop__loop0(struct inplace_stop_source* self) {
  VF_P(RS_INV(&CB), "cut point (request_stop loop head): lock held, flag set, notifier recorded, list window consistent");
  /* arbitrary number of iterations later: */
  G.mode = WIN_POP; window_build(); S.state_ = 3; G.held = 1;
  __CPROVER_assume(RS_INV(POP_HEAD) && !(/*@LOOPCOND request_stop.loop0.cond*/));
  G.mode = WIN_EMPTY;
}
#define VF_LOOP0 request_stop__loop0(self)

static void EV_execute(cb_t* cb) {
  VF_CANARY("callback execution reachable");
  VF_P(!G.held, "callbacks are executed outside the lock");
  VF_P(cb == &CB, "only the operand callback is executed");
  VF_P(G.cb_exec == 0, "a callback is executed at most once");
  G.cb_exec++;
  if (G.mode == WIN_POP) {
    VF_P(cb->prevPtr_ == NULL, "a popped callback is marked dequeued before it runs (so its deregistration cannot unlink it again)");
    VF_P(cb->removedDuringCallback_ != NULL, "the notifier publishes its removedDuringCallback flag before running the callback");
    /* the callback may deregister (destroy) itself from inside */
    if (VF_nondet_bool()) {
      *cb->removedDuringCallback_ = 1;
      cb_t f; cb->next_ = f.next_; cb->prevPtr_ = f.prevPtr_; cb->removedDuringCallback_ = f.removedDuringCallback_; cb->callbackCompleted_ = f.callbackCompleted_; cb->source_ = f.source_;
      G.cb_dead = 1; G.snap = *cb;
    }
  }
  G.cb_exec_done = 1;
}
#define CB_UNTOUCHED_IF_DEAD (!G.cb_dead || (CB.next_ == G.snap.next_ && CB.prevPtr_ == G.snap.prevPtr_ && CB.removedDuringCallback_ == G.snap.removedDuringCallback_ && CB.callbackCompleted_ == G.snap.callbackCompleted_ && CB.source_ == G.snap.source_))

_Bool inplace_stop_source_request_stop(struct inplace_stop_source* self)
__CPROVER_requires(self == &S && !G.held && G.acquired == 0 && G.released == 0 && G.flag_set == 0 && S.state_ <= 3 && G.mode == WIN_POP)
__CPROVER_assigns(S, CB, CB2, W1, W2, G)
__CPROVER_ensures(__CPROVER_return_value ==> (G.acquired == 0 && G.flag_set == 0 && (S.state_ & 1) != 0)) /* true = somebody else was first: nothing done */
__CPROVER_ensures(!__CPROVER_return_value ==> (G.flag_set == 1 && !G.held && (S.state_ & 1) != 0)) /* false = THIS call set the flag (unique, the flag is monotone); returns with the lock released */
/*@BODY request_stop*/

int request_stop__loop0_body(struct inplace_stop_source* self)
__CPROVER_requires(self == &S && RS_INV(&CB) && (/*@LOOPCOND request_stop.loop0.cond*/) && G.released == 0 && G.acquired == 0 && G.completed_stores == 0)
__CPROVER_requires(G.cb_phase == PH_QUEUED && G.cb_exec == 0 && !G.cb_exec_done && !G.cb_dead && G.old_next == CB.next_)
__CPROVER_assigns(S, CB, CB2, W1, W2, G)
__CPROVER_ensures(__CPROVER_return_value == VF_X_CONTINUE)
__CPROVER_ensures(RS_INV(&CB2)) /* cut-point invariant re-established: re-locked, window consistent */
__CPROVER_ensures(G.released == 1 && G.acquired == 1)
/*@LOOPBODY request_stop.loop0.body*/

/* ---------------- harnesses ---------------- */
static void h_init(int mode) {
  S.state_ = VF_nondet_u8(); S.callbacks_ = NULL; S.notifyingThreadId_ = VF_nondet_int();
  G.held = 0; G.acquired = 0; G.released = 0; G.flag_set = 0; G.my_tid = VF_nondet_int(); G.mode = mode;
  G.cb_phase = PH_UNREG; G.cb_exec = 0; G.cb_exec_done = 0; G.cb_dead = 0; G.inside_cb_on_me = 0; G.completed_stores = 0;
  G.old_pred = NULL; G.old_next = NULL; G.old_head = NULL;
  CB.source_ = &S; CB.next_ = /*@EXPR cb_next_init*/; CB.prevPtr_ = /*@EXPR cb_prevPtr_init*/; CB.removedDuringCallback_ = /*@EXPR cb_rdc_init*/; CB.callbackCompleted_ = /*@EXPR cb_completed_init*/;
}
#ifdef VF_VERIFY_LOCKS
void h_try_lock(void) { h_init(WIN_NONE); _Bool r = inplace_stop_source_try_lock_unless_stop_requested(&S, VF_nondet_bool()); VF_CANARY("after try_lock_unless_stop_requested"); if (r) { VF_CANARY("try_lock can succeed"); } else { VF_CANARY("try_lock can fail"); } }
void h_lock(void) { h_init(WIN_NONE); inplace_stop_source_lock(&S); VF_CANARY("after lock"); }
#endif
void h_unlock(void) { h_init(WIN_NONE); uint8_t o = VF_nondet_u8(); G.held = 1; inplace_stop_source_unlock(&S, o); VF_CANARY("after unlock"); }
void h_stop_requested(void) { h_init(WIN_NONE); inplace_stop_source_stop_requested(&S); VF_CANARY("after stop_requested"); }
void h_try_add_callback(void) { h_init(WIN_ADD); _Bool r = inplace_stop_source_try_add_callback(&S, &CB); VF_CANARY("after try_add_callback"); if (r) { VF_CANARY("try_add_callback can register"); } }
void h_register_callback(void) { h_init(WIN_ADD); if (VF_nondet_bool()) CB.source_ = NULL; inplace_stop_callback_base_register_callback(&CB); VF_CANARY("after register_callback"); if (G.cb_exec) { VF_CANARY("register_callback can run the callback inline"); } }
void h_remove_callback(void) { h_init(WIN_REMOVE); G.inside_cb_on_me = VF_nondet_bool(); inplace_stop_source_remove_callback(&S, &CB); VF_CANARY("after remove_callback"); if (G.old_pred) { VF_CANARY("remove_callback can unlink"); } else if (G.inside_cb_on_me) { VF_CANARY("remove_callback from inside the callback"); } else { VF_CANARY("remove_callback waits for another thread"); } }
void h_callback_dtor(void) { h_init(WIN_REMOVE); G.inside_cb_on_me = VF_nondet_bool(); if (VF_nondet_bool()) CB.source_ = NULL; inplace_stop_callback_dtor(&CB); VF_CANARY("after ~inplace_stop_callback"); }
void h_request_stop(void) { h_init(WIN_POP); _Bool r = inplace_stop_source_request_stop(&S); VF_CANARY("after request_stop"); if (!r) { VF_CANARY("request_stop can be first"); } }
void h_request_stop_loop_body(void) {
  h_init(WIN_POP); S.state_ = 3; G.held = 1; G.acquired = 0; G.flag_set = 1; S.notifyingThreadId_ = G.my_tid;
  window_build();
  request_stop__loop0_body(&S);
  VF_P(G.cb_exec == 1 && G.cb_exec_done, "each popped callback is executed exactly once by the loop body");
  VF_P(CB_UNTOUCHED_IF_DEAD, "a callback that deregistered itself during its callback is never touched again");
  VF_P(G.cb_dead || (CB.callbackCompleted_ && CB.removedDuringCallback_ == NULL && G.completed_stores == 1), "a callback that did not deregister itself is marked completed (so a concurrent deregistration stops waiting)");
  VF_P(G.released == 1, "the lock is released exactly once per iteration, around the callback");
  VF_CANARY("after loop body");
  if (G.cb_dead) { VF_CANARY("callback can deregister itself"); }
}

/* ---------------- M4 lemmas ---------------- */
void lemma_stop_flag(void) {
  /* from the guarantee "never cleared" (every write, by any party) the flag is monotone;
   * the 0->1 transition therefore happens at most once, so at most one
   * try_lock_unless_stop_requested(true) returns true with flag_set == 1, i.e. exactly one
   * request_stop() returns false. */
  uint8_t s0 = VF_nondet_u8(), s1 = VF_nondet_u8(), s2 = VF_nondet_u8();
  __CPROVER_assume(s0 <= 3 && s1 <= 3 && s2 <= 3);
  __CPROVER_assume(!(s0 & 1) || (s1 & 1));   /* step 1 obeys the guarantee */
  __CPROVER_assume(!(s1 & 1) || (s2 & 1));   /* step 2 obeys the guarantee */
  VF_CANARY("lemma premises satisfiable");
  _Bool t1 = !(s0 & 1) && (s1 & 1), t2 = !(s1 & 1) && (s2 & 1);
  VF_P(!(t1 && t2), "lemma: the stop flag's 0->1 transition happens at most once");
  VF_P((s0 & 1) ==> (s2 & 1), "lemma: stop_requested() never reverts to false");
  VF_P(state_INIT == 0 && stop_requested_flag == 1 && locked_flag == 2, "lemma: a fresh source is unlocked with the flag clear; flag bits as assumed");
}
