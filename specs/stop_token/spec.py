CPP = 'source/inplace_stop_token.cpp'
H = 'include/unifex/inplace_stop_token.hpp'
SRC = r'class inplace_stop_source \{'
CBB = r'class inplace_stop_callback_base \{'
TRY_INV = '(!G.held && G.acquired == 0 && G.flag_set == 0 && S.state_ <= 3 && ((oldState & 1) ? (S.state_ & 1) != 0 : 1))'
LOCK_INV = '(!G.held && G.acquired == 0 && G.flag_set == 0 && S.state_ <= 3)'
ctx = dict(
    cls='inplace_stop_source',
    members=['state_', 'callbacks_', 'notifyingThreadId_'],
    methods=['try_lock_unless_stop_requested', 'lock', 'unlock'],
    pre=[(r'(\w+)->execute\(\)', r'EV_execute(\1)'),
         (r'\bspin_wait spin;', 'struct spin_wait spin;'),
         (r'\bspin\.wait\(\)', 'spin_wait_wait(&spin)')],
)
cb_ctx = dict(cls='inplace_stop_callback_base', members=['source_'], methods=[],
              obj_methods={'try_add_callback': 'inplace_stop_source_try_add_callback', 'remove_callback': 'inplace_stop_source_remove_callback'},
              pre=[(r'(?<![\w>.])execute\(\)', 'EV_execute(this)')])
SPEC = dict(
    properties=['C03'],
    ctx=ctx,
    extracts={
        'stop_requested_flag': dict(file=H, kind='expr', sig=r'static constexpr std::uint8_t stop_requested_flag = ([^;]*);'),
        'locked_flag': dict(file=H, kind='expr', sig=r'static constexpr std::uint8_t locked_flag = ([^;]*);'),
        'state_init': dict(file=H, kind='expr', sig=r'std::atomic<std::uint8_t> state_\{([^}]*)\}'),
        'cb_next_init': dict(file=H, kind='expr', sig=r'inplace_stop_callback_base\* next_ = ([^;]*);'),
        'cb_prevPtr_init': dict(file=H, kind='expr', sig=r'inplace_stop_callback_base\*\* prevPtr_ = ([^;]*);'),
        'cb_rdc_init': dict(file=H, kind='expr', sig=r'bool\* removedDuringCallback_ = ([^;]*);'),
        'cb_completed_init': dict(file=H, kind='expr', sig=r'std::atomic<bool> callbackCompleted_\{([^}]*)\}'),
        'try_lock_unless_stop_requested': dict(file=CPP, sig=r'bool inplace_stop_source::try_lock_unless_stop_requested\(\s*bool setStopRequested\) noexcept',
            loops={0: '__CPROVER_assigns(oldState, S.state_, G.held, G.acquired, G.flag_set)\n__CPROVER_loop_invariant' + TRY_INV,
                   1: '__CPROVER_assigns(oldState, S.state_)\n__CPROVER_loop_invariant' + TRY_INV}),
        'lock': dict(file=CPP, sig=r'std::uint8_t inplace_stop_source::lock\(\) noexcept',
            loops={0: '__CPROVER_assigns(oldState, S.state_, G.held, G.acquired, G.flag_set)\n__CPROVER_loop_invariant' + LOCK_INV,
                   1: '__CPROVER_assigns(oldState, S.state_)\n__CPROVER_loop_invariant' + LOCK_INV}),
        'unlock': dict(file=CPP, sig=r'void inplace_stop_source::unlock\(std::uint8_t oldState\) noexcept'),
        'stop_requested': dict(file=H, sig=r'bool stop_requested\(\) const noexcept', within=SRC),
        'try_add_callback': dict(file=CPP, sig=r'bool inplace_stop_source::try_add_callback\(\s*inplace_stop_callback_base\* callback\) noexcept'),
        'remove_callback': dict(file=CPP, sig=r'void inplace_stop_source::remove_callback\(\s*inplace_stop_callback_base\* callback\) noexcept',
            loops={0: '__CPROVER_assigns(S.state_, CB.removedDuringCallback_, CB.callbackCompleted_, G.cb_exec_done, G.cb_phase)\n'
                      '__CPROVER_loop_invariant(!G.held && G.acquired == 1 && G.released == 1 && S.state_ <= 3 && (G.cb_phase == PH_RUN_OTHER || G.cb_phase == PH_DONE) && (G.cb_phase == PH_DONE ==> (CB.callbackCompleted_ && G.cb_exec_done)) && (G.cb_phase == PH_RUN_OTHER ==> !CB.callbackCompleted_))'}),
        'request_stop': dict(file=CPP, sig=r'bool inplace_stop_source::request_stop\(\) noexcept', outline={0: 'VF_LOOP0;'}),
        'register_callback': dict(file=H, sig=r'inline void inplace_stop_callback_base::register_callback\(\) noexcept', ctx=cb_ctx),
        'callback_dtor': dict(file=H, sig=r'~inplace_stop_callback\(\)', ctx=cb_ctx),
    },
    closed_world=[
        dict(file=CPP, members=['state_', 'callbacks_'], allow=[r'(?s)inplace_stop_source::~inplace_stop_source\(\) \{.*?\n\}']),
        dict(file=H, members=['state_', 'callbacks_'], within=SRC, allow=[r'std::atomic<std::uint8_t> state_\{', r'inplace_stop_callback_base\* callbacks_ = nullptr;']),
    ],
    units=[
        dict(name='try_lock_unless_stop_requested', harness='h_try_lock', enforce='inplace_stop_source_try_lock_unless_stop_requested', defines=['VF_VERIFY_LOCKS'], expect_loop_obligations=True),
        dict(name='lock', harness='h_lock', enforce='inplace_stop_source_lock', defines=['VF_VERIFY_LOCKS'], expect_loop_obligations=True),
        dict(name='unlock', harness='h_unlock', enforce='inplace_stop_source_unlock'),
        dict(name='stop_requested', harness='h_stop_requested', enforce='inplace_stop_source_stop_requested'),
        dict(name='try_add_callback', harness='h_try_add_callback', enforce='inplace_stop_source_try_add_callback'),
        dict(name='register_callback', harness='h_register_callback', enforce='inplace_stop_callback_base_register_callback', replace=['inplace_stop_source_try_add_callback']),
        dict(name='remove_callback', harness='h_remove_callback', enforce='inplace_stop_source_remove_callback', expect_loop_obligations=True),
        dict(name='callback_dtor', harness='h_callback_dtor', enforce='inplace_stop_callback_dtor', replace=['inplace_stop_source_remove_callback']),
        dict(name='request_stop', harness='h_request_stop', enforce='inplace_stop_source_request_stop'),
        dict(name='request_stop_loop_body', harness='h_request_stop_loop_body', enforce='request_stop__loop0_body'),
        dict(name='lemma_stop_flag', harness='lemma_stop_flag', mode='lemma'),
    ],
    assumptions=[
        'a callback object is registered once (constructor) and deregistered once (destructor); thread ids distinguish threads',
        'M2 meta-argument: window_build() enumerates every shape the local list invariant allows around the operand (head / after another node, with / without successor, far ends opaque); the successor of a list member is a member',
        'a callback running on another thread finishes (callbackCompleted_ false->true after its execution returned): the wait in remove_callback is proved partially correct only',
        'fused_stop_source and inplace_stop_token_adapter (manual_lifetime around a callback: template glue) are not reached',
    ],
    drops=['memory orders', 'std::thread::id -> int', 'spin_wait back-off (no-op)', 'callback->execute() (function pointer into user code) -> event stub EV_execute, which may deregister the callback from inside',
           '~inplace_stop_source (assertions + debug logging) is classified, not extracted'],
)
