H = 'include/unifex/bulk_schedule.hpp'
INNER_INV = ('__CPROVER_assigns(i, G.next, G.since_poll)\n'
             '__CPROVER_loop_invariant(chunk_start <= i && i <= chunk_end && G.next == i && G.terminal == 0 && !G.stop_seen && G.since_poll == i - chunk_start)\n'
             '__CPROVER_decreases(chunk_end - i)')
FLAT_INV = ('__CPROVER_assigns(i, G.next, G.since_poll)\n'
            '__CPROVER_loop_invariant(i <= self->count_ && G.next == i && G.terminal == 0 && !G.stop_seen)\n'
            '__CPROVER_decreases(self->count_ - i)')
BT = 'include/unifex/bulk_transform.hpp'
POL = dict(sequenced_policy='POL_seq', unsequenced_policy='POL_unseq', parallel_policy='POL_par', parallel_unsequenced_policy='POL_par_unseq')
def _one_of(m):
    import re as _re
    parts = [x.strip() for x in m.group(1).split(',')]
    subj = {'receiver_policy': 'receiver_policy', 'Policy': 'Policy'}[parts[0]]
    return '(' + ' || '.join('%s == %s' % (subj, POL[x]) for x in parts[1:]) + ')'
bt_ctx = dict(cls='bt', members=[],
              pre=[(r'using receiver_policy = decltype\(get_execution_policy\(r\.receiver_\)\);', ''),
                   (r'is_one_of_v<([^<>]*)>', _one_of),
                   (r'return unifex::(\w+);', r'return POL_\1;')])
SPEC = dict(
    properties=['C17'],
    ctx=dict(
        cls='schedule_receiver',
        members=['count_'],
        scalars=['Integral'],
        pre=[(r'using policy_t = [^;]*;', ''),
             (r'UNIFEX_DIAGNOSTIC_(?:PUSH|POP)', ''),
             (r'!is_stop_never_possible_v<decltype\(stop_token\)>\s*&&\s*stop_token\.stop_possible\(\)', 'EV_stop_possible(self)'),
             (r'get_stop_token\(receiver_\)', 'EV_get_stop_token(self)'),
             (r'stop_token\.stop_requested\(\)', 'EV_stop_requested(self)'),
             (r'is_one_of_v<\s*policy_t,\s*unsequenced_policy,\s*parallel_unsequenced_policy>', 'VF_CFG_unseq'),
             (r'unifex::set_done\(std::move\(receiver_\)\)', 'EV_set_done(self)'),
             (r'unifex::set_value\(std::move\(receiver_\)\)', 'EV_set_value(self)'),
             (r'unifex::set_next\(receiver_, Integral\(i\)\)', 'EV_set_next(self, i)')],
    ),
    extracts={
        'chunk_size': dict(file=H, kind='expr', sig=r'constexpr size_t bulk_cancellation_chunk_size = ([^;]*);'),
        'set_value': dict(file=H, sig=r'set_value\(\) noexcept\(is_nothrow_receiver_of_v<Receiver>&&\s*is_nothrow_next_receiver_v<Receiver, Integral>\)',
                          within=r'class _schedule_receiver<Integral, Receiver>::type \{',
                          loops={
                              0: '__CPROVER_assigns(chunk_start, G.next, G.terminal, G.done, G.stop_seen, G.polls, G.since_poll)\n'
                                 '__CPROVER_loop_invariant(chunk_start <= self->count_ + bulk_cancellation_chunk_size && (chunk_start < self->count_ ? G.next == chunk_start : G.next == self->count_) && G.terminal == 0 && !G.stop_seen && G.since_poll <= bulk_cancellation_chunk_size && G.value == 0 && G.done == 0)',
                              1: INNER_INV, 2: INNER_INV, 3: FLAT_INV, 4: FLAT_INV}),
        'bt_policy': dict(file=BT, sig=r'friend auto tag_invoke\(tag_t<get_execution_policy>, const type& r\) noexcept', ctx=bt_ctx),
    },
    units=[dict(name='bulk_transform_policy', harness='h_bt_policy', enforce='bt_get_execution_policy'),
           dict(name='bulk_set_value', harness='h_set_value', enforce='schedule_receiver_set_value', expect_loop_obligations=True, falsify_unwind=18)],
    assumptions=[
        'count <= SIZE_MAX - 64 (chunk_start + chunk wraps for counts within one chunk of the maximum)',
        'Integral instantiated as size_t; the receiver\'s set_next/set_value/set_done and the stop token are event stubs',
        'bulk_transform policy intersection: the four policy types are an enumeration, is_one_of_v<P, A, B> is P==A||P==B (both branches of each if constexpr verified); bulk_join (always par_unseq: it has no function of its own) and indexed_for are not reached',
    ],
    drops=['template genericity over Integral (size_t) and Receiver', 'which if-constexpr branch an instantiation takes (both verified)',
           'vectorisation pragmas', 'payload of set_next is kept (the index); receivers are stubs'],
)
