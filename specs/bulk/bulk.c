/* C17 (first half): bulk_schedule's index loop, include/unifex/bulk_schedule.hpp
 * _schedule_receiver<Integral,Receiver>::type::set_value, instantiated with
 * Integral = size_t.  Both `if constexpr` policy branches are kept (VF_CFG_unseq
 * is a symbolic constant). */
#include <stddef.h>
typedef size_t Integral;
struct vf_ghost {
  size_t next;          /* next index set_next must be called with */
  unsigned terminal;    /* terminal signals delivered (set_value + set_done) */
  unsigned value, done;
  _Bool stop_seen;      /* a stop_requested() poll returned true */
  size_t polls;         /* number of stop polls */
  size_t since_poll;    /* set_next calls since the last stop poll */
};
static struct vf_ghost G;
#include "vf.h"
static void vf_interfere(void) {}

struct schedule_receiver { Integral count_; int receiver_; };
static struct schedule_receiver R;
static _Bool VF_CFG_unseq;     /* which execution policy the receiver reports: both verified */
static _Bool CFG_stop_possible;

static const size_t bulk_cancellation_chunk_size = /*@EXPR chunk_size*/;

static int EV_get_stop_token(struct schedule_receiver* self) { return 0; }
static _Bool EV_stop_possible(struct schedule_receiver* self) { return CFG_stop_possible; }
static _Bool EV_stop_requested(struct schedule_receiver* self) {
  VF_P(G.terminal == 0, "no stop poll after the terminal signal");
  _Bool r = VF_nondet_bool();
  G.polls++;
  G.since_poll = 0;
  if (r) G.stop_seen = 1;
  return r;
}
static void EV_set_next(struct schedule_receiver* self, Integral i) {
  VF_CANARY("set_next reachable");
  VF_P(G.terminal == 0, "set_next never after the terminal signal");
  VF_P(i == G.next, "set_next called for every index exactly once, in order 0..n-1");
  VF_P(i < self->count_, "set_next index within [0,count)");
  VF_P(!G.stop_seen, "no set_next after a stop request was observed");
  G.next = i + 1;
  G.since_poll++;
  VF_P(!CFG_stop_possible || G.since_poll <= bulk_cancellation_chunk_size, "stop is polled at least once per cancellation chunk");
}
static void EV_set_value(struct schedule_receiver* self) {
  VF_CANARY("set_value reachable");
  VF_P(G.terminal == 0, "at most one terminal signal");
  VF_P(G.next == self->count_, "set_value only after every index 0..count-1 was visited");
  VF_P(!G.stop_seen, "a run that observed the stop request completes with done, not value");
  G.terminal++; G.value++;
}
static void EV_set_done(struct schedule_receiver* self) {
  VF_CANARY("set_done reachable");
  VF_P(G.terminal == 0, "at most one terminal signal");
  VF_P(G.stop_seen, "done only after a stop request was observed");
  G.terminal++; G.done++;
}

/* count_ <= SIZE_MAX - chunk: chunk_start + chunk wraps for counts within one chunk of
 * the type's maximum (noted in DESIGN.md C17, not claimed as a defect) */
void schedule_receiver_set_value(struct schedule_receiver* self)
__CPROVER_requires(self == &R && G.next == 0 && G.terminal == 0 && G.value == 0 && G.done == 0 && !G.stop_seen && G.polls == 0 && G.since_poll == 0)
__CPROVER_requires(R.count_ <= SIZE_MAX - 64)
__CPROVER_assigns(G.next, G.terminal, G.value, G.done, G.stop_seen, G.polls, G.since_poll)
__CPROVER_ensures(G.terminal == 1) /* exactly one terminal signal */
__CPROVER_ensures(G.value == 1 ==> G.next == R.count_) /* value => all indices visited */
__CPROVER_ensures(G.done == 1 ==> (G.stop_seen && G.next <= R.count_)) /* done => stop observed; a prefix was visited */
/*@BODY set_value*/

void h_set_value(void) {
  R.count_ = VF_nondet_size_t();
  VF_CFG_unseq = VF_nondet_bool();
  CFG_stop_possible = VF_nondet_bool();
  G.next = 0; G.terminal = 0; G.value = 0; G.done = 0; G.stop_seen = 0; G.polls = 0; G.since_poll = 0;
  schedule_receiver_set_value(&R);
  VF_CANARY("after set_value");
}

/* ---- bulk_transform: the policy reported downstream is the intersection of what the function's policy and the
 * receiver's policy allow (include/unifex/bulk_transform.hpp, tag_invoke(get_execution_policy)) ---- */
enum { POL_seq, POL_unseq, POL_par, POL_par_unseq };
static int receiver_policy, Policy;    /* the two template arguments as values: all 16 combinations verified */
#define ALLOWS_UNSEQ(p) ((p) == POL_unseq || (p) == POL_par_unseq)
#define ALLOWS_PAR(p) ((p) == POL_par || (p) == POL_par_unseq)
struct bt { int receiver_; };
static struct bt BT_R;
int bt_get_execution_policy(const struct bt* r)
__CPROVER_requires(r == &BT_R && receiver_policy >= POL_seq && receiver_policy <= POL_par_unseq && Policy >= POL_seq && Policy <= POL_par_unseq)
__CPROVER_assigns()
__CPROVER_ensures(__CPROVER_return_value >= POL_seq && __CPROVER_return_value <= POL_par_unseq)
__CPROVER_ensures(ALLOWS_UNSEQ(__CPROVER_return_value) == (ALLOWS_UNSEQ(receiver_policy) && ALLOWS_UNSEQ(Policy))) /* vectorised / interleaved calls only if BOTH the function and the downstream receiver permit them */
__CPROVER_ensures(ALLOWS_PAR(__CPROVER_return_value) == (ALLOWS_PAR(receiver_policy) && ALLOWS_PAR(Policy))) /* concurrent calls only if BOTH permit them */
/*@BODY bt_policy*/
void h_bt_policy(void) { receiver_policy = VF_nondet_int(); Policy = VF_nondet_int(); __CPROVER_assume(receiver_policy >= 0 && receiver_policy <= 3 && Policy >= 0 && Policy <= 3); bt_get_execution_policy(&BT_R); VF_CANARY("after get_execution_policy"); }
