/* Linearisation-point CONTRACTS of atomic_intrusive_list<Item, Latch> (include/unifex/detail/atomic_intrusive_list.hpp,
 * "Operations" comment block), as macros over ABSTRACT values, so that
 *   - specs/atomic_list/atomic_list.c checks them on the extracted bodies (bounded lists: the abstract values are computed
 *     from the concrete list before the call), and
 *   - client groups (specs/mutex_v2, specs/event_v2) use exactly the same text in their contract stubs (the abstract values
 *     come from the client's ghost view of the list).
 * No library code in here.
 *   n      number of real items in the list at the linearisation point
 *   front  the item at the front (oldest for push_back users) at the linearisation point, meaningful when n > 0
 *   member the operand item is in the list at the linearisation point
 *   latched the list is latched at the linearisation point (latch lists only)
 * Every operation is ONE linearisation point (it holds the lock bit of the link(s) it changes). */
#ifndef AIL_CONTRACT_H
#define AIL_CONTRACT_H

/* a replaced / stubbed _Bool result is a canonical truth value */
#define AIL_BOOL(rv) ((rv) == 0 || (rv) == 1)

/* empty(): true <=> no real item (a latched list holds no item) */
#define AIL_ENS_EMPTY(rv, n)                 (AIL_BOOL(rv) && (rv) == ((n) == 0))
/* pop_front(): NULL <=> empty; otherwise exactly the FRONT item is removed (the others keep their order) */
#define AIL_ENS_POP_FRONT(rv, n, front)      ((rv) == ((n) == 0 ? NULL : (front)))
/* try_remove(item): true <=> the item was in the list, and then it is removed (nothing else changes); an item already
 * popped / removed / never pushed: false, nothing changes.  Of a pop_front returning the item and a try_remove(item)
 * at most one succeeds (both linearise on the lock of the link that points to the item). */
#define AIL_ENS_TRY_REMOVE(rv, member)       (AIL_BOOL(rv) && (rv) == ((member) != 0))
/* push_back(item) / push_front(item): requires the item is in no list (self == NULL); afterwards it is the LAST / FIRST item */
#define AIL_REQ_PUSH(member)                 (!(member))
/* push_front_unless_latched(item): true <=> not latched, and then the item is the first item; latched: false, nothing changes */
#define AIL_ENS_PUSH_UNLESS_LATCHED(rv, latched) (AIL_BOOL(rv) && (rv) == !(latched))
/* is_latched() */
#define AIL_ENS_IS_LATCHED(rv, latched)      (AIL_BOOL(rv) && (rv) == ((latched) != 0))
/* latch_and_drain(target): requires target empty and distinct.  Already latched: nothing.  Otherwise: ALL n items move to
 * target in order, the source becomes latched and empty -- in ONE linearisation point (head lock held throughout) */
#define AIL_ENS_LATCH_AND_DRAIN(latched_before, n_before, n_src_after, n_tgt_after, latched_after) \
  ((latched_after) && (n_src_after) == 0 && (n_tgt_after) == ((latched_before) ? 0 : (n_before)))
/* unlatch(): latched (hence empty) -> unlatched empty; otherwise nothing: never removes an item */
#define AIL_ENS_UNLATCH(n_before, n_after, latched_after) (!(latched_after) && (n_after) == (n_before))
#endif
