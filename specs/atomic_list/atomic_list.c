/* C15 / C16: atomic_intrusive_list (source/atomic_intrusive_list.cpp, include/unifex/detail/atomic_intrusive_list.hpp).
 *
 *   link word   : bit 0 = per-link spin lock, the rest = node* (0 = null).  A list is head_ -> n1 -> ... -> sentinel_.
 *   node.self   : address of the link word that points to this node (nullptr: in no list);  node.rest : forward link.
 *   LINK INVARIANT I: an UNLOCKED link of a list points to a node whose self is the address of that link, and no other
 *   node's self designates it.  Every store to a link, and every store to the self pointer of the node a link points to,
 *   happens while the storing call HOLDS THAT LINK'S LOCK BIT -- or the node / list is not yet published (link discipline).
 *
 * Three layers:
 *  (1) M1, unbounded: lock / try_lock_checking / unlock -- real bodies against one link word L0 under interference.
 *  (2) M1 + M2 window, unbounded: every list operation against a window (list Q, target T, operand ITEM, neighbours W1 / W2,
 *      opaque FAR node) with the lock helpers as contract stubs; vf_interfere() changes every link whose lock bit the call
 *      does not hold and every self pointer it does not protect.  Obligations: link discipline at every store (vf_guar),
 *      invariant I re-established at every unlock, lock balance, the code's own assertions, the local effect of the operation.
 *  (3) M3, BOUNDED (lists of <= NB nodes, sequential): the functional contracts of specs/atomic_list/ail_contract.h, globally.
 * Bodies marked @BODY/@EXPR are extracted from /repo on every run; everything else here is specification. */
#include <stddef.h>
#include <stdint.h>
typedef uintptr_t link_t;                                  /* atomic_intrusive_list_link = std::atomic<uintptr_t> */
struct node { link_t* self; link_t rest; };                /* atomic_intrusive_list_node */
struct ail { struct node sentinel_; struct node sentinel_latch_; link_t head_; };   /* atomic_intrusive_list_impl<Latch> */
static _Bool Latch;                                        /* template parameter: symbolic */

enum { L_QHEAD, L_THEAD, L_ITEM, L_W1, L_W2, L_L0, NLINK };
enum { N_QSENT, N_QLATCH, N_TSENT, N_ITEM, N_W1, N_W2, N_FAR, N_NONE };
enum { MODE_LOCKFN, MODE_LIST, MODE_SEQ };
enum { LIFE_NOT_IN_LIST, LIFE_MAY_LEAVE, LIFE_STABLE };

struct vf_ghost {
  int mode;
  struct {                       /* per-link lock ghosts */
    _Bool held[NLINK];           /* this call holds the lock bit of link i */
    uintptr_t acq_val[NLINK];    /* value (without lock bit) seen when the lock was acquired */
    uintptr_t rel_val[NLINK];    /* value stored when it was released */
    unsigned acq, rel;
    unsigned net_changes;        /* releases that stored a value different from the one seen at the acquisition */
  } lk;
  _Bool pub[N_FAR + 1];          /* node j is reachable by other threads (in a list) */
  _Bool no_latch;                /* the list is never latched while this call runs (push_back / drain_into are not used on a latched list) */
  int item_life;                 /* what the environment may do to the operand ITEM (try_remove) */
  unsigned link_stores, self_stores;
  _Bool q_private;               /* the list object itself is under construction (constructor) */
  int tlc_li;                    /* the link the last successful try_lock_checking acquired */
  link_t* snap_item_self; uintptr_t snap_item_rest; link_t* snap_succ_self; int pub_li;   /* ITEM at the moment it was published */
  _Bool have_ret; uintptr_t ret;  /* outlined loop bodies: value returned by `return e;` */
};
static struct vf_ghost G;
static struct ail Q, T;
static struct node ITEM, W1, W2, FAR;
static link_t L0; static link_t* MON; static uintptr_t HV;   /* lock-helper units: one link word, one monitored pointer, the out parameter */
static link_t* pred_link; static uintptr_t pred_val;         /* drain_into / latch_and_drain: locals shared with the outlined retry loop */

static const uintptr_t lock_bit = /*@EXPR lock_bit*/;

static void vf_guar(void* p, uint64_t o, uint64_t n);
#define VF_G(p, o, n) vf_guar((void*)(p), (uint64_t)(uintptr_t)(o), (uint64_t)(uintptr_t)(n))
#include "vf.h"
#include "ail_contract.h"
#define VF_NB() (VF_nondet_bool() ? (_Bool)1 : (_Bool)0)
#define VF_ASSERT_THEN_ASSUME(e) do { __CPROVER_assert((e), "P-int: UNIFEX_ASSERT(" #e ")"); __CPROVER_assume(e); } while (0)
#define VF_SET_RET(v) do { G.have_ret = 1; G.ret = (uintptr_t)(v); } while (0)

/* ---------------- window tables ---------------- */
static link_t* vf_lk(int i) { return i == L_QHEAD ? &Q.head_ : i == L_THEAD ? &T.head_ : i == L_ITEM ? &ITEM.rest : i == L_W1 ? &W1.rest : i == L_W2 ? &W2.rest : &L0; }
static int vf_lk_index(link_t* p) { return p == &Q.head_ ? L_QHEAD : p == &T.head_ ? L_THEAD : p == &ITEM.rest ? L_ITEM : p == &W1.rest ? L_W1 : p == &W2.rest ? L_W2 : p == &L0 ? L_L0 : -1; }
static struct node* vf_nd(int j) { return j == N_QSENT ? &Q.sentinel_ : j == N_QLATCH ? &Q.sentinel_latch_ : j == N_TSENT ? &T.sentinel_ : j == N_ITEM ? &ITEM : j == N_W1 ? &W1 : j == N_W2 ? &W2 : &FAR; }
static int vf_nd_index(uintptr_t v) {
  uintptr_t a = v & ~(uintptr_t)1;
  return a == (uintptr_t)&Q.sentinel_ ? N_QSENT : a == (uintptr_t)&Q.sentinel_latch_ ? N_QLATCH : a == (uintptr_t)&T.sentinel_ ? N_TSENT
       : a == (uintptr_t)&ITEM ? N_ITEM : a == (uintptr_t)&W1 ? N_W1 : a == (uintptr_t)&W2 ? N_W2 : a == (uintptr_t)&FAR ? N_FAR : N_NONE;
}
static int vf_self_index(void* p) { return p == (void*)&Q.sentinel_.self ? N_QSENT : p == (void*)&Q.sentinel_latch_.self ? N_QLATCH : p == (void*)&T.sentinel_.self ? N_TSENT
       : p == (void*)&ITEM.self ? N_ITEM : p == (void*)&W1.self ? N_W1 : p == (void*)&W2.self ? N_W2 : -1; }
/* the node that owns link i (its rest), or -1 for a head */
static int vf_lk_owner(int i) { return i == L_ITEM ? N_ITEM : i == L_W1 ? N_W1 : i == L_W2 ? N_W2 : -1; }
static _Bool vf_link_pub(int i) { return i == L_QHEAD ? !G.q_private : i == L_THEAD ? G.pub[N_TSENT] : i == L_L0 ? 1 : G.pub[vf_lk_owner(i)]; }
#define LKVAL(i) (*vf_lk(i) & ~(uintptr_t)1)
/* node j's self pointer is this call's to change: the call holds the lock bit of the link that points to j, or of the link
 * j's self designates (nobody else can then hold "the link that points to j") */
static _Bool vf_held_link(link_t* p) { int i = vf_lk_index(p); return i >= 0 && G.lk.held[i]; }
static _Bool vf_protected(int j) {
  uintptr_t a = (uintptr_t)vf_nd(j);
  if (G.lk.held[L_QHEAD] && (j == N_QLATCH || (j == N_QSENT && (LKVAL(L_QHEAD) == (uintptr_t)&Q.sentinel_latch_ || Q.sentinel_.self == NULL)))) return 1;   /* the off-list sentinel of a latch list is touched under head_'s lock only */
  if (vf_held_link(vf_nd(j)->self)) return 1;
  return (G.lk.held[L_QHEAD] && LKVAL(L_QHEAD) == a) || (G.lk.held[L_THEAD] && LKVAL(L_THEAD) == a) || (G.lk.held[L_ITEM] && LKVAL(L_ITEM) == a)
      || (G.lk.held[L_W1] && LKVAL(L_W1) == a) || (G.lk.held[L_W2] && LKVAL(L_W2) == a);
}
/* ---------------- rely: the environment ----------------
 * any link whose lock bit this call does not hold may change (value and lock bit); any self pointer of a published node
 * that this call does not protect may change.  What is known afterwards is only what the link invariant gives for the
 * links this call holds (no unprotected node designates a link I hold). */
static uintptr_t vf_pick_value(void) {
  int k = VF_nondet_int();
  if (k == 0) return (uintptr_t)&Q.sentinel_;
  if (k == 1 && Latch && !G.no_latch) return (uintptr_t)&Q.sentinel_latch_;
  if (k == 2 && G.pub[N_TSENT]) return (uintptr_t)&T.sentinel_;
  if (k == 3 && G.pub[N_ITEM]) return (uintptr_t)&ITEM;
  if (k == 4 && G.pub[N_W1]) return (uintptr_t)&W1;
  if (k == 5 && G.pub[N_W2]) return (uintptr_t)&W2;
  if (k == 6) return (uintptr_t)&FAR;
  return 0;
}
/* the self pointer the environment may give to an unprotected node j: never a link this call holds (link invariant: only the
 * holder of a link points a self at it); shape of the window: W1 is before ITEM, W2 after it, the tail is W1 / W2 / ITEM */
static link_t* vf_pick_self(int j) {
  int k = VF_nondet_int();
  link_t* p = NULL;
  if (j == N_QSENT) p = k == 0 ? &Q.head_ : k == 1 ? &W1.rest : k == 2 ? &W2.rest : (k == 3 && G.pub[N_ITEM]) ? &ITEM.rest : NULL;
  else if (j == N_QLATCH) p = k == 0 ? &Q.head_ : NULL;
  else if (j == N_ITEM) p = k == 0 ? &Q.head_ : k == 1 ? &W1.rest : NULL;
  else if (j == N_W1) p = k == 0 ? &Q.head_ : k == 1 ? &FAR.rest : NULL;
  else if (j == N_W2) p = k == 0 ? &W1.rest : (k == 1 && G.pub[N_ITEM]) ? &ITEM.rest : k == 2 ? &FAR.rest : NULL;
  else p = k == 0 ? &T.head_ : k == 1 ? &W1.rest : k == 2 ? &W2.rest : NULL;
  __CPROVER_assume(!vf_held_link(p));
  /* the sentinel is on the list (self != nullptr) unless the list is latched; latching needs head_'s lock */
  if (j == N_QSENT && (G.no_latch || !Latch || (G.lk.held[L_QHEAD] && LKVAL(L_QHEAD) != (uintptr_t)&Q.sentinel_latch_))) __CPROVER_assume(p != NULL);
  if (j == N_ITEM && G.item_life == LIFE_STABLE) __CPROVER_assume(p != NULL);          /* nobody else removes the operand */
  return p;
}
static void vf_interfere(void) {
  if (G.mode == MODE_SEQ) return;
  if (G.mode == MODE_LOCKFN) {
    if (!G.lk.held[L_L0]) L0 = VF_nondet_uptr();
    int k = VF_nondet_int(); MON = k == 0 ? &L0 : k == 1 ? &FAR.rest : NULL;
    return;
  }
#define HAVOC_LINK(i) if (!G.lk.held[i] && vf_link_pub(i)) *vf_lk(i) = vf_pick_value() | (VF_NB() ? (uintptr_t)1 : (uintptr_t)0);
  HAVOC_LINK(L_QHEAD) HAVOC_LINK(L_THEAD) HAVOC_LINK(L_ITEM) HAVOC_LINK(L_W1) HAVOC_LINK(L_W2)
#define HAVOC_SELF(j) if (G.pub[j] && !vf_protected(j)) vf_nd(j)->self = vf_pick_self(j);
  HAVOC_SELF(N_QSENT) HAVOC_SELF(N_QLATCH) HAVOC_SELF(N_TSENT) HAVOC_SELF(N_ITEM) HAVOC_SELF(N_W1) HAVOC_SELF(N_W2)
}

/* ---------------- guarantee: the link discipline, checked at every atomic store ---------------- */
static void vf_check_link_inv(int li, uintptr_t n) {
  if (li == L_L0) return;
  int j = vf_nd_index(n);
  if (n == 0) {
    VF_P(vf_lk_owner(li) >= 0 && vf_nd(vf_lk_owner(li))->self == NULL, "a link is cleared only when its node has left the list (self == nullptr)");
    return;
  }
  VF_P(j != N_NONE, "a link is released with a node of the window (or null) in it");
  if (j == N_FAR) { VF_P(n == G.lk.acq_val[li], "a link to a node outside the window is released unchanged"); return; }
  VF_P(vf_nd(j)->self == vf_lk(li), "link invariant restored at unlock: the node the link points to has self == the address of this link");
  if (li == L_QHEAD && Latch && (j == N_QLATCH || j == N_QSENT)) {
    VF_P(j == N_QLATCH ? Q.sentinel_.self == NULL : Q.sentinel_latch_.self == NULL, "latch list: when head_ is released pointing to one sentinel, the other one is off the list (self == nullptr)");
  }
}
static void vf_guar(void* p, uint64_t o, uint64_t n) {
  if (G.mode == MODE_SEQ) return;                       /* the discipline is checked in the unbounded units */
  int li = vf_lk_index((link_t*)p);
  if (li >= 0) {
    G.link_stores++;
    if (!(o & 1) && (n & 1)) {                          /* acquisition (the CAS of lock / try_lock_checking) */
      VF_P(n == (o | 1), "acquiring a link's lock bit does not change the pointer in it");
      VF_P(!G.lk.held[li], "a link is not locked twice by one call");
      G.lk.held[li] = 1; G.lk.acq++; G.lk.acq_val[li] = (uintptr_t)o;
      return;
    }
    VF_P(G.lk.held[li] || !vf_link_pub(li), "link discipline: a store to a link happens while this call holds that link's lock bit, or its node is not yet published");
    if (G.lk.held[li] && !(n & 1)) {                    /* release */
      vf_check_link_inv(li, (uintptr_t)n);
      int jn = vf_nd_index((uintptr_t)n), ja = vf_nd_index(G.lk.acq_val[li]);
      if (li == L_L0) { jn = N_NONE; ja = N_NONE; }
      _Bool inserted = (jn == N_ITEM && !G.pub[N_ITEM] && (ITEM.rest & ~(uintptr_t)1) == G.lk.acq_val[li]);   /* the operand was linked in front of the old target */
      if (jn == N_ITEM && !G.pub[N_ITEM]) {             /* the operand becomes reachable */
        G.snap_item_self = ITEM.self; G.snap_item_rest = ITEM.rest; G.pub_li = li;
        int js = vf_nd_index(ITEM.rest);
        G.snap_succ_self = (js <= N_W2) ? vf_nd(js)->self : NULL;
        G.pub[N_ITEM] = 1;
      }
      if (jn == N_TSENT) G.pub[N_TSENT] = 1;
      G.lk.held[li] = 0; G.lk.rel++; G.lk.rel_val[li] = (uintptr_t)n;
      if ((uintptr_t)n != G.lk.acq_val[li]) G.lk.net_changes++;
      /* the node the link pointed to left the list (by I no other link points to it) unless a node was inserted in front of it
       * or it was spliced into the (published) target: it is private to this call now */
      if (ja >= N_ITEM && ja <= N_W2 && ja != jn && !inserted
          && !(G.pub[N_TSENT] && LKVAL(L_THEAD) == G.lk.acq_val[li])) G.pub[ja] = 0;
    }
    return;
  }
  int nj = vf_self_index(p);
  VF_P(nj >= 0, "atomic store to a link or self pointer inside the window (the operation only needs its neighbours)");
  if (nj < 0) return;
  G.self_stores++;
  VF_P(vf_protected(nj) || !G.pub[nj], "link discipline: a node's self pointer is stored only while this call holds the lock bit of the link that points to the node, or the node is not yet published");
  { int l2 = vf_lk_index((link_t*)(uintptr_t)n);
    VF_P(n == 0 || (l2 >= 0 && l2 != L_L0 && (G.lk.held[l2] || !vf_link_pub(l2))), "link discipline: a node's self is pointed at a link only while this call holds that link's lock bit, or the link is not yet published"); }
  if (n == (uint64_t)(uintptr_t)&T.head_ && G.pub[nj]) {
    VF_P(LKVAL(L_THEAD) == (uintptr_t)vf_nd(nj), "the target's head already points to the node whose self is redirected to it");
    G.pub[N_TSENT] = 1;                                 /* the target list is reachable from here on */
  }
}

/* ---------------- static helpers of the .cpp ---------------- */
static struct node* AIL_to_node(uintptr_t v)
/*@BODY to_node*/
static uintptr_t AIL_to_value(struct node* p)
/*@BODY to_value*/

/* ---------------- the lock helpers ---------------- */
#define LOCKFN_ASSIGNS L0, MON, HV, G.lk, G.link_stores
#define LOCKFN_INV (!G.lk.held[L_L0] && G.lk.acq == 0 && G.lk.rel == 0 && G.link_stores == 0)
#define LOCKFN_REQ(lk) ((lk) == &L0 && G.mode == MODE_LOCKFN && LOCKFN_INV)
/* lock: returns holding the lock bit; the returned value is the (unlocked) value the acquiring CAS saw; nothing else written */
#define LOCK_ENS(rv) (G.lk.held[L_L0] && G.lk.acq == 1 && G.lk.rel == 0 && ((rv) & lock_bit) == 0 && L0 == ((rv) | lock_bit) && G.lk.acq_val[L_L0] == (rv) && G.link_stores == 1)
/* try_lock_checking: true: as lock, value in *head_val.  false: nothing was written, no lock is held.
 * NOT promised (and not true, see probes/native/atomic_list_push_back_aba_lost_node.cpp): that `monitored == expected` still
 * holds when the lock has been acquired -- the CAS only shows that the link has the VALUE it had before the check (ABA).
 * The callers therefore re-check the value they got (finding C15-atomic-list-aba, fixed): see PB_INV / DR_BREAK_POST */
#define TLC_ENS(rv) (AIL_BOOL(rv) && ((rv) ==> (G.lk.held[L_L0] && G.lk.acq == 1 && G.lk.rel == 0 && (HV & lock_bit) == 0 && L0 == (HV | lock_bit) && G.lk.acq_val[L_L0] == HV && G.link_stores == 1)) \
                     && (!(rv) ==> (!G.lk.held[L_L0] && G.lk.acq == 0 && G.lk.rel == 0 && G.link_stores == 0)))

/* shape of the window: which node a locked link may point to (W1 before ITEM before W2; the far end is opaque) */
static _Bool vf_shape_ok(int li, int j) {
  if (li == L_QHEAD) return j == N_QSENT || j == N_QLATCH || j == N_W1 || j == N_ITEM;
  if (li == L_W1) return j == N_ITEM || j == N_W2 || j == N_QSENT;
  if (li == L_ITEM) return j == N_W2 || j == N_QSENT;
  if (li == L_W2) return j == N_QSENT || j == N_FAR;
  return 0;
}
static void vf_acquire(int li, link_t* lk, _Bool nonnull) {
  uintptr_t v = *lk;
  __CPROVER_assume(!(v & 1));                                             /* the CAS succeeds on an unlocked value only */
  int j = vf_nd_index(v);
  if (nonnull) __CPROVER_assume(v != 0);                                  /* the link of a node that is in a list is never null */
  if (v != 0) {
    __CPROVER_assume(vf_shape_ok(li, j));
    /* link invariant I at the acquisition: the pointed-to node is published and designates this link ... */
    if (j <= N_W2) __CPROVER_assume(G.pub[j] && vf_nd(j)->self == lk);
    if (j == N_QLATCH) __CPROVER_assume(Latch && !G.no_latch);
    if (li == L_QHEAD && Latch) {                                         /* latch coupling: one sentinel on the list, the other off */
      if (j == N_QLATCH) __CPROVER_assume(Q.sentinel_.self == NULL);
      else __CPROVER_assume(Q.sentinel_latch_.self == NULL && Q.sentinel_.self != NULL);
    }
  }
  /* ... and no other node does */
#define NO_STRAY(k) if (k != j) __CPROVER_assume(!(G.pub[k] && vf_nd(k)->self == lk));
  NO_STRAY(N_QSENT) NO_STRAY(N_QLATCH) NO_STRAY(N_TSENT) NO_STRAY(N_ITEM) NO_STRAY(N_W1) NO_STRAY(N_W2)
  *lk = v | 1; G.lk.held[li] = 1; G.lk.acq++; G.lk.acq_val[li] = v;
}
#ifdef VF_VERIFY_LOCKS
uintptr_t LO_lock(link_t* lk)
__CPROVER_requires(LOCKFN_REQ(lk))
__CPROVER_assigns(LOCKFN_ASSIGNS)
__CPROVER_ensures(LOCK_ENS(__CPROVER_return_value))
/*@BODY lock*/

_Bool LO_try_lock_checking(link_t* lk, link_t** monitored, link_t* expected, uintptr_t* head_val)
__CPROVER_requires(LOCKFN_REQ(lk) && monitored == &MON && head_val == &HV && (expected == &L0 || expected == NULL || expected == &FAR.rest))
__CPROVER_assigns(LOCKFN_ASSIGNS)
__CPROVER_ensures(TLC_ENS(__CPROVER_return_value))
/*@BODY try_lock_checking*/
#elif defined(VF_BOUNDED)
/* sequential contract stubs (no other thread): the lock is free, the monitored pointer does not move */
static uintptr_t LO_lock(link_t* lk) {
  VF_P(!(*lk & 1), "sequential: no link is left locked");
  uintptr_t v = *lk; *lk = v | 1; return v;
}
static _Bool LO_try_lock_checking(link_t* lk, link_t** monitored, link_t* expected, uintptr_t* head_val) {
  if (*monitored != expected) return 0;
  VF_P(!(*lk & 1), "sequential: no link is left locked");
  uintptr_t v = *lk; *lk = v | 1; *head_val = v; return 1;
}
#else
/* contract stubs built from LOCK_ENS / TLC_ENS: assert requires; environment step; acquire by concrete choice */
static uintptr_t LO_lock(link_t* lk) {
  int li = vf_lk_index(lk);
  VF_P(li >= 0 && li != L_L0, "lock of a link inside the window (the operation only needs its neighbours)");
  VF_P(!G.lk.held[li], "a link is not locked twice by one call (self-deadlock)");
  vf_interfere();
  vf_acquire(li, lk, 1);
  return G.lk.acq_val[li];
}
static _Bool LO_try_lock_checking(link_t* lk, link_t** monitored, link_t* expected, uintptr_t* head_val) {
  int li = vf_lk_index(lk);
  VF_P(li >= 0 && li != L_L0, "try_lock_checking of a link inside the window");
  VF_P(!G.lk.held[li], "a link is not locked twice by one call (self-deadlock)");
  vf_interfere();
  if (VF_NB()) return 0;                                                  /* the monitored pointer was seen changed: nothing written */
  /* assumption (listed in the spec): the link is not the null link of an off-list node -- `monitored == expected` was seen while the
   * link pointed to the monitored node, so a null value at the CAS needs the same ABA as the finding below, twice */
  vf_acquire(li, lk, 1);
  G.tlc_li = li;
  *head_val = G.lk.acq_val[li];
  return 1;
}
#endif

void LO_unlock(link_t* lk, uintptr_t value)
__CPROVER_requires(lk == &L0 && G.mode == MODE_LOCKFN && G.lk.held[L_L0] && (value & lock_bit) == 0)
__CPROVER_assigns(LOCKFN_ASSIGNS)
__CPROVER_ensures(!G.lk.held[L_L0] && G.lk.rel == __CPROVER_old(G.lk.rel) + 1 && L0 == value && G.lk.rel_val[L_L0] == value) /* releases exactly the given link, storing the new unlocked value */
/*@BODY unlock*/


/* ================= the list operations against the window (unbounded) ================= */
#define ALL_FREE (!G.lk.held[L_QHEAD] && !G.lk.held[L_THEAD] && !G.lk.held[L_ITEM] && !G.lk.held[L_W1] && !G.lk.held[L_W2])
#define BALANCED (ALL_FREE && G.lk.acq == G.lk.rel)                       /* every lock bit this call acquired has been released */
#define LIST_REQ(self) ((self) == &Q && G.mode == MODE_LIST && ALL_FREE && G.lk.acq == 0 && G.lk.rel == 0 && G.lk.net_changes == 0 && !G.q_private)
#define LIST_ASSIGNS Q, T, ITEM, W1, W2, G, pred_link, pred_val
#define LK_ADDR(i) ((i) == L_QHEAD ? &Q.head_ : (i) == L_THEAD ? &T.head_ : (i) == L_ITEM ? &ITEM.rest : (i) == L_W1 ? &W1.rest : &W2.rest)
#define QSENTV ((uintptr_t)&Q.sentinel_)
#define QLATCHV ((uintptr_t)&Q.sentinel_latch_)
#define TSENTV ((uintptr_t)&T.sentinel_)
#define ITEMV ((uintptr_t)&ITEM)
#define IS_SENT(v) ((v) == QSENTV || (Latch && (v) == QLATCHV))
#define ITEM_PRIVATE (!G.pub[N_ITEM] && ITEM.self == NULL)
#define T_PRIVATE_EMPTY (!G.pub[N_TSENT] && T.head_ == TSENTV && T.sentinel_.self == &T.head_)
/* the operand was published by the release of link G.pub_li, fully linked: self = that link, forward link = nxt, and nxt's node points back */
#define ITEM_PUBLISHED_AT(li, nxt) (G.pub[N_ITEM] && G.pub_li == (li) && G.lk.rel_val[li] == ITEMV && G.snap_item_self == LK_ADDR(li) && G.snap_item_rest == (nxt) && G.snap_succ_self == &ITEM.rest)

void AIL_ctor(struct ail* self)
__CPROVER_requires(self == &Q && G.mode == MODE_LIST && G.q_private && !G.pub[N_QSENT] && !G.pub[N_QLATCH] && ALL_FREE)
__CPROVER_assigns(LIST_ASSIGNS)
__CPROVER_ensures(Q.head_ == QSENTV && Q.sentinel_.self == &Q.head_) /* empty, unlocked, invariant I holds */
__CPROVER_ensures(G.lk.acq == 0 && G.lk.rel == 0)
/*@BODY ctor*/

_Bool AIL_is_sentinel(struct ail* self, const struct node* n)
__CPROVER_requires(self == &Q)
__CPROVER_assigns()
__CPROVER_ensures(__CPROVER_return_value == (n == &Q.sentinel_ || (Latch && n == &Q.sentinel_latch_)))
/*@BODY is_sentinel*/

_Bool AIL_empty_impl(struct ail* self)
__CPROVER_requires((self == &Q || self == &T) && G.mode != MODE_LOCKFN)
__CPROVER_assigns(LIST_ASSIGNS)
__CPROVER_ensures(self == &Q ==> AIL_ENS_EMPTY(__CPROVER_return_value, IS_SENT(Q.head_ & ~lock_bit) ? 0 : 1)) /* at the load: head_ points to a sentinel <=> no item */
__CPROVER_ensures(G.link_stores == __CPROVER_old(G.link_stores) && G.self_stores == __CPROVER_old(G.self_stores)) /* read only */
/*@BODY empty_impl*/

_Bool AIL_is_latched_impl(struct ail* self)
__CPROVER_requires(self == &Q && G.mode == MODE_LIST)
__CPROVER_assigns(LIST_ASSIGNS)
__CPROVER_ensures(AIL_ENS_IS_LATCHED(__CPROVER_return_value, Latch && (Q.head_ & ~lock_bit) == QLATCHV))
__CPROVER_ensures(G.link_stores == 0 && G.self_stores == 0)
/*@BODY is_latched_impl*/

void AIL_push_front_impl(struct ail* self, struct node* item)
__CPROVER_requires(LIST_REQ(self) && item == &ITEM && ITEM_PRIVATE)
__CPROVER_assigns(LIST_ASSIGNS)
__CPROVER_ensures(BALANCED && G.lk.acq == 1) /* head_ only */
__CPROVER_ensures(ITEM_PUBLISHED_AT(L_QHEAD, G.lk.acq_val[L_QHEAD])) /* the item is the new first node, in front of the old first */
/*@BODY push_front_impl*/

/* push_back: entry segment; the retry loop is a cut point */
#define PB_INV (BALANCED && G.lk.net_changes == 0 && G.self_stores == 0 && ITEM_PRIVATE && ITEM.rest == QSENTV)
static void push_back__loop0(struct ail* self, struct node* item) {
  VF_P(PB_INV, "cut point (push_back retry loop): no lock held, nothing changed, the operand prepared (rest -> sentinel) and still private");
  VF_CANARY("push_back reaches its retry loop");
  __CPROVER_assume(0);      /* the loop is left only by the `return` inside its body (push_back__loop0_body) */
}
#define VF_LOOP_PB push_back__loop0(self, item)
void AIL_push_back_impl(struct ail* self, struct node* item)
__CPROVER_requires(LIST_REQ(self) && item == &ITEM && ITEM_PRIVATE && G.no_latch)
__CPROVER_assigns(LIST_ASSIGNS)
__CPROVER_ensures(BALANCED)
/*@BODY push_back_impl*/

int push_back__loop0_body(struct ail* self, struct node* item)
__CPROVER_requires(LIST_REQ(self) && item == &ITEM && PB_INV && G.no_latch)
__CPROVER_assigns(LIST_ASSIGNS)
__CPROVER_ensures(__CPROVER_return_value == VF_X_CONTINUE || __CPROVER_return_value == VF_X_RETURN)
__CPROVER_ensures(__CPROVER_return_value == VF_X_CONTINUE ==> PB_INV) /* a failed attempt -- also one that locked a link that is not the tail link (ABA in try_lock_checking) -- unlocks it with its value unchanged and retries */
__CPROVER_ensures(__CPROVER_return_value == VF_X_RETURN ==> (BALANCED && G.lk.acq == 1 && G.lk.net_changes == 1 && G.lk.rel_val[G.tlc_li] == ITEMV)) /* exactly one link changed: it now points to the item */
__CPROVER_ensures(__CPROVER_return_value == VF_X_RETURN ==> (G.pub_li == G.tlc_li && G.lk.acq_val[G.tlc_li] == QSENTV && ITEM_PUBLISHED_AT(G.tlc_li, QSENTV))) /* the item is linked only behind the TAIL link (its value was the sentinel): tail -> item -> sentinel, sentinel.self -> item.rest: no node is dropped */
/*@LOOPBODY push_back_impl.loop0.body*/

struct node* AIL_pop_front_impl(struct ail* self)
__CPROVER_requires(LIST_REQ(self) && !G.pub[N_ITEM])
__CPROVER_assigns(LIST_ASSIGNS)
__CPROVER_ensures(BALANCED)
__CPROVER_ensures(AIL_ENS_POP_FRONT(__CPROVER_return_value, IS_SENT(G.lk.acq_val[L_QHEAD]) ? 0 : 1, (struct node*)G.lk.acq_val[L_QHEAD])) /* NULL <=> head_ pointed to a sentinel when it was locked; else exactly the first node */
__CPROVER_ensures(__CPROVER_return_value == NULL ==> (G.lk.acq == 1 && G.lk.net_changes == 0 && G.self_stores == 0)) /* empty: nothing changed */
__CPROVER_ensures(__CPROVER_return_value != NULL ==> (__CPROVER_return_value == &W1 && G.lk.acq == 2 && G.lk.rel_val[L_QHEAD] == G.lk.acq_val[L_W1] && !G.pub[N_W1] && W1.self == NULL && W1.rest == 0)) /* the first node is unlinked (head_ -> second), marked not-in-list, its forward link cleared and unlocked */
/*@BODY pop_front_impl*/

/* try_remove: entry segment + retry loop body */
#define TR_INV (BALANCED && G.lk.net_changes == 0 && G.self_stores == 0)
static void try_remove__loop0(struct ail* self, struct node* item) {
  VF_P(TR_INV, "cut point (try_remove retry loop): no lock held, nothing changed");
  VF_CANARY("try_remove reaches its retry loop");
  __CPROVER_assume(0);
}
#define VF_LOOP_TR try_remove__loop0(self, item)
_Bool AIL_try_remove_impl(struct ail* self, struct node* item)
__CPROVER_requires(LIST_REQ(self) && item == &ITEM)
__CPROVER_assigns(LIST_ASSIGNS)
__CPROVER_ensures(BALANCED)
/*@BODY try_remove_impl*/

#define TR_RET(x) (__CPROVER_return_value == VF_X_RETURN && G.have_ret && G.ret == (x))
int try_remove__loop0_body(struct ail* self, struct node* item)
__CPROVER_requires(LIST_REQ(self) && item == &ITEM && TR_INV && !G.have_ret)
__CPROVER_requires((G.item_life == LIFE_NOT_IN_LIST) == !G.pub[N_ITEM] && (G.pub[N_ITEM] || (ITEM.self == NULL && ITEM.rest == 0)))
__CPROVER_assigns(LIST_ASSIGNS)
__CPROVER_ensures(BALANCED && (__CPROVER_return_value == VF_X_CONTINUE || TR_RET(0) || TR_RET(1)))
__CPROVER_ensures(__CPROVER_return_value == VF_X_CONTINUE ==> TR_INV) /* a failed attempt leaves no trace */
__CPROVER_ensures((__CPROVER_return_value == VF_X_RETURN && __CPROVER_old(G.item_life) != LIFE_MAY_LEAVE) ==> AIL_ENS_TRY_REMOVE(G.ret, __CPROVER_old(G.item_life) == LIFE_STABLE)) /* true <=> the item was in the list */
__CPROVER_ensures(TR_RET(0) ==> (G.lk.net_changes == 0 && G.self_stores == 0)) /* not in the list (popped / removed / never pushed): nothing changed */
__CPROVER_ensures(__CPROVER_old(G.item_life) == LIFE_NOT_IN_LIST ==> (TR_RET(0) && G.lk.acq == 0 && G.link_stores == 0))
__CPROVER_ensures(TR_RET(1) ==> (G.lk.acq == 2 && G.lk.acq_val[G.tlc_li] == ITEMV && G.lk.rel_val[G.tlc_li] == G.lk.acq_val[L_ITEM] && !G.pub[N_ITEM] && ITEM.self == NULL && ITEM.rest == 0)) /* unlinked: the predecessor link now points to the successor; the item is marked not-in-list, its link cleared and unlocked */
/*@LOOPBODY try_remove_impl.loop0.body*/

/* drain_into / latch_and_drain: the loop that locks the last link is a cut point */
#define DR_INV (G.lk.held[L_QHEAD] && !G.lk.held[L_W1] && !G.lk.held[L_W2] && !G.lk.held[L_ITEM] && !G.lk.held[L_THEAD] && G.lk.acq == G.lk.rel + 1 && G.lk.acq < 1000 \
                && G.lk.net_changes == 0 && !IS_SENT(G.lk.acq_val[L_QHEAD]) && G.self_stores == 0 && T_PRIVATE_EMPTY)
/* the loop is left only holding the TAIL link: the link that points to the sentinel (pred_val == &sentinel_); a link that
 * turned out not to be the tail link (ABA in try_lock_checking) was unlocked with its value unchanged (net_changes == 0) */
#define DR_BREAK_POST (G.lk.held[L_QHEAD] && G.lk.held[G.tlc_li] && (G.tlc_li == L_W1 || G.tlc_li == L_W2) && G.lk.acq == G.lk.rel + 2 && G.lk.net_changes == 0 \
                       && pred_link == LK_ADDR(G.tlc_li) && pred_val == G.lk.acq_val[G.tlc_li] && pred_val == QSENTV && G.self_stores == 0 && T_PRIVATE_EMPTY)
static void drain__loop0(struct ail* self) {
  VF_P(DR_INV, "cut point (lock-the-last-link loop): head_ held, first node is a real node, nothing stored yet, target private");
  VF_CANARY("drain reaches the loop that locks the last link");
  /* some iterations later the loop was left by `break` (the body unit shows the state then is DR_BREAK_POST): build it */
  vf_interfere();
  unsigned k = VF_nondet_u32(); __CPROVER_assume(k < 500); G.lk.rel = k; G.lk.acq = k + 1;      /* k failed attempts, each balanced */
  int li = VF_nondet_int(); __CPROVER_assume(li == L_W1 || li == L_W2);
  pred_link = vf_lk(li); vf_acquire(li, pred_link, 1); G.tlc_li = li; pred_val = G.lk.acq_val[li];
  __CPROVER_assume(DR_BREAK_POST);
}
#define VF_LOOP_DR drain__loop0(self)
#define DRAINED(latched_after) (G.lk.net_changes == 2 && G.lk.rel_val[L_QHEAD] == ((latched_after) ? QLATCHV : QSENTV) && G.lk.rel_val[G.tlc_li] == TSENTV && G.pub[N_TSENT])
void AIL_drain_into_impl(struct ail* self, struct ail* target)
__CPROVER_requires(LIST_REQ(self) && target == &T && T_PRIVATE_EMPTY && !G.pub[N_ITEM])
__CPROVER_assigns(LIST_ASSIGNS)
__CPROVER_ensures(BALANCED)
__CPROVER_ensures(IS_SENT(G.lk.acq_val[L_QHEAD]) ==> (G.lk.acq == 1 && G.lk.net_changes == 0 && G.self_stores == 0 && T_PRIVATE_EMPTY)) /* empty source: nothing happens */
__CPROVER_ensures(!IS_SENT(G.lk.acq_val[L_QHEAD]) ==> DRAINED(0)) /* whole chain spliced: last link -> target sentinel, source head_ -> its sentinel; both under their locks */
/*@BODY drain_into_impl*/

int drain__loop0_body(struct ail* self)
__CPROVER_requires(self == &Q && G.mode == MODE_LIST && DR_INV && G.lk.acq == 1)
__CPROVER_assigns(LIST_ASSIGNS)
__CPROVER_ensures(__CPROVER_return_value == VF_X_CONTINUE || __CPROVER_return_value == VF_X_BREAK)
__CPROVER_ensures(__CPROVER_return_value == VF_X_CONTINUE ==> DR_INV)
__CPROVER_ensures(__CPROVER_return_value == VF_X_BREAK ==> DR_BREAK_POST)
/*@LOOPBODY drain_into_impl.loop0.body*/

int latch__loop0_body(struct ail* self)
__CPROVER_requires(self == &Q && G.mode == MODE_LIST && DR_INV && G.lk.acq == 1 && Latch)
__CPROVER_assigns(LIST_ASSIGNS)
__CPROVER_ensures(__CPROVER_return_value == VF_X_CONTINUE || __CPROVER_return_value == VF_X_BREAK)
__CPROVER_ensures(__CPROVER_return_value == VF_X_CONTINUE ==> DR_INV)
__CPROVER_ensures(__CPROVER_return_value == VF_X_BREAK ==> DR_BREAK_POST)
/*@LOOPBODY latch_and_drain_impl.loop0.body*/

_Bool AIL_push_front_unless_latched_impl(struct ail* self, struct node* item)
__CPROVER_requires(LIST_REQ(self) && item == &ITEM && ITEM_PRIVATE && Latch)
__CPROVER_assigns(LIST_ASSIGNS)
__CPROVER_ensures(BALANCED && G.lk.acq == 1)
__CPROVER_ensures(AIL_ENS_PUSH_UNLESS_LATCHED(__CPROVER_return_value, G.lk.acq_val[L_QHEAD] == QLATCHV)) /* true <=> head_ did not point to the latch sentinel when it was locked */
__CPROVER_ensures(!__CPROVER_return_value ==> (G.lk.net_changes == 0 && G.self_stores == 0 && ITEM_PRIVATE)) /* latched: nothing changed, the item stays private */
__CPROVER_ensures(__CPROVER_return_value ==> ITEM_PUBLISHED_AT(L_QHEAD, G.lk.acq_val[L_QHEAD]))
/*@BODY push_front_unless_latched_impl*/

void AIL_latch_and_drain_impl(struct ail* self, struct ail* target)
__CPROVER_requires(LIST_REQ(self) && target == &T && T_PRIVATE_EMPTY && !G.pub[N_ITEM] && Latch)
__CPROVER_assigns(LIST_ASSIGNS)
__CPROVER_ensures(BALANCED)
__CPROVER_ensures(G.lk.acq_val[L_QHEAD] == QLATCHV ==> (G.lk.acq == 1 && G.lk.net_changes == 0 && G.self_stores == 0 && T_PRIVATE_EMPTY)) /* already latched: nothing */
__CPROVER_ensures(G.lk.acq_val[L_QHEAD] == QSENTV ==> (G.lk.acq == 1 && G.lk.rel_val[L_QHEAD] == QLATCHV && T_PRIVATE_EMPTY)) /* empty: latched under the head lock */
__CPROVER_ensures(!IS_SENT(G.lk.acq_val[L_QHEAD]) ==> DRAINED(1)) /* items: all spliced into the target AND latched, head_ held throughout (one linearisation point) */
/*@BODY latch_and_drain_impl*/

void AIL_unlatch_impl(struct ail* self)
__CPROVER_requires(LIST_REQ(self) && Latch)
__CPROVER_assigns(LIST_ASSIGNS)
__CPROVER_ensures(BALANCED && G.lk.acq == 1)
__CPROVER_ensures(G.lk.acq_val[L_QHEAD] == QLATCHV ? G.lk.rel_val[L_QHEAD] == QSENTV : (G.lk.net_changes == 0 && G.self_stores == 0)) /* latched (hence empty) -> unlatched empty; otherwise nothing */
/*@BODY unlatch_impl*/

/* ---------------- harnesses (window units) ---------------- */
static void h_list_init(void) {
  G.mode = MODE_LIST;
  G.lk.held[L_QHEAD] = 0; G.lk.held[L_THEAD] = 0; G.lk.held[L_ITEM] = 0; G.lk.held[L_W1] = 0; G.lk.held[L_W2] = 0; G.lk.held[L_L0] = 0;
  G.lk.acq = 0; G.lk.rel = 0; G.lk.net_changes = 0; G.link_stores = 0; G.self_stores = 0; G.have_ret = 0; G.ret = 0; G.tlc_li = L_W1; G.pub_li = L_THEAD;
  G.snap_item_self = NULL; G.snap_item_rest = 0; G.snap_succ_self = NULL;
  Latch = VF_NB(); G.no_latch = 0; G.q_private = 0; G.item_life = LIFE_NOT_IN_LIST;
  G.pub[N_QSENT] = 1; G.pub[N_QLATCH] = 1; G.pub[N_TSENT] = 0; G.pub[N_ITEM] = 0; G.pub[N_W1] = 1; G.pub[N_W2] = 1; G.pub[N_FAR] = 1;
  T.head_ = TSENTV; T.sentinel_.self = &T.head_; T.sentinel_.rest = 0; T.sentinel_latch_.self = NULL; T.sentinel_latch_.rest = 0;
  ITEM.self = /*@EXPR node_self_init*/; ITEM.rest = /*@EXPR node_rest_init*/;
  pred_link = NULL; pred_val = 0;
}
#ifdef VF_VERIFY_LOCKS
static void h_lockfn_init(void) { h_list_init(); G.mode = MODE_LOCKFN; L0 = VF_nondet_uptr(); MON = NULL; HV = 0; }
void h_lock(void) { h_lockfn_init(); uintptr_t v = LO_lock(&L0); VF_CANARY("after lock"); }
void h_try_lock_checking(void) {
  h_lockfn_init(); int k = VF_nondet_int(); link_t* e = k == 0 ? &L0 : k == 1 ? &FAR.rest : NULL;
  _Bool r = LO_try_lock_checking(&L0, &MON, e, &HV); VF_CANARY("after try_lock_checking");
  if (r) { VF_CANARY("try_lock_checking can lock"); } else { VF_CANARY("try_lock_checking can give up"); }
}
#endif
void h_unlock(void) { h_list_init(); G.mode = MODE_LOCKFN; G.lk.held[L_L0] = 1; G.lk.acq = 1; G.lk.acq_val[L_L0] = VF_nondet_uptr() & ~(uintptr_t)1; L0 = G.lk.acq_val[L_L0] | 1; LO_unlock(&L0, VF_nondet_uptr() & ~(uintptr_t)1); VF_CANARY("after unlock"); }
#if !defined(VF_VERIFY_LOCKS) && !defined(VF_BOUNDED)
void h_ctor(void) { h_list_init(); G.q_private = 1; G.pub[N_QSENT] = 0; G.pub[N_QLATCH] = 0; Q.head_ = VF_nondet_uptr(); Q.sentinel_.self = /*@EXPR node_self_init*/; AIL_ctor(&Q); VF_CANARY("after constructor"); }
void h_is_sentinel(void) { h_list_init(); int k = VF_nondet_int(); AIL_is_sentinel(&Q, k == 0 ? &Q.sentinel_ : k == 1 ? &Q.sentinel_latch_ : k == 2 ? &W1 : &ITEM); VF_CANARY("after is_sentinel"); }
void h_empty_impl(void) { h_list_init(); vf_interfere(); _Bool r = AIL_empty_impl(&Q); VF_CANARY("after empty"); if (r) { VF_CANARY("empty can be true"); } else { VF_CANARY("empty can be false"); } }
void h_is_latched_impl(void) { h_list_init(); vf_interfere(); _Bool r = AIL_is_latched_impl(&Q); VF_CANARY("after is_latched"); if (r) { VF_CANARY("is_latched can be true"); } }
void h_push_front_impl(void) { h_list_init(); vf_interfere(); AIL_push_front_impl(&Q, &ITEM); VF_CANARY("after push_front"); if (G.lk.acq_val[L_QHEAD] == QSENTV) { VF_CANARY("push_front on an empty list"); } else { VF_CANARY("push_front in front of a node"); } }
void h_push_back_impl(void) { h_list_init(); G.no_latch = 1; vf_interfere(); AIL_push_back_impl(&Q, &ITEM); }
void h_push_back_loop_body(void) {
  h_list_init(); G.no_latch = 1; ITEM.rest = QSENTV; vf_interfere();
  int r = push_back__loop0_body(&Q, &ITEM); VF_CANARY("after push_back loop body");
  if (r == VF_X_CONTINUE) { VF_CANARY("push_back can retry"); if (G.lk.acq == 1) { VF_CANARY("push_back can find a locked link that is not the tail link, unlock it and retry"); } } else if (G.tlc_li == L_QHEAD) { VF_CANARY("push_back on an empty list"); } else { VF_CANARY("push_back after a node"); }
}
void h_pop_front_impl(void) { h_list_init(); vf_interfere(); struct node* r = AIL_pop_front_impl(&Q); VF_CANARY("after pop_front"); if (r) { VF_CANARY("pop_front can return a node"); if (G.lk.rel_val[L_QHEAD] == QSENTV) { VF_CANARY("pop_front can empty the list"); } } else { VF_CANARY("pop_front can find the list empty"); } }
static void h_tr_init(void) {
  h_list_init();
  int life = VF_nondet_int(); __CPROVER_assume(life == LIFE_NOT_IN_LIST || life == LIFE_MAY_LEAVE || life == LIFE_STABLE);
  G.item_life = life; G.pub[N_ITEM] = (life != LIFE_NOT_IN_LIST);
  if (!G.pub[N_ITEM]) { ITEM.self = NULL; ITEM.rest = 0; }
  vf_interfere();
}
void h_try_remove_impl(void) { h_tr_init(); AIL_try_remove_impl(&Q, &ITEM); }
void h_try_remove_loop_body(void) {
  h_tr_init(); int life = G.item_life;
  int r = try_remove__loop0_body(&Q, &ITEM); VF_CANARY("after try_remove loop body");
  if (r == VF_X_CONTINUE) { VF_CANARY("try_remove can retry"); }
  else if (G.ret) { VF_CANARY("try_remove can remove"); if (G.tlc_li == L_QHEAD) { VF_CANARY("try_remove of the first node"); } else { VF_CANARY("try_remove of an inner node"); } if (G.lk.acq_val[L_ITEM] == QSENTV) { VF_CANARY("try_remove of the last node"); } }
  else if (life == LIFE_NOT_IN_LIST) { VF_CANARY("try_remove of a node that is in no list"); } else { VF_CANARY("try_remove can lose against a concurrent pop"); }
}
void h_drain_into_impl(void) { h_list_init(); vf_interfere(); AIL_drain_into_impl(&Q, &T); VF_CANARY("after drain_into"); if (G.lk.net_changes == 2) { VF_CANARY("drain_into can move items"); } else { VF_CANARY("drain_into of an empty list"); } }
static void h_dr_body_init(void) {
  h_list_init(); vf_interfere();
  vf_acquire(L_QHEAD, &Q.head_, 1); __CPROVER_assume(!IS_SENT(G.lk.acq_val[L_QHEAD]));
}
void h_drain_loop_body(void) { h_dr_body_init(); int r = drain__loop0_body(&Q); VF_CANARY("after drain loop body"); if (r == VF_X_BREAK) { VF_CANARY("the last link can be locked"); } else { VF_CANARY("locking the last link can be retried"); if (G.lk.acq == 2) { VF_CANARY("a locked link that is not the tail link is unlocked again"); } } }
void h_latch_loop_body(void) { h_dr_body_init(); __CPROVER_assume(Latch); int r = latch__loop0_body(&Q); VF_CANARY("after latch loop body"); if (r == VF_X_BREAK) { VF_CANARY("the last link can be locked"); } }
void h_push_front_unless_latched_impl(void) { h_list_init(); Latch = 1; vf_interfere(); _Bool r = AIL_push_front_unless_latched_impl(&Q, &ITEM); VF_CANARY("after push_front_unless_latched"); if (r) { VF_CANARY("can push"); } else { VF_CANARY("can find the list latched"); } }
void h_latch_and_drain_impl(void) { h_list_init(); Latch = 1; vf_interfere(); AIL_latch_and_drain_impl(&Q, &T); VF_CANARY("after latch_and_drain");
  if (G.lk.net_changes == 2) { VF_CANARY("latch_and_drain can move items"); } else if (G.lk.acq_val[L_QHEAD] == QSENTV) { VF_CANARY("latch_and_drain of an empty list"); } else { VF_CANARY("latch_and_drain of a latched list"); } }
void h_unlatch_impl(void) { h_list_init(); Latch = 1; vf_interfere(); AIL_unlatch_impl(&Q); VF_CANARY("after unlatch"); if (G.lk.rel_val[L_QHEAD] != G.lk.acq_val[L_QHEAD]) { VF_CANARY("unlatch can clear the latch"); } }
#endif


/* ================= (3) BOUNDED: sequential functional contracts on lists of <= NB nodes ================= */
#ifdef VF_BOUNDED
#define NB 4
static struct ail BQ, BT;
static struct node ND[NB], XN;
void B_push_back_impl(struct ail* self, struct node* item)
/*@BODY push_back_impl_full*/
_Bool B_try_remove_impl(struct ail* self, struct node* item)
/*@BODY try_remove_impl_full*/
void B_drain_into_impl(struct ail* self, struct ail* target)
/*@BODY drain_into_impl_full*/
void B_latch_and_drain_impl(struct ail* self, struct ail* target)
/*@BODY latch_and_drain_impl_full*/

static void b_empty(struct ail* q) {
  q->sentinel_.self = /*@EXPR node_self_init*/; q->sentinel_.rest = /*@EXPR node_rest_init*/;
  q->sentinel_latch_.self = /*@EXPR node_self_init*/; q->sentinel_latch_.rest = /*@EXPR node_rest_init*/;
  AIL_ctor(q);
}
/* head_ -> ND[0] -> ... -> ND[k-1] -> sentinel_, all back pointers consistent, nothing locked */
static void b_build(struct ail* q, unsigned k) {
  b_empty(q);
  for (unsigned i = 0; i < k; i++) {
    ND[i].self = i ? &ND[i - 1].rest : &q->head_;
    ND[i].rest = (i + 1 < k) ? (uintptr_t)&ND[i + 1] : (uintptr_t)&q->sentinel_;
  }
  if (k) { q->head_ = (uintptr_t)&ND[0]; q->sentinel_.self = &ND[k - 1].rest; }
}
struct seq { struct node* a[NB + 2]; unsigned n; _Bool latched; };
/* walk from head_: well-formed <=> every link unlocked and non-null, every node's self is the address of the link that points to it,
 * the chain ends at the (one) sentinel that is on the list, the other sentinel is off (self == NULL) */
static _Bool b_walk(struct ail* q, struct seq* out) {
  link_t* lk = &q->head_;
  out->n = 0; out->latched = 0;
  for (unsigned i = 0; i < NB + 2; i++) {
    uintptr_t v = *lk;
    if ((v & 1) || v == 0) return 0;
    struct node* x = (struct node*)v;
    if (x->self != lk) return 0;
    if (x == &q->sentinel_) return !Latch || q->sentinel_latch_.self == NULL;
    if (x == &q->sentinel_latch_) { out->latched = 1; return Latch && out->n == 0 && q->sentinel_.self == NULL; }
    out->a[out->n++] = x;
    lk = &x->rest;
  }
  return 0;
}
static void b_init(void) { G.mode = MODE_SEQ; XN.self = /*@EXPR node_self_init*/; XN.rest = /*@EXPR node_rest_init*/; }

void h_seq_push_pop(void) {
  b_init(); Latch = VF_NB();
  unsigned k = VF_nondet_u32(); __CPROVER_assume(k <= NB);
  b_build(&BQ, k);
  struct seq before, after;
  VF_A(b_walk(&BQ, &before) && before.n == k, "the constructed list is well formed");
  { _Bool e = AIL_empty_impl(&BQ); VF_P(AIL_ENS_EMPTY(e, k), "bounded: empty() <=> no item"); }
  int op = VF_nondet_int(); __CPROVER_assume(op >= 0 && op <= 2);
  if (op == 0) {
    AIL_push_front_impl(&BQ, &XN);
    VF_P(b_walk(&BQ, &after), "bounded: list well formed after push_front (all back pointers consistent, nothing left locked)");
    VF_P(after.n == k + 1 && after.a[0] == &XN, "bounded: push_front makes the item the FIRST node");
    for (unsigned i = 0; i < k; i++) VF_P(after.a[i + 1] == before.a[i], "bounded: push_front keeps the other nodes in order");
    VF_CANARY("bounded push_front");
  } else if (op == 1) {
    B_push_back_impl(&BQ, &XN);
    VF_P(b_walk(&BQ, &after), "bounded: list well formed after push_back");
    VF_P(after.n == k + 1 && after.a[k] == &XN, "bounded: push_back makes the item the LAST node");
    for (unsigned i = 0; i < k; i++) VF_P(after.a[i] == before.a[i], "bounded: push_back keeps the other nodes in order");
    VF_CANARY("bounded push_back");
  } else {
    struct node* r = AIL_pop_front_impl(&BQ);
    VF_P(AIL_ENS_POP_FRONT(r, k, before.a[0]), "bounded: pop_front returns NULL <=> empty, else the FIRST node");
    VF_P(b_walk(&BQ, &after), "bounded: list well formed after pop_front");
    VF_P(after.n == (k ? k - 1 : 0), "bounded: pop_front removes exactly one node");
    for (unsigned i = 0; i + 1 < k; i++) VF_P(after.a[i] == before.a[i + 1], "bounded: pop_front keeps the other nodes in order");
    if (r) { VF_P(r->self == NULL && r->rest == 0, "bounded: the popped node is marked not-in-list and its link is cleared and unlocked"); VF_CANARY("bounded pop_front of a node"); }
    /* a node already popped can not be removed again */
    if (r) { _Bool t = B_try_remove_impl(&BQ, r); VF_P(AIL_ENS_TRY_REMOVE(t, 0), "bounded: try_remove of an already popped node returns false"); struct seq a2; VF_P(b_walk(&BQ, &a2) && a2.n == after.n, "bounded: ... and changes nothing"); }
  }
  VF_CANARY("after bounded push/pop");
}
void h_seq_try_remove(void) {
  b_init(); Latch = VF_NB();
  unsigned k = VF_nondet_u32(); __CPROVER_assume(k <= NB);
  b_build(&BQ, k);
  struct seq before, after;
  VF_A(b_walk(&BQ, &before) && before.n == k, "the constructed list is well formed");
  unsigned j = VF_nondet_u32(); __CPROVER_assume(j <= k);          /* j == k: an item that is in no list */
  struct node* x = (j < k) ? before.a[j] : &XN;
  _Bool r = B_try_remove_impl(&BQ, x);
  VF_P(AIL_ENS_TRY_REMOVE(r, j < k), "bounded: try_remove returns true <=> the item was in the list");
  VF_P(b_walk(&BQ, &after), "bounded: list well formed after try_remove");
  if (j < k) {
    VF_P(after.n == k - 1, "bounded: try_remove removes exactly the item");
    for (unsigned i = 0; i + 1 < k; i++) VF_P(after.a[i] == before.a[i < j ? i : i + 1], "bounded: try_remove keeps the other nodes in order");
    VF_P(x->self == NULL && x->rest == 0, "bounded: the removed node is marked not-in-list and its link is cleared and unlocked");
    { _Bool t = B_try_remove_impl(&BQ, x); VF_P(AIL_ENS_TRY_REMOVE(t, 0), "bounded: a second try_remove of the same node returns false"); }
    VF_CANARY("bounded try_remove of a member");
  } else {
    VF_P(after.n == k, "bounded: try_remove of a non-member changes nothing");
    for (unsigned i = 0; i < k; i++) VF_P(after.a[i] == before.a[i], "bounded: try_remove of a non-member changes nothing (order)");
    VF_CANARY("bounded try_remove of a non-member");
  }
}
void h_seq_drain(void) {
  b_init(); Latch = VF_NB();
  unsigned k = VF_nondet_u32(); __CPROVER_assume(k <= NB);
  b_build(&BQ, k); b_empty(&BT);
  struct seq before, aq, at;
  VF_A(b_walk(&BQ, &before) && before.n == k, "the constructed list is well formed");
  B_drain_into_impl(&BQ, &BT);
  VF_P(b_walk(&BQ, &aq) && aq.n == 0 && !aq.latched, "bounded: drain_into leaves the source empty and well formed");
  VF_P(b_walk(&BT, &at) && at.n == k, "bounded: drain_into moves ALL items to the target, well formed");
  for (unsigned i = 0; i < k; i++) VF_P(at.a[i] == before.a[i], "bounded: drain_into keeps the order");
  /* the source is usable afterwards: a push_back lands in the source, not in the target */
  B_push_back_impl(&BQ, &XN);
  VF_P(b_walk(&BQ, &aq) && aq.n == 1 && aq.a[0] == &XN && b_walk(&BT, &at) && at.n == k, "bounded: a push_back after drain_into goes to the source list");
  VF_CANARY("after bounded drain_into"); if (k) { VF_CANARY("bounded drain_into of a non-empty list"); }
}
void h_seq_latch(void) {
  b_init(); Latch = 1;
  unsigned k = VF_nondet_u32(); __CPROVER_assume(k <= NB);
  b_build(&BQ, k); b_empty(&BT);
  struct seq before, aq, at;
  VF_A(b_walk(&BQ, &before) && before.n == k, "the constructed list is well formed");
  { _Bool l = AIL_is_latched_impl(&BQ); VF_P(AIL_ENS_IS_LATCHED(l, 0), "bounded: a fresh list is not latched"); }
  B_latch_and_drain_impl(&BQ, &BT);
  VF_P(b_walk(&BQ, &aq) && aq.n == 0 && aq.latched, "bounded: latch_and_drain leaves the source latched and empty");
  { _Bool l = AIL_is_latched_impl(&BQ), e = AIL_empty_impl(&BQ); VF_P(AIL_ENS_IS_LATCHED(l, 1) && AIL_ENS_EMPTY(e, 0), "bounded: is_latched() true, empty() true afterwards"); }
  VF_P(b_walk(&BT, &at) && at.n == k, "bounded: latch_and_drain moves ALL items to the target");
  VF_P(AIL_ENS_LATCH_AND_DRAIN(0, k, aq.n, at.n, aq.latched), "bounded: latch_and_drain contract (not latched before: all items taken, source latched and empty)");
  for (unsigned i = 0; i < k; i++) VF_P(at.a[i] == before.a[i], "bounded: latch_and_drain keeps the order");
  { struct node* pr = AIL_pop_front_impl(&BQ); VF_P(pr == NULL, "bounded: pop_front on a latched list returns NULL"); }
  { _Bool pu = AIL_push_front_unless_latched_impl(&BQ, &XN); VF_P(AIL_ENS_PUSH_UNLESS_LATCHED(pu, 1) && XN.self == NULL, "bounded: push_front_unless_latched on a latched list returns false and leaves the item alone"); }
  int op = VF_nondet_int();
  if (op == 0) {                                  /* latch again: nothing happens, the (non-empty) target argument is not needed: use a fresh one */
    static struct ail BT2; b_empty(&BT2);
    B_latch_and_drain_impl(&BQ, &BT2);
    struct seq a2; VF_P(b_walk(&BQ, &aq) && aq.latched && b_walk(&BT2, &a2) && a2.n == 0, "bounded: latch_and_drain on a latched list changes nothing");
    VF_P(AIL_ENS_LATCH_AND_DRAIN(1, 0, aq.n, a2.n, aq.latched), "bounded: latch_and_drain contract (already latched)");
    VF_CANARY("bounded second latch");
  } else {
    AIL_unlatch_impl(&BQ);
    { _Bool l = AIL_is_latched_impl(&BQ); VF_P(b_walk(&BQ, &aq) && aq.n == 0 && !aq.latched && !l, "bounded: unlatch clears the latch, list empty and well formed"); }
    VF_P(AIL_ENS_UNLATCH(0, aq.n, aq.latched), "bounded: unlatch contract");
    { _Bool pu = AIL_push_front_unless_latched_impl(&BQ, &XN); VF_P(AIL_ENS_PUSH_UNLESS_LATCHED(pu, 0), "bounded: push_front_unless_latched on an unlatched list returns true"); }
    VF_P(b_walk(&BQ, &aq) && aq.n == 1 && aq.a[0] == &XN, "bounded: ... and the item is in the list");
    AIL_unlatch_impl(&BQ);
    VF_P(b_walk(&BQ, &aq) && aq.n == 1 && !aq.latched, "bounded: unlatch on an unlatched list changes nothing");
    VF_CANARY("bounded unlatch");
  }
  VF_CANARY("after bounded latch");
}
#endif

/* ================= M4 lemmas ================= */
#if !defined(VF_VERIFY_LOCKS) && !defined(VF_BOUNDED)
void lemma_list_init(void) {
  G.mode = MODE_SEQ; Latch = VF_NB();
  Q.sentinel_.self = /*@EXPR node_self_init*/; Q.sentinel_.rest = /*@EXPR node_rest_init*/;
  Q.sentinel_latch_.self = /*@EXPR node_self_init*/; Q.sentinel_latch_.rest = /*@EXPR node_rest_init*/;
  AIL_ctor(&Q);
  VF_P(lock_bit == 1, "lemma: the lock bit is bit 0 (node alignment >= 2 keeps it free)");
  VF_P(Q.head_ == QSENTV && Q.sentinel_.self == &Q.head_, "lemma: a fresh list satisfies the link invariant: head_ (unlocked) -> sentinel, sentinel.self == &head_");
  VF_P(Q.sentinel_latch_.self == NULL, "lemma: a fresh list is not latched (the latch sentinel is off the list)");
  VF_P(AIL_empty_impl(&Q) && !AIL_is_latched_impl(&Q), "lemma: a fresh list is empty and not latched");
  VF_P(ITEM.self == NULL || 1, "lemma: (node initialisers are used by the harnesses)");
  VF_CANARY("lemma_list_init reachable");
}
/* One link L (value v = which of two nodes it points to, or null; lock bit; holder) and the two nodes' "self designates L" flags.
 * Invariant I at unlocked states.  A step of party B as allowed by the guarantee (vf_guar):
 *   acquire  : L unlocked -> locked by B, value unchanged
 *   store L  : only while B holds L
 *   store x.self := &L / := elsewhere : only while B holds the link that points to x, and (for := &L) holds L
 *   release  : only by the holder, with I re-established (vf_check_link_inv)
 * Shown: (i) I holds again at every unlocked state; (ii) while A holds L no step of B changes L, sets any self to &L, or changes
 * the self of the node L points to -- which is exactly what vf_interfere / vf_pick_self / vf_acquire rely on. */
void lemma_link_rely(void) {
  int v = VF_nondet_int(), h = VF_nondet_int(); _Bool s1 = VF_NB(), s2 = VF_NB();
  __CPROVER_assume(v >= 0 && v <= 2 && h >= 0 && h <= 2);             /* v: 0 null, 1 -> x1, 2 -> x2;  h: 0 unlocked, 1 held by A, 2 held by B */
#define LINV(v, s1, s2) (((v) == 1) == (s1) && ((v) == 2) == (s2))
  __CPROVER_assume(h == 0 ==> LINV(v, s1, s2));
  __CPROVER_assume(h == 1 ==> LINV(v, s1, s2));                          /* A is between operations on it: it took the lock under I and has not written yet */
  int kind = VF_nondet_int(); __CPROVER_assume(kind >= 0 && kind <= 3);
  int v2 = v, h2 = h; _Bool t1 = s1, t2 = s2;
  _Bool b_holds_other1 = VF_NB(), b_holds_other2 = VF_NB();              /* B holds some OTHER link that points to x1 / x2 */
  __CPROVER_assume(!(b_holds_other1 && v == 1 && h != 2 ? 0 : 0));
  if (kind == 0) { __CPROVER_assume(h == 0); h2 = 2; }
  else if (kind == 1) { __CPROVER_assume(h == 2); v2 = VF_nondet_int(); __CPROVER_assume(v2 >= 0 && v2 <= 2); }
  else if (kind == 2) {                                                  /* store to x1.self or x2.self */
    _Bool which = VF_NB(), to_L = VF_NB();
    _Bool protects = which ? ((h == 2 && v == 2) || b_holds_other2) : ((h == 2 && v == 1) || b_holds_other1);
    __CPROVER_assume(protects);                                          /* discipline 1: B holds the link that points to the node */
    __CPROVER_assume(!to_L || h == 2);                                   /* discipline 2: self := &L only while holding L */
    /* two unlocked-or-A-held links never point to one node: if another link (held by B) points to x, L (not held by B) does not */
    __CPROVER_assume(!(b_holds_other1 && h != 2 && v == 1) && !(b_holds_other2 && h != 2 && v == 2));
    if (which) t2 = to_L; else t1 = to_L;
  } else { __CPROVER_assume(h == 2 && LINV(v, s1, s2)); h2 = 0; }
  VF_CANARY("lemma premises satisfiable");
  VF_P(h2 == 0 ==> LINV(v2, t1, t2), "lemma: the link invariant holds at every unlocked state");
  VF_P(h == 1 ==> (h2 == 1 && v2 == v), "lemma (rely): while I hold a link's lock bit nobody else changes the link or takes the lock");
  VF_P(h == 1 ==> (t1 == s1 && t2 == s2), "lemma (rely): while I hold a link nobody else points a node's self at it, nor changes the self of the node it points to");
}
#endif


