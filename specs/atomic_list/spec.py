CPP = 'source/atomic_intrusive_list.cpp'
H = 'include/unifex/detail/atomic_intrusive_list.hpp'
IMPL = r'class atomic_intrusive_list_impl : protected atomic_intrusive_list_link_ops \{'
OPS = r'class atomic_intrusive_list_link_ops \{'

TYPEMAP = [(r'(?<!struct )\bnode\b', 'struct node'), (r'\blink\b', 'link_t'), (r'\batomic_intrusive_list_impl\b', 'struct ail')]

# call abstractions shared by the list functions.  reference parameters (link& lk, atomic<link*>& monitored, uintptr_t& head_val,
# atomic_intrusive_list_impl& target) become pointers; the static helpers get C names
PRE = [
    (r'\bto_value\(', 'AIL_to_value('), (r'\bto_node\(', 'AIL_to_node('),
    (r'try_lock_checking\(\*(\w+), ([\w.>-]+), (\w+), (\w+)\)', r'LO_try_lock_checking(\1, &\2, \3, &\4)'),
    (r'(?<![\w.>])unlock\(\*(\w+),', r'LO_unlock(\1,'),
    (r'(?<![\w.>])unlock\(([\w.>-]+),', r'LO_unlock(&\1,'),
    (r'(?<![\w.>])lock\(([\w.>-]+)\)', r'LO_lock(&\1)'),
    (r'&target != this', 'target != this'),
    (r'\btarget\.', 'target->'),
    (r'\(void\)\s*(item|target);', ';'),
]
POST = []

ctx = dict(
    cls='AIL',
    members=['head_', 'sentinel_', 'sentinel_latch_'],
    methods=['is_sentinel'],
    obj_methods={'empty_impl': 'AIL_empty_impl'},
    typemap=TYPEMAP,
    pre=PRE,
    post=POST,
)
# the lock helpers: parameters are references
lk_ctx = dict(cls='LO', members=[], methods=[],
              pre=[(r'\blk\.', 'lk->'), (r'\bmonitored\.', 'monitored->'), (r'\bhead_val = val;', '*head_val = val;')])
# drain_into / latch_and_drain: the locals shared between the function and its outlined retry loop live at file scope
dr_ctx = dict(post=POST + [(r'link_t\* pred_link;', ';'), (r'uintptr_t pred_val;', ';')])

LOCK_L0 = ('__CPROVER_assigns(val, LOCKFN_ASSIGNS)\n__CPROVER_loop_invariant(LOCKFN_INV)')
LOCK_L1 = ('__CPROVER_assigns(val, LOCKFN_ASSIGNS)\n__CPROVER_loop_invariant(LOCKFN_INV)')
TLC_L0 = ('__CPROVER_assigns(val, LOCKFN_ASSIGNS)\n__CPROVER_loop_invariant(LOCKFN_INV)')

S = lambda name, **kw: dict(file=CPP, sig=r'atomic_intrusive_list_impl<Latch>::%s\([^)]*\)' % name, **kw)

SPEC = dict(
    properties=['C15', 'C16'],
    ctx=ctx,
    extracts={
        'lock_bit': dict(file=H, kind='expr', sig=r'static constexpr uintptr_t lock_bit = ([^;]*);'),
        'node_self_init': dict(file=H, kind='expr', sig=r'std::atomic<link\*> self\{([^}]*)\}'),
        'node_rest_init': dict(file=H, kind='expr', sig=r'link rest\{([^}]*)\}'),
        'to_node': dict(file=CPP, sig=r'node\* to_node\(uintptr_t v\) noexcept'),
        'to_value': dict(file=CPP, sig=r'uintptr_t to_value\(node\* p\) noexcept'),
        'lock': dict(file=CPP, sig=r'uintptr_t atomic_intrusive_list_link_ops::lock\(link& lk\) noexcept', ctx=lk_ctx, loops={0: LOCK_L0, 1: LOCK_L1}),
        'unlock': dict(file=H, sig=r'static void unlock\(link& lk, uintptr_t value\) noexcept', within=OPS, ctx=lk_ctx),
        'try_lock_checking': dict(file=CPP, sig=r'bool atomic_intrusive_list_link_ops::try_lock_checking\([^)]*\) noexcept', ctx=lk_ctx, loops={0: TLC_L0},
                                  must_contain=[r'compare_exchange_weak']),
        'ctor': dict(file=CPP, sig=r'atomic_intrusive_list_impl<Latch>::atomic_intrusive_list_impl\(\) noexcept'),
        'is_sentinel': S('is_sentinel'),
        'empty_impl': dict(file=H, sig=r'bool empty_impl\(\) const noexcept', within=IMPL),
        'is_latched_impl': S('is_latched_impl'),
        'push_front_impl': S('push_front_impl'),
        'push_back_impl': S('push_back_impl', outline={0: 'VF_LOOP_PB;'}),
        'push_back_impl_full': S('push_back_impl'),
        'pop_front_impl': S('pop_front_impl'),
        'try_remove_impl': S('try_remove_impl', outline={0: 'VF_LOOP_TR;'}),
        'try_remove_impl_full': S('try_remove_impl'),
        'drain_into_impl': S('drain_into_impl', outline={0: 'VF_LOOP_DR;'}, ctx=dr_ctx),
        'drain_into_impl_full': S('drain_into_impl'),
        'push_front_unless_latched_impl': S('push_front_unless_latched_impl'),
        'latch_and_drain_impl': S('latch_and_drain_impl', outline={0: 'VF_LOOP_DR;'}, ctx=dr_ctx),
        'latch_and_drain_impl_full': S('latch_and_drain_impl'),
        'unlatch_impl': S('unlatch_impl'),
    },
    closed_world=[
        dict(file=CPP, members=['head_', 'sentinel_', 'sentinel_latch_', 'self', 'rest'],
             allow=[r'(?s)atomic_intrusive_list_impl<Latch>::~atomic_intrusive_list_impl\(\) \{.*?\n\}']),   # destructor: assertion only (list drained)
        dict(file=H, members=['head_', 'sentinel_', 'sentinel_latch_', 'self', 'rest'],
             allow=[r'std::atomic<link\*> self\{nullptr\};', r'link rest\{0\};', r'node sentinel_;', r'link head_;',
                    r'(?s)UNIFEX_NO_UNIQUE_ADDRESS std::conditional_t<Latch, node, empty_t>\s*sentinel_latch_\{\};']),
    ],
    units=[
        # ---- M1: the per-link lock bit (real bodies, unbounded)
        dict(name='lock', harness='h_lock', enforce='LO_lock', defines=['VF_VERIFY_LOCKS'], expect_loop_obligations=True),
        dict(name='try_lock_checking', harness='h_try_lock_checking', enforce='LO_try_lock_checking', defines=['VF_VERIFY_LOCKS'], expect_loop_obligations=True),
        dict(name='unlock', harness='h_unlock', enforce='LO_unlock'),
        # ---- link discipline + local functional contracts against a window, under interference (unbounded)
        dict(name='ctor', harness='h_ctor', enforce='AIL_ctor'),
        dict(name='is_sentinel', harness='h_is_sentinel', enforce='AIL_is_sentinel'),
        dict(name='empty_impl', harness='h_empty_impl', enforce='AIL_empty_impl'),
        dict(name='is_latched_impl', harness='h_is_latched_impl', enforce='AIL_is_latched_impl'),
        dict(name='push_front_impl', harness='h_push_front_impl', enforce='AIL_push_front_impl'),
        dict(name='push_back_impl', harness='h_push_back_impl', enforce='AIL_push_back_impl'),
        dict(name='push_back_loop_body', harness='h_push_back_loop_body', enforce='push_back__loop0_body'),
        dict(name='pop_front_impl', harness='h_pop_front_impl', enforce='AIL_pop_front_impl'),
        dict(name='try_remove_impl', harness='h_try_remove_impl', enforce='AIL_try_remove_impl'),
        dict(name='try_remove_loop_body', harness='h_try_remove_loop_body', enforce='try_remove__loop0_body'),
        dict(name='drain_into_impl', harness='h_drain_into_impl', enforce='AIL_drain_into_impl'),
        dict(name='drain_loop_body', harness='h_drain_loop_body', enforce='drain__loop0_body'),
        dict(name='latch_loop_body', harness='h_latch_loop_body', enforce='latch__loop0_body'),
        dict(name='push_front_unless_latched_impl', harness='h_push_front_unless_latched_impl', enforce='AIL_push_front_unless_latched_impl'),
        dict(name='latch_and_drain_impl', harness='h_latch_and_drain_impl', enforce='AIL_latch_and_drain_impl'),
        dict(name='unlatch_impl', harness='h_unlatch_impl', enforce='AIL_unlatch_impl'),
        # ---- sequential functional contracts on lists of <= N nodes (bounded, labelled bounded)
        dict(name='seq_push_pop_bounded', harness='h_seq_push_pop', mode='bounded', unwind=7, defines=['VF_BOUNDED']),
        dict(name='seq_try_remove_bounded', harness='h_seq_try_remove', mode='bounded', unwind=7, defines=['VF_BOUNDED']),
        dict(name='seq_drain_bounded', harness='h_seq_drain', mode='bounded', unwind=7, defines=['VF_BOUNDED']),
        dict(name='seq_latch_bounded', harness='h_seq_latch', mode='bounded', unwind=7, defines=['VF_BOUNDED']),
        # ---- lemmas
        dict(name='lemma_list_init', harness='lemma_list_init', mode='lemma'),
        dict(name='lemma_link_rely', harness='lemma_link_rely', mode='lemma'),
    ],
    assumptions=[
        'atomics and fences sequentially consistent',
        'window meta-argument (M2): an operation touches only the list object, its operand node and the nodes reached through links it has locked; '
        'the window (list Q, target list T, operand ITEM, neighbours W1/W2, an opaque far node) holds every shape of that neighbourhood; '
        'an access outside it is a failed obligation',
        'link invariant (established by the constructor, re-checked at every unlock, assumed at every lock acquisition): an unlocked link of a list '
        'points to a node whose self pointer is the address of that link, and no other node\'s self designates it',
        'try_lock_checking is represented by its honest contract (true: the lock bit of the link is held and *head_val is the unlocked value the CAS saw; '
        'false: nothing written) -- it does NOT promise that the monitored pointer still equals `expected` (ABA on the link value, finding C15-atomic-list-aba, '
        'fixed: the callers re-check pred_val); assumed: the link it locks is not the null link of an off-list node (needs the same ABA twice)',
        'a node is pushed by its owner only while it is in no list (self == nullptr: the code asserts it) and is not concurrently pushed twice; '
        'the target of drain_into / latch_and_drain is private to the caller (empty, unshared) until the call publishes it',
        'the sequential functional contracts (specs/atomic_list/ail_contract.h) are checked on lists of <= 4 nodes (bounded); that every concurrent '
        'execution linearises to them is NOT proved here: unbounded are the link discipline, lock balance, the link invariant at every unlock '
        'and the local (window) effect of each operation',
        'partial correctness only: the spin / retry loops of lock, try_lock_checking, push_back, try_remove, drain are not shown to terminate',
    ],
    drops=['memory orders', 'noexcept', 'template parameter Latch -> symbolic constant (both values verified where the function admits both)',
           'reference parameters -> pointers', 'node / link aliases -> struct node / uintptr_t link words',
           'typed wrapper atomic_intrusive_list<Item, Latch> (static_cast forwarding) not extracted',
           '~atomic_intrusive_list_impl (assertion that the list was drained) is classified, not extracted'],
)
