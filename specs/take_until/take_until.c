/* C13 (scoped): include/unifex/take_until.hpp -- the cleanupReady_ hand-off (trigger next() completion vs cleanup start())
 * and the cleanupCompleted_ join of the two cleanup operations.  Bodies marked @BODY / @EXPR are extracted from /repo on
 * every run; everything else here is specification.
 *
 * Both words are "arrival" flags between two parties: each party arrives once (exchange(true), or a load that already
 * sees true); the party that arrives SECOND acts (starts the trigger's cleanup / delivers the final signal), exactly once.
 *   hand-off:  T = trigger_next_done (the trigger's next() completed)     C = cleanup-operation start()
 *   join:      A = source cleanup completion (source_cleanup_done/_error)  B = trigger cleanup completion (trigger_cleanup_done/_error) */
#include <stddef.h>
#include <stdint.h>

struct tu_cleanup_op; struct tu_stream;
struct tu_stream { _Bool cleanupReady_; struct tu_cleanup_op* cleanupOperation_; _Bool triggerNextStarted_; int stopSource_; };
struct tu_cleanup_op { struct tu_stream* stream_; _Bool cleanupCompleted_; int sourceError_, triggerError_; int receiver_; };
struct tu_next_op { struct tu_stream* stream_; int receiver_; int stopCallback_; int innerOp_; };
struct trigger_next_receiver { struct tu_stream* stream_; };
struct cleanup_receiver { struct tu_cleanup_op* op_; };          /* source_receiver / trigger_receiver */
struct next_receiver_wrapper { struct tu_next_op* op_; };

enum { P_T, P_C, P_A, P_B, P_X };
enum { OP_source, OP_trigger };
enum { OPS_NONE, OPS_LIVE, OPS_STARTED, OPS_DESTROYED };
enum { J_source_cleanup_done, J_source_cleanup_error, J_trigger_cleanup_done, J_trigger_cleanup_error };
enum { ERR_sourceError_, ERR_triggerError_ };
enum { FIN_NONE, FIN_DONE, FIN_ERR_SOURCE, FIN_ERR_TRIGGER };

struct vf_ghost {
  int me;
  _Bool other_arrived;            /* the other party of the word under test has arrived (set by the environment) */
  int lin_old, lin_new; unsigned lin_count;   /* this call's own exchange */
  _Bool saw_true;                 /* this call's first load already saw the flag set */
  _Bool dead; struct tu_stream snap_s; struct tu_cleanup_op snap_o;  /* the final signal may have been delivered: everything may be gone */
  unsigned stop_requests, tc_starts, finals; int final_kind; int src_at_final, trg_at_final;   /* the two stored errors when the final signal was sent */
  int storing;                   /* this join call carries an error of its own side: ERR_* + 1, 0 = none */
  unsigned joins; int join_kind;
  uint8_t opstate[2]; uint8_t other_before; int completing;         /* the two cleanup operations; which one's completion is running */
  unsigned op_constructs, op_starts, op_destructs;
  unsigned tn_constructs, tn_starts, tn_destructs, tnd_calls, cb_constructs, cb_destructs, inner_starts, consumer_signals;
};
static struct vf_ghost G;
static struct tu_stream STRM;
static struct tu_cleanup_op COP;
static struct tu_next_op NOP;
static struct trigger_next_receiver TNR;
static struct cleanup_receiver CRCV;
static struct next_receiver_wrapper NWR;

#define CLEANUPREADY_INIT (/*@EXPR cleanupReady_init*/)
#define CLEANUPOPERATION_INIT ((struct tu_cleanup_op*)/*@EXPR cleanupOperation_init*/)
#define TRIGGERNEXTSTARTED_INIT (/*@EXPR triggerNextStarted_init*/)
#define CLEANUPCOMPLETED_INIT (/*@EXPR cleanupCompleted_init*/)

static void vf_guar(void* p, uint64_t o, uint64_t n);
#define VF_G(p, o, n) vf_guar((void*)(p), (uint64_t)(o), (uint64_t)(n))
#include "vf.h"
#define IMP(a, b) (!(a) || (b))

static void vf_all_may_die(void) {
  struct tu_stream fs; struct tu_cleanup_op fo;
  STRM.cleanupReady_ = fs.cleanupReady_; STRM.cleanupOperation_ = fs.cleanupOperation_; STRM.triggerNextStarted_ = fs.triggerNextStarted_;
  COP.cleanupCompleted_ = fo.cleanupCompleted_; COP.sourceError_ = fo.sourceError_; COP.triggerError_ = fo.triggerError_;
  G.snap_s = STRM; G.snap_o = COP; G.dead = 1;
}
#define UNTOUCHED_IF_DEAD (!G.dead || (STRM.cleanupReady_ == G.snap_s.cleanupReady_ && STRM.cleanupOperation_ == G.snap_s.cleanupOperation_ && STRM.triggerNextStarted_ == G.snap_s.triggerNextStarted_ \
   && COP.cleanupCompleted_ == G.snap_o.cleanupCompleted_ && COP.sourceError_ == G.snap_o.sourceError_ && COP.triggerError_ == G.snap_o.triggerError_))

/* rely: the other party of the word arrives at most once (flag false -> true; C publishes cleanupOperation_ before, A / B
 * store their error before); once both have arrived the second one acts and everything may be torn down */
static void vf_interfere(void) {
  if (G.dead || G.me == P_X) return;
  if (!G.other_arrived && VF_nondet_bool()) {
    G.other_arrived = 1;
    if (G.me == P_T) { STRM.cleanupOperation_ = &COP; STRM.cleanupReady_ = 1; }
    else if (G.me == P_C) { STRM.cleanupReady_ = 1; }
    else if (G.me == P_A) { COP.triggerError_ = VF_nondet_bool(); COP.cleanupCompleted_ = 1; }
    else { COP.sourceError_ = VF_nondet_bool(); COP.cleanupCompleted_ = 1; }
  }
  /* I arrived first and the other one has arrived since: it acts, and what it starts may run to the end */
  if (G.other_arrived && (G.lin_count == 1 && G.lin_old == 0) && VF_nondet_bool()) vf_all_may_die();
}
/* guarantee: the flag only goes to true, by an exchange, once per call; C has registered itself before */
static void vf_guar(void* p, uint64_t o, uint64_t n) {
  VF_P(!G.dead, "no write after the other party may have finished the stream");
  VF_P((G.me == P_T || G.me == P_C) ? p == (void*)&STRM.cleanupReady_ : p == (void*)&COP.cleanupCompleted_, "each party writes only the flag of its own hand-off");
  VF_P(n == 1, "guarantee: the flag only goes to true");
  VF_P(G.lin_count == 0, "guarantee: each party arrives once");
  VF_P(o == (uint64_t)G.other_arrived, "the flag is true exactly when the other party has arrived");
  if (G.me == P_C) VF_P(STRM.cleanupOperation_ == &COP, "the cleanup operation registers itself in cleanupOperation_ before it arrives");
  if (G.storing == ERR_sourceError_ + 1) VF_P(COP.sourceError_ != 0, "the source's cleanup error is stored before this side arrives (the other side reads it after its own arrival)");
  if (G.storing == ERR_triggerError_ + 1) VF_P(COP.triggerError_ != 0, "the trigger's cleanup error is stored before this side arrives (the other side reads it after its own arrival)");
  G.lin_old = (int)o; G.lin_new = (int)n; G.lin_count++;
}
/* this call has arrived (exchange done or the load saw true) and the other party had arrived before it */
#define I_AM_SECOND ((G.lin_count == 1 && G.lin_old == 1) || (G.lin_count == 0 && G.other_arrived))

/* ---------------- event stubs ---------------- */
static void EV_request_stop(struct tu_stream* s) {
  VF_P(s == &STRM && !G.dead, "stop request on the live stream's stop source");
  G.stop_requests++;
}
static void EV_start_trigger_cleanup(struct tu_cleanup_op* op) {
  VF_CANARY("start_trigger_cleanup reachable");
  VF_P(!G.dead, "start_trigger_cleanup on a live cleanup operation");
  VF_P(op == &COP, "start_trigger_cleanup is called on the cleanup operation that registered itself");
  VF_P(G.tc_starts == 0, "the trigger's cleanup is started at most once per call");
  if (G.me == P_T || G.me == P_C) VF_P(I_AM_SECOND, "the trigger's cleanup is started only by the party that arrives second: after the trigger's next() completed AND cleanup was requested");
  G.tc_starts++;
  vf_all_may_die();
}
static void vf_final(struct tu_cleanup_op* op, int kind) {
  VF_CANARY("final signal reachable");
  VF_P(op == &COP && !G.dead, "the final signal goes to the live cleanup operation's receiver");
  VF_P(G.finals == 0, "the consumer's cleanup receiver is completed at most once");
  if (G.me == P_A || G.me == P_B) VF_P(I_AM_SECOND, "the final signal is delivered only by the second of the two cleanup completions");
  G.finals++; G.final_kind = kind; G.src_at_final = COP.sourceError_; G.trg_at_final = COP.triggerError_;
  vf_all_may_die();
}
static void EV_final_done(struct tu_cleanup_op* op) { vf_final(op, FIN_DONE); }
static void EV_final_error(struct tu_cleanup_op* op, int which) { vf_final(op, which == ERR_sourceError_ ? FIN_ERR_SOURCE : FIN_ERR_TRIGGER); }
static void EV_join(struct tu_cleanup_op* op, int which) {
  VF_P(op == &COP && G.joins == 0, "one join per completion");
  G.joins++; G.join_kind = which;
}
/* manual_lifetime<cleanup_operation> sourceOp_ / triggerOp_ */
static _Bool EV_cleanupOp_construct(struct tu_cleanup_op* op, int which) {
  VF_P(op == &COP && G.opstate[which] == OPS_NONE, "a cleanup operation is connected once, into empty storage");
  if (VF_nondet_bool()) return 1;
  G.opstate[which] = OPS_LIVE; G.op_constructs++;
  return 0;
}
static void EV_cleanupOp_start(struct tu_cleanup_op* op, int which) {
  VF_P(op == &COP && G.opstate[which] == OPS_LIVE, "the connected cleanup operation is started once");
  G.opstate[which] = OPS_STARTED; G.op_starts++;
}
static void EV_cleanupOp_destruct(struct tu_cleanup_op* op, int which) {
  VF_P(op == &COP, "cleanup operation storage of this operation");
  VF_P(which == G.completing, "a cleanup operation is destroyed by its OWN completion (the other one may still be running, or be destroyed by its own)");
  VF_P(G.opstate[which] == OPS_STARTED, "a cleanup operation is destroyed exactly once, after it was started");
  VF_P(G.joins == 0, "the completed cleanup operation is destroyed before the join is entered");
  G.opstate[which] = OPS_DESTROYED; G.op_destructs++;
}
/* next-operation side */
static _Bool EV_triggerNextOp_construct(struct tu_stream* s) { VF_P(s == &STRM && G.tn_constructs == 0, "next(trigger) is connected once"); if (VF_nondet_bool()) return 1; G.tn_constructs++; return 0; }
static void EV_triggerNext_start(struct tu_stream* s) { VF_P(s == &STRM && G.tn_constructs == 1 && G.tn_starts == 0, "the connected next(trigger) is started once"); G.tn_starts++; }
static void EV_triggerNextOp_destruct(struct tu_stream* s) { VF_P(s == &STRM && G.tn_destructs == 0 && G.tnd_calls == 0, "the completed next(trigger) is destroyed once, before the hand-off"); G.tn_destructs++; }
static void EV_trigger_next_done(struct tu_stream* s) { VF_P(s == &STRM && G.tnd_calls == 0, "the trigger's completion enters the hand-off once"); G.tnd_calls++; }
static void EV_cb_construct(struct tu_next_op* op) { VF_P(op == &NOP && G.cb_constructs == 0 && G.inner_starts == 0, "the stop callback is registered once, before the source's next() is started"); G.cb_constructs++; }
static void EV_inner_start(struct tu_next_op* op) { VF_CANARY("inner start reachable"); VF_P(op == &NOP && G.inner_starts == 0 && G.cb_constructs == 1, "the source's next() is started once, with the stop callback registered"); G.inner_starts++; }
static void EV_cb_destruct(struct tu_next_op* op) { VF_P(op == &NOP && G.cb_destructs == 0 && G.consumer_signals == 0, "the stop callback is destroyed once, before the consumer is signalled"); G.cb_destructs++; }
static void vf_consumer(struct tu_next_op* op, _Bool ends) {
  VF_P(op == &NOP && G.consumer_signals == 0 && G.cb_destructs == 1, "the consumer is signalled once, after the stop callback was destroyed");
  VF_P(G.stop_requests == (ends ? 1u : 0u), "the trigger is told to stop when (and only when) the source ends the sequence, before the consumer is signalled");
  G.consumer_signals++;
}
static void EV_consumer_value(struct tu_next_op* op) { vf_consumer(op, 0); }
static void EV_consumer_done(struct tu_next_op* op) { vf_consumer(op, 1); }
static void EV_consumer_error(struct tu_next_op* op) { vf_consumer(op, 1); }

/* ---------------- functions under contract ---------------- */
#define ZERO (G.lin_count == 0 && !G.saw_true && !G.dead && G.stop_requests == 0 && G.tc_starts == 0 && G.finals == 0 && G.joins == 0 && G.op_constructs == 0 && G.op_starts == 0 && G.op_destructs == 0 \
  && G.tn_constructs == 0 && G.tn_starts == 0 && G.tn_destructs == 0 && G.tnd_calls == 0 && G.cb_constructs == 0 && G.cb_destructs == 0 && G.inner_starts == 0 && G.consumer_signals == 0)

/* trigger_next_receiver::set_done (set_value / set_error forward to it) */
void trigger_next_receiver_set_done(struct trigger_next_receiver* self)
__CPROVER_requires(self == &TNR && TNR.stream_ == &STRM && G.me == P_X && ZERO)
__CPROVER_assigns(G)
__CPROVER_ensures(G.tn_destructs == 1 && G.tnd_calls == 1) /* the completed next(trigger) is destroyed, then the hand-off is entered, once each */
/*@BODY trigger_next_set_done*/

/* T: take_until_stream::trigger_next_done */
void tu_stream_trigger_next_done(struct tu_stream* self)
__CPROVER_requires(self == &STRM && G.me == P_T && ZERO && STRM.cleanupReady_ == G.other_arrived && STRM.cleanupOperation_ == (G.other_arrived ? &COP : CLEANUPOPERATION_INIT))
__CPROVER_assigns(STRM, COP, G)
__CPROVER_ensures(G.lin_count <= 1 && (G.lin_count == 1 || I_AM_SECOND)) /* the call always arrives: it sets the flag or found it set */
__CPROVER_ensures((G.tc_starts == 1) == I_AM_SECOND)                 /* starts the trigger's cleanup iff cleanup start() had arrived before it: exactly the second one acts */
__CPROVER_ensures(G.lin_count == 1 ==> G.stop_requests == 1)         /* trigger fired before cleanup: the source's next() is told to stop */
__CPROVER_ensures(G.finals == 0 && UNTOUCHED_IF_DEAD)
/*@BODY trigger_next_done*/

/* C: cleanup_sender::operation::start */
void tu_cleanup_op_start(struct tu_cleanup_op* self)
__CPROVER_requires(self == &COP && COP.stream_ == &STRM && G.me == P_C && ZERO && STRM.cleanupReady_ == G.other_arrived && STRM.cleanupOperation_ == CLEANUPOPERATION_INIT)
__CPROVER_requires(G.opstate[OP_source] == OPS_NONE && G.opstate[OP_trigger] == OPS_NONE)
__CPROVER_assigns(STRM, COP, G)
__CPROVER_ensures(G.op_starts + G.joins == 1)                        /* the source's cleanup is started, or its failure enters the join as an error: exactly one */
__CPROVER_ensures(G.joins == 1 ==> G.join_kind == J_source_cleanup_error)
__CPROVER_ensures(G.lin_count <= 1 && (G.lin_count == 1 || I_AM_SECOND)) /* the call always arrives: it sets the flag or found it set */
__CPROVER_ensures((G.tc_starts == 1) == I_AM_SECOND)                 /* starts the trigger's cleanup iff the trigger's next() had completed before: exactly the second one acts */
__CPROVER_ensures(G.lin_count == 1 ==> G.stop_requests == 1)         /* cleanup before the trigger fired: the trigger is told to stop */
__CPROVER_ensures(G.finals == 0 && UNTOUCHED_IF_DEAD)
/*@BODY cleanup_start*/

void tu_cleanup_op_start_trigger_cleanup(struct tu_cleanup_op* self)
__CPROVER_requires(self == &COP && COP.stream_ == &STRM && G.me == P_X && ZERO && G.opstate[OP_trigger] == OPS_NONE)
__CPROVER_assigns(G)
__CPROVER_ensures(G.op_starts + G.joins == 1)                        /* the trigger's cleanup is started, or its failure enters the join as an error */
__CPROVER_ensures(G.joins == 1 ==> G.join_kind == J_trigger_cleanup_error)
__CPROVER_ensures(G.op_starts == 1 ==> G.opstate[OP_trigger] == OPS_STARTED)
/*@BODY start_trigger_cleanup*/

/* the four joins.  A = source side, B = trigger side */
#define JOIN_REQ(who) (self == &COP && G.me == (who) && ZERO && COP.cleanupCompleted_ == G.other_arrived)
#define JOIN_ENS ((G.finals == 1) == I_AM_SECOND && (G.lin_count == 1 || I_AM_SECOND) /* the completion always arrives: sets the flag or found it set */ && G.lin_count <= 1 && G.tc_starts == 0 && UNTOUCHED_IF_DEAD)
void tu_cleanup_op_source_cleanup_done(struct tu_cleanup_op* self)
__CPROVER_requires(JOIN_REQ(P_A) && COP.sourceError_ == 0 && (G.other_arrived || COP.triggerError_ == 0))
__CPROVER_assigns(STRM, COP, G)
__CPROVER_ensures(JOIN_ENS)                                          /* the second completion delivers, once; the first delivers nothing */
__CPROVER_ensures(G.finals == 1 ==> G.final_kind == (G.trg_at_final ? FIN_ERR_TRIGGER : FIN_DONE)) /* done, unless the trigger's cleanup failed */
/*@BODY source_cleanup_done*/

void tu_cleanup_op_source_cleanup_error(struct tu_cleanup_op* self, int ex)
__CPROVER_requires(JOIN_REQ(P_A) && ex != 0 && COP.sourceError_ == 0 && (G.other_arrived || COP.triggerError_ == 0))
__CPROVER_assigns(STRM, COP, G)
__CPROVER_ensures(JOIN_ENS)
__CPROVER_ensures(G.finals == 1 ==> (G.final_kind == FIN_ERR_SOURCE && G.src_at_final != 0))  /* the source's cleanup error is preferred */
/*@BODY source_cleanup_error*/

void tu_cleanup_op_trigger_cleanup_done(struct tu_cleanup_op* self)
__CPROVER_requires(JOIN_REQ(P_B) && COP.triggerError_ == 0 && (G.other_arrived || COP.sourceError_ == 0))
__CPROVER_assigns(STRM, COP, G)
__CPROVER_ensures(JOIN_ENS)
__CPROVER_ensures(G.finals == 1 ==> G.final_kind == (G.src_at_final ? FIN_ERR_SOURCE : FIN_DONE)) /* done, unless the source's cleanup failed */
/*@BODY trigger_cleanup_done*/

void tu_cleanup_op_trigger_cleanup_error(struct tu_cleanup_op* self, int ex)
__CPROVER_requires(JOIN_REQ(P_B) && ex != 0 && COP.triggerError_ == 0 && (G.other_arrived || COP.sourceError_ == 0))
__CPROVER_assigns(STRM, COP, G)
__CPROVER_ensures(JOIN_ENS)
__CPROVER_ensures(G.finals == 1 ==> (G.final_kind == (G.src_at_final ? FIN_ERR_SOURCE : FIN_ERR_TRIGGER) && (G.src_at_final != 0 || G.trg_at_final != 0))) /* an error is never turned into done; the source's is preferred */
/*@BODY trigger_cleanup_error*/

/* the receivers of the two cleanup operations: destroy the COMPLETED operation, then enter its side of the join */
#define RCV_REQ(which) (self == &CRCV && CRCV.op_ == &COP && G.me == P_X && ZERO && G.completing == (which) && G.opstate[which] == OPS_STARTED)
#define RCV_ENS(which, join) (G.op_destructs == 1 && G.opstate[which] == OPS_DESTROYED && G.opstate[1 - (which)] == G.other_before && G.joins == 1 && G.join_kind == (join))
void source_receiver_set_done(struct cleanup_receiver* self)
__CPROVER_requires(RCV_REQ(OP_source))
__CPROVER_assigns(G)
__CPROVER_ensures(RCV_ENS(OP_source, J_source_cleanup_done))
/*@BODY source_receiver_set_done*/
void source_receiver_set_error(struct cleanup_receiver* self, int error)
__CPROVER_requires(RCV_REQ(OP_source))
__CPROVER_assigns(G)
__CPROVER_ensures(RCV_ENS(OP_source, J_source_cleanup_error))
/*@BODY source_receiver_set_error*/
void trigger_receiver_set_done(struct cleanup_receiver* self)
__CPROVER_requires(RCV_REQ(OP_trigger))
__CPROVER_assigns(G)
__CPROVER_ensures(RCV_ENS(OP_trigger, J_trigger_cleanup_done))     /* the trigger's cleanup operation is destroyed (exactly once), the source's is left alone */
/*@BODY trigger_receiver_set_done*/
void trigger_receiver_set_error(struct cleanup_receiver* self, int error)
__CPROVER_requires(RCV_REQ(OP_trigger))
__CPROVER_assigns(G)
__CPROVER_ensures(RCV_ENS(OP_trigger, J_trigger_cleanup_error))
/*@BODY trigger_receiver_set_error*/

/* next_sender::operation::start: the trigger's next() is started once over the life of the stream, before the source's */
void tu_next_op_start(struct tu_next_op* self)
__CPROVER_requires(self == &NOP && NOP.stream_ == &STRM && G.me == P_X && ZERO)
__CPROVER_assigns(STRM.triggerNextStarted_, G)
__CPROVER_ensures(STRM.triggerNextStarted_)
__CPROVER_ensures(__CPROVER_old(STRM.triggerNextStarted_) ==> (G.tn_constructs == 0 && G.tn_starts == 0 && G.tnd_calls == 0)) /* never a second next(trigger) */
__CPROVER_ensures(!__CPROVER_old(STRM.triggerNextStarted_) ==> (G.tn_starts + G.tnd_calls == 1)) /* first next(): the trigger's next() is started, or its failure enters the hand-off as "trigger done" */
__CPROVER_ensures(G.cb_constructs == 1 && G.inner_starts == 1)
/*@BODY next_start*/

/* next operation's receiver for the source's next(): source finished (done / error) => the trigger is told to stop */
void next_receiver_wrapper_set_value(struct next_receiver_wrapper* self)
__CPROVER_requires(self == &NWR && NWR.op_ == &NOP && NOP.stream_ == &STRM && G.me == P_X && ZERO)
__CPROVER_assigns(G)
__CPROVER_ensures(G.cb_destructs == 1 && G.consumer_signals == 1 && G.stop_requests == 0)
/*@BODY next_wrapper_set_value*/
void next_receiver_wrapper_set_done(struct next_receiver_wrapper* self)
__CPROVER_requires(self == &NWR && NWR.op_ == &NOP && NOP.stream_ == &STRM && G.me == P_X && ZERO)
__CPROVER_assigns(G)
__CPROVER_ensures(G.cb_destructs == 1 && G.consumer_signals == 1 && G.stop_requests == 1)
/*@BODY next_wrapper_set_done*/
void next_receiver_wrapper_set_error(struct next_receiver_wrapper* self)
__CPROVER_requires(self == &NWR && NWR.op_ == &NOP && NOP.stream_ == &STRM && G.me == P_X && ZERO)
__CPROVER_assigns(G)
__CPROVER_ensures(G.cb_destructs == 1 && G.consumer_signals == 1 && G.stop_requests == 1)
/*@BODY next_wrapper_set_error*/

/* ---------------- harnesses ---------------- */
static void h_zero(int me) {
  G.me = me; G.other_arrived = 0; G.lin_count = 0; G.lin_old = 0; G.lin_new = 0; G.saw_true = 0; G.dead = 0;
  G.stop_requests = 0; G.tc_starts = 0; G.finals = 0; G.final_kind = FIN_NONE; G.src_at_final = 0; G.trg_at_final = 0; G.storing = 0; G.joins = 0; G.join_kind = -1;
  G.opstate[0] = OPS_NONE; G.opstate[1] = OPS_NONE; G.completing = -1; G.op_constructs = 0; G.op_starts = 0; G.op_destructs = 0;
  G.tn_constructs = 0; G.tn_starts = 0; G.tn_destructs = 0; G.tnd_calls = 0; G.cb_constructs = 0; G.cb_destructs = 0; G.inner_starts = 0; G.consumer_signals = 0;
  STRM.cleanupReady_ = CLEANUPREADY_INIT; STRM.cleanupOperation_ = CLEANUPOPERATION_INIT; STRM.triggerNextStarted_ = VF_nondet_bool(); STRM.stopSource_ = 0;
  COP.stream_ = &STRM; COP.cleanupCompleted_ = CLEANUPCOMPLETED_INIT; COP.sourceError_ = 0; COP.triggerError_ = 0;
  NOP.stream_ = &STRM; TNR.stream_ = &STRM; CRCV.op_ = &COP; NWR.op_ = &NOP;
}
void h_trigger_next_set_done(void) { h_zero(P_X); trigger_next_receiver_set_done(&TNR); VF_CANARY("after trigger_next_receiver::set_done"); }
void h_trigger_next_done(void) {
  h_zero(P_T);
  if (VF_nondet_bool()) { G.other_arrived = 1; STRM.cleanupReady_ = 1; STRM.cleanupOperation_ = &COP; }    /* cleanup start() arrived first */
  tu_stream_trigger_next_done(&STRM);
  VF_CANARY("after trigger_next_done");
  if (G.tc_starts) { VF_CANARY("trigger completion can be second and start the trigger's cleanup"); } else { VF_CANARY("trigger completion can be first"); }
  if (G.lin_count == 1 && G.lin_old == 1) { VF_CANARY("cleanup can arrive between the trigger completion's load and its exchange"); }
}
void h_cleanup_start(void) {
  h_zero(P_C);
  if (VF_nondet_bool()) { G.other_arrived = 1; STRM.cleanupReady_ = 1; }      /* the trigger's next() completed first */
  tu_cleanup_op_start(&COP);
  VF_CANARY("after cleanup start()");
  if (G.tc_starts) { VF_CANARY("cleanup start can be second and start the trigger's cleanup"); } else { VF_CANARY("cleanup start can be first"); }
  if (G.joins) { VF_CANARY("connect of cleanup(source) can fail"); }
}
void h_start_trigger_cleanup(void) { h_zero(P_X); tu_cleanup_op_start_trigger_cleanup(&COP); VF_CANARY("after start_trigger_cleanup"); if (G.joins) { VF_CANARY("connect of cleanup(trigger) can fail"); } }
static void h_join(int me) {
  h_zero(me);
  if (VF_nondet_bool()) { G.other_arrived = 1; COP.cleanupCompleted_ = 1; if (me == P_A) COP.triggerError_ = VF_nondet_bool(); else COP.sourceError_ = VF_nondet_bool(); }
}
void h_source_cleanup_done(void) { h_join(P_A); tu_cleanup_op_source_cleanup_done(&COP); VF_CANARY("after source_cleanup_done"); if (G.finals) { VF_CANARY("source completion can be second"); if (G.final_kind == FIN_ERR_TRIGGER) { VF_CANARY("reports the trigger's cleanup error"); } } else { VF_CANARY("source completion can be first"); } }
void h_source_cleanup_error(void) { h_join(P_A); G.storing = ERR_sourceError_ + 1; tu_cleanup_op_source_cleanup_error(&COP, 1); VF_CANARY("after source_cleanup_error"); if (G.finals) { VF_CANARY("source error can be second"); } }
void h_trigger_cleanup_done(void) { h_join(P_B); tu_cleanup_op_trigger_cleanup_done(&COP); VF_CANARY("after trigger_cleanup_done"); if (G.finals) { VF_CANARY("trigger completion can be second"); } else { VF_CANARY("trigger completion can be first"); } }
void h_trigger_cleanup_error(void) { h_join(P_B); G.storing = ERR_triggerError_ + 1; tu_cleanup_op_trigger_cleanup_error(&COP, 1); VF_CANARY("after trigger_cleanup_error"); if (G.finals) { VF_CANARY("trigger error can be second"); } }
static void h_rcv(int which) {
  h_zero(P_X); G.completing = which; G.opstate[which] = OPS_STARTED;
  uint8_t o = VF_nondet_u8(); __CPROVER_assume(o <= OPS_DESTROYED); G.opstate[1 - which] = o; G.other_before = o;       /* the other operation: not yet connected / running / already destroyed by its own completion */
}
void h_source_receiver_set_done(void) { h_rcv(OP_source); source_receiver_set_done(&CRCV); VF_CANARY("after source_receiver::set_done"); }
void h_source_receiver_set_error(void) { h_rcv(OP_source); source_receiver_set_error(&CRCV, 1); VF_CANARY("after source_receiver::set_error"); }
void h_trigger_receiver_set_done(void) { h_rcv(OP_trigger); trigger_receiver_set_done(&CRCV); VF_CANARY("after trigger_receiver::set_done"); }
void h_trigger_receiver_set_error(void) { h_rcv(OP_trigger); trigger_receiver_set_error(&CRCV, 1); VF_CANARY("after trigger_receiver::set_error"); }
void h_next_start(void) { h_zero(P_X); _Bool first = !STRM.triggerNextStarted_; tu_next_op_start(&NOP); VF_CANARY("after next start()"); if (first) { VF_CANARY("first next(): trigger started"); } else { VF_CANARY("later next(): trigger not started again"); } if (G.tnd_calls) { VF_CANARY("connect of next(trigger) can fail"); } }
void h_next_wrapper_set_value(void) { h_zero(P_X); next_receiver_wrapper_set_value(&NWR); VF_CANARY("after receiver_wrapper::set_value"); }
void h_next_wrapper_set_done(void) { h_zero(P_X); next_receiver_wrapper_set_done(&NWR); VF_CANARY("after receiver_wrapper::set_done"); }
void h_next_wrapper_set_error(void) { h_zero(P_X); next_receiver_wrapper_set_error(&NWR); VF_CANARY("after receiver_wrapper::set_error"); }

/* ---------------- M4 lemmas over the contracts ---------------- */
/* an arrival flag between two parties, each arriving once, the contracts' "(acted) == I_AM_SECOND":
 * over both orders exactly one party acts, and it acts after both have arrived */
struct hand { _Bool flag, x_arr, y_arr; unsigned acted; };
static _Bool arrive(struct hand a, _Bool is_x, struct hand* out) {
  struct hand b = a;
  _Bool en = is_x ? !a.x_arr : !a.y_arr;           /* each party arrives once (trigger completes once; cleanup() called once; each cleanup operation completes once) */
  _Bool second = a.flag;                           /* guarantee: the flag is true exactly when the other party has arrived */
  b.flag = 1; if (is_x) b.x_arr = 1; else b.y_arr = 1;
  if (second) b.acted = a.acted + 1;               /* contract: acts iff it is second */
  *out = b;
  return en;
}
#define HAND_INV(h) ((h).flag == ((h).x_arr || (h).y_arr) && (h).acted == (((h).x_arr && (h).y_arr) ? 1u : 0u))
void lemma_tu_handoff(void) {
  struct hand a, b;
  a.flag = VF_nondet_bool(); a.x_arr = VF_nondet_bool(); a.y_arr = VF_nondet_bool(); a.acted = VF_nondet_u32();
  __CPROVER_assume(HAND_INV(a));
  _Bool is_x = VF_nondet_bool();
  __CPROVER_assume(arrive(a, is_x, &b));
  VF_CANARY("lemma premises satisfiable");
  if (a.flag) { VF_CANARY("lemma: second arrival possible"); } else { VF_CANARY("lemma: first arrival possible"); }
  VF_P(HAND_INV(b), "lemma: every arrival preserves: flag <=> somebody arrived, acted <=> both arrived");
  VF_P(b.acted <= 1, "lemma: the action (start of the trigger's cleanup / final signal) happens at most once over all orders");
  VF_P(IMP(b.x_arr && b.y_arr, b.acted == 1), "lemma: once both parties have arrived the action has happened exactly once (the second exchange returned true)");
  VF_P(IMP(b.acted == 1, b.x_arr && b.y_arr), "lemma: the action happens only after both arrived: the trigger's cleanup only after its next() completed and cleanup was requested; the final signal only after both cleanups finished");
  VF_P(IMP(a.flag, b.flag), "lemma: the flag never goes back (an arrival by the other party is inside my rely: false -> true, once)");
  struct hand i; i.flag = CLEANUPREADY_INIT; i.x_arr = 0; i.y_arr = 0; i.acted = 0;
  VF_P(HAND_INV(i), "lemma: the initial state of the hand-off satisfies the invariant");
  i.flag = CLEANUPCOMPLETED_INIT;
  VF_P(HAND_INV(i), "lemma: the initial state of the join satisfies the invariant");
}
void lemma_tu_init(void) {
  VF_P(CLEANUPREADY_INIT == 0 && CLEANUPCOMPLETED_INIT == 0 && TRIGGERNEXTSTARTED_INIT == 0 && CLEANUPOPERATION_INIT == NULL, "lemma: a fresh stream / cleanup operation has both flags clear, no trigger next started, no cleanup operation registered");
  VF_CANARY("lemma_tu_init reachable");
}
