H = 'include/unifex/take_until.hpp'
NS = r'namespace _take_until \{'
TNR = r'struct trigger_next_receiver \{'
NSND = r'struct next_sender \{'
CSND = r'struct cleanup_sender \{'
NWRAP = r'struct receiver_wrapper \{'
SRCR = r'struct source_receiver \{'
TRGR = r'struct trigger_receiver \{'


def refs(*names):
    """reference members / locals become pointers of the same name: r.m -> r->m (general rule missing from the global table)"""
    return [(r'(?<![\w.>])' + n + r'\.(?=\w)', n + '->') for n in names]


# UNIFEX_TRY { A } UNIFEX_CATCH(...) { B } -> { A' } if (0) { vf_catch: ; B }   (DESIGN 3.1, last row; not in the global table)
TRY_CATCH = [(r'UNIFEX_TRY\s*\{', '{'), (r'\}\s*UNIFEX_CATCH\s*\(\.\.\.\)\s*\{', '} if (0) { vf_catch: ;')]
LAMBDA_CONNECT = r'\.construct_with\(\[&\] \{\s*return unifex::connect\([^;]*;\s*\}\);'

tnr_ctx = dict(cls='trigger_next_receiver', members=['stream_'], pre=[
    (r'auto& stream = stream_;', 'struct tu_stream* stream = stream_;'),
    (r'stream\.triggerNextOp_\.destruct\(\);', 'EV_triggerNextOp_destruct(stream);'),
    (r'stream\.trigger_next_done\(\);', 'EV_trigger_next_done(stream);'),
])
tnd_ctx = dict(cls='tu_stream', members=['cleanupReady_', 'cleanupOperation_', 'stopSource_'], pre=[
    (r'stopSource_\.request_stop\(\);', 'EV_request_stop(this);'),
    (r'cleanupOperation_->start_trigger_cleanup\(\);', 'EV_start_trigger_cleanup(cleanupOperation_);'),
])
cstart_ctx = dict(cls='tu_cleanup_op', members=['stream_', 'receiver_'], pre=[
    (r'(?s)sourceOp_' + LAMBDA_CONNECT, 'if (EV_cleanupOp_construct(this, OP_source)) goto vf_catch;'),
    (r'unifex::start\(sourceOp_\.get\(\)\);', 'EV_cleanupOp_start(this, OP_source);'),
    (r'source_cleanup_error\(std::current_exception\(\)\);', 'EV_join(this, J_source_cleanup_error);'),
    (r'stream_\.stopSource_\.request_stop\(\);', 'EV_request_stop(stream_);'),
    (r'(?<![\w.>])start_trigger_cleanup\(\);', 'EV_start_trigger_cleanup(this);'),
] + TRY_CATCH + refs('stream_'))
stc_ctx = dict(cls='tu_cleanup_op', members=['stream_', 'receiver_'], pre=[
    (r'(?s)triggerOp_' + LAMBDA_CONNECT, 'if (EV_cleanupOp_construct(this, OP_trigger)) goto vf_catch;'),
    (r'unifex::start\(triggerOp_\.get\(\)\);', 'EV_cleanupOp_start(this, OP_trigger);'),
    (r'trigger_cleanup_error\(std::current_exception\(\)\);', 'EV_join(this, J_trigger_cleanup_error);'),
] + TRY_CATCH + refs('stream_'))
join_ctx = dict(cls='tu_cleanup_op', members=['cleanupCompleted_', 'sourceError_', 'triggerError_', 'receiver_'], pre=[
    (r'unifex::set_error\(std::move\(receiver_\), std::move\((\w+)\)\);', r'EV_final_error(this, ERR_\1);'),
    (r'unifex::set_done\(std::move\(receiver_\)\);', 'EV_final_done(this);'),
])
crcv_ctx = dict(cls='cleanup_receiver', members=['op_'], pre=[
    (r'auto& op = op_;', 'struct tu_cleanup_op* op = op_;'),
    (r'op\.(source|trigger)Op_\.destruct\(\);', r'EV_cleanupOp_destruct(op, OP_\1);'),
    (r'op\.(\w+_cleanup_done)\(\);', r'EV_join(op, J_\1);'),
    (r'op\.(\w+_cleanup_error)\(std::move\(error\)\);', r'EV_join(op, J_\1);'),
])
nstart_ctx = dict(cls='tu_next_op', members=['stream_', 'receiver_', 'stopCallback_', 'innerOp_'], pre=[
    (r'(?s)stream_\.triggerNextOp_' + LAMBDA_CONNECT, 'if (EV_triggerNextOp_construct(stream_)) goto vf_catch;'),
    (r'unifex::start\(stream_\.triggerNextOp_\.get\(\)\);', 'EV_triggerNext_start(stream_);'),
    (r'stream_\.trigger_next_done\(\);', 'EV_trigger_next_done(stream_);'),
    (r'(?s)stopCallback_\.construct\(\s*get_stop_token\(receiver_\), cancel_callback\{stream_\.stopSource_\}\);', 'EV_cb_construct(this);'),
    (r'unifex::start\(innerOp_\);', 'EV_inner_start(this);'),
] + TRY_CATCH + refs('stream_'))
nwrap_ctx = dict(cls='next_receiver_wrapper', members=['op_'], pre=[
    (r'op_\.stopCallback_\.destruct\(\);', 'EV_cb_destruct(op_);'),
    (r'op_\.stream_\.stopSource_\.request_stop\(\);', 'EV_request_stop(op_->stream_);'),
    (r'(?s)unifex::set_(value|done|error)\(std::move\(op_\.receiver_\)[^;]*\);', r'EV_consumer_\1(op_);'),
])

J = lambda name, **kw: dict(file=H, sig=r'void ' + name + r'\b', within=[NS, CSND], ctx=join_ctx, **kw)

SPEC = dict(
    properties=['C13', 'C04'],   # C04: the trigger / the source are told to stop by whoever finishes first, and by cleanup while the trigger is pending
    ctx=dict(),
    extracts={
        'cleanupReady_init': dict(file=H, kind='expr', sig=r'std::atomic<bool> cleanupReady_ = ([^;]*);'),
        'cleanupOperation_init': dict(file=H, kind='expr', sig=r'cleanup_operation_base\* cleanupOperation_ = ([^;]*);'),
        'triggerNextStarted_init': dict(file=H, kind='expr', sig=r'bool triggerNextStarted_ = ([^;]*);'),
        'cleanupCompleted_init': dict(file=H, kind='expr', sig=r'std::atomic<bool> cleanupCompleted_ = ([^;]*);'),
        'trigger_next_set_done': dict(file=H, sig=r'void set_done\(\) && noexcept', within=[NS, TNR], ctx=tnr_ctx),
        'trigger_next_done': dict(file=H, sig=r'void trigger_next_done\(\) noexcept', within=NS, ctx=tnd_ctx),
        'next_start': dict(file=H, sig=r'void start\(\) noexcept', within=[NS, NSND], ctx=nstart_ctx, must_contain=[r'triggerNextStarted_']),
        'next_wrapper_set_value': dict(file=H, sig=r'void set_value\(Values&&\.\.\. values\) && noexcept', within=[NS, NSND, NWRAP], ctx=nwrap_ctx),
        'next_wrapper_set_done': dict(file=H, sig=r'void set_done\(\) && noexcept', within=[NS, NSND, NWRAP], ctx=nwrap_ctx),
        'next_wrapper_set_error': dict(file=H, sig=r'void set_error\(Error&& error\) && noexcept', within=[NS, NSND, NWRAP], ctx=nwrap_ctx),
        'cleanup_start': dict(file=H, sig=r'void start\(\) noexcept', within=[NS, CSND], ctx=cstart_ctx, must_contain=[r'cleanupReady_']),
        'start_trigger_cleanup': dict(file=H, sig=r'void start_trigger_cleanup\(\) noexcept final', within=[NS, CSND], ctx=stc_ctx),
        'source_cleanup_done': J('source_cleanup_done'),
        'source_cleanup_error': J('source_cleanup_error'),
        'trigger_cleanup_done': J('trigger_cleanup_done'),
        'trigger_cleanup_error': J('trigger_cleanup_error'),
        'source_receiver_set_done': dict(file=H, sig=r'void set_done\(\) && noexcept', within=[NS, CSND, SRCR], ctx=crcv_ctx),
        'source_receiver_set_error': dict(file=H, sig=r'void set_error\(std::exception_ptr error\) && noexcept', within=[NS, CSND, SRCR], ctx=crcv_ctx),
        'trigger_receiver_set_done': dict(file=H, sig=r'void set_done\(\) && noexcept', within=[NS, CSND, TRGR], ctx=crcv_ctx),
        'trigger_receiver_set_error': dict(file=H, sig=r'void set_error\(std::exception_ptr error\) && noexcept', within=[NS, CSND, TRGR], ctx=crcv_ctx),
    },
    closed_world=[dict(file=H, members=['cleanupReady_', 'cleanupOperation_', 'cleanupCompleted_', 'triggerNextStarted_', 'sourceError_', 'triggerError_'], within=NS, allow=[
        r'cleanup_operation_base\* cleanupOperation_ = nullptr;', r'std::atomic<bool> cleanupReady_ = false;', r'bool triggerNextStarted_ = false;',
        r'std::atomic<bool> cleanupCompleted_ = false;', r'std::exception_ptr sourceError_;', r'std::exception_ptr triggerError_;',
    ])],
    units=[
        dict(name='trigger_next_receiver_set_done', harness='h_trigger_next_set_done', enforce='trigger_next_receiver_set_done'),
        dict(name='trigger_next_done', harness='h_trigger_next_done', enforce='tu_stream_trigger_next_done'),
        dict(name='cleanup_start', harness='h_cleanup_start', enforce='tu_cleanup_op_start'),
        dict(name='start_trigger_cleanup', harness='h_start_trigger_cleanup', enforce='tu_cleanup_op_start_trigger_cleanup'),
        dict(name='source_cleanup_done', harness='h_source_cleanup_done', enforce='tu_cleanup_op_source_cleanup_done'),
        dict(name='source_cleanup_error', harness='h_source_cleanup_error', enforce='tu_cleanup_op_source_cleanup_error'),
        dict(name='trigger_cleanup_done', harness='h_trigger_cleanup_done', enforce='tu_cleanup_op_trigger_cleanup_done'),
        dict(name='trigger_cleanup_error', harness='h_trigger_cleanup_error', enforce='tu_cleanup_op_trigger_cleanup_error'),
        dict(name='source_receiver_set_done', harness='h_source_receiver_set_done', enforce='source_receiver_set_done'),
        dict(name='source_receiver_set_error', harness='h_source_receiver_set_error', enforce='source_receiver_set_error'),
        dict(name='trigger_receiver_set_done', harness='h_trigger_receiver_set_done', enforce='trigger_receiver_set_done'),
        dict(name='trigger_receiver_set_error', harness='h_trigger_receiver_set_error', enforce='trigger_receiver_set_error'),
        dict(name='next_start', harness='h_next_start', enforce='tu_next_op_start'),
        dict(name='next_receiver_wrapper_set_value', harness='h_next_wrapper_set_value', enforce='next_receiver_wrapper_set_value'),
        dict(name='next_receiver_wrapper_set_done', harness='h_next_wrapper_set_done', enforce='next_receiver_wrapper_set_done'),
        dict(name='next_receiver_wrapper_set_error', harness='h_next_wrapper_set_error', enforce='next_receiver_wrapper_set_error'),
        dict(name='lemma_tu_handoff', harness='lemma_tu_handoff', mode='lemma'),
        dict(name='lemma_tu_init', harness='lemma_tu_init', mode='lemma'),
    ],
    assumptions=[
        'consumer protocol (stream concept): cleanup() is called once, after the last next() was signalled; next() calls do not overlap',
        'the trigger stream completes its single next() exactly once (trigger_next_receiver::set_value / set_error forward to set_done); each of the two cleanup operations completes exactly once through its receiver',
        'unifex::start() does not throw; connect() may',
        'the cleanup operation and the stream outlive the two cleanup completions; whoever delivers the final signal may destroy them (no access afterwards is checked)',
        'OBSERVATION (liveness, not claimed): cleanup() of a take_until stream whose next() was never called never completes: cleanupReady_ is still false, the exchange returns false and nobody is left to call start_trigger_cleanup(); partial correctness only',
        'NOT REACHED: element values / order, the source\'s and the trigger\'s own next()/cleanup() (C13 for other adaptors), cancel_callback (one line: request_stop)',
        'atomics sequentially consistent',
    ],
    drops=['memory orders', 'template genericity', 'reference members -> pointers (spec-level rule)', 'payload values, exception_ptr values (-> non-zero flag)',
           'manual_lifetime construct / destruct / start of sourceOp_, triggerOp_, triggerNextOp_, stopCallback_, innerOp_ -> event stubs',
           'the four join functions called from the receivers / from start() -> event stub EV_join (each join is verified in its own unit)',
           'UNIFEX_TRY / UNIFEX_CATCH -> goto vf_catch at the may-throw stubs'],
)
