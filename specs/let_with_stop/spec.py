SS = 'include/unifex/let_value_with_stop_source.hpp'
TK = 'include/unifex/let_value_with_stop_token.hpp'
FS = 'include/unifex/fused_stop_source.hpp'

SS_OP = r'struct _stop_source_operation<SuccessorFactory, Receiver>::type \{'
SS_RCV = r'class _stop_source_receiver<Operation, Receiver>::type \{'
TK_OP = r'struct _stop_token_operation<SuccessorFactory, Receiver, AlwaysVoid>::type \{'
TKI_OP = [(r'struct _stop_token_operation<\s*SuccessorFactory,\s*Receiver,\s*std::enable_if_t<', 0), (r'struct type ', 0)]
TK_RCV = r'class _stop_token_receiver<Operation, Receiver>::type \{'
FSS = r'struct fused_stop_source : unifex::inplace_stop_source \{'

SIGNALS = [
    (r'unifex::set_value\(std::move\(receiver_\), \(Values\s*&&\)\s*values\.\.\.\)', 'EV_set_value(self)'),
    (r'unifex::set_error\(std::move\(receiver_\), \(Error\s*&&\)\s*error\)', 'EV_set_error(self)'),
    (r'unifex::set_done\(std::move\(receiver_\)\)', 'EV_set_done(self)'),
]
TOKENS = [
    (r'\br\.op_\.stopSource_\.get_token\(\)', 'TOK_SOURCE'),
    (r'\bstopSource_\.get_token\(\)', 'TOK_SOURCE'),
    (r'\bget_stop_token\(r\)', 'TOK_PARENT'),
    (r'\binplace_stop_token\{\}', 'TOK_NEVER'),
    (r'\bstop_token_type\{\}', 'TOK_NEVER'),
    (r'std::is_same_v<\s*stop_token_type_t<Receiver2?>,\s*inplace_stop_token>', 'VF_CFG_inplace'),
    (r'is_stop_never_possible_v<stop_token_type_t<Receiver>>', 'VF_CFG_never'),
    (r'\bget_token\(r\)', 'tki_op_get_token(&TKI)'),
]

ss_op_ctx = dict(cls='ss_op', members=['stopSource_', 'receiverToken_'], methods=[],
                 obj_methods={'register_callbacks': 'fused_register_callbacks'},
                 pre=[(r'unifex::start\(innerOp_\)', 'EV_start_inner(self)')])
ss_rcv_ctx = dict(cls='ss_receiver', members=['op_'], methods=[],
                  obj_methods={'deregister_callbacks': 'fused_deregister_callbacks'},
                  pre=SIGNALS + TOKENS + [(r'\bop_\.receiverToken_\.stop_requested\(\)', 'EV_parent_stop_requested()'),   # not in the pinned code: lets a variant that consults the parent token compile
                                          (r'\bop_\.', 'op_->'), (r'\br\.', 'r->')])
tk_op_ctx = dict(cls='tk_op', members=['stopSource_', 'receiverToken_'], methods=[],
                 obj_methods={'register_callbacks': 'fused_register_callbacks', 'deregister_callbacks': 'fused_deregister_callbacks'},
                 pre=[(r'unifex::start\(innerOp_\)', 'EV_start_inner(self)')])
tki_op_ctx = dict(cls='tki_op', members=[], methods=[],
                  pre=TOKENS + [(r'unifex::start\(innerOp_\)', 'EV_start_inner(self)')])
tk_rcv_ctx = dict(cls='tk_receiver', members=['op_', 'stop_token_'], methods=['cleanup'],
                  obj_methods={'cleanup': 'tk_dispatch_cleanup'},
                  pre=SIGNALS + [(r'\bop_(?:\.|->)receiverToken_\.stop_requested\(\)', 'EV_parent_stop_requested()'), (r'\br\.', 'r->')])
fss_ctx = dict(cls='fused', members=[], methods=[],
               pre=[(r'callbacks_\.emplace\(\*this, std::move\(tokens\)\.\.\.\)', 'EV_cb_emplace(self, tokens)'),
                    (r'callbacks_\.reset\(\)', 'EV_cb_reset(self)')])
cb_ctx = dict(cls='fss_stop_callback', members=['source_'], methods=[],
              pre=[(r'source_\.request_stop\(\)', 'EV_source_request_stop(source_)')])
expr_ctx = dict(pre=TOKENS + [(r'(?s)^stop_source_type stopSource_;.*innerOp_;$', '1'), (r'(?s)^fused_stop_source<stop_token_type> stopSource_;.*innerOp_;$', '1')])

SPEC = dict(
    properties=['C04'],
    ctx={},
    extracts={
        # fused_stop_source.hpp: the interposed source and its forwarding callback
        'fss_callback': dict(file=FS, sig=r'void operator\(\)\(\) noexcept', within=r'struct stop_callback \{', ctx=cb_ctx),
        'fss_register': dict(file=FS, sig=r'void register_callbacks\(StopTokens\.\.\. tokens\)', within=FSS, ctx=fss_ctx),
        'fss_deregister': dict(file=FS, sig=r'void deregister_callbacks\(\) noexcept', within=FSS, ctx=fss_ctx),
        # let_value_with_stop_source.hpp
        'ss_start': dict(file=SS, sig=r'void start\(\) noexcept', within=SS_OP, ctx=ss_op_ctx),
        'ss_set_value': dict(file=SS, sig=r'void set_value\(Values&&\.\.\. values\) noexcept\(\s*is_nothrow_receiver_of_v<Receiver, Values\.\.\.>\)', within=SS_RCV, ctx=ss_rcv_ctx),
        'ss_set_error': dict(file=SS, sig=r'void set_error\(Error&& error\) noexcept', within=SS_RCV, ctx=ss_rcv_ctx),
        'ss_set_done': dict(file=SS, sig=r'void set_done\(\) noexcept', within=SS_RCV, ctx=ss_rcv_ctx),
        'ss_child_token': dict(file=SS, sig=r'tag_invoke\(tag_t<get_stop_token>, const type& r\) noexcept', within=SS_RCV, ctx=ss_rcv_ctx),
        'ss_parent_token': dict(file=SS, kind='expr', sig=r', receiverToken_\(((?:[^()]|\([^()]*\))*)\)', within=SS_OP, ctx=expr_ctx),
        # the interposed source is declared (hence constructed) before the inner operation that captures its token
        'ss_decl_order': dict(file=SS, kind='expr', sig=r'(?s)UNIFEX_NO_UNIQUE_ADDRESS (stop_source_type stopSource_;.*?innerOp_;)', within=SS_OP, ctx=expr_ctx),
        # let_value_with_stop_token.hpp, generic operation (foreign token type: interposes a fused_stop_source)
        'tk_start': dict(file=TK, sig=r'void start\(\) noexcept', within=TK_OP, ctx=tk_op_ctx),
        'tk_cleanup': dict(file=TK, sig=r'void cleanup\(\) noexcept', within=TK_OP, ctx=tk_op_ctx),
        'tk_parent_token': dict(file=TK, kind='expr', sig=r', receiverToken_\(((?:[^()]|\([^()]*\))*)\)', within=TK_OP, ctx=expr_ctx),
        'tk_child_token': dict(file=TK, kind='expr', sig=r'innerOp_\(connect_inner_op\(\s*func_, ([^,]+), static_cast', within=TK_OP, ctx=expr_ctx),
        'tk_decl_order': dict(file=TK, kind='expr', sig=r'(?s)(fused_stop_source<stop_token_type> stopSource_;.*?innerOp_;)', within=TK_OP, ctx=expr_ctx),
        # let_value_with_stop_token.hpp, specialisation for inplace_stop_token / never-stoppable receivers: no interposed source
        'tki_start': dict(file=TK, sig=r'void start\(\) noexcept', within=TKI_OP, ctx=tki_op_ctx),
        'tki_cleanup': dict(file=TK, sig=r'void cleanup\(\) noexcept', within=TKI_OP, ctx=tki_op_ctx),
        'tki_get_token': dict(file=TK, sig=r'inplace_stop_token get_token\(Receiver2& r\) noexcept', within=TKI_OP, ctx=tki_op_ctx),
        'tki_child_token': dict(file=TK, kind='expr', sig=r'innerOp_\(connect_inner_op\(\s*func_, ([^,]+), static_cast', within=TKI_OP, ctx=expr_ctx),
        'tki_selected_when': dict(file=TK, kind='expr', sig=r'(?s)std::enable_if_t<\s*(std::is_same_v<stop_token_type_t<Receiver>, inplace_stop_token> \|\|\s*is_stop_never_possible_v<stop_token_type_t<Receiver>>)>>', ctx=expr_ctx),
        # the inner receiver of let_value_with_stop_token (shared by both operations)
        'tkr_set_value': dict(file=TK, sig=r'void set_value\(Values&&\.\.\. values\) noexcept\(\s*is_nothrow_receiver_of_v<Receiver, Values\.\.\.>\)', within=TK_RCV, ctx=tk_rcv_ctx),
        'tkr_set_error': dict(file=TK, sig=r'void set_error\(Error&& error\) noexcept', within=TK_RCV, ctx=tk_rcv_ctx),
        'tkr_set_done': dict(file=TK, sig=r'void set_done\(\) noexcept', within=TK_RCV, ctx=tk_rcv_ctx),
        'tkr_cleanup': dict(file=TK, sig=r'void cleanup\(\) noexcept', within=TK_RCV, ctx=tk_rcv_ctx),
        'tkr_child_token': dict(file=TK, sig=r'tag_invoke\(tag_t<get_stop_token>, const type& r\) noexcept', within=TK_RCV, ctx=tk_rcv_ctx),
    },
    closed_world=[
        dict(file=SS, members=['stopSource_', 'receiverToken_'],
             allow=[r'UNIFEX_NO_UNIQUE_ADDRESS stop_source_type stopSource_;', r'UNIFEX_NO_UNIQUE_ADDRESS stop_token_type receiverToken_;',
                    r', receiverToken_\((?:[^()]|\([^()]*\))*\)',
                    # connect_inner_op: the successor factory is handed the interposed source (the user may call request_stop on it)
                    r'static_cast<SuccessorFactory&&>\(func\)\(stopSource_\),']),
        dict(file=TK, members=['stopSource_', 'receiverToken_'],
             allow=[r'stop_token_type receiverToken_;', r'fused_stop_source<stop_token_type> stopSource_;', r', receiverToken_\((?:[^()]|\([^()]*\))*\)',
                    r'func_, stopSource_\.get_token\(\), static_cast<Receiver2&&>\(r\)\)\) \{\}']),
        dict(file=FS, members=['callbacks_'], within=FSS,
             allow=[r'UNIFEX_NO_UNIQUE_ADDRESS std::optional<fused_callback_type> callbacks_;']),
    ],
    units=[
        dict(name='fused_callback_call', harness='h_fss_callback', enforce='fss_stop_callback_call',
             replace=['ss_receiver_set_done', 'tk_receiver_set_done']),
        dict(name='fused_register_callbacks', harness='h_fss_register', enforce='fused_register_callbacks', replace=['fss_stop_callback_call']),
        dict(name='fused_deregister_callbacks', harness='h_fss_deregister', enforce='fused_deregister_callbacks'),
        dict(name='ss_start', harness='h_ss_start', enforce='ss_op_start',
             replace=['fused_register_callbacks', 'ss_receiver_set_value', 'ss_receiver_set_error', 'ss_receiver_set_done']),
        dict(name='ss_set_value', harness='h_ss_set_value', enforce='ss_receiver_set_value', replace=['fused_deregister_callbacks']),
        dict(name='ss_set_error', harness='h_ss_set_error', enforce='ss_receiver_set_error', replace=['fused_deregister_callbacks']),
        dict(name='ss_set_done', harness='h_ss_set_done', enforce='ss_receiver_set_done', replace=['fused_deregister_callbacks']),
        dict(name='ss_child_token', harness='h_ss_child_token', enforce='ss_receiver_get_stop_token'),
        dict(name='tk_start', harness='h_tk_start', enforce='tk_op_start',
             replace=['fused_register_callbacks', 'tk_receiver_set_value', 'tk_receiver_set_error', 'tk_receiver_set_done']),
        dict(name='tk_cleanup', harness='h_tk_cleanup', enforce='tk_op_cleanup', replace=['fused_deregister_callbacks']),
        dict(name='tki_start', harness='h_tki_start', enforce='tki_op_start',
             replace=['tk_receiver_set_value', 'tk_receiver_set_error', 'tk_receiver_set_done']),
        dict(name='tki_cleanup', harness='h_tki_cleanup', enforce='tki_op_cleanup'),
        dict(name='tki_get_token', harness='h_tki_get_token', enforce='tki_op_get_token'),
        dict(name='tk_receiver_cleanup', harness='h_tkr_cleanup', enforce='tk_receiver_cleanup', replace=['tk_op_cleanup', 'tki_op_cleanup']),
        dict(name='tk_set_value', harness='h_tkr_set_value', enforce='tk_receiver_set_value', replace=['tk_receiver_cleanup']),
        dict(name='tk_set_error', harness='h_tkr_set_error', enforce='tk_receiver_set_error', replace=['tk_receiver_cleanup']),
        dict(name='tk_set_done', harness='h_tkr_set_done', enforce='tk_receiver_set_done', replace=['tk_receiver_cleanup']),
        dict(name='tk_child_token', harness='h_tkr_child_token', enforce='tk_receiver_get_stop_token'),
        # the interposed source is a member of the operation: it must outlive its own request_stop().  FAILS on the unchanged tree
        # (inner operation completing with done from inside the forwarded stop request; probes/native/let_value_with_stop_source_request_stop_uaf.cpp)
        dict(name='fused_callback_source_outlives_request_stop', harness='h_fss_callback', enforce='fss_stop_callback_call',
             replace=['ss_receiver_set_done', 'tk_receiver_set_done'], defines=['VF_PIN_CHECK']),
        dict(name='lemma_order', harness='lemma_order', mode='lemma'),
        dict(name='lemma_tokens', harness='lemma_tokens', mode='lemma'),
    ],
    assumptions=[
        'construction of the stop callback(s) on the receiver\'s token does not throw (start() is noexcept: a throwing callback constructor would terminate); with inplace_stop_token it is noexcept',
        'the inner operation completes exactly once and not before it has been started (C01 for the child); it signals through exactly one of the inner receiver\'s set_value/set_error/set_done',
        'the stop callback is invoked at most once per registration, and callbacks_.reset() returns only after a concurrent invocation on another thread has returned (C03, group stop_token); an invocation on the completing thread itself is the only one that can overlap the completion',
        'inplace_stop_source::request_stop() of the interposed source is an event stub (group stop_token): the inner operation\'s callbacks run inside it and may complete the inner operation synchronously',
        'the receiver may destroy the operation (with the interposed source) as soon as it has been completed',
        'FINDING (not repaired): the forwarding callback calls stopSource_.request_stop() on the interposed source without pinning the operation; a child that completes with done from inside that call lets the receiver destroy the source while its request_stop() is still running (heap-use-after-free, probes/native/let_value_with_stop_source_request_stop_uaf.cpp). The obligation is unit fused_callback_source_outlives_request_stop, tier=thorough only',
        'tokens are identified by the source they belong to (TOK_PARENT / TOK_SOURCE / TOK_NEVER); the successor factory / inner sender connect is template code and is not reached; an exception from connect_inner_op in the constructor happens before anything is registered',
    ],
    drops=['template genericity (SuccessorFactory, Receiver, StopTokens...: one parent token)', 'payload arguments of the completion signals',
           'fused_stop_callback<...> constructor chain -> EV_cb_emplace (may run the forwarding callback inline if the parent token is already stopped)',
           'std::optional<fused_callback_type>::reset -> EV_cb_reset', 'unifex::start(innerOp_) -> EV_start_inner (the child may complete synchronously)',
           'which _stop_token_operation specialisation is instantiated: both verified (symbolic VF_CFG_inplace / VF_CFG_never)'],
)
