/* C04: let_value_with_stop_source / let_value_with_stop_token (+ fused_stop_source): algorithms that interpose their own
 * stop source must still chain the parent's request, and must deregister from the parent's token before completing.
 *
 * Event-order contracts (no atomic word lives in these files: the source's own protocol is C03, group stop_token):
 *   start():            register the forwarding callback on the receiver's token, THEN start the child (a stop request in
 *                       between is not lost; a request that was already there reaches the source before the child starts)
 *   forwarding callback: exactly one request_stop() on the interposed source
 *   inner receiver:     deregister (callbacks_.reset()) BEFORE completing the outer receiver, exactly once; nothing is touched
 *                       after the completion (the receiver may destroy the operation)
 *   child token:        the child sees the interposed source's token (or, in the inplace/never specialisation of
 *                       let_value_with_stop_token, the receiver's own token)
 * Bodies marked @BODY / @EXPR are extracted from /repo on every run; everything else is specification. */
#include <stddef.h>
#include <stdint.h>

enum { TOK_NONE, TOK_PARENT, TOK_SOURCE, TOK_NEVER };             /* a stop token is identified by the source it belongs to */
enum { CB_NONE, CB_REGISTERED, CB_EXEC_ME, CB_DESTRUCTED };       /* the forwarding callback's registration on the receiver's token */
enum { K_NONE, K_value, K_error, K_done };
enum { V_SS, V_TK, V_TKI };                                      /* which operation the unit is about */

struct fused_stop_source { _Bool engaged; /* callbacks_.has_value() */ };
struct fss_stop_callback { struct fused_stop_source* source_; };
struct ss_op { struct fused_stop_source stopSource_; int receiverToken_; };
struct ss_receiver { struct ss_op* op_; };
struct tk_op { int receiverToken_; struct fused_stop_source stopSource_; };
struct tki_op { int unused_; };
struct tk_receiver { void* op_; int stop_token_; };

struct vf_ghost {
  int variant;
  int cb_state; unsigned cb_constructs, cb_destructs; int cb_token; _Bool inline_cb;
  unsigned inner_starts; _Bool inner_started;
  unsigned stop_forwarded;                 /* request_stop() calls on the interposed source */
  unsigned in_request_stop;                /* frames of the interposed source's request_stop() on this thread's stack */
  unsigned completed; int channel; _Bool sync_completion;
  _Bool dead; struct ss_op snap_ss; struct tk_op snap_tk;
};
static struct vf_ghost G;
static struct ss_op SS;
static struct tk_op TK;
static struct tki_op TKI;
static struct ss_receiver SRCV;
static struct tk_receiver TRCV;
static struct fss_stop_callback CB;
static _Bool VF_CFG_inplace, VF_CFG_never;   /* stop_token_type_t<Receiver> is inplace_stop_token / can never be stopped */

#include "vf.h"
/* receiverToken_.stop_requested(): the parent's token may have fired at any time (not consulted by the pinned completion paths) */
static _Bool EV_parent_stop_requested(void) { return VF_nondet_bool() ? 1 : 0; }
static void vf_interfere(void) {}
static _Bool vf_nb(void) { return VF_nondet_bool() ? 1 : 0; }

#define B_IFF(a, b) (((a) != 0) == ((b) != 0))
#define DEAD_MSG "no access to the operation after the receiver was completed (it may have destroyed the operation)"
static void vf_die(void) {
  struct ss_op a; a.stopSource_.engaged = vf_nb(); a.receiverToken_ = VF_nondet_int();
  struct tk_op b; b.stopSource_.engaged = vf_nb(); b.receiverToken_ = VF_nondet_int();
  SS = a; TK = b; G.snap_ss = a; G.snap_tk = b; G.dead = 1;
}
#define UNTOUCHED (!G.dead || (SS.stopSource_.engaged == G.snap_ss.stopSource_.engaged && SS.receiverToken_ == G.snap_ss.receiverToken_ \
   && TK.stopSource_.engaged == G.snap_tk.stopSource_.engaged && TK.receiverToken_ == G.snap_tk.receiverToken_))
#define THE_SOURCE (G.variant == V_SS ? &SS.stopSource_ : &TK.stopSource_)

/* ---------------- functions under contract (declarations for the stubs) ---------------- */
void fss_stop_callback_call(struct fss_stop_callback* self);
void ss_receiver_set_value(struct ss_receiver* self);
void ss_receiver_set_error(struct ss_receiver* self);
void ss_receiver_set_done(struct ss_receiver* self);
void tk_receiver_set_value(struct tk_receiver* self);
void tk_receiver_set_error(struct tk_receiver* self);
void tk_receiver_set_done(struct tk_receiver* self);
void tk_op_cleanup(struct tk_op* self);
void tki_op_cleanup(struct tki_op* self);

/* ---------------- event stubs ---------------- */
/* callbacks_.emplace(*this, tokens...): registers the forwarding callback on the receiver's token; if that token is already
 * stopped the callback runs inline, on this thread, inside the constructor */
static void EV_cb_emplace(struct fused_stop_source* self, int token) {
  VF_P(!G.dead, "callbacks_.emplace: " DEAD_MSG);
  VF_P(G.cb_state == CB_NONE && !self->engaged, "the forwarding callback is registered at most once");
  VF_P(G.completed == 0, "no registration on the receiver's token after the receiver was completed");
  VF_P(!G.inner_started, "C04: the parent's stop request is chained BEFORE the child is started (a request in between must not be lost)");
  VF_P(token == TOK_PARENT, "C04: the forwarding callback is registered on the RECEIVER's token");
  G.cb_constructs++; G.cb_state = CB_REGISTERED; G.cb_token = token; self->engaged = 1;
  if (VF_nondet_bool()) {
    VF_CANARY("forwarding callback can run inline inside register_callbacks");
    G.inline_cb = 1; G.cb_state = CB_EXEC_ME;
    fss_stop_callback_call(&CB);
    if (G.cb_state == CB_EXEC_ME) G.cb_state = CB_REGISTERED;
  }
}
/* callbacks_.reset(): destroys the registration (waits for an invocation running on another thread) */
static void EV_cb_reset(struct fused_stop_source* self) {
  VF_P(!G.dead, "callbacks_.reset(): " DEAD_MSG);
  if (!self->engaged) return;                       /* std::optional::reset() on a disengaged optional does nothing */
  VF_P(G.completed == 0, "C04: the forwarding callback is deregistered BEFORE the receiver is completed");
  VF_P(G.cb_state == CB_REGISTERED || G.cb_state == CB_EXEC_ME, "the forwarding callback is destroyed exactly once, after it was registered");
  G.cb_state = CB_DESTRUCTED; G.cb_destructs++; self->engaged = 0;
}
/* source_.request_stop() on the interposed source: the child's stop callbacks run inside; the child may complete (with done)
 * synchronously, the inner receiver then completes the outer receiver, which may destroy the operation -- and the source */
static void EV_source_request_stop(struct fused_stop_source* source) {
  VF_P(!G.dead, "stopSource_.request_stop(): " DEAD_MSG);
  VF_P(source == THE_SOURCE, "C04: the parent's request is forwarded to the interposed source (the one whose token the child holds)");
  G.stop_forwarded++;
  G.in_request_stop++;
  if (G.inner_started && G.completed == 0 && VF_nondet_bool()) {
    VF_CANARY("the child can complete with done from inside the forwarded stop request");
    if (G.variant == V_SS) ss_receiver_set_done(&SRCV); else tk_receiver_set_done(&TRCV);
  }
  G.in_request_stop--;
#ifdef VF_PIN_CHECK
  /* inplace_stop_source::request_stop() re-locks the source after every callback it ran */
  VF_P(!G.dead, "C02/C04: the interposed stop source (a member of the operation) is not destroyed while its own request_stop() is still executing");
#endif
}
/* unifex::start(innerOp_): the child may complete synchronously; in any case it may complete (on another thread) and the
 * receiver may destroy the operation before this returns */
static void EV_start_inner(void* self) {
  VF_P(!G.dead, "start(innerOp_): " DEAD_MSG);
  VF_P(!G.inner_started, "the child is started once");
  VF_P(G.variant == V_TKI || G.cb_state == CB_REGISTERED, "C04: the forwarding callback is registered on the receiver's token before the child is started");
  VF_P(!G.inline_cb || G.stop_forwarded >= 1, "C04: a stop request that was already pending at start() has reached the interposed source before the child is started (the child starts already-stopped)");
  G.inner_started = 1; G.inner_starts++;
  if (VF_nondet_bool()) {
    G.sync_completion = 1;
    int k = VF_nondet_int();
    if (G.variant == V_SS) { if (k == K_value) ss_receiver_set_value(&SRCV); else if (k == K_error) ss_receiver_set_error(&SRCV); else ss_receiver_set_done(&SRCV); }
    else { if (k == K_value) tk_receiver_set_value(&TRCV); else if (k == K_error) tk_receiver_set_error(&TRCV); else tk_receiver_set_done(&TRCV); }
  }
  vf_die();
}
static void vf_complete(int ch) {
  VF_P(G.completed == 0, "C01: at most one completion signal");
  VF_P(!G.dead, "completion signal: " DEAD_MSG);
  VF_P(G.inner_started, "C01: nothing is delivered before the child was started");
  VF_P(G.cb_state == CB_DESTRUCTED || (G.variant == V_TKI && G.cb_state == CB_NONE), "C04: the forwarding callback is deregistered from the receiver's token when the receiver is completed");
  G.completed++; G.channel = ch;
  vf_die();
}
static void EV_set_value(void* self) { vf_complete(K_value); }
static void EV_set_error(void* self) { vf_complete(K_error); }
static void EV_set_done(void* self) { vf_complete(K_done); }
/* tk_receiver::cleanup(): op_->cleanup() on whichever operation the receiver belongs to */
static void tk_dispatch_cleanup(void* op) {
  VF_P((G.variant == V_TK && op == (void*)&TK) || (G.variant == V_TKI && op == (void*)&TKI), "the inner receiver cleans up its own operation");
  if (G.variant == V_TK) tk_op_cleanup(&TK); else tki_op_cleanup(&TKI);
}

/* ---------------- contracts ---------------- */
#define A_CB G.stop_forwarded, G.in_request_stop, A_COMPLETE
#define A_COMPLETE SS, TK, G.cb_state, G.cb_destructs, G.completed, G.channel, G.dead, G.snap_ss, G.snap_tk
#define A_REGISTER G.cb_constructs, G.cb_token, G.inline_cb, A_CB
#define SRC_OK(self) ((G.variant == V_SS || G.variant == V_TK) && (self) == THE_SOURCE && CB.source_ == THE_SOURCE)
#define RCVS_OK (SRCV.op_ == &SS && (G.variant != V_TK || TRCV.op_ == (void*)&TK))
#define OPS_UNCHANGED (SS.stopSource_.engaged == __CPROVER_old(SS.stopSource_.engaged) && SS.receiverToken_ == __CPROVER_old(SS.receiverToken_) && TK.stopSource_.engaged == __CPROVER_old(TK.stopSource_.engaged) && TK.receiverToken_ == __CPROVER_old(TK.receiverToken_))
#define FRESH (!G.dead && G.completed == 0 && G.cb_destructs == 0 && G.in_request_stop == 0)

/* _fss::stop_callback::operator(): { source_.request_stop(); } */
void fss_stop_callback_call(struct fss_stop_callback* self)
__CPROVER_requires(self == &CB && SRC_OK(CB.source_) && RCVS_OK && FRESH && G.cb_state == CB_EXEC_ME && G.stop_forwarded == 0 && THE_SOURCE->engaged)
__CPROVER_assigns(A_CB)
__CPROVER_ensures(G.stop_forwarded == 1 && G.in_request_stop == 0) /* C04: the parent's request is chained: exactly one request_stop() on the interposed source */
__CPROVER_ensures(G.completed <= 1 && B_IFF(G.dead, G.completed == 1) && UNTOUCHED) /* the child may complete inside; nothing is touched afterwards */
__CPROVER_ensures(G.completed == 0 ==> (G.cb_state == CB_EXEC_ME && G.cb_destructs == 0 && OPS_UNCHANGED))
__CPROVER_ensures(!G.inner_started ==> G.completed == 0) /* before the child is started nothing can complete */
/*@BODY fss_callback*/

/* fused_stop_source::register_callbacks(tokens...) */
void fused_register_callbacks(struct fused_stop_source* self, int tokens)
__CPROVER_requires(SRC_OK(self) && RCVS_OK && FRESH && G.cb_state == CB_NONE && G.cb_constructs == 0 && !self->engaged && !G.inner_started && !G.inline_cb && G.stop_forwarded == 0 && tokens == TOK_PARENT)
__CPROVER_assigns(A_REGISTER)
__CPROVER_ensures(G.cb_constructs == 1 && G.cb_state == CB_REGISTERED && G.cb_token == TOK_PARENT && self->engaged) /* registered on the receiver's token */
__CPROVER_ensures(G.stop_forwarded == (G.inline_cb ? 1u : 0u) && G.in_request_stop == 0) /* an already pending request has been forwarded, once */
__CPROVER_ensures(G.completed == 0 && !G.dead && G.cb_destructs == 0)
/*@BODY fss_register*/

/* fused_stop_source::deregister_callbacks() */
void fused_deregister_callbacks(struct fused_stop_source* self)
__CPROVER_requires(SRC_OK(self) && !G.dead && B_IFF(self->engaged, G.cb_state == CB_REGISTERED || G.cb_state == CB_EXEC_ME) && (self->engaged ==> G.completed == 0))
__CPROVER_assigns(SS, TK, G.cb_state, G.cb_destructs)
__CPROVER_ensures(!self->engaged && G.cb_destructs == __CPROVER_old(G.cb_destructs) + (__CPROVER_old(THE_SOURCE->engaged) ? 1u : 0u)) /* the registration is destroyed iff there was one (reset() of an empty optional is a no-op) */
__CPROVER_ensures(G.cb_state == (__CPROVER_old(THE_SOURCE->engaged) ? CB_DESTRUCTED : __CPROVER_old(G.cb_state)))
/*@BODY fss_deregister*/

/* start(): register, then start the child */
#define START_PRE(v) (G.variant == (v) && FRESH && G.cb_state == CB_NONE && G.cb_constructs == 0 && !G.inner_started && G.inner_starts == 0 && !G.inline_cb && G.stop_forwarded == 0 && !G.sync_completion)
#define START_POST (G.inner_starts == 1 && G.inner_started && G.dead && UNTOUCHED \
   && G.completed <= 1 && (G.completed == 1 ==> G.sync_completion)   /* C01: start() itself delivers nothing: a completion during start() is the child's own */ \
   && (G.inline_cb ==> G.stop_forwarded == 1))
void ss_op_start(struct ss_op* self)
__CPROVER_requires(self == &SS && START_PRE(V_SS) && SRC_OK(&SS.stopSource_) && !SS.stopSource_.engaged && SS.receiverToken_ == TOK_PARENT && SRCV.op_ == &SS)
__CPROVER_assigns(A_REGISTER, G.inner_starts, G.inner_started, G.sync_completion)
__CPROVER_ensures(START_POST)
__CPROVER_ensures(G.cb_constructs == 1 && G.cb_token == TOK_PARENT) /* C04: the interposed source is chained to the receiver's token */
__CPROVER_ensures(G.completed == 0 ==> (G.cb_destructs == 0)) /* ... and stays chained until the child completes */
/*@BODY ss_start*/

void tk_op_start(struct tk_op* self)
__CPROVER_requires(self == &TK && START_PRE(V_TK) && SRC_OK(&TK.stopSource_) && !TK.stopSource_.engaged && TK.receiverToken_ == TOK_PARENT && TRCV.op_ == (void*)&TK && SRCV.op_ == &SS)
__CPROVER_assigns(A_REGISTER, G.inner_starts, G.inner_started, G.sync_completion)
__CPROVER_ensures(START_POST)
__CPROVER_ensures(G.cb_constructs == 1 && G.cb_token == TOK_PARENT)
__CPROVER_ensures(G.completed == 0 ==> (G.cb_destructs == 0))
/*@BODY tk_start*/

void tki_op_start(struct tki_op* self)
__CPROVER_requires(self == &TKI && START_PRE(V_TKI) && TRCV.op_ == (void*)&TKI)
__CPROVER_assigns(A_COMPLETE, G.inner_starts, G.inner_started, G.sync_completion)
__CPROVER_ensures(START_POST && G.cb_constructs == 0 && G.cb_state == __CPROVER_old(G.cb_state)) /* nothing interposed: the child holds the receiver's own token */
/*@BODY tki_start*/

/* the inner receivers: deregister, then complete */
#define RCV_PRE (!G.dead && G.completed == 0 && G.cb_destructs == 0 && G.inner_started \
   && (G.cb_state == CB_REGISTERED || G.cb_state == CB_EXEC_ME) && THE_SOURCE->engaged)
#define RCV_POST(kind) (G.completed == 1 && G.channel == (kind) && G.cb_state == CB_DESTRUCTED && G.cb_destructs == 1 && G.dead && UNTOUCHED)
#define SS_RCV_PRE (self == &SRCV && SRCV.op_ == &SS && G.variant == V_SS && CB.source_ == &SS.stopSource_ && RCV_PRE)
void ss_receiver_set_value(struct ss_receiver* self)
__CPROVER_requires(SS_RCV_PRE)
__CPROVER_assigns(A_COMPLETE)
__CPROVER_ensures(RCV_POST(K_value))
/*@BODY ss_set_value*/

void ss_receiver_set_error(struct ss_receiver* self)
__CPROVER_requires(SS_RCV_PRE)
__CPROVER_assigns(A_COMPLETE)
__CPROVER_ensures(RCV_POST(K_error))
/*@BODY ss_set_error*/

void ss_receiver_set_done(struct ss_receiver* self)
__CPROVER_requires(SS_RCV_PRE)
__CPROVER_assigns(A_COMPLETE)
__CPROVER_ensures(RCV_POST(K_done))
/*@BODY ss_set_done*/

int ss_receiver_get_stop_token(const struct ss_receiver* r)
__CPROVER_requires(r == &SRCV)
__CPROVER_assigns()
__CPROVER_ensures(__CPROVER_return_value == TOK_SOURCE) /* C04: the child is given the interposed source's token */
/*@BODY ss_child_token*/

/* let_value_with_stop_token: generic operation */
void tk_op_cleanup(struct tk_op* self)
__CPROVER_requires(self == &TK && G.variant == V_TK && CB.source_ == &TK.stopSource_ && RCV_PRE)
__CPROVER_assigns(SS, TK, G.cb_state, G.cb_destructs)
__CPROVER_ensures(G.cb_state == CB_DESTRUCTED && G.cb_destructs == 1 && !TK.stopSource_.engaged)
/*@BODY tk_cleanup*/

/* ... specialisation without an interposed source: nothing to deregister */
void tki_op_cleanup(struct tki_op* self)
__CPROVER_requires(self == &TKI && G.variant == V_TKI && G.cb_state == CB_NONE)
__CPROVER_assigns()
__CPROVER_ensures(G.cb_state == CB_NONE)
/*@BODY tki_cleanup*/

int tki_op_get_token(struct tki_op* self)
__CPROVER_requires(self == &TKI)
__CPROVER_assigns()
__CPROVER_ensures(__CPROVER_return_value == (VF_CFG_inplace ? TOK_PARENT : TOK_NEVER)) /* the receiver's own token if it is an inplace_stop_token, else a never-stopping one */
/*@BODY tki_get_token*/

#define TK_RCV_PRE (self == &TRCV && !G.dead && G.completed == 0 && G.cb_destructs == 0 && G.inner_started \
   && ((G.variant == V_TK && TRCV.op_ == (void*)&TK && CB.source_ == &TK.stopSource_ && (G.cb_state == CB_REGISTERED || G.cb_state == CB_EXEC_ME) && TK.stopSource_.engaged) \
    || (G.variant == V_TKI && TRCV.op_ == (void*)&TKI && G.cb_state == CB_NONE)))
#define TK_RCV_POST(kind) (G.completed == 1 && G.channel == (kind) && G.dead && UNTOUCHED \
   && (G.variant == V_TK ? (G.cb_state == CB_DESTRUCTED && G.cb_destructs == 1) : (G.cb_state == CB_NONE && G.cb_destructs == 0)))
void tk_receiver_cleanup(struct tk_receiver* self)
__CPROVER_requires(TK_RCV_PRE)
__CPROVER_assigns(SS, TK, G.cb_state, G.cb_destructs)
__CPROVER_ensures(!G.dead && G.completed == 0 && (G.variant == V_TK ? (G.cb_state == CB_DESTRUCTED && G.cb_destructs == 1) : (G.cb_state == CB_NONE && G.cb_destructs == 0)))
/*@BODY tkr_cleanup*/

void tk_receiver_set_value(struct tk_receiver* self)
__CPROVER_requires(TK_RCV_PRE)
__CPROVER_assigns(A_COMPLETE)
__CPROVER_ensures(TK_RCV_POST(K_value))
/*@BODY tkr_set_value*/

void tk_receiver_set_error(struct tk_receiver* self)
__CPROVER_requires(TK_RCV_PRE)
__CPROVER_assigns(A_COMPLETE)
__CPROVER_ensures(TK_RCV_POST(K_error))
/*@BODY tkr_set_error*/

void tk_receiver_set_done(struct tk_receiver* self)
__CPROVER_requires(TK_RCV_PRE)
__CPROVER_assigns(A_COMPLETE)
__CPROVER_ensures(TK_RCV_POST(K_done))
/*@BODY tkr_set_done*/

int tk_receiver_get_stop_token(const struct tk_receiver* r)
__CPROVER_requires(r == &TRCV)
__CPROVER_assigns()
__CPROVER_ensures(__CPROVER_return_value == TRCV.stop_token_) /* the token the operation's constructor handed to the inner receiver (lemma_tokens) */
/*@BODY tkr_child_token*/

/* ---------------- harnesses ---------------- */
static void h_havoc(void) {
  G.variant = VF_nondet_int();
  G.cb_state = VF_nondet_int(); G.cb_constructs = VF_nondet_u32(); G.cb_destructs = VF_nondet_u32(); G.cb_token = VF_nondet_int(); G.inline_cb = vf_nb();
  G.inner_starts = VF_nondet_u32(); G.inner_started = vf_nb(); G.stop_forwarded = VF_nondet_u32(); G.in_request_stop = VF_nondet_u32();
  G.completed = VF_nondet_u32(); G.channel = K_NONE; G.sync_completion = vf_nb();
  G.dead = vf_nb();
  SS.stopSource_.engaged = vf_nb(); SS.receiverToken_ = VF_nondet_int(); TK.stopSource_.engaged = vf_nb(); TK.receiverToken_ = VF_nondet_int();
  G.snap_ss = SS; G.snap_tk = TK;
  VF_CFG_inplace = vf_nb(); VF_CFG_never = vf_nb();
  SRCV.op_ = &SS;
  TRCV.op_ = VF_nondet_bool() ? (void*)&TK : (void*)&TKI; TRCV.stop_token_ = VF_nondet_int();
  CB.source_ = VF_nondet_bool() ? &SS.stopSource_ : &TK.stopSource_;
}
void h_fss_callback(void) {
  h_havoc(); fss_stop_callback_call(&CB);
  VF_CANARY("after the forwarding callback");
  if (G.completed) { VF_CANARY("the child can complete inside the forwarded request"); } else { VF_CANARY("the child can keep running"); }
  if (G.variant == V_TK) { VF_CANARY("callback of let_value_with_stop_token's source"); }
}
void h_fss_register(void) { h_havoc(); fused_register_callbacks(THE_SOURCE, TOK_PARENT); VF_CANARY("after register_callbacks"); if (G.inline_cb) { VF_CANARY("registered on an already stopped token"); } }
void h_fss_deregister(void) { h_havoc(); fused_deregister_callbacks(THE_SOURCE); VF_CANARY("after deregister_callbacks"); if (G.cb_state == CB_DESTRUCTED && G.in_request_stop) { VF_CANARY("deregistered from inside the forwarded request"); } }
void h_ss_start(void) {
  h_havoc(); ss_op_start(&SS);
  VF_CANARY("after let_value_with_stop_source start");
  if (G.completed) { VF_CANARY("the child can complete synchronously in start"); }
  if (G.inline_cb) { VF_CANARY("start with the receiver's token already stopped"); }
}
void h_ss_set_value(void) { h_havoc(); ss_receiver_set_value(&SRCV); VF_CANARY("after inner set_value (stop_source)"); }
void h_ss_set_error(void) { h_havoc(); ss_receiver_set_error(&SRCV); VF_CANARY("after inner set_error (stop_source)"); }
void h_ss_set_done(void) { h_havoc(); ss_receiver_set_done(&SRCV); VF_CANARY("after inner set_done (stop_source)"); if (G.in_request_stop) { VF_CANARY("done from inside the forwarded request"); } }
void h_ss_child_token(void) { h_havoc(); int t = ss_receiver_get_stop_token(&SRCV); VF_CANARY("after get_stop_token (stop_source receiver)"); }
void h_tk_start(void) {
  h_havoc(); tk_op_start(&TK);
  VF_CANARY("after let_value_with_stop_token start (generic)");
  if (G.completed) { VF_CANARY("the child can complete synchronously in start (generic)"); }
  if (G.inline_cb) { VF_CANARY("start with the receiver's token already stopped (generic)"); }
}
void h_tk_cleanup(void) { h_havoc(); tk_op_cleanup(&TK); VF_CANARY("after cleanup (generic)"); }
void h_tki_start(void) { h_havoc(); tki_op_start(&TKI); VF_CANARY("after let_value_with_stop_token start (inplace)"); if (G.completed) { VF_CANARY("the child can complete synchronously in start (inplace)"); } }
void h_tki_cleanup(void) { h_havoc(); tki_op_cleanup(&TKI); VF_CANARY("after cleanup (inplace)"); }
void h_tki_get_token(void) { h_havoc(); int t = tki_op_get_token(&TKI); VF_CANARY("after get_token"); if (t == TOK_PARENT) { VF_CANARY("inplace receiver token"); } else { VF_CANARY("never-stopping receiver"); } }
void h_tkr_cleanup(void) { h_havoc(); tk_receiver_cleanup(&TRCV); VF_CANARY("after receiver cleanup"); if (G.variant == V_TK) { VF_CANARY("cleanup of the generic operation"); } else { VF_CANARY("cleanup of the inplace operation"); } }
void h_tkr_set_value(void) { h_havoc(); tk_receiver_set_value(&TRCV); VF_CANARY("after inner set_value (stop_token)"); if (G.variant == V_TKI) { VF_CANARY("set_value, inplace operation"); } }
void h_tkr_set_error(void) { h_havoc(); tk_receiver_set_error(&TRCV); VF_CANARY("after inner set_error (stop_token)"); }
void h_tkr_set_done(void) { h_havoc(); tk_receiver_set_done(&TRCV); VF_CANARY("after inner set_done (stop_token)"); if (G.variant == V_TK) { VF_CANARY("set_done, generic operation"); } }
void h_tkr_child_token(void) { h_havoc(); int t = tk_receiver_get_stop_token(&TRCV); VF_CANARY("after get_stop_token (stop_token receiver)"); }

/* ---------------- lemmas over the contracts' predicates ---------------- */
/* the event automaton the contracts describe: (cb_state, started, completed); steps = the contracts' pre/post pairs */
struct ast { int cb; _Bool started; unsigned completed; };
#define A_INV(s, interposed) ((s).completed <= 1 && ((s).completed == 1 ==> ((s).started && ((interposed) ? (s).cb == CB_DESTRUCTED : (s).cb == CB_NONE))) \
   && (!(interposed) ==> (s).cb == CB_NONE) && ((s).started && (interposed) ==> (s).cb != CB_NONE) && ((s).cb == CB_DESTRUCTED ==> (s).completed == 1))
#define A_STEP_START(o, n, interposed) (!(o).started && (o).cb == CB_NONE && (o).completed == 0 && (n).started && (n).completed == 0 && (n).cb == ((interposed) ? CB_REGISTERED : CB_NONE))
#define A_STEP_CB_ENTER(o, n) ((o).cb == CB_REGISTERED && (n).cb == CB_EXEC_ME && (n).started == (o).started && (n).completed == (o).completed)
#define A_STEP_CB_EXIT(o, n) ((o).cb == CB_EXEC_ME && (n).cb == CB_REGISTERED && (n).started == (o).started && (n).completed == (o).completed)
#define A_STEP_COMPLETE(o, n, interposed) ((o).started && (o).completed == 0 && ((interposed) ? ((o).cb == CB_REGISTERED || (o).cb == CB_EXEC_ME) : (o).cb == CB_NONE) \
   && (n).completed == 1 && (n).started && (n).cb == ((interposed) ? CB_DESTRUCTED : CB_NONE))
void lemma_order(void) {
  struct ast o, n; _Bool interposed = vf_nb(); int step = VF_nondet_int();
  o.cb = VF_nondet_int(); o.started = vf_nb(); o.completed = VF_nondet_u32(); n.cb = VF_nondet_int(); n.started = vf_nb(); n.completed = VF_nondet_u32();
  struct ast i0; i0.cb = CB_NONE; i0.started = 0; i0.completed = 0;
  VF_P(A_INV(i0, interposed), "lemma: a freshly constructed operation satisfies the order invariant");
  __CPROVER_assume(step >= 0 && step <= 3 && A_INV(o, interposed));
  __CPROVER_assume(step == 0 ? A_STEP_START(o, n, interposed) : step == 1 ? A_STEP_CB_ENTER(o, n) : step == 2 ? A_STEP_CB_EXIT(o, n) : A_STEP_COMPLETE(o, n, interposed));
  VF_CANARY("lemma_order premises satisfiable");
  if (step == 3 && o.cb == CB_EXEC_ME) { VF_CANARY("completion from inside the forwarding callback is a step"); }
  VF_P(A_INV(n, interposed), "lemma: the order invariant is inductive for start / callback enter / callback exit / child completion");
  VF_P(n.completed == 1 ==> (n.cb != CB_REGISTERED && n.cb != CB_EXEC_ME), "lemma (C04): whenever the receiver has been completed no forwarding callback is registered on its token");
  VF_P(o.completed == 1 ==> 0, "lemma (C01): no step is enabled after the completion (exactly one completion; nothing registered again)");
}
/* the tokens the constructors hand to the child and register on (extracted member initialisers) */
void lemma_tokens(void) {
  VF_CFG_inplace = vf_nb(); VF_CFG_never = vf_nb();
  VF_CANARY("lemma_tokens reachable");
  VF_P((/*@EXPR ss_decl_order*/) == 1 && (/*@EXPR tk_decl_order*/) == 1, "the interposed source is declared before the inner operation that captures its token");
  VF_P((/*@EXPR ss_parent_token*/) == TOK_PARENT && (/*@EXPR tk_parent_token*/) == TOK_PARENT, "lemma (C04): receiverToken_, the token the forwarding callback is registered on, is the RECEIVER's token");
  VF_P((/*@EXPR tk_child_token*/) == TOK_SOURCE, "lemma (C04): let_value_with_stop_token (generic) hands the child the interposed source's token");
  __CPROVER_assume(/*@EXPR tki_selected_when*/);    /* the specialisation is instantiated only under its enable_if condition */
  int t = /*@EXPR tki_child_token*/;
  VF_P(VF_CFG_inplace ? t == TOK_PARENT : (t == TOK_NEVER && VF_CFG_never), "lemma (C04): the specialisation without an interposed source hands the child the receiver's own token; a never-stopping token only when the receiver can never be stopped");
}
