#include <stdint.h>
#include <stdlib.h>
struct op { long a; long b; };
int main(void) {
  struct op* p = malloc(sizeof(struct op));
  __CPROVER_assume(p != 0);
  uintptr_t v = (uintptr_t)p | (uintptr_t)1;
  uintptr_t rc = v & (uintptr_t)3;
  struct op* q = (struct op*)(v & ~(uintptr_t)3);
  __CPROVER_assert(rc == 1, "refcount bits");
  __CPROVER_assert(q == p, "pointer recovered");
  q->a = 5;
  v -= 1;
  __CPROVER_assert((struct op*)v == p, "after sub");
  uintptr_t w = 2u; /* pointer zeroed, refcount 2 */
  __CPROVER_assert((struct op*)(w & ~(uintptr_t)3) == 0, "null");
  return 0;
}
