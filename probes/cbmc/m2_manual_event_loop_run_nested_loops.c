/* Hand-made stand-in for what the extractor would generate for
   source/manual_event_loop.cpp  context::run()  (nested pointer-state loops, return inside the inner loop). */
#include <stddef.h>
#include <stdbool.h>
_Bool VF_nondet_bool(void) { _Bool v; return v; }
struct task_base { struct task_base* next_; };
struct context { struct task_base* head_; struct task_base* tail_; _Bool stop_; };
struct context* g_self;
char g_opaque;
#define OPAQUE ((struct task_base*)&g_opaque)
struct G_ { _Bool held; struct task_base w0, w1; unsigned exec0; _Bool stop_seen; } G;
/* monitor invariant (window form): queue is empty (head==tail==NULL) or head==&w0 and tail consistent */
#define LI_X ( (g_self->head_ == NULL && g_self->tail_ == NULL) || \
               (g_self->head_ == &G.w0 && ((G.w0.next_ == NULL && g_self->tail_ == &G.w0) || \
                                          (G.w0.next_ == &G.w1 && (G.w1.next_ == NULL ? g_self->tail_ == &G.w1 : (g_self->tail_ != NULL && g_self->tail_ != &G.w0))))) )
static void window_build(void) {           /* what other threads may have left behind, any shape LI allows */
  _Bool old_stop = g_self->stop_;
  g_self->stop_ = old_stop ? 1 : VF_nondet_bool();                /* stop_ is monotone */
  if (VF_nondet_bool()) { g_self->head_ = NULL; g_self->tail_ = NULL; }
  else { g_self->head_ = &G.w0;
         if (VF_nondet_bool()) { G.w0.next_ = NULL; g_self->tail_ = &G.w0; }
         else { G.w0.next_ = &G.w1;
                if (VF_nondet_bool()) { G.w1.next_ = NULL; g_self->tail_ = &G.w1; } else { G.w1.next_ = OPAQUE; g_self->tail_ = OPAQUE; } } }
  G.exec0 = 0;
}
static void VF_ACQUIRE(void) { __CPROVER_assert(!G.held, "acquire: not already held"); G.held = 1; window_build(); }
static void VF_RELEASE(void) { __CPROVER_assert(G.held, "release: held"); 
  /* after popping w0 the head is w1 (or the queue is empty) */
  __CPROVER_assert((g_self->head_ == NULL && g_self->tail_ == NULL) || (g_self->head_ == &G.w1 && g_self->tail_ != NULL), "monitor invariant restored at release");
  G.held = 0; }
static void VF_CV_WAIT(void) {
  __CPROVER_assert(G.held, "wait: lock held");
  __CPROVER_assert(g_self->head_ == NULL && !g_self->stop_, "blocks only while the queue is empty and stop was not requested (no lost wake-up)");
  G.held = 0; G.held = 1; window_build();   /* release; other threads run; re-acquire (spurious wake-ups included) */
}
static void EV_execute(struct task_base* t) {
  __CPROVER_assert(!G.held, "tasks run outside the lock");
  __CPROVER_assert(t == &G.w0 && G.exec0 == 0, "the dequeued head is executed, once");
  G.exec0++;
}
enum exitcode { FALLTHROUGH, RETURNED };
/* ---- inner loop #2: while (head_ == nullptr) { if (stop_) return; cv_.wait(lock); } ---- */
enum exitcode run__loop2_body(struct context* self)
__CPROVER_requires(self == g_self && G.held && LI_X && self->head_ == NULL)
__CPROVER_assigns(*self, G)
__CPROVER_ensures(__CPROVER_return_value == RETURNED ? (G.held && self->head_ == NULL && self->stop_) : (G.held && LI_X))
{
      if (self->stop_)
        return RETURNED;
      VF_CV_WAIT();
      return FALLTHROUGH;
}
static enum exitcode run__loop2(struct context* self) {   /* generated summary of loop #2 */
  __CPROVER_assert(G.held && LI_X, "loop2 invariant base");
  window_build();
  if (VF_nondet_bool()) { __CPROVER_assume(self->head_ == NULL && self->stop_); return RETURNED; }
  __CPROVER_assume(LI_X && !(self->head_ == NULL));
  return FALLTHROUGH;
}
/* ---- outer loop #1 body: everything inside while (true) { … } ---- */
enum exitcode run__loop1_body(struct context* self)
__CPROVER_requires(self == g_self && G.held && LI_X && G.exec0 == 0)
__CPROVER_assigns(*self, G)
__CPROVER_ensures(__CPROVER_return_value == RETURNED ? (G.held && self->head_ == NULL && self->stop_) : (G.held && LI_X && G.exec0 == 0))
{
    if (run__loop2(self) == RETURNED) return RETURNED;
    __auto_type task = self->head_;
    self->head_ = task->next_;
    if (self->head_ == NULL) {
      self->tail_ = NULL;
    }
    VF_RELEASE();
    EV_execute(task);
    VF_ACQUIRE();
    return FALLTHROUGH;
}
void h1(void) { struct context c; g_self = &c; c.stop_ = VF_nondet_bool(); G.held = 1; window_build(); run__loop1_body(&c); }
void h2(void) { struct context c; g_self = &c; c.stop_ = VF_nondet_bool(); G.held = 1; window_build(); __CPROVER_assume(c.head_ == NULL); run__loop2_body(&c); }
