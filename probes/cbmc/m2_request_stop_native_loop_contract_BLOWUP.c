#include <stddef.h>
#include <stdbool.h>
#include <stdint.h>
_Bool VF_nondet_bool(void) { _Bool v; return v; }
uint8_t VF_nondet_u8(void) { uint8_t v; return v; }
#define stop_requested_flag ((uint8_t)1)
#define locked_flag ((uint8_t)2)
struct inplace_stop_callback_base {
  struct inplace_stop_source* source_;
  struct inplace_stop_callback_base* next_;
  struct inplace_stop_callback_base** prevPtr_;
  _Bool* removedDuringCallback_;
  _Bool callbackCompleted_;
};
struct inplace_stop_source { uint8_t state_; struct inplace_stop_callback_base* callbacks_; int notifyingThreadId_; };

/* ---- ghost ---- */
struct inplace_stop_source* g_self;

int g_tid = 7;
/* window: W0 = possible head, W1 = possible second; beyond = opaque */
struct vfG { _Bool held; struct inplace_stop_callback_base w0, w1, snap0; unsigned exec0; _Bool exec_done0, dead0; } G;
#define g_held G.held
#define W0 G.w0
#define W1 G.w1
#define g_snap0 G.snap0
#define g_exec0 G.exec0
#define g_exec_done0 G.exec_done0
#define g_dead0 G.dead0
char g_opaque;                      /* address used as non-dereferenceable tail */
_Bool g_in_callback;

#define LI_X (g_self->callbacks_ == NULL || (g_self->callbacks_ == &W0 && W0.prevPtr_ == &g_self->callbacks_ && !W0.callbackCompleted_ && (W0.next_ == NULL || (W0.next_ == &W1 && W1.prevPtr_ == &W0.next_))))
static _Bool LI(void) {  /* local lock invariant over the window */
  struct inplace_stop_source* s = g_self;
  if (s->callbacks_ == NULL) return 1;
  if (s->callbacks_ != &W0) return 0;
  if (W0.prevPtr_ != &s->callbacks_) return 0;
  if (W0.callbackCompleted_) return 0;          /* registered => not yet executed */
  if (W0.next_ == NULL) return 1;
  if (W0.next_ != &W1) return 0;
  return W1.prevPtr_ == &W0.next_;
}
static void havoc_cb(struct inplace_stop_callback_base* c) {
  struct inplace_stop_callback_base f; /* nondet */
  *c = f;
}
/* acquiring the lock: environment has had arbitrary turns => fresh window */
static void window_havoc(void) {
  havoc_cb(&W0); havoc_cb(&W1);
  g_self->callbacks_ = VF_nondet_bool() ? &W0 : NULL;
  __CPROVER_assume(LI());
  __CPROVER_assume(W1.next_ == NULL || W1.next_ == (struct inplace_stop_callback_base*)&g_opaque);
  g_exec0 = 0; g_exec_done0 = 0; g_dead0 = 0;
}
#define VF_STORE(p, v, mo) vf_store_u8((p),(v))
static void vf_store_u8(uint8_t* p, uint8_t v) {
  if (p == &g_self->state_) {
    __CPROVER_assert(g_held, "G: state_ written only while holding the lock");
    __CPROVER_assert(v & stop_requested_flag, "G: stop flag never cleared here");
    if (!(v & locked_flag)) { /* release */
      __CPROVER_assert(LI(), "lock invariant restored at release");
      g_held = 0;
    }
    *p = v;
  } else {
    *p = v;
  }
}
static void vf_store_bool(_Bool* p, _Bool v) {
  if (p == &W0.callbackCompleted_) {
    __CPROVER_assert(g_exec_done0, "callbackCompleted_ only after execute returned");
    __CPROVER_assert(!g_dead0, "no write to a callback that removed itself");
  }
  *p = v;
}
#define VF_STORE_B(p, v, mo) vf_store_bool((p),(v))

/* callee contracts (replaced) */
bool inplace_stop_source_try_lock_unless_stop_requested(struct inplace_stop_source* self, bool setStopRequested)
__CPROVER_requires(self == g_self && !g_held)
__CPROVER_assigns(self->state_, self->callbacks_, G)
__CPROVER_ensures(__CPROVER_return_value == g_held)
__CPROVER_ensures(__CPROVER_return_value ==> (self->state_ == (setStopRequested ? (locked_flag|stop_requested_flag) : locked_flag) && LI() && g_exec0 == 0 && !g_exec_done0 && !g_dead0))
__CPROVER_ensures(__CPROVER_return_value ==> (W1.next_ == NULL || W1.next_ == (struct inplace_stop_callback_base*)&g_opaque))
;
uint8_t inplace_stop_source_lock(struct inplace_stop_source* self)
__CPROVER_requires(self == g_self && !g_held)
__CPROVER_assigns(self->state_, self->callbacks_, G)
__CPROVER_ensures(g_held && (self->state_ & locked_flag) && (__CPROVER_return_value | locked_flag) == self->state_ && !(__CPROVER_return_value & locked_flag))
__CPROVER_ensures((__CPROVER_old(self->state_) & stop_requested_flag) ==> (self->state_ & stop_requested_flag))
__CPROVER_ensures(LI() && g_exec0 == 0 && !g_exec_done0 && !g_dead0)
__CPROVER_ensures(W1.next_ == NULL || W1.next_ == (struct inplace_stop_callback_base*)&g_opaque)
;
/* the user's callback: runs unlocked, exactly once per pop, may remove itself */
void EV_execute(struct inplace_stop_callback_base* cb) {
  __CPROVER_assert(!g_held, "callbacks run outside the lock");
  __CPROVER_assert(cb == &W0, "only the popped head is executed");
  __CPROVER_assert(cb->prevPtr_ == NULL, "popped callback is marked dequeued before it runs");
  __CPROVER_assert(g_exec0 == 0, "executed at most once");
  g_exec0++;
  if (VF_nondet_bool()) {            /* callback destroys its own registration (same thread) */
    if (cb->removedDuringCallback_ != NULL) *cb->removedDuringCallback_ = 1;
    havoc_cb(cb); g_dead0 = 1; g_snap0 = *cb;
  }
  g_exec_done0 = 1;
}
int VF_this_thread_id(void) { return g_tid; }

bool inplace_stop_source_request_stop(struct inplace_stop_source* self)
__CPROVER_requires(self == g_self && !g_held)
__CPROVER_assigns(self->state_, self->callbacks_, self->notifyingThreadId_, G)
__CPROVER_ensures(!g_held)
__CPROVER_ensures(self->state_ & stop_requested_flag)
__CPROVER_ensures(!__CPROVER_return_value ==> (self->state_ == stop_requested_flag && self->callbacks_ == NULL))
{
  if (!inplace_stop_source_try_lock_unless_stop_requested(self, true)) {
    return true;
  }

  self->notifyingThreadId_ = VF_this_thread_id();

  while (self->callbacks_ != NULL)
  __CPROVER_assigns(self->state_, self->callbacks_, G)
  __CPROVER_loop_invariant(g_held && self->state_ == (locked_flag|stop_requested_flag) && LI_X && g_exec0 == 0 && !g_exec_done0 && !g_dead0
       && (W1.next_ == NULL || W1.next_ == (struct inplace_stop_callback_base*)&g_opaque))
  {
    __auto_type  callback = self->callbacks_;
    callback->prevPtr_ = NULL;
    self->callbacks_ = callback->next_;
    if (self->callbacks_ != NULL) {
      self->callbacks_->prevPtr_ = &self->callbacks_;
    }
    /* the window shifts: after the pop W1 is the head; re-express LI for release */
    VF_STORE(&(self->state_), stop_requested_flag, VF_MO_release);

    _Bool removedDuringCallback = false;
    callback->removedDuringCallback_ = &removedDuringCallback;

    EV_execute(callback);

    if (!removedDuringCallback) {
      callback->removedDuringCallback_ = NULL;
      VF_STORE_B(&(callback->callbackCompleted_), true, VF_MO_release);
    }
    __CPROVER_assert(!g_dead0 || (W0.next_ == g_snap0.next_ && W0.prevPtr_ == g_snap0.prevPtr_ && W0.removedDuringCallback_ == g_snap0.removedDuringCallback_ && W0.callbackCompleted_ == g_snap0.callbackCompleted_), "dead callback untouched");

    inplace_stop_source_lock(self);
  }

  VF_STORE(&(self->state_), stop_requested_flag, VF_MO_release);

  return false;
}
void h(void) { struct inplace_stop_source s; s.state_ = VF_nondet_u8(); g_self = &s; g_held = 0; inplace_stop_source_request_stop(&s); }
