#include "vf.h"
struct inplace_stop_callback_base;
struct inplace_stop_source { uint8_t state_; struct inplace_stop_callback_base* callbacks_; int notifyingThreadId_; };
#define stop_requested_flag ((uint8_t)1)
#define locked_flag ((uint8_t)2)
struct inplace_stop_source* g_self; 
_Bool g_i_hold_lock; unsigned g_acquired;
uint8_t VF_nondet_u8(void) { uint8_t v; return v; }
/* rely: if I hold the lock nobody else changes state_; otherwise: stop flag monotone */
void vf_interfere(void) {
  if (g_i_hold_lock) return;
  uint8_t o = g_self->state_, n = VF_nondet_u8();
  __CPROVER_assume(n <= 3 && ((o & stop_requested_flag) ? (n & stop_requested_flag) : 1));
  g_self->state_ = n;
}
void vf_guarantee_store(void* p, uint64_t o, uint64_t n) {
  /* guarantee: only write state_ when (a) acquiring: o unlocked -> n locked, or (b) I hold the lock */
  __CPROVER_assert(g_i_hold_lock || ((o & locked_flag) == 0 && (n & locked_flag) != 0), "G: write only when acquiring or holding");
  __CPROVER_assert(!(o & stop_requested_flag) || (n & stop_requested_flag), "G: stop flag monotone");
  if (!g_i_hold_lock) { g_i_hold_lock = 1; g_acquired++; }
}
struct spin_wait { int x; };
static void spin_wait_wait(struct spin_wait* s) {}

bool inplace_stop_source_try_lock_unless_stop_requested(struct inplace_stop_source* self,
    bool setStopRequested) 
__CPROVER_requires(self == g_self && !g_i_hold_lock && g_acquired == 0 && self->state_ <= 3)
__CPROVER_assigns(self->state_, g_i_hold_lock, g_acquired)
__CPROVER_ensures(__CPROVER_return_value == g_i_hold_lock)
__CPROVER_ensures(__CPROVER_return_value ==> self->state_ == (setStopRequested ? (locked_flag | stop_requested_flag) : locked_flag))
__CPROVER_ensures(!__CPROVER_return_value ==> (self->state_ & stop_requested_flag))
{
  struct spin_wait spin;
  __auto_type oldState = VF_LOAD(&self->state_, std_memory_order_relaxed);
  do 
  __CPROVER_assigns(oldState, self->state_, g_i_hold_lock, g_acquired)
  __CPROVER_loop_invariant(!g_i_hold_lock && g_acquired == 0 && self->state_ <= 3 && ((oldState & stop_requested_flag) ? (self->state_ & stop_requested_flag) != 0 : 1))
  {
    while (true) 
    __CPROVER_assigns(oldState, self->state_)
    __CPROVER_loop_invariant(!g_i_hold_lock && g_acquired == 0 && self->state_ <= 3 && ((oldState & stop_requested_flag) ? (self->state_ & stop_requested_flag) != 0 : 1))
    {
      if ((oldState & stop_requested_flag) != 0) {
        // Stop already requested.
        return false;
      } else if (oldState == 0) {
        break;
      } else {
        spin_wait_wait(&spin);
        oldState = VF_LOAD(&self->state_, std_memory_order_relaxed);
      }
    }
  } while (!VF_CAS_WEAK(&self->state_,
      &oldState,
      setStopRequested ? (locked_flag | stop_requested_flag) : locked_flag,
      std_memory_order_acq_rel,
      std_memory_order_relaxed));

  // Lock acquired successfully
  return true;
}
void h(void) { struct inplace_stop_source s; s.state_ = VF_nondet_u8(); g_self = &s; g_i_hold_lock = 0; g_acquired = 0;
  inplace_stop_source_try_lock_unless_stop_requested(&s, VF_nondet_bool()); }
