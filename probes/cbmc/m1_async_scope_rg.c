#include <stddef.h>
#include <stdbool.h>
#include <stdint.h>
size_t nondet_size_t(void);
_Bool nondet_bool(void);

struct async_scope { size_t opState_; int evt_; };

/* ghost */
size_t g_lin_old, g_lin_new; unsigned g_lin_count; unsigned g_evt_set;
size_t g_my_refs; /* references the calling thread owns */
struct async_scope *g_self;

static bool scope_ended(size_t s) { return (s & 1u) == 0u; }
static size_t use_count(size_t s) { return s >> 1; }

/* rely: environment may (a) clear open bit, (b) add 2 while open, (c) sub 2 while count > my_refs */
static bool R(size_t o, size_t n) {
  return (scope_ended(o) ? scope_ended(n) : 1)
      && (scope_ended(o) ? use_count(n) <= use_count(o) : 1)
      && use_count(n) >= g_my_refs && use_count(n) < ((size_t)1<<40);
}
static void vf_interfere(void) {
  size_t o = g_self->opState_;
  size_t n = nondet_size_t();
  __CPROVER_assume(R(o, n));
  g_self->opState_ = n;
}
static size_t VF_load(size_t *p) { vf_interfere(); return *p; }
static bool VF_cas_weak(size_t *p, size_t *expected, size_t desired) {
  vf_interfere();
  if (*p == *expected && nondet_bool()) {
    g_lin_old = *p; g_lin_new = desired; g_lin_count++;
    *p = desired; return true;
  }
  *expected = *p; return false;
}
static size_t VF_fetch_sub(size_t *p, size_t d) {
  vf_interfere();
  size_t o = *p; g_lin_old = o; g_lin_new = o - d; g_lin_count++;
  *p = o - d; return o;
}
static void EV_evt_set(struct async_scope* s) { g_evt_set++; }

bool try_record_start(struct async_scope* scope)
__CPROVER_requires(__CPROVER_is_fresh(scope, sizeof(*scope)) && g_self == scope)
__CPROVER_requires(g_lin_count == 0 && g_my_refs == 0 && use_count(scope->opState_) < (SIZE_MAX>>1)-1 )
__CPROVER_assigns(scope->opState_, g_lin_old, g_lin_new, g_lin_count)
__CPROVER_ensures(__CPROVER_return_value ==> (g_lin_count == 1 && !scope_ended(g_lin_old) && g_lin_new == g_lin_old + 2))
__CPROVER_ensures(!__CPROVER_return_value ==> g_lin_count == 0)
{
    __auto_type opState = VF_load(&scope->opState_);

    do 
    __CPROVER_assigns(opState, scope->opState_, g_lin_old, g_lin_new, g_lin_count)
    __CPROVER_loop_invariant(g_lin_count == 0)
    {
      if (scope_ended(opState)) {
        return false;
      }

      __CPROVER_assert(opState + 2u > opState, "UNIFEX_ASSERT");
    } while (!VF_cas_weak(&scope->opState_,
        &opState, opState + 2u));

    return true;
}

void record_completion(struct async_scope* scope)
__CPROVER_requires(__CPROVER_is_fresh(scope, sizeof(*scope)) && g_self == scope)
__CPROVER_requires(g_lin_count == 0 && g_evt_set == 0 && g_my_refs == 1 && use_count(scope->opState_) >= 1)
__CPROVER_assigns(scope->opState_, g_lin_old, g_lin_new, g_lin_count, g_evt_set)
__CPROVER_ensures(g_lin_count == 1 && g_lin_new == g_lin_old - 2 && use_count(g_lin_old) >= 1)
__CPROVER_ensures((g_evt_set == 1) == (g_lin_new == 0))
{
    __auto_type oldState = VF_fetch_sub(&scope->opState_, 2u);

    if (scope_ended(oldState) && use_count(oldState) == 1u) {
      // the scope is stopping and we're the last op to finish
      EV_evt_set(scope);
    }
}
void h_try_record_start(void){ struct async_scope* s; try_record_start(s);}
void h_record_completion(void){ struct async_scope* s; record_completion(s);}
