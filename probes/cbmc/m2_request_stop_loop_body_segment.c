#include <stdbool.h>
#include <stddef.h>
#include <stdint.h>
_Bool VF_nondet_bool(void) { _Bool v; return v; }
struct N { struct N* next_; struct N** prevPtr_; _Bool* removedDuringCallback_; _Bool callbackCompleted_; };
struct S { uint8_t state_; struct N* callbacks_; int notifyingThreadId_; };
struct S* g_self;
struct G_ { _Bool held; struct N w0, w1; unsigned exec0; _Bool exec_done0, dead0; struct N snap0; } G;
char g_opaque;
#define OPAQUE ((struct N*)&g_opaque)
#define LI_X (g_self->callbacks_ == NULL || (g_self->callbacks_ == &G.w0 && G.w0.prevPtr_ == &g_self->callbacks_ && !G.w0.callbackCompleted_ && (G.w0.next_ == NULL || (G.w0.next_ == &G.w1 && G.w1.prevPtr_ == &G.w0.next_))))
/* after a pop the old second node is the head: lock invariant expressed on w1 */
#define LI_AFTER_POP (g_self->callbacks_ == NULL || (g_self->callbacks_ == &G.w1 && G.w1.prevPtr_ == &g_self->callbacks_))
static void vf_store_state(uint8_t* p, uint8_t v) {
  __CPROVER_assert(G.held, "G: state_ written only while holding the lock");
  __CPROVER_assert(v & 1, "G: stop flag never cleared");
  if (!(v & 2)) { __CPROVER_assert(LI_AFTER_POP, "lock invariant restored at release"); G.held = 0; }
  *p = v;
}
static void vf_store_bool(_Bool* p, _Bool v) {
  if (p == &G.w0.callbackCompleted_) {
    __CPROVER_assert(G.exec_done0, "callbackCompleted_ only after execute returned");
    __CPROVER_assert(!G.dead0, "no write to a callback that removed itself");
  }
  *p = v;
}
uint8_t S_lock(struct S* self)
__CPROVER_requires(self == g_self && !G.held)
__CPROVER_assigns(self->state_, self->callbacks_, G)
__CPROVER_ensures(G.held && self->state_ == 3 && LI_X && G.exec0 == 0 && !G.exec_done0 && !G.dead0)
;
void EV_execute(struct N* cb) {
  __CPROVER_assert(!G.held, "callbacks run outside the lock");
  __CPROVER_assert(cb == &G.w0, "only the popped head is executed");
  __CPROVER_assert(cb->prevPtr_ == NULL, "popped callback is marked dequeued before it runs");
  __CPROVER_assert(G.exec0 == 0, "executed at most once");
  G.exec0++;
  if (VF_nondet_bool()) {
    if (cb->removedDuringCallback_ != NULL) *cb->removedDuringCallback_ = 1;
    struct N f; cb->next_ = f.next_; cb->prevPtr_ = f.prevPtr_; cb->removedDuringCallback_ = f.removedDuringCallback_; cb->callbackCompleted_ = f.callbackCompleted_;
    G.dead0 = 1; G.snap0 = *cb;
  }
  G.exec_done0 = 1;
}
/* outlined body of loop #1 of inplace_stop_source::request_stop */
void request_stop__loop1_body(struct S* self)
__CPROVER_requires(self == g_self && G.held && self->state_ == 3 && LI_X && self->callbacks_ != NULL && G.exec0 == 0 && !G.exec_done0 && !G.dead0)
__CPROVER_assigns(self->state_, self->callbacks_, G)
__CPROVER_ensures(G.held && self->state_ == 3 && LI_X && G.exec0 == 0 && !G.exec_done0 && !G.dead0)
{
    __auto_type  callback = self->callbacks_;
    callback->prevPtr_ = NULL;
    self->callbacks_ = callback->next_;
    if (self->callbacks_ != NULL) {
      self->callbacks_->prevPtr_ = &self->callbacks_;
    }
    vf_store_state(&(self->state_), 1);
    _Bool removedDuringCallback = false;
    callback->removedDuringCallback_ = &removedDuringCallback;
    EV_execute(callback);
    if (!removedDuringCallback) {
      callback->removedDuringCallback_ = NULL;
      vf_store_bool(&(callback->callbackCompleted_), true);
    }
    __CPROVER_assert(!G.dead0 || (G.w0.next_ == G.snap0.next_ && G.w0.prevPtr_ == G.snap0.prevPtr_ && G.w0.removedDuringCallback_ == G.snap0.removedDuringCallback_ && G.w0.callbackCompleted_ == G.snap0.callbackCompleted_), "dead callback untouched");
    S_lock(self);
}
void h(void) {
  struct S s; g_self = &s; s.state_ = 3; G.held = 1; G.exec0 = 0; G.exec_done0 = 0; G.dead0 = 0;
  s.callbacks_ = &G.w0; G.w0.prevPtr_ = &s.callbacks_; G.w0.callbackCompleted_ = 0;
  G.w0.next_ = VF_nondet_bool() ? &G.w1 : NULL;
  G.w1.prevPtr_ = &G.w0.next_; G.w1.next_ = VF_nondet_bool() ? OPAQUE : NULL;
  request_stop__loop1_body(&s);
}
