#include <stddef.h>
#include <stdbool.h>
#include <stdint.h>
_Bool VF_nondet_bool(void) { _Bool v; return v; }
void vf_interfere(void);
#define VF_LOAD(p, ...) ({ vf_interfere(); *(p); })
#define VF_STORE(p, v, ...) ({ vf_interfere(); vf_guarantee_store((void*)(p), (uint64_t)*(p), (uint64_t)(v)); *(p) = (v); (void)0; })
#define VF_CAS_WEAK(p, e, d, ...) ({ vf_interfere(); __typeof__(*(p)) vf_cur = *(p); _Bool vf_ok = (vf_cur == *(e)) && VF_nondet_bool(); if (vf_ok) { vf_guarantee_store((void*)(p), (uint64_t)vf_cur, (uint64_t)(d)); *(p) = (d); } else { *(e) = vf_cur; } vf_ok; })
void vf_guarantee_store(void* p, uint64_t o, uint64_t n);
