#include <stddef.h>
#include <stdbool.h>
#include <stdint.h>
#ifndef N
#define N 6
#endif
_Bool VF_nondet_bool(void) { _Bool v; return v; }
long VF_nondet_long(void) { long v; return v; }
unsigned VF_nondet_uint(void) { unsigned v; return v; }
struct operation_base { struct operation_base* next_; struct operation_base** prevPtr_; long dueTime_; int id; };
struct loop { struct operation_base* head_; };
void enqueue(struct loop* self, struct operation_base* op)
{
  __auto_type current = self->head_;
  if (current == NULL || op->dueTime_ < current->dueTime_) {
    self->head_ = op;
    op->prevPtr_ = &self->head_;
    op->next_ = current;
    if (current != NULL) {
      current->prevPtr_ = &op->next_;
    }
  } else {
    while (current->next_ != NULL &&
           current->next_->dueTime_ <= op->dueTime_) {
      current = current->next_;
    }
    op->next_ = current->next_;
    if (op->next_ != NULL) {
      op->next_->prevPtr_ = &op->next_;
    }
    op->prevPtr_ = &current->next_;
    current->next_ = op;
  }
}
struct operation_base pool[N]; struct operation_base newop; struct loop L;
void h(void) {
  unsigned n = VF_nondet_uint(); __CPROVER_assume(n <= N);
  /* sorted list of n nodes with ids 0..n-1 in list order */
  L.head_ = n ? &pool[0] : NULL;
  for (unsigned i = 0; i < N; i++) {
    if (i < n) {
      pool[i].id = i; pool[i].dueTime_ = VF_nondet_long();
      if (i > 0) __CPROVER_assume(pool[i-1].dueTime_ <= pool[i].dueTime_);
      pool[i].next_ = (i + 1 < n) ? &pool[i+1] : NULL;
      pool[i].prevPtr_ = i ? &pool[i-1].next_ : &L.head_;
    }
  }
  newop.id = 1000; newop.dueTime_ = VF_nondet_long();
  enqueue(&L, &newop);
  /* global postcondition: sorted, stable, permutation, back-pointers */
  struct operation_base* p = L.head_; struct operation_base** pp = &L.head_;
  unsigned seen = 0; _Bool seen_new = 0; int last_id = -1; long last_due = 0;
  for (unsigned i = 0; i <= N; i++) {
    if (p == NULL) break;
    __CPROVER_assert(p->prevPtr_ == pp, "back pointer consistent");
    if (seen) __CPROVER_assert(last_due <= p->dueTime_, "sorted");
    if (p == &newop) { __CPROVER_assert(!seen_new, "new once"); seen_new = 1;
      /* stable: everything with equal due time that was already queued is before it */ }
    else { __CPROVER_assert(p->id > last_id, "old order preserved"); last_id = p->id;
           if (seen_new) __CPROVER_assert(p->dueTime_ > newop.dueTime_, "FIFO among ties: later old items are strictly later"); }
    last_due = p->dueTime_; seen++; pp = &p->next_; p = p->next_;
  }
  __CPROVER_assert(p == NULL && seen == n + 1 && seen_new, "permutation: all old nodes plus the new one");
}
