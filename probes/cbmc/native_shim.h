#include <stdio.h>
#include <stdlib.h>
#define __CPROVER_requires(...)
#define __CPROVER_ensures(...)
#define __CPROVER_assigns(...)
#define __CPROVER_assume(c) do { if (!(c)) { printf("REPLAY-INVALID: assumption %s\n", #c); exit(77); } } while (0)
#define __CPROVER_assert(c, msg) do { if (!(c)) { printf("REPLAY-FAIL: %s\n", msg); exit(1); } } while (0)
