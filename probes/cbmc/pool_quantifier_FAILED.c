#include <stddef.h>
#include <stdbool.h>
#include <stdint.h>
#define N 64
struct operation_base { struct operation_base* next_; struct operation_base** prevPtr_; long dueTime_; };
struct loop { struct operation_base* head_; };
struct operation_base pool[N];

#define IN_POOL(p) (__CPROVER_same_object((p), pool) && __CPROVER_POINTER_OFFSET(p) % sizeof(struct operation_base) == 0 && __CPROVER_POINTER_OFFSET(p) < sizeof(pool))
#define NULL_OR_POOL(p) ((p) == NULL || IN_POOL(p))

void enqueue(struct loop* self, struct operation_base* op)
__CPROVER_requires(__CPROVER_is_fresh(self, sizeof(*self)))
__CPROVER_requires(__CPROVER_is_fresh(op, sizeof(*op)))
__CPROVER_requires(NULL_OR_POOL(self->head_))
__CPROVER_requires(__CPROVER_forall { int k; (0 <= k && k < N) ==> NULL_OR_POOL(pool[k].next_) })
__CPROVER_assigns(self->head_, op->next_, op->prevPtr_, __CPROVER_object_whole(pool))
__CPROVER_ensures(op->next_ == NULL || op->dueTime_ < op->next_->dueTime_)
{
  __auto_type current = self->head_;
  if (current == NULL || op->dueTime_ < current->dueTime_) {
    self->head_ = op;
    op->prevPtr_ = &self->head_;
    op->next_ = current;
    if (current != NULL) {
      current->prevPtr_ = &op->next_;
    }
  } else {
    while (current->next_ != NULL &&
           current->next_->dueTime_ <= op->dueTime_) 
    __CPROVER_assigns(current)
    __CPROVER_loop_invariant(IN_POOL(current) && current->dueTime_ <= op->dueTime_)
    {
      current = current->next_;
    }
    op->next_ = current->next_;
    if (op->next_ != NULL) {
      op->next_->prevPtr_ = &op->next_;
    }
    op->prevPtr_ = &current->next_;
    current->next_ = op;
  }
}
void h(void){ struct loop* l; struct operation_base* op; enqueue(l, op);}
