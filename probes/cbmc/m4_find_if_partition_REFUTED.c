#include <stdint.h>
#include <stdbool.h>
typedef long diff_t;
diff_t nondet_diff(void);
void h(void) {
  diff_t distance = nondet_diff();
  __CPROVER_assume(distance >= 0 && distance < (1L<<40));
  const diff_t max_num_chunks = 32;
  const diff_t min_chunk_size = 4;
  diff_t num_chunks = (distance / max_num_chunks) > min_chunk_size
          ? max_num_chunks
          : ((distance + min_chunk_size) / min_chunk_size);
  diff_t chunk_size = (distance + num_chunks) / num_chunks;
  diff_t index = nondet_diff();
  __CPROVER_assume(index >= 0 && index < num_chunks);
  diff_t chunk_begin_it = 0 + (chunk_size * index);
  diff_t chunk_end_it = chunk_begin_it;
  if (index < (num_chunks - 1)) { chunk_end_it += chunk_size; } else { chunk_end_it = distance; }
  __CPROVER_assert(chunk_begin_it <= chunk_end_it, "begin<=end");
  __CPROVER_assert(chunk_end_it <= distance, "end<=distance");
}
