/* M4 lemma sketch for C09: all interleavings of the contract-summarised steps of
   operation (O), future (F) and the future's stop callback (K). Finite and acyclic:
   at most 2+4+1 steps, so unwinding 8 explores every interleaving completely. */
#include <stdbool.h>
enum st { INIT, ABANDONED, RESULT, COMPLETE };
enum opc { O_RUN, O_NEG, O_DONE };
enum fpc { F_IDLE, F_DROP1, F_WAIT, F_CONT1, F_CONT2, F_DONE };
_Bool nondet_bool(void); unsigned nondet_uint(void);
int main(void) {
  enum st st = INIT, exp = INIT, s = INIT;
  enum opc o = O_RUN; enum fpc f = F_IDLE;
  _Bool evt = 0, k_fired = 0, stop_req = 0, fut_got_result = 0, fut_got_done = 0;
  unsigned d = 0; /* deleter calls */
  for (int step = 0; step < 8; step++) {
    unsigned who = nondet_uint() % 3;
    if (who == 0 && o != O_DONE) {              /* operation */
      __CPROVER_assert(d == 0, "operation touches state only before deletion");
      if (o == O_RUN) {
        if (st == INIT) { st = RESULT; evt = 1; o = O_DONE; }
        else { exp = st; __CPROVER_assert(exp == ABANDONED || exp == COMPLETE, "complete(): expected is abandoned or complete"); o = O_NEG; }
      } else { /* negotiate_deletion */
        if (exp == ABANDONED && st == ABANDONED) { st = COMPLETE; o = O_DONE; }
        else { __CPROVER_assert(st == COMPLETE, "negotiate: state is complete"); d++; o = O_DONE; }
      }
    } else if (who == 1 && f != F_DONE) {       /* future */
      if (f == F_IDLE) {
        if (nondet_bool()) {                    /* dropped without being started */
          __CPROVER_assert(d == 0, "drop touches state only before deletion");
          s = st;
          if (s == INIT) { stop_req = 1; f = F_DROP1; }
          else { __CPROVER_assert(s == RESULT, "drop(): never-started future sees init or a result");
                 __CPROVER_assert(evt, "drop waits for evt"); d++; f = F_DONE; }
        } else f = F_WAIT;                      /* connected and started: waits on evt_ */
      } else if (f == F_DROP1) {
        __CPROVER_assert(d == 0, "drop CAS before deletion");
        if (st == INIT) { st = COMPLETE; f = F_DONE; }
        else { __CPROVER_assert(st == RESULT, "drop lost race to a result"); if (evt) { d++; f = F_DONE; } /* else spins */ }
      } else if (f == F_WAIT) {
        if (evt) { __CPROVER_assert(d == 0, "continuation load before deletion"); s = st; f = (s == ABANDONED) ? F_CONT2 : F_CONT1; }
      } else if (f == F_CONT2) {                /* CAS abandoned -> complete */
        __CPROVER_assert(d == 0, "continuation CAS before deletion");
        if (st == ABANDONED) { st = COMPLETE; fut_got_done = 1; f = F_DONE; }
        else { __CPROVER_assert(st == COMPLETE, "continuation CAS failed => complete"); d++; fut_got_done = 1; f = F_DONE; }
      } else if (f == F_CONT1) {
        __CPROVER_assert(s == RESULT || s == COMPLETE, "continuation sees result or complete");
        d++; if (s == RESULT) fut_got_result = 1; else fut_got_done = 1; f = F_DONE;
      }
    } else if (who == 2 && !k_fired && f == F_WAIT) {  /* stop callback while the future is awaited */
      __CPROVER_assert(d == 0, "abandon touches state only before deletion");
      k_fired = 1;
      if (st == INIT) { st = ABANDONED; stop_req = 1; evt = 1; }
      else __CPROVER_assert(st == RESULT, "abandon lost to a natural completion");
    }
    __CPROVER_assert(d <= 1, "deleter at most once");
  }
  if (o == O_DONE && f == F_DONE) {
    __CPROVER_assert(d == 1, "deleter exactly once at quiescence");
    __CPROVER_assert(!fut_got_result || st == RESULT, "future yields the result only if the operation's CAS init->result won");
  }
  /* progress sanity: quiescence is reachable */
  __CPROVER_cover(o == O_DONE && f == F_DONE);
  return 0;
}
