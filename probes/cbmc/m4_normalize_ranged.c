#include <stdint.h>
#include <stdbool.h>
struct time_point { int64_t seconds_; long long nanoseconds_; };
#define NPS 1000000000LL
static bool canonical(const struct time_point* t) {
  return t->nanoseconds_ > -NPS && t->nanoseconds_ < NPS &&
    !(t->seconds_ > 0 && t->nanoseconds_ < 0) && !(t->seconds_ < 0 && t->nanoseconds_ > 0);
}
void normalize(struct time_point* self)
__CPROVER_requires(__CPROVER_is_fresh(self, sizeof(*self)))
__CPROVER_requires(self->seconds_ > -(1LL<<62) && self->seconds_ < (1LL<<62))
__CPROVER_requires(self->nanoseconds_ > -4*NPS && self->nanoseconds_ < 4*NPS)
__CPROVER_assigns(self->seconds_, self->nanoseconds_)
__CPROVER_ensures(canonical(self))
__CPROVER_ensures((self->seconds_ == __CPROVER_old(self->seconds_) + (-4) && self->nanoseconds_ == __CPROVER_old(self->nanoseconds_) - (-4)*NPS) || (self->seconds_ == __CPROVER_old(self->seconds_) + (-3) && self->nanoseconds_ == __CPROVER_old(self->nanoseconds_) - (-3)*NPS) || (self->seconds_ == __CPROVER_old(self->seconds_) + (-2) && self->nanoseconds_ == __CPROVER_old(self->nanoseconds_) - (-2)*NPS) || (self->seconds_ == __CPROVER_old(self->seconds_) + (-1) && self->nanoseconds_ == __CPROVER_old(self->nanoseconds_) - (-1)*NPS) || (self->seconds_ == __CPROVER_old(self->seconds_) + (0) && self->nanoseconds_ == __CPROVER_old(self->nanoseconds_) - (0)*NPS) || (self->seconds_ == __CPROVER_old(self->seconds_) + (1) && self->nanoseconds_ == __CPROVER_old(self->nanoseconds_) - (1)*NPS) || (self->seconds_ == __CPROVER_old(self->seconds_) + (2) && self->nanoseconds_ == __CPROVER_old(self->nanoseconds_) - (2)*NPS) || (self->seconds_ == __CPROVER_old(self->seconds_) + (3) && self->nanoseconds_ == __CPROVER_old(self->nanoseconds_) - (3)*NPS) || (self->seconds_ == __CPROVER_old(self->seconds_) + (4) && self->nanoseconds_ == __CPROVER_old(self->nanoseconds_) - (4)*NPS))
{
  const int64_t nanoseconds_per_second = 1000000000;
  __auto_type extraSeconds = self->nanoseconds_ / nanoseconds_per_second;
  self->seconds_ += extraSeconds;
  self->nanoseconds_ -= extraSeconds * nanoseconds_per_second;
  if (self->seconds_ < 0 && self->nanoseconds_ > 0) {
    self->seconds_ += 1;
    self->nanoseconds_ -= nanoseconds_per_second;
  } else if (self->seconds_ > 0 && self->nanoseconds_ < 0) {
    self->seconds_ -= 1;
    self->nanoseconds_ += nanoseconds_per_second;
  }
}
void h(void){ struct time_point* t; normalize(t);}
