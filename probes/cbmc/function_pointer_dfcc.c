#include <stddef.h>
#include <stdbool.h>
struct waiter_base { void (*resume_)(struct waiter_base*); struct waiter_base* next_; };
struct q { struct waiter_base* head_; struct waiter_base* tail_; };
unsigned g_resumed; struct waiter_base* g_last;
void EV_resume(struct waiter_base* w) { g_resumed++; g_last = w; }
struct waiter_base* pop_front(struct q* self) {
  struct waiter_base* item = self->head_;
  self->head_ = item->next_;
  if (self->head_ == NULL) self->tail_ = NULL;
  return item;
}
void unlock(struct q* self)
__CPROVER_requires(self->head_ != NULL && self->head_->resume_ == EV_resume && g_resumed == 0)
__CPROVER_assigns(self->head_, self->tail_, g_resumed, g_last)
__CPROVER_ensures(g_resumed == 1 && g_last == __CPROVER_old(self->head_))
{
  struct waiter_base* item = pop_front(self);
  item->resume_(item);
}
void h(void) { struct q qq; struct waiter_base a, b; _Bool two;
  a.resume_ = EV_resume; b.resume_ = EV_resume; a.next_ = two ? &b : NULL; b.next_ = NULL;
  qq.head_ = &a; qq.tail_ = two ? &b : &a; g_resumed = 0; unlock(&qq); }
