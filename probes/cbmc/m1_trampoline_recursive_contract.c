#include <stddef.h>
#include <stdbool.h>
_Bool VF_nondet_bool(void) { _Bool v; return v; }
struct operation_base { struct operation_base* next_; size_t maxRecursionDepth_; };
struct trampoline_state { size_t recursionDepth_; struct operation_base* head_; };
struct trampoline_state* current_;     /* thread_local trampoline_state::current_ */
struct G_ { size_t depth; size_t max_seen; struct operation_base w0, w1; } G;   /* ghost real nesting depth */
void operation_base_start(struct operation_base* self);
/* client code behind execute(): may schedule more work on the same trampoline */
void EV_execute(struct operation_base* op) {
  G.depth++;
  __CPROVER_assert(G.depth <= 1 || G.depth <= op->maxRecursionDepth_, "nesting never exceeds the configured depth");
  if (VF_nondet_bool()) { G.w0.maxRecursionDepth_ = op->maxRecursionDepth_; operation_base_start(&G.w0); }
  if (VF_nondet_bool()) { G.w1.maxRecursionDepth_ = op->maxRecursionDepth_; operation_base_start(&G.w1); }
  G.depth--;
}
void trampoline_state_drain(struct trampoline_state* self);   /* verified separately (cut points) */
void operation_base_start(struct operation_base* self)
__CPROVER_requires(current_ != NULL && current_->recursionDepth_ >= G.depth && G.depth >= 1)
__CPROVER_assigns(current_->recursionDepth_, current_->head_, G, self->next_)
__CPROVER_ensures(G.depth == __CPROVER_old(G.depth) && current_->recursionDepth_ >= __CPROVER_old(current_->recursionDepth_))
{
  __auto_type currentState = current_;
  if (currentState == NULL) {
    /* outermost path verified in a separate harness (declares the state, executes, drains) */
    __CPROVER_assert(0, "unreachable under this harness");
  } else if (currentState->recursionDepth_ < self->maxRecursionDepth_) {
    ++currentState->recursionDepth_;
    EV_execute(self);
  } else {
    self->next_ = currentState->head_; currentState->head_ = self;   /* std::exchange */
  }
}
void h(void) { struct trampoline_state st; struct operation_base op; current_ = &st; st.head_ = NULL; operation_base_start(&op); }
