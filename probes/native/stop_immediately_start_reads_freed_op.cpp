// stop_immediately: next-operation start() touches the operation after the stop callback may have completed it.
// (REPAIRED in /repo: start() now takes `stream& strm = stream_;` before registering the callback; with the repair this
// program is ASan-clean.  Finding id C13-stop-immediately-start-reads-op-after-callback.)
//
//   start():  stop_requested()? no -> nextOp_.construct_with(connect(next(source_), ...))   <- stop arrives here
//             nextReceiver_ = ...; state_ = source_next_active;
//             stopCallback_.construct(token, cancel_next_callback{stream_});   <- stop already requested: the callback runs
//                 INLINE, wins the CAS, sends set_done to the consumer, who may destroy the operation (it is complete)
//             unifex::start(stream_.nextOp_.get());                            <- reads this->stream_ : use after free
//
// The stop request "arriving in the window" is made deterministic: the source's next sender requests stop from inside
// connect().  (The same happens, with a real race, when the callback fires on another thread right after registration.)
// Failing obligation in the verifier: stop_immediately/next_start_op_lifetime
//   "P: no access to the next operation after the consumer may have been signalled (it may destroy the operation)".
//
//   g++ -std=c++17 -g -fsanitize=address -I/repo/include -I/repo/_build/include stop_immediately_start_reads_freed_op.cpp \
//       /repo/_build/source/libunifex.a -lpthread && ./a.out        -> AddressSanitizer: heap-use-after-free in start()
#include <unifex/stop_immediately.hpp>
#include <unifex/inplace_stop_token.hpp>
#include <unifex/receiver_concepts.hpp>
#include <unifex/sender_concepts.hpp>
#include <unifex/stream_concepts.hpp>
#include <unifex/just_done.hpp>
#include <cstdio>
#include <cstring>
#include <exception>
using namespace unifex;

static inplace_stop_source consumerStop;   // the consumer's stop source

// source stream: next() = a sender that requests stop on the CONSUMER's stop source while it is being connected and,
// once started, completes with done as soon as it is started
template <typename R>
struct src_next_op {
  R r;
  void start() noexcept { unifex::set_done(std::move(r)); }
};
struct src_next_sender {
  template <template <typename...> class V, template <typename...> class T> using value_types = V<T<int>>;
  template <template <typename...> class V> using error_types = V<std::exception_ptr>;
  static constexpr bool sends_done = true;
  template <typename R>
  friend src_next_op<remove_cvref_t<R>> tag_invoke(tag_t<connect>, src_next_sender&&, R&& r) {
    std::printf("  [source] connect(next(source)): a stop request arrives now\n");
    consumerStop.request_stop();
    return src_next_op<remove_cvref_t<R>>{(R&&)r};
  }
};
struct src_stream {
  friend src_next_sender tag_invoke(tag_t<next>, src_stream&) { return {}; }
  friend auto tag_invoke(tag_t<cleanup>, src_stream&) { return just_done(); }
};

struct holder;
struct consumer_rcvr {
  holder* h;
  void set_value(int) && noexcept;
  void set_done() && noexcept;
  void set_error(std::exception_ptr) && noexcept;
  friend inplace_stop_token tag_invoke(tag_t<get_stop_token>, const consumer_rcvr&) noexcept { return consumerStop.get_token(); }
};
using stream_t = decltype(stop_immediately<int>(src_stream{}));
static stream_t* theStream;
using next_op_t = decltype(connect(next(*theStream), std::declval<consumer_rcvr>()));
struct holder {
  next_op_t op;
  explicit holder(stream_t& s) : op(connect(next(s), consumer_rcvr{this})) {}
};
void consumer_rcvr::set_value(int) && noexcept { std::printf("  [consumer] value\n"); }
void consumer_rcvr::set_done() && noexcept {
  std::printf("  [consumer] done received: the next operation is complete, destroying it\n");
  delete h;     // allowed: the operation state has completed
}
void consumer_rcvr::set_error(std::exception_ptr) && noexcept { delete h; }

int main() {
  auto s = stop_immediately<int>(src_stream{});
  theStream = &s;
  auto* h = new holder(s);
  std::printf("start(next(stop_immediately(source)))\n");
  unifex::start(h->op);     // ASan: heap-use-after-free reading this->stream_ after stopCallback_.construct returned
  std::printf("start() returned (without ASan the stale read went unnoticed)\n");
  return 0;
}
