// any_sender_of: _op_for adapts a foreign stop-token type with inplace_stop_token_adapter, whose inplace_stop_source lives
// INSIDE the operation state.  The forwarding callback (forward_stop_request_to_inplace_stop_source) calls
// source.request_stop() without pinning the operation.  If the type-erased operation completes synchronously from inside
// that request_stop() (never_sender and every leaf that completes with done from its stop callback), _op_for unsubscribes
// and completes the real receiver, which may destroy the operation -- and the adapter's source -- while
// inplace_stop_source::request_stop() is still running on it.
// (Only for receivers whose stop token is neither inplace_stop_token nor never-stoppable: the other adapters pass
// the token through.)
//
// g++ -std=c++17 -g -DNDEBUG -fsanitize=address -I/repo/include -I/repo/_build/include \
//     any_sender_of_adapter_request_stop_uaf.cpp /repo/source/inplace_stop_token.cpp /repo/_build/source/libunifex.a -lpthread
#include <unifex/any_sender_of.hpp>
#include <unifex/inplace_stop_token.hpp>
#include <unifex/never.hpp>

#include <cstdio>
#include <cstring>
#include <exception>

using namespace unifex;

// a foreign stop-token type (wraps an inplace_stop_token, but is a different type: the generic adapter is selected)
struct my_token;
template <typename F>
struct my_callback {
  inplace_stop_callback<F> cb;
  template <typename F2>
  my_callback(my_token t, F2&& f) noexcept;
};
struct my_token {
  inplace_stop_token t;
  template <typename F>
  using callback_type = my_callback<F>;
  bool stop_requested() const noexcept { return t.stop_requested(); }
  bool stop_possible() const noexcept { return t.stop_possible(); }
};
template <typename F>
template <typename F2>
my_callback<F>::my_callback(my_token t, F2&& f) noexcept : cb(t.t, F{(F2&&)f}) {}

struct holder {
  void (*destroy)(void*) = nullptr;
  void* op = nullptr;
  bool completed = false;
};
struct self_deleting_receiver {
  my_token tok;
  holder* h;
  void finish() noexcept {
    h->completed = true;
    h->destroy(h->op);
  }
  void set_value() && noexcept { finish(); }
  void set_error(std::exception_ptr) && noexcept { finish(); }
  void set_done() && noexcept { finish(); }
  friend my_token tag_invoke(tag_t<get_stop_token>, const self_deleting_receiver& r) noexcept { return r.tok; }
};

int main() {
  inplace_stop_source parent;
  holder h;
  any_sender_of<> s = never_sender{};
  using op_t = connect_result_t<any_sender_of<>, self_deleting_receiver>;
  void* mem = ::operator new(sizeof(op_t));
  std::memset(mem, 0, sizeof(op_t));
  op_t* op = ::new (mem) op_t(unifex::connect(std::move(s), self_deleting_receiver{my_token{parent.get_token()}, &h}));
  h.op = op;
  h.destroy = [](void* p) {
    static_cast<op_t*>(p)->~op_t();
    ::operator delete(p);
  };
  unifex::start(*op);
  std::printf("any_sender_of<> = never_sender: started, requesting stop on the parent ...\n");
  std::fflush(stdout);
  parent.request_stop();
  std::printf("completed=%d (no sanitizer report: not reproduced)\n", (int)h.completed);
  return 0;
}
