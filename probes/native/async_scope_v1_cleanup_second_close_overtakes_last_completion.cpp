// C08 / C02 finding: v2 async_scope::end_scope() sets evt_ whenever the OLD count is 0 - also when the scope was already
// closed.  v1 async_scope::cleanup() ALWAYS closes twice: request_stop() calls scope_.end_scope(), then scope_.join() calls
// end_scope() again before it waits.  The last completion does
//     record_completion:  opState_.fetch_sub(2)   ...window...   scope->evt_.set()
// If the join's second end_scope() runs inside that window it sees (closed, 0) and sets the event itself; the join completes,
// the owner destroys the scope, and record_completion() then calls set() on the destroyed event.  No unusual usage is needed:
// one detached_spawn, one stop callback that tells the spawned work to finish, one sync_wait(scope.cleanup()).
//
// The window is two instructions wide, so the schedule is forced with the linker's --wrap on
// async_manual_reset_event::set(): the wrapper parks the completing thread right after its fetch_sub (real library code on
// both sides, nothing in /repo is modified).
//
// build (the event's set() is compiled with ASan too, otherwise its write to the freed scope is not instrumented):
//   g++ -std=c++17 -g -DNDEBUG -fsanitize=address -I/repo/include -I/repo/_build/include -c /repo/source/async_manual_reset_event_v1.cpp -o amre_v1.o
//   g++ -std=c++17 -g -DNDEBUG -fsanitize=address -I/repo/include -I/repo/_build/include \
//       async_scope_v1_cleanup_second_close_overtakes_last_completion.cpp amre_v1.o /repo/_build/source/libunifex.a -lpthread \
//       -Wl,--wrap=_ZN6unifex2v15_amre24async_manual_reset_event3setEv
// observed (defect present): AddressSanitizer heap-use-after-free, WRITE in async_manual_reset_event::set() (state_.exchange)
// called from v2::record_completion <- ~scope_reference <- _nest_receiver::complete, on the scope freed by main after cleanup() completed.
// repair (v2/async_scope.hpp end_scope): set the event only when this call closed the scope:
//     if (!scope_ended(oldState) && use_count(oldState) == 0) { evt_.set(); }
#include <unifex/v1/async_scope.hpp>
#include <unifex/single_thread_context.hpp>
#include <unifex/inplace_stop_token.hpp>
#include <unifex/sync_wait.hpp>

#include <atomic>
#include <chrono>
#include <cstdio>
#include <thread>

using namespace unifex;

static std::atomic<int> phase{0};   // 1: worker may finish; 2: worker sits between fetch_sub and set(); 3: scope destroyed
static std::atomic<bool> running{false};
static std::thread::id workerId;

extern "C" void __real__ZN6unifex2v15_amre24async_manual_reset_event3setEv(void* self);
extern "C" void __wrap__ZN6unifex2v15_amre24async_manual_reset_event3setEv(void* self) {
  if (std::this_thread::get_id() == workerId && phase.load() == 1) {
    // we are record_completion(), after  opState_.fetch_sub(2)  returned (closed, 1)
    phase.store(2);
    // park until the joiner has destroyed the scope; give up after 2 s (repaired library: the join waits for this set())
    auto deadline = std::chrono::steady_clock::now() + std::chrono::seconds(2);
    while (phase.load() != 3 && std::chrono::steady_clock::now() < deadline) std::this_thread::yield();
    std::puts(phase.load() == 3 ? "worker: calling evt_.set() of the scope the joiner has already destroyed"
                                : "worker: the join is still waiting for this set() (no overtaking)");
  }
  __real__ZN6unifex2v15_amre24async_manual_reset_event3setEv(self);
}

int main() {
  single_thread_context ctx;
  auto* scope = new v1::async_scope();

  scope->detached_spawn_call_on(ctx.get_scheduler(), []() noexcept {
    workerId = std::this_thread::get_id();
    running.store(true);
    while (phase.load() != 1) std::this_thread::yield();
  });

  while (!running.load()) std::this_thread::yield();   // the spawned operation is running (a not yet started one would be cancelled)

  // an ordinary user stop callback on the scope's token: tells the worker to finish.  It runs on this thread inside
  // cleanup()'s request_stop(), i.e. after the first close and before the join's second close; waiting for the worker to
  // reach the window is the only schedule forcing on this side.
  auto onStop = [] {
    phase.store(1);
    while (phase.load() != 2) std::this_thread::yield();
  };
  {
    inplace_stop_callback<decltype(onStop)> cb{scope->get_stop_token(), onStop};
    sync_wait(scope->cleanup());   // request_stop(): first close + stop request; join: second close -> old state (closed, 0) -> evt_.set()
  }   // the callback is deregistered before the scope goes away
  std::puts("main: cleanup() completed; destroying the scope");
  delete scope;
  phase.store(3);

  // ~single_thread_context joins the worker
  return 0;
}
