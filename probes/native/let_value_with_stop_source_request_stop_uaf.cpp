// let_value_with_stop_source / let_value_with_stop_token: the interposed fused_stop_source is a member of the
// operation state and its forwarding callback (_fss::stop_callback) calls stopSource_.request_stop() WITHOUT pinning
// the operation.  If the inner operation completes synchronously from inside that request_stop() (never_sender, timers
// and every other leaf that completes with done from its stop callback), the inner receiver deregisters and completes
// the outer receiver, which may destroy the operation -- including stopSource_ -- while inplace_stop_source::
// request_stop() is still running on it (it re-takes the source's lock after every callback).
// (when_all / stop_when / v1 attach pin themselves with a reference count around stopSource_.request_stop().)
//
// g++ -std=c++17 -g -DNDEBUG -fsanitize=address -I/repo/include -I/repo/_build/include \
//     let_value_with_stop_source_request_stop_uaf.cpp /repo/_build/source/libunifex.a -lpthread
#include <unifex/inplace_stop_token.hpp>
#include <unifex/let_value_with_stop_source.hpp>
#include <unifex/let_value_with_stop_token.hpp>
#include <unifex/never.hpp>
#include <unifex/unstoppable_token.hpp>

#include <cstdio>
#include <cstdlib>
#include <cstring>
#include <exception>

using namespace unifex;

struct holder {
  void (*destroy)(void*) = nullptr;
  void* op = nullptr;
  bool completed = false;
};

// a receiver that owns its heap-allocated operation state and frees it on completion (what spawn_detached,
// async_scope::spawn, task's awaiter frames, ... do)
struct self_deleting_receiver {
  inplace_stop_token tok;
  holder* h;
  void finish() noexcept {
    h->completed = true;
    h->destroy(h->op);
  }
  void set_value() && noexcept { finish(); }
  template <typename E>
  void set_error(E&&) && noexcept { finish(); }
  void set_done() && noexcept { finish(); }
  friend inplace_stop_token tag_invoke(tag_t<get_stop_token>, const self_deleting_receiver& r) noexcept { return r.tok; }
};

template <typename Sender>
static void run(const char* what, Sender&& s) {
  inplace_stop_source parent;
  holder h;
  using op_t = connect_result_t<Sender, self_deleting_receiver>;
  // placement-construct on the heap (operation states are immovable)
  void* mem = ::operator new(sizeof(op_t));
  std::memset(mem, 0, sizeof(op_t));
  op_t* op = ::new (mem) op_t(unifex::connect((Sender&&)s, self_deleting_receiver{parent.get_token(), &h}));
  h.op = op;
  h.destroy = [](void* p) {
    static_cast<op_t*>(p)->~op_t();
    ::operator delete(p);
  };
  unifex::start(*op);
  std::printf("%s: started, requesting stop on the parent ...\n", what);
  std::fflush(stdout);
  parent.request_stop();  // -> fused callback -> stopSource_.request_stop() -> never's callback -> set_done -> op freed
  std::printf("%s: completed=%d (no sanitizer report: not reproduced)\n", what, (int)h.completed);
}

int main(int argc, char** argv) {
  if (argc > 1 && !std::strcmp(argv[1], "token")) {
    // generic (non-inplace) branch is selected only for foreign token types; the inplace specialisation has no
    // interposed source.  Exercise let_value_with_stop_source (always interposes).
  }
  run("let_value_with_stop_source", let_value_with_stop_source([](auto& /*stopSource*/) noexcept { return never_sender{}; }));
  return 0;
}
