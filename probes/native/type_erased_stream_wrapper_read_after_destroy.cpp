// type_erased_stream: next_receiver_wrapper / cleanup_receiver_wrapper read their own member `receiver_` AFTER
// deactivate_union_member(stream_.next_ / cleanup_) destroyed the inner operation state that contains them.
// With an inner next()/cleanup() operation that keeps its receiver on the heap (unifex::allocate), the wrapper's
// storage is freed by that destruction: heap-use-after-free.
#include <unifex/type_erased_stream.hpp>
#include <unifex/range_stream.hpp>
#include <unifex/next_adapt_stream.hpp>
#include <unifex/allocate.hpp>
#include <unifex/for_each.hpp>
#include <unifex/sync_wait.hpp>
#include <cstdio>
using namespace unifex;
int main() {
  int sum = 0;
  auto s = type_erase<int>(next_adapt_stream(range_stream{0, 3}, [](auto&& snd) { return allocate((decltype(snd))snd); }));
  sync_wait(for_each(std::move(s), [&](int v) { sum += v; }));
  std::printf("sum=%d\n", sum);
  return 0;
}
