// v2 async_mutex: a waiter that has already been handed the lock is completed with done (and the lock is leaked) when
// its stop token fires between the hand-over and the rescheduling of its completion (completion_forwarder passes the
// receiver's stop token to schedule(); a scheduler such as inline_scheduler completes with done when stop was requested).
// Deterministic, single thread: the receiver's scheduler requests stop on the receiver's own stop source from inside
// schedule() -- exactly the window a concurrent request_stop() hits.
#include <unifex/v2/async_mutex.hpp>
#include <unifex/inline_scheduler.hpp>
#include <unifex/inplace_stop_token.hpp>
#include <unifex/scheduler_concepts.hpp>
#include <unifex/sender_concepts.hpp>
#include <unifex/receiver_concepts.hpp>
#include <cstdio>
using namespace unifex;
static inplace_stop_source* src;
struct racing_scheduler {
  auto schedule() const noexcept { if (src) src->request_stop(); return inline_scheduler{}.schedule(); }
  friend bool operator==(racing_scheduler, racing_scheduler) noexcept { return true; }
  friend bool operator!=(racing_scheduler, racing_scheduler) noexcept { return false; }
};
struct rcvr {
  inplace_stop_source* ss; int* out;
  void set_value() && noexcept { *out = 1; }
  void set_done() && noexcept { *out = 2; }
  template <class E> void set_error(E&&) && noexcept { *out = 3; }
  friend inplace_stop_token tag_invoke(tag_t<get_stop_token>, const rcvr& r) noexcept { return r.ss->get_token(); }
  friend racing_scheduler tag_invoke(tag_t<get_scheduler>, const rcvr&) noexcept { return {}; }
};
int main() {
  v2::async_mutex m;
  if (!m.try_lock()) return 9;             // main holds the lock
  inplace_stop_source ss; int out = 0;
  auto op = connect(m.async_lock(), rcvr{&ss, &out});
  start(op);                                // waiter queued
  src = &ss;
  m.unlock();                               // hand-over: the waiter is popped and owns the lock; its completion is rescheduled
  src = nullptr;
  std::printf("waiter completed with %s\n", out == 1 ? "value" : out == 2 ? "done" : "?");
  if (out == 1) m.unlock();                 // a waiter that got the lock releases it
  bool free_now = m.try_lock();
  std::printf("mutex %s\n", free_now ? "is free again" : "is LEAKED: nobody owns it, nobody can lock it");
  return free_now ? 0 : 1;
}
