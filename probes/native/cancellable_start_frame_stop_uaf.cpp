// Forced schedule for cancellable's "stop requested before started was set" path:
// start frame calls nested stop() while another thread completes (and the receiver frees) the op.
#include <unifex/cancellable.hpp>
#include <unifex/inplace_stop_token.hpp>
#include <unifex/sender_concepts.hpp>
#include <unifex/receiver_concepts.hpp>
#include <atomic>
#include <thread>
#include <cstdio>
#include <memory>
using namespace unifex;

std::atomic<int> phase{0};   // 0 idle, 1 stop() entered -> helper go, 2 helper finished
template <typename Receiver>
struct nested_op {
  explicit nested_op(Receiver&& r) : receiver_(std::move(r)) {}
  void start() noexcept { self_global.store(this); }
  void stop() noexcept {
    // a realistic hook does `if (try_complete(this)) cancel...`; here the helper thread is
    // given the chance to run the natural completion first (forced interleaving).
    phase.store(1);
    while (phase.load() != 2) {}
    if (try_complete(this)) { set_done(std::move(receiver_)); }
  }
  void complete_from_other_thread() noexcept {
    if (try_complete(this)) { set_value(std::move(receiver_), 42); }
  }
  Receiver receiver_;
  static inline std::atomic<nested_op*> self_global{nullptr};
};
struct heap_holder;  // owns the whole cancellable op on the heap; receiver frees it on completion
struct rcvr {
  inplace_stop_source* ss; heap_holder* holder;
  void set_value(int) && noexcept;
  void set_done() && noexcept;
  void set_error(std::exception_ptr) && noexcept;
  friend inplace_stop_token tag_invoke(tag_t<get_stop_token>, const rcvr& r) noexcept { return r.ss->get_token(); }
};
struct nested_sender {
  template <template <typename...> class V, template <typename...> class T> using value_types = V<T<int>>;
  template <template <typename...> class V> using error_types = V<std::exception_ptr>;
  static constexpr bool sends_done = true;
  template <typename R>
  friend auto tag_invoke(tag_t<connect>, nested_sender&&, R&& r) noexcept { return nested_op<remove_cvref_t<R>>{std::forward<R>(r)}; }
};
using op_t = decltype(connect(cancellable<nested_sender>{nested_sender{}}, std::declval<rcvr>()));
struct heap_holder { op_t op; heap_holder(inplace_stop_source* ss) : op(connect(cancellable<nested_sender>{nested_sender{}}, rcvr{ss, this})) {} };
void rcvr::set_value(int) && noexcept { printf("completed with value; freeing operation\n"); delete holder; }
void rcvr::set_done() && noexcept { printf("completed with done; freeing operation\n"); delete holder; }
void rcvr::set_error(std::exception_ptr) && noexcept { delete holder; }

int main() {
  inplace_stop_source ss;
  ss.request_stop();                       // stop requested before start
  auto* h = new heap_holder(&ss);
  using nop = nested_op<rcvr>;
  std::thread helper([&] {
    while (phase.load() != 1) {}
    nop::self_global.load()->complete_from_other_thread();   // natural completion wins
    phase.store(2);
  });
  start(h->op);                            // start frame: nested start, then (state==stopped) nested stop()
  helper.join();
  printf("done\n");
}
