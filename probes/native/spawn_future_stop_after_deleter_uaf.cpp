// A stop request that arrives after the future's continuation has run deleter_ but before the future's own
// operation state (which holds the stop callback registered at connect time) is destroyed calls abandon() on freed memory.
// Single-threaded, deterministic: the value's move constructor (called while the result travels to the receiver) requests stop.
#include <unifex/spawn_future.hpp>
#include <unifex/just.hpp>
#include <unifex/then.hpp>
#include <unifex/v2/async_scope.hpp>
#include <unifex/inline_scheduler.hpp>
#include <unifex/inplace_stop_token.hpp>
#include <unifex/sync_wait.hpp>
#include <unifex/scheduler_concepts.hpp>
#include <cstdio>
#include <cstdlib>
using namespace unifex;
static int moves = 0, fire_at = 0;
static inplace_stop_source* ssp = nullptr;
struct Val {
  int v = 42;
  Val() = default;
  Val(Val&& o) noexcept : v(o.v) { if (ssp && ++moves == fire_at) { std::printf("move #%d: requesting stop\n", moves); ssp->request_stop(); } }
};
struct rcvr {
  inplace_stop_source* ss; int* out;
  void set_value(Val v) && noexcept { *out = v.v; }
  void set_done() && noexcept { *out = -2; }
  template <class E> void set_error(E&&) && noexcept { *out = -3; }
  friend inplace_stop_token tag_invoke(tag_t<get_stop_token>, const rcvr& r) noexcept { return r.ss->get_token(); }
  friend inline_scheduler tag_invoke(tag_t<get_scheduler>, const rcvr&) noexcept { return {}; }
};
int main(int argc, char** argv) {
  fire_at = argc > 1 ? std::atoi(argv[1]) : 1;
  v2::async_scope scope;
  int out = 0;
  inplace_stop_source ss;
  {
    auto future = spawn_future(then(just(), [] { return Val{}; }), scope);   // completes inline: state_ == value, evt_ set
    auto op = connect(std::move(future), rcvr{&ss, &out});                   // stop callback registered here
    ssp = &ss;
    start(op);                                                              // continuation: yields the value, deleter_ runs, value travels on
    ssp = nullptr;
    std::printf("future completed: %d after %d moves\n", out, moves);
  }
  sync_wait(scope.join());
  return 0;
}
