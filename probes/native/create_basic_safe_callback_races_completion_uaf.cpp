// C19 / C02: create_basic_sender "safe" callbacks are not safe against a completion that happens concurrently on another thread.
//
// _callback::operator() does   ptr = weak_.lock();   and then   ptr.op()->callback_impl(...)   which starts with op->lock().
// The shared_ptr<void*> only keeps the heap cell holding the op's address alive, not the operation.  A completion on another
// thread between the two steps (safe_cb_holder_.reset(); unlock; complete() -> the receiver destroys the operation) leaves the
// late callback locking / reading a destroyed operation state.
//
// Deterministic schedule (no change to the library): thread A runs the completing callback and, while it is inside the body (op
// mutex held), lets thread B invoke a second safe callback: B passes weak_.lock() (the holder is still set) and blocks on the
// op's mutex.  A completes: holder reset, unlock, complete(), the receiver deletes the operation.  B wakes up inside
// callback_impl() of the deleted operation.   Build:
//   g++ -std=c++20 -g -DNDEBUG -fsanitize=address -I/repo/include -I/repo/_build/include X.cpp /repo/_build/source/libunifex.a -lpthread
#include <unifex/create_basic_sender.hpp>
#include <unifex/sender_concepts.hpp>

#include <atomic>
#include <chrono>
#include <cstdio>
#include <functional>
#include <thread>

using namespace unifex;

static std::function<void(int)> g_cb;          // the safe callback handed to the "async API"
static std::atomic<bool> g_b_go{false};
static std::function<void()> g_destroy_op;

struct Recv {
  void set_value(int) && noexcept { g_destroy_op(); }          // the receiver destroys the operation when it is completed
  void set_error(std::exception_ptr) && noexcept { g_destroy_op(); }
  void set_done() && noexcept { g_destroy_op(); }
};

int main() {
  auto sender = create_basic_sender<int>([](auto event, auto& op, auto&&... args) {
    if constexpr (event.is_start) {
      g_cb = safe_callback<int>(op);
    } else if constexpr (event.is_callback) {
      int v = std::get<0>(std::tuple<decltype(args)...>{std::forward<decltype(args)>(args)...});
      if (v == 1) {
        g_b_go.store(true);                                               // let B call the safe callback now ...
        std::this_thread::sleep_for(std::chrono::milliseconds(200));      // ... it passes weak_.lock() and blocks on the op mutex
        op.set_value(1);
      } else {
        std::printf("late callback body ran (must never happen)\n");
      }
    }
  });
  using Op = connect_result_t<decltype(sender), Recv>;
  Op* op = new Op(connect(std::move(sender), Recv{}));
  g_destroy_op = [&] { delete op; op = nullptr; };
  start(*op);

  std::thread b([] {
    while (!g_b_go.load()) {}
    g_cb(2);                 // "late" safe callback: documented to be a no-op once the sender has completed
  });
  std::thread a([] { g_cb(1); });
  a.join();
  b.join();
  std::printf("finished without a sanitizer report\n");
}
