// A future that is connected (stop callback registered at connect), receives a stop request, and is then destroyed
// without being started: drop() finds abandoned (or complete) and reaches std::terminate().
#include <unifex/spawn_future.hpp>
#include <unifex/never.hpp>
#include <unifex/v2/async_scope.hpp>
#include <unifex/inline_scheduler.hpp>
#include <unifex/inplace_stop_token.hpp>
#include <unifex/sync_wait.hpp>
#include <unifex/scheduler_concepts.hpp>
#include <cstdio>
#include <cstdlib>
#include <exception>
using namespace unifex;
struct rcvr {
  inplace_stop_source* ss; int* out;
  void set_value() && noexcept { *out = 1; }
  void set_done() && noexcept { *out = -2; }
  template <class E> void set_error(E&&) && noexcept { *out = -3; }
  friend inplace_stop_token tag_invoke(tag_t<get_stop_token>, const rcvr& r) noexcept { return r.ss->get_token(); }
  friend inline_scheduler tag_invoke(tag_t<get_scheduler>, const rcvr&) noexcept { return {}; }
};
int main(int argc, char** argv) {
  std::set_terminate([] { std::fprintf(stderr, "std::terminate() reached (drop() default branch)\n"); std::_Exit(3); });
  bool prestopped = argc > 1;
  v2::async_scope scope;
  int out = 0;
  inplace_stop_source ss;
  if (prestopped) ss.request_stop();                       // variant: token already stopped when the future is connected
  {
    auto future = spawn_future(never_sender{}, scope);    // still running: state_ == init
    auto op = connect(std::move(future), rcvr{&ss, &out}); // stop callback registered (runs inline if already stopped)
    if (!prestopped) ss.request_stop();                   // abandon(): init -> abandoned; spawned op completes with done: abandoned -> complete
    std::fprintf(stderr, "connected, stop requested, now destroying the never-started operation state\n");
  }                                                        // ~op -> _op_dropper -> drop(): state is abandoned/complete -> std::terminate()
  std::fprintf(stderr, "survived\n");
  sync_wait(scope.join());
  return 0;
}
