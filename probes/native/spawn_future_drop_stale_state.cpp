// Reproducer: _spawn_future_op_base::drop() hands deleter_ the state it loaded BEFORE waiting on evt_.ready();
// set_value()'s catch path turns value into error in between.
// build: g++ -std=c++17 -g -DNDEBUG [-fsanitize=address] -I/repo/include drop_stale.cpp /repo/_build/source/libunifex.a -lpthread
#include <unifex/spawn_future.hpp>
#include <unifex/just.hpp>
#include <unifex/then.hpp>
#include <unifex/v2/async_scope.hpp>
#include <unifex/single_thread_context.hpp>
#include <unifex/scheduler_concepts.hpp>
#include <unifex/sync_wait.hpp>
#include <atomic>
#include <chrono>
#include <cstdio>
#include <set>
#include <mutex>
#include <stdexcept>
#include <thread>
using namespace unifex;

static std::atomic<int> moves{0};
static std::atomic<bool> in_store{false}, dropping{false};
static std::mutex mu;
static std::set<const void*> live;          // addresses of successfully constructed objects
static std::atomic<int> bad_dtors{0};
static int throw_at = 2;

struct Thrower {
  int payload = 7;
  Thrower() { std::lock_guard l{mu}; live.insert(this); }
  Thrower(Thrower&& o) {
    int n = ++moves;
    if (n == throw_at) {
      // we are inside func() of complete(): state_ is already `value`
      in_store = true;
      while (!dropping) std::this_thread::yield();
      std::this_thread::sleep_for(std::chrono::milliseconds(300));   // let drop() load `value` and start spinning on evt_.ready()
      throw std::runtime_error("storing the value threw");
    }
    payload = o.payload;
    std::lock_guard l{mu}; live.insert(this);
  }
  ~Thrower() {
    std::lock_guard l{mu};
    if (!live.erase(this)) { ++bad_dtors; std::printf("!! ~Thrower() ran on %p, which was never constructed (payload bytes: %d)\n", (void*)this, payload); }
  }
};

int main(int argc, char** argv) {
  if (argc > 1) throw_at = std::atoi(argv[1]);
  single_thread_context ctx;
  v2::async_scope scope;
  {
    auto fut = spawn_future(then(schedule(ctx.get_scheduler()), []() { return Thrower{}; }), scope);
    while (!in_store) std::this_thread::yield();
    std::printf("operation is inside the value-storing callback (state_ == value); dropping the future now\n");
    dropping = true;
    // fut destroyed here: drop() loads value, waits for evt_.ready(), then deleter_(this, value)
  }
  std::printf("future dropped; move constructions: %d\n", moves.load());
  sync_wait(scope.join());
  std::printf("destructors on never-constructed objects: %d\n", bad_dtors.load());
  return bad_dtors ? 1 : 0;
}
