// dematerialize(materialize(just_done())) declares sends_done == false (dematerialize takes sender_traits<Source>::sends_done, and
// materialize declares sends_done = false) but completes with set_done: the trait under-approximates.  Trait soundness (C11 territory),
// not a C05/C01 obligation of specs/materialize.  Build: g++ -std=c++17 -O1 -g -DNDEBUG -I/repo/include -I/repo/_build/include x.cpp /repo/_build/source/libunifex.a -lpthread
#include <unifex/just_done.hpp>
#include <unifex/materialize.hpp>
#include <unifex/dematerialize.hpp>
#include <unifex/sync_wait.hpp>
#include <cstdio>
using namespace unifex;
int main() {
  auto s = dematerialize(materialize(just_done()));
  std::printf("just_done sends_done=%d  demat(mat(just_done)) sends_done=%d\n", (int)sender_traits<decltype(just_done())>::sends_done, (int)sender_traits<decltype(s)>::sends_done);
  auto r = sync_wait(std::move(s));
  std::printf("completed with done: %d\n", (int)!r.has_value());
}
