// C08 / C02 finding: v0 async_scope::end_of_scope() (and v2 async_scope::end_scope(), see
// async_scope_v1_cleanup_second_close_overtakes_last_completion.cpp) sets evt_ whenever the OLD count is 0 - also when the
// scope was already closed.  The last completion does   fetch_sub(2)  ...window...  scope->evt_.set()   ; a second
// end_of_scope() (request_stop() followed by complete()/cleanup(), or two joins) that runs inside that window sees
// (closed, 0), sets the event itself, the join completes, the owner destroys the scope, and record_done() then calls
// set() on the destroyed event.
//
// The window is two instructions wide, so the schedule is forced with the linker's --wrap on
// async_manual_reset_event::set(): the wrapper parks the completing thread right after its fetch_sub (real library
// code on both sides, nothing in /repo is modified).
//
// build (the event's set() is compiled with ASan too, otherwise its write to the freed scope is not instrumented):
//   g++ -std=c++17 -g -DNDEBUG -fsanitize=address -I/repo/include -I/repo/_build/include -c /repo/source/async_manual_reset_event_v1.cpp -o amre_v1.o
//   g++ -std=c++17 -g -DNDEBUG -fsanitize=address -I/repo/include -I/repo/_build/include \
//       async_scope_v0_second_close_overtakes_last_completion.cpp amre_v1.o /repo/_build/source/libunifex.a -lpthread \
//       -Wl,--wrap=_ZN6unifex2v15_amre24async_manual_reset_event3setEv
// observed (defect present): AddressSanitizer heap-use-after-free, WRITE in async_manual_reset_event::set() (state_.exchange)
// called from v0::record_done <- receiver::set_done, on the scope freed by main after its join completed.
// repair: set the event in end_of_scope() only when this call closed the scope:  if (!is_stopping(oldState) && op_count(oldState) == 0)
#include <unifex/v0/async_scope.hpp>
#include <unifex/single_thread_context.hpp>
#include <unifex/sync_wait.hpp>

#include <atomic>
#include <chrono>
#include <cstdio>
#include <thread>

using namespace unifex;

static std::atomic<int> phase{0};   // 1: worker may finish; 2: worker sits between fetch_sub and set(); 3: scope destroyed
static std::atomic<bool> running{false};
static std::thread::id workerId;

extern "C" void __real__ZN6unifex2v15_amre24async_manual_reset_event3setEv(void* self);
extern "C" void __wrap__ZN6unifex2v15_amre24async_manual_reset_event3setEv(void* self) {
  if (std::this_thread::get_id() == workerId && phase.load() == 1) {
    // we are record_done(), after  opState_.fetch_sub(2)  returned (closed, 1)
    phase.store(2);
    // park until the joiner has destroyed the scope; give up after 2 s (repaired library: the join waits for this set())
    auto deadline = std::chrono::steady_clock::now() + std::chrono::seconds(2);
    while (phase.load() != 3 && std::chrono::steady_clock::now() < deadline) std::this_thread::yield();
    std::puts(phase.load() == 3 ? "worker: calling evt_.set() of the scope the joiner has already destroyed"
                                : "worker: the join is still waiting for this set() (no overtaking)");
  }
  __real__ZN6unifex2v15_amre24async_manual_reset_event3setEv(self);
}

int main() {
  single_thread_context ctx;
  auto* scope = new v0::async_scope();

  scope->spawn_call_on(ctx.get_scheduler(), []() noexcept {
    workerId = std::this_thread::get_id();
    running.store(true);
    while (phase.load() != 1) std::this_thread::yield();
  });

  while (!running.load()) std::this_thread::yield();   // the spawned operation is running (a not yet started one would be cancelled)

  scope->request_stop();   // first close: (closed, 1); the event is not set
  phase.store(1);          // let the spawned operation complete: record_done -> fetch_sub -> (closed, 0) -> [parked]
  while (phase.load() != 2) std::this_thread::yield();

  sync_wait(scope->complete());   // second close: old state (closed, 0) -> evt_.set() -> the join completes at once
  std::puts("main: join completed; destroying the scope");
  delete scope;
  phase.store(3);

  // ~single_thread_context joins the worker
  return 0;
}
