// io_uring_context read_sender / write_sender ::operation::on_read_complete / on_write_complete decode the result as
//     if (get_stop_token(receiver_).stop_requested()) set_done();  else if (result_ >= 0) set_value(result_); else if (result_ == -ECANCELED) set_done(); else set_error(-result_);
// i.e. a transfer that SUCCEEDED (CQE res >= 0: bytes were consumed from / written to the descriptor) is reported as done whenever a stop
// request has arrived by the time its continuation runs.  The byte count is lost: for a stream the bytes are gone (a retry misses them),
// for a write the caller does not know they were written (a retry duplicates them).
// Expected (C14): each read/write completes with the number of bytes actually transferred, with the OS error, or with done (-ECANCELED:
// nothing was transferred).  io_epoll_context delivers the value in the same situation.
// Deterministic schedule: two reads A and B, each on its own pipe that already holds one byte, are started in one batch on the I/O
// thread; both CQEs (res = 1) are in the completion ring when the loop looks; A's receiver requests stop on B's token.
//
// g++ -std=c++17 -g -DNDEBUG -I/repo/include -I/repo/_build/include uring_successful_read_reported_as_done.cpp /repo/_build/source/libunifex.a -lpthread
#include <unifex/linux/io_uring_context.hpp>
#include <unifex/inplace_stop_token.hpp>
#include <unifex/manual_lifetime.hpp>
#include <unifex/receiver_concepts.hpp>
#include <unifex/scheduler_concepts.hpp>
#include <unifex/sender_concepts.hpp>
#include <unifex/span.hpp>
#include <atomic>
#include <cerrno>
#include <chrono>
#include <cstdio>
#include <cstdlib>
#include <thread>
#include <fcntl.h>
#include <unistd.h>
using namespace unifex; using namespace unifex::linuxos;
using namespace std::chrono_literals;

static inplace_stop_source srcB;
static std::atomic<int> aResult{-100}, bResult{-100};   // >= 0: value, -1: done, -2: error
struct receiver_a {
  void set_value(ssize_t n) && noexcept { aResult = (int)n; srcB.request_stop(); }   // "the remaining work is unnecessary": stop B
  template <typename E> void set_error(E&&) && noexcept { aResult = -2; }
  void set_done() && noexcept { aResult = -1; }
};
struct receiver_b {
  void set_value(ssize_t n) && noexcept { bResult = (int)n; }
  template <typename E> void set_error(E&&) && noexcept { bResult = -2; }
  void set_done() && noexcept { bResult = -1; }
  friend inplace_stop_token tag_invoke(tag_t<get_stop_token>, const receiver_b&) noexcept { return srcB.get_token(); }
};
static char bufA[1], bufB[1];
static io_uring_context::async_read_only_file *rdA, *rdB;
static auto make_a() { return unifex::connect(async_read_some_at(*rdA, 0, as_writable_bytes(span{bufA, 1})), receiver_a{}); }
static auto make_b() { return unifex::connect(async_read_some_at(*rdB, 0, as_writable_bytes(span{bufB, 1})), receiver_b{}); }
static manual_lifetime<decltype(make_a())> opA;
static manual_lifetime<decltype(make_b())> opB;
struct starter_receiver {
  void set_value() && noexcept { opA.construct_with([] { return make_a(); }); opB.construct_with([] { return make_b(); }); unifex::start(opA.get()); unifex::start(opB.get()); }
  template <typename E> void set_error(E&&) && noexcept {}
  void set_done() && noexcept {}
};

int main() {
  io_uring_context ctx;
  inplace_stop_source runStop;
  std::thread t{[&] { ctx.run(runStop.get_token()); }};
  int a[2], b[2];
  if (pipe2(a, O_CLOEXEC | O_NONBLOCK) != 0 || pipe2(b, O_CLOEXEC | O_NONBLOCK) != 0) { std::perror("pipe2"); return 2; }
  if (write(a[1], "A", 1) != 1 || write(b[1], "B", 1) != 1) { std::perror("write"); return 2; }
  io_uring_context::async_read_only_file fa{ctx, dup(a[0])}, fb{ctx, dup(b[0])}; rdA = &fa; rdB = &fb;
  auto s = unifex::connect(schedule(ctx.get_scheduler()), starter_receiver{});
  unifex::start(s);
  for (int i = 0; i < 100 && (aResult.load() == -100 || bResult.load() == -100); ++i) std::this_thread::sleep_for(20ms);
  std::printf("read A: %s (%d)   read B: %s (%d)\n", aResult >= 0 ? "value" : aResult == -1 ? "done" : "error/none", aResult.load(),
              bResult >= 0 ? "value" : bResult == -1 ? "done" : "error/none", bResult.load());
  char c; ssize_t left = read(b[0], &c, 1);
  std::printf("B's buffer holds '%c'; bytes left in B's pipe: %s\n", bufB[0] ? bufB[0] : '-', left == 1 ? "1 (not consumed)" : (errno == EAGAIN ? "0 (the byte was consumed by the read that reported done)" : "?"));
  bool defect = bResult.load() == -1 && bufB[0] == 'B' && left != 1;
  if (defect) std::printf("DEFECT: a read that transferred 1 byte completed with set_done(): the byte count (and, for the application, the byte) is lost\n");
  std::fflush(stdout);
  runStop.request_stop(); t.join();
  return defect ? 1 : 0;
}
