// io_uring_context::run_impl(): when pending_operation_count() == cqEntryCount_ (every completion-queue slot is spoken for)
// try_register_remote_queue_notification() cannot take an SQE for the eventfd poll, remoteQueueReadSubmitted_ stays false and
// the remote queue is NOT marked inactive -- yet the loop still blocks:
//     if (isIdle && (remoteQueueReadSubmitted_ || pending_operation_count() == cqEntryCount_)) { minCompletionCount = 1; ... }
// From then on a producer on another thread finds the queue "active", writes no eventfd (nobody polls it anyway) and its item
// sits in the remote queue until an unrelated I/O completion happens to wake the loop.  The stop operation of run(stop_token)
// travels the same way: run() does not return after stop is requested.
// Expected (C14): work scheduled from any thread runs on the thread inside run() and is never lost, including when it is
// submitted while the loop is blocked waiting; run(stop_token) returns after stop is requested.
//
// g++ -std=c++17 -g -DNDEBUG -I/repo/include -I/repo/_build/include uring_cq_full_blocks_without_wakeup.cpp /repo/_build/source/libunifex.a -lpthread
#include <unifex/linux/io_uring_context.hpp>
#include <unifex/inplace_stop_token.hpp>
#include <unifex/receiver_concepts.hpp>
#include <unifex/scheduler_concepts.hpp>
#include <unifex/sender_concepts.hpp>
#include <unifex/span.hpp>
#include <unifex/manual_lifetime.hpp>
#include <atomic>
#include <chrono>
#include <cstdio>
#include <cstdlib>
#include <thread>
#include <fcntl.h>
#include <unistd.h>
using namespace unifex; using namespace unifex::linuxos;
using namespace std::chrono_literals;

static std::atomic<int> readsCompleted{0};
struct read_receiver {            // no get_stop_token customisation: unstoppable_token
  void set_value(ssize_t) && noexcept { ++readsCompleted; }
  template <typename E> void set_error(E&&) && noexcept { ++readsCompleted; }
  void set_done() && noexcept { ++readsCompleted; }
};
static std::atomic<bool> flag{false};
struct flag_receiver {
  void set_value() && noexcept { flag.store(true); }
  template <typename E> void set_error(E&&) && noexcept {}
  void set_done() && noexcept { flag.store(true); }
};

constexpr int N = 512;
static char bufs[N];
static int count = N;      // argv[1]: number of reads to start (control: 511 leaves one completion-queue slot for the eventfd poll)
static io_uring_context::async_read_only_file* rdp;
static auto make_read(int i) { return unifex::connect(async_read_some_at(*rdp, 0, as_writable_bytes(span{bufs + i, 1})), read_receiver{}); }
using read_op = decltype(make_read(0));
static manual_lifetime<read_op> ops[N];
struct starter_receiver {
  void set_value() && noexcept {
    for (int i = 0; i < count; ++i) {       // on the I/O thread
      ops[i].construct_with([i] { return make_read(i); });
      unifex::start(ops[i].get());
    }
  }
  template <typename E> void set_error(E&&) && noexcept {}
  void set_done() && noexcept {}
};

int main(int argc, char** argv) {
  if (argc > 1) { count = std::atoi(argv[1]); if (count < 0 || count > N) return 2; }
  io_uring_context ctx;
  inplace_stop_source stopSource;
  std::atomic<bool> runReturned{false};
  std::thread t{[&] { ctx.run(stopSource.get_token()); runReturned.store(true); }};
  auto sched = ctx.get_scheduler();

  int fds[2];
  if (pipe2(fds, O_CLOEXEC) != 0) { std::perror("pipe2"); return 2; }
  io_uring_context::async_read_only_file rd{ctx, fds[0]};

  // as many reads on the (empty) pipe as the completion queue has entries (io_uring_setup(256): 512 CQ entries)
  rdp = &rd;
  auto starter = unifex::connect(schedule(sched), starter_receiver{});
  unifex::start(starter);
  std::this_thread::sleep_for(500ms);        // let the loop submit all of them and go to sleep
  std::printf("%d reads in flight on an empty pipe, %d completed\n", count, readsCompleted.load());

  // a second thread schedules work onto the context
  auto remote = unifex::connect(schedule(sched), flag_receiver{});
  unifex::start(remote);
  std::this_thread::sleep_for(2s);
  bool lost = !flag.load();
  std::printf("remotely scheduled item %s after 2 s\n", lost ? "HAS NOT RUN" : "ran");

  // ... and so does the stop request of run()
  bool stopLost = false;
  if (lost) {
    stopSource.request_stop();
    std::this_thread::sleep_for(1s);
    stopLost = !runReturned.load();
    std::printf("run(stop_token) %s 1 s after request_stop()\n", stopLost ? "HAS NOT RETURNED" : "returned");
    std::printf("DEFECT: the loop blocked in io_uring_enter(min_complete=1) without marking the remote queue inactive / registering the eventfd poll\n");
  }
  // an unrelated completion wakes the loop: everything stuck in the remote queue runs now
  char c = 'x';
  if (write(fds[1], &c, 1) != 1) std::perror("write");
  std::this_thread::sleep_for(500ms);
  std::printf("after one byte arrived on the pipe: remote item %s, run() %s, reads completed %d\n", flag.load() ? "ran" : "still not run",
              runReturned.load() ? "returned" : "still running", readsCompleted.load());
  std::fflush(stdout);
  // the remaining reads reference this frame: leave without unwinding
  std::_Exit(lost ? 1 : 0);
}
