#include <unifex/spawn_future.hpp>
#include <unifex/just.hpp>
#include <unifex/v2/async_scope.hpp>
#include <unifex/inline_scheduler.hpp>
#include <unifex/inplace_stop_token.hpp>
#include <unifex/sync_wait.hpp>
#include <unifex/scheduler_concepts.hpp>
#include <cstdio>
using namespace unifex;
struct rcvr {
  inplace_stop_source* ss; int* out;
  void set_value(int v) && noexcept { *out = v; }
  void set_done() && noexcept { *out = -2; }
  template <class E> void set_error(E&&) && noexcept { *out = -3; }
  friend inplace_stop_token tag_invoke(tag_t<get_stop_token>, const rcvr& r) noexcept { return r.ss->get_token(); }
  friend inline_scheduler tag_invoke(tag_t<get_scheduler>, const rcvr&) noexcept { return {}; }
};
int main() {
  v2::async_scope scope;
  int out = 0;
  inplace_stop_source ss;
  {
    auto future = spawn_future(just(42), scope);       // spawned op completes inline
    auto op = connect(std::move(future), rcvr{&ss, &out});
    start(op);                                         // future completes with 42; spawned op state is deleted
    printf("future completed: %d\n", out);
    // the future's operation state is still alive (as it would be inside when_all
    // while a sibling is still running); now the consumer's stop source fires:
    ss.request_stop();
    printf("stop requested after completion\n");
  }
  sync_wait(scope.join());
  return 0;
}
