// take_until: cleanup operation, trigger_receiver::set_done() destroys sourceOp_ instead of triggerOp_
// (include/unifex/take_until.hpp; trigger_receiver::set_error right below it uses triggerOp_).
// Effect: when cleanup(trigger) completes with done, the SOURCE's cleanup operation is destroyed (a second time if it
// has already completed, or while it is still running if it has not) and the TRIGGER's cleanup operation is never destroyed.
// Verifier: specs/take_until unit trigger_receiver_set_done:
//   "P: a cleanup operation is destroyed by its OWN completion ..." / "... destroyed exactly once, after it was started".
//
//   g++ -std=c++17 -g -DNDEBUG -I/repo/include -I/repo/_build/include take_until_trigger_done_destroys_source_op.cpp \
//       /repo/_build/source/libunifex.a -lpthread && ./a.out
#include <unifex/take_until.hpp>
#include <unifex/stream_concepts.hpp>
#include <unifex/sender_concepts.hpp>
#include <unifex/receiver_concepts.hpp>
#include <unifex/inplace_stop_token.hpp>
#include <cstdio>
#include <exception>
using namespace unifex;

static int constructed[2], destroyed[2];        // [0] cleanup(source) operations, [1] cleanup(trigger) operations
static const char* const nameOf[2] = {"cleanup(source)", "cleanup(trigger)"};

template <int Which, typename R>
struct counting_cleanup_op {
  R r;
  explicit counting_cleanup_op(R&& rr) : r((R&&)rr) { ++constructed[Which]; }
  counting_cleanup_op(counting_cleanup_op&&) = delete;
  ~counting_cleanup_op() { ++destroyed[Which]; std::printf("    ~operation of %s (destruction #%d)\n", nameOf[Which], destroyed[Which]); }
  void start() noexcept { unifex::set_done(std::move(r)); }      // cleanup completes with done
};
template <int Which>
struct counting_cleanup_sender {
  template <template <typename...> class V, template <typename...> class T> using value_types = V<>;
  template <template <typename...> class V> using error_types = V<std::exception_ptr>;
  static constexpr bool sends_done = true;
  template <typename R>
  friend auto tag_invoke(tag_t<connect>, counting_cleanup_sender, R&& r) { return counting_cleanup_op<Which, remove_cvref_t<R>>{(R&&)r}; }
};
template <typename R>
struct done_op { R r; void start() noexcept { unifex::set_done(std::move(r)); } };
struct done_next_sender {     // next() that ends the sequence at once
  template <template <typename...> class V, template <typename...> class T> using value_types = V<T<>>;
  template <template <typename...> class V> using error_types = V<std::exception_ptr>;
  static constexpr bool sends_done = true;
  template <typename R>
  friend done_op<remove_cvref_t<R>> tag_invoke(tag_t<connect>, done_next_sender, R&& r) { return {(R&&)r}; }
};
template <int Which>
struct test_stream {
  friend done_next_sender tag_invoke(tag_t<next>, test_stream&) { return {}; }
  friend counting_cleanup_sender<Which> tag_invoke(tag_t<cleanup>, test_stream&) { return {}; }
};
struct rcvr {
  const char* what;
  void set_value() && noexcept { std::printf("  %s: value\n", what); }
  void set_done() && noexcept { std::printf("  %s: done\n", what); }
  void set_error(std::exception_ptr) && noexcept { std::printf("  %s: error\n", what); }
  friend unstoppable_token tag_invoke(tag_t<get_stop_token>, const rcvr&) noexcept { return {}; }
};

int main() {
  auto s = take_until(test_stream<0>{}, test_stream<1>{});
  {
    std::printf("next(take_until(source, trigger))\n");
    auto op = connect(next(s), rcvr{"next"});
    start(op);
  }
  {
    std::printf("cleanup(take_until(source, trigger))\n");
    auto op = connect(cleanup(s), rcvr{"cleanup"});
    start(op);
  }
  for (int i = 0; i < 2; i++)
    std::printf("%s operations: constructed %d, destroyed %d\n", nameOf[i], constructed[i], destroyed[i]);
  if (destroyed[0] != constructed[0] || destroyed[1] != constructed[1]) {
    std::printf("DEFECT: cleanup operations are not destroyed exactly once each\n");
    return 1;
  }
  return 0;
}
