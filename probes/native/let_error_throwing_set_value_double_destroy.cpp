// C02 (let_error): the source receiver's set_value destroys the source operation state BEFORE forwarding, has a
// conditional noexcept and no try block.  If the downstream receiver's set_value throws, the exception travels back
// into the (already destroyed) source operation, whose handler signals set_error on the (already destroyed) receiver
// object; let_error's set_error then runs `destroyPredOp` and destroys the source operation state a SECOND time.
//
//   g++ -std=c++17 -g -DNDEBUG [-fsanitize=address] -I/repo/include -I/repo/_build/include \
//       let_error_throwing_set_value_double_destroy.cpp /repo/_build/source/libunifex.a -lpthread
//
// Expected on the unchanged tree: "DOUBLE DESTROY of a Tracked object" and exit code 1
// (with -fsanitize=address additionally: attempting double-free).
#include <unifex/just.hpp>
#include <unifex/let_error.hpp>
#include <unifex/sender_concepts.hpp>

#include <cstdio>
#include <cstdlib>
#include <set>
#include <stdexcept>

static std::set<const void*> live;
static int doubleDestroys = 0;

// a value with a real destructor; every object (also a moved-from one) owns something
struct Tracked {
  Tracked() { live.insert(this); }
  Tracked(const Tracked&) { live.insert(this); }
  Tracked(Tracked&&) noexcept { live.insert(this); }
  ~Tracked() {
    if (!live.erase(this)) {
      ++doubleDestroys;
      std::printf("DOUBLE DESTROY of a Tracked object at %p\n", (const void*)this);
    }
  }
};

static int valueSignals = 0, errorSignals = 0, doneSignals = 0;

struct ThrowingReceiver {
  template <typename... Vs>
  void set_value(Vs&&...) {  // may throw: allowed by the receiver concept
    ++valueSignals;
    throw std::runtime_error("receiver set_value throws");
  }
  template <typename E>
  void set_error(E&&) noexcept {
    ++errorSignals;
  }
  void set_done() noexcept { ++doneSignals; }
};

int main() {
  {
    auto sender = unifex::let_error(
        unifex::just(Tracked{}), [](auto&&) { return unifex::just(Tracked{}); });
    auto op = unifex::connect(std::move(sender), ThrowingReceiver{});
    unifex::start(op);
  }
  std::printf(
      "set_value calls=%d set_error calls=%d set_done calls=%d, objects still alive=%zu, double destroys=%d\n",
      valueSignals, errorSignals, doneSignals, live.size(), doubleDestroys);
  return doubleDestroys != 0 ? 1 : 0;
}
