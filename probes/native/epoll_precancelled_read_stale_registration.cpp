#include <unifex/linux/io_epoll_context.hpp>
#include <unifex/inplace_stop_token.hpp>
#include <unifex/sync_wait.hpp>
#include <unifex/when_all.hpp>
#include <unifex/with_query_value.hpp>
#include <unifex/scope_guard.hpp>
#include <unifex/span.hpp>
#include <unifex/then.hpp>
#include <unifex/on.hpp>
#include <cstdio>
#include <thread>
#include <vector>
using namespace unifex; using namespace unifex::linuxos;
int main() {
  io_epoll_context ctx;
  inplace_stop_source stopSource;
  std::thread t{[&] { ctx.run(stopSource.get_token()); }};
  scope_guard stopOnExit = [&]() noexcept { stopSource.request_stop(); t.join(); };
  auto sched = ctx.get_scheduler();
  auto [rPipe, wPipe] = open_pipe(sched);
  std::vector<char> buf(1);
  // 1. a read whose stop token is already stopped; the pipe is empty
  inplace_stop_source pre; pre.request_stop();
  auto r1 = sync_wait(with_query_value(
      async_read_some(rPipe, as_writable_bytes(span{buf.data(), 1})), get_stop_token, pre.get_token()));
  std::printf("read #1 (pre-cancelled): %s\n", r1 ? "value" : "done");
  // 2. a later read on the same descriptor, then data arrives
  const char data[1] = {'x'};
  std::thread watchdog{[] { std::this_thread::sleep_for(std::chrono::seconds(5)); std::printf("HANG: read #2 never completed\n"); std::_Exit(3); }};
  watchdog.detach();
  auto r2 = sync_wait(when_all(
      async_read_some(rPipe, as_writable_bytes(span{buf.data(), 1})),
      async_write_some(wPipe, as_bytes(span{data, 1}))));
  std::printf("read #2 completed: %s buf=%c\n", r2 ? "value" : "done", buf[0]);
  return 0;
}
