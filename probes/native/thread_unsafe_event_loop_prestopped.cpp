#include <unifex/thread_unsafe_event_loop.hpp>
#include <unifex/inplace_stop_token.hpp>
#include <unifex/scheduler_concepts.hpp>
#include <unifex/sender_concepts.hpp>
#include <unifex/receiver_concepts.hpp>
#include <cstdio>
#include <cstring>
#include <new>
using namespace unifex;
struct rcvr {
  inplace_stop_source* ss; int* out;
  void set_value() && noexcept { *out = 1; }
  void set_done() && noexcept { *out = 2; }
  void set_error(std::exception_ptr) && noexcept { *out = 3; }
  friend inplace_stop_token tag_invoke(tag_t<get_stop_token>, const rcvr& r) noexcept { return r.ss->get_token(); }
};
int main() {
  thread_unsafe_event_loop loop;
  inplace_stop_source ss; ss.request_stop();
  int out = 0;
  auto snd = schedule_after(loop.get_scheduler(), std::chrono::seconds(5));
  using op_t = decltype(connect(std::move(snd), rcvr{&ss, &out}));
  alignas(op_t) unsigned char storage[sizeof(op_t)];
  std::memset(storage, 0x5a, sizeof(storage));   // poison: op state placed in non-zero memory
  auto* op = new (storage) op_t(connect(std::move(snd), rcvr{&ss, &out}));
  start(*op);   // stop already requested: cancel_callback runs inline inside start()
  printf("started\n");
  return 0;
}
