// io_uring_context read_sender / write_sender / accept_sender ::operation::start_io() is BOTH the first submission attempt and the retry
// continuation (on_schedule_complete) of an operation that found no ring space (schedule_pending_io).  It begins with
//     stopCallback_.construct(get_stop_token(receiver_), cancel_callback{*this});
// so every retry placement-constructs the stop callback again on top of the one that is still registered.
// Phase A (deterministic): a stop token whose callback_type records live objects: the 257th of 257 reads started in one batch
//          (submission ring: 256 entries) constructs its callback twice without destroying it in between.
// Phase B (consequence with the library's inplace_stop_source): the re-constructed callback is linked into the source's intrusive list a
//          second time (it becomes its own successor): request_stop() never returns / the I/O thread waits forever in the callback's destructor.
// Expected (C04/C14): one registration per operation, deregistered before completion; stop -> every read completes with done.
//
// g++ -std=c++17 -g -DNDEBUG -I/repo/include -I/repo/_build/include uring_start_io_retry_constructs_stop_callback_twice.cpp /repo/_build/source/libunifex.a -lpthread
#include <unifex/linux/io_uring_context.hpp>
#include <unifex/inplace_stop_token.hpp>
#include <unifex/manual_lifetime.hpp>
#include <unifex/receiver_concepts.hpp>
#include <unifex/scheduler_concepts.hpp>
#include <unifex/sender_concepts.hpp>
#include <unifex/span.hpp>
#include <atomic>
#include <chrono>
#include <cstdio>
#include <cstdlib>
#include <cstring>
#include <mutex>
#include <set>
#include <thread>
#include <fcntl.h>
#include <unistd.h>
using namespace unifex; using namespace unifex::linuxos;
using namespace std::chrono_literals;

// ---- phase A: a stop token that watches its callbacks ----
static std::mutex mtx; static std::set<void*> liveCallbacks; static std::atomic<int> constructedOverLive{0}, constructions{0};
struct watching_token {
  template <typename F>
  struct callback_type {
    callback_type(watching_token, F&&) noexcept {
      std::lock_guard<std::mutex> l{mtx}; ++constructions;
      if (!liveCallbacks.insert(this).second) { ++constructedOverLive; }
    }
    ~callback_type() { std::lock_guard<std::mutex> l{mtx}; liveCallbacks.erase(this); }
  };
  static constexpr bool stop_requested() noexcept { return false; }
  static constexpr bool stop_possible() noexcept { return true; }
};
static std::atomic<int> completedA{0};
struct watching_receiver {
  void set_value(ssize_t) && noexcept { ++completedA; }
  template <typename E> void set_error(E&&) && noexcept { ++completedA; }
  void set_done() && noexcept { ++completedA; }
  friend watching_token tag_invoke(tag_t<get_stop_token>, const watching_receiver&) noexcept { return {}; }
};
// ---- phase B: the library's own stop source ----
static std::atomic<int> completedB{0}, doneB{0};
struct inplace_receiver {
  inplace_stop_token tok;
  void set_value(ssize_t) && noexcept { ++completedB; }
  template <typename E> void set_error(E&&) && noexcept { ++completedB; }
  void set_done() && noexcept { ++completedB; ++doneB; }
  friend inplace_stop_token tag_invoke(tag_t<get_stop_token>, const inplace_receiver& r) noexcept { return r.tok; }
};

constexpr int N = 257;                 // one more than the submission ring holds
static char bufs[2 * N];
static io_uring_context::async_read_only_file* rdp;
static inplace_stop_source* srcB;
static auto make_read_a(int i) { return unifex::connect(async_read_some_at(*rdp, 0, as_writable_bytes(span{bufs + i, 1})), watching_receiver{}); }
static auto make_read_b(int i) { return unifex::connect(async_read_some_at(*rdp, 0, as_writable_bytes(span{bufs + N + i, 1})), inplace_receiver{srcB->get_token()}); }
static manual_lifetime<decltype(make_read_a(0))> opsA[N];
static manual_lifetime<decltype(make_read_b(0))> opsB[N];
template <bool B>
struct starter_receiver {
  void set_value() && noexcept {         // on the I/O thread: all N reads in one batch
    for (int i = 0; i < N; ++i) {
      if constexpr (B) { opsB[i].construct_with([i] { return make_read_b(i); }); unifex::start(opsB[i].get()); }
      else { opsA[i].construct_with([i] { return make_read_a(i); }); unifex::start(opsA[i].get()); }
    }
  }
  template <typename E> void set_error(E&&) && noexcept {}
  void set_done() && noexcept {}
};

int main() {
  io_uring_context ctx;
  inplace_stop_source runStop;
  std::thread t{[&] { ctx.run(runStop.get_token()); }};
  auto sched = ctx.get_scheduler();
  int fds[2];
  if (pipe2(fds, O_CLOEXEC) != 0) { std::perror("pipe2"); return 2; }
  io_uring_context::async_read_only_file rd{ctx, fds[0]}; rdp = &rd;

  auto sa = unifex::connect(schedule(sched), starter_receiver<false>{});
  unifex::start(sa);
  std::this_thread::sleep_for(500ms);
  std::printf("phase A: %d reads started, %d stop-callback constructions, %d of them over a callback that was still alive at the same address\n",
              N, constructions.load(), constructedOverLive.load());
  bool defect = constructedOverLive.load() > 0;
  if (defect) std::printf("DEFECT: start_io() constructed the stop callback of a retried operation a second time without destroying the first\n");
  std::fflush(stdout);

  // phase B: the same with inplace_stop_source; then request stop
  inplace_stop_source src; srcB = &src;
  // release the phase-A reads first so that the ring is empty again
  { char z[N]; std::memset(z, 'a', sizeof z); if (write(fds[1], z, N) != N) std::perror("write"); }
  for (int i = 0; i < 100 && completedA.load() < N; ++i) std::this_thread::sleep_for(20ms);
  std::printf("phase A reads completed: %d\n", completedA.load());
  auto sb = unifex::connect(schedule(sched), starter_receiver<true>{});
  unifex::start(sb);
  std::this_thread::sleep_for(500ms);
  std::atomic<bool> stopReturned{false};
  std::thread stopper{[&] { src.request_stop(); stopReturned.store(true); }};
  for (int i = 0; i < 150 && !(stopReturned.load() && completedB.load() == N); ++i) std::this_thread::sleep_for(20ms);
  std::printf("phase B: request_stop() %s after 3 s; %d of %d reads completed (%d with done)\n", stopReturned.load() ? "returned" : "HAS NOT RETURNED", completedB.load(), N, doneB.load());
  if (!stopReturned.load() || completedB.load() != N) { std::printf("DEFECT (consequence): the stop source's callback list was corrupted by the second construction\n"); defect = true; }
  std::fflush(stdout);
  std::_Exit(defect ? 1 : 0);
}
