// io_uring_context read_sender::operation::start_io() constructs the stop callback BEFORE the READV SQE is taken.
// With a stop token that is already stopped (stop requested before start_io runs: e.g. while a remotely started
// operation waits in the remote queue) the callback runs inline: request_stop() -> request_stop_local() puts an
// IORING_OP_ASYNC_CANCEL SQE into the ring that PRECEDES the READV it is meant to cancel.  The kernel processes it
// first, finds nothing (-ENOENT), and the READV then waits for data as if no stop had been requested.
// Expected (C14: "or with done if its stop token fired", quantifier "cancel before start"): done, promptly.
// Observed: the read does not complete until somebody writes to the pipe.
//
// g++ -std=c++17 -g -DNDEBUG -I/repo/include -I/repo/_build/include uring_prestopped_read_cancel_lost.cpp /repo/_build/source/libunifex.a -lpthread
#include <unifex/linux/io_uring_context.hpp>
#include <unifex/inplace_stop_token.hpp>
#include <unifex/sync_wait.hpp>
#include <unifex/with_query_value.hpp>
#include <unifex/scope_guard.hpp>
#include <unifex/span.hpp>
#include <atomic>
#include <chrono>
#include <cstdio>
#include <thread>
#include <fcntl.h>
#include <unistd.h>
using namespace unifex; using namespace unifex::linuxos;
using namespace std::chrono_literals;

int main() {
  io_uring_context ctx;
  inplace_stop_source stopSource;
  std::thread t{[&] { ctx.run(stopSource.get_token()); }};
  scope_guard stopOnExit = [&]() noexcept { stopSource.request_stop(); t.join(); };

  int fds[2];
  if (pipe2(fds, O_CLOEXEC) != 0) { std::perror("pipe2"); return 2; }
  io_uring_context::async_read_only_file rd{ctx, fds[0]};
  char buf[1] = {0};

  // control: a stop request that arrives AFTER the read was submitted cancels it promptly
  {
    inplace_stop_source late;
    std::thread canceller{[&] { std::this_thread::sleep_for(200ms); late.request_stop(); }};
    auto t0 = std::chrono::steady_clock::now();
    auto r = sync_wait(with_query_value(async_read_some_at(rd, 0, as_writable_bytes(span{buf, 1})), get_stop_token, late.get_token()));
    auto ms = std::chrono::duration_cast<std::chrono::milliseconds>(std::chrono::steady_clock::now() - t0).count();
    canceller.join();
    std::printf("control  (stop after submission): %s after %lld ms\n", r ? "value" : "done", (long long)ms);
  }

  // the case: stop requested before the operation is started
  inplace_stop_source pre; pre.request_stop();
  std::atomic<bool> completed{false};
  std::thread helper{[&] {
    std::this_thread::sleep_for(2s);
    if (!completed.load()) {
      std::printf("DEFECT: a read started with an already-stopped token is still pending after 2 s (cancellation lost); writing a byte to release it\n");
      std::fflush(stdout);
      char c = 'x';
      if (write(fds[1], &c, 1) != 1) std::perror("write");
    }
  }};
  auto t0 = std::chrono::steady_clock::now();
  auto r = sync_wait(with_query_value(async_read_some_at(rd, 0, as_writable_bytes(span{buf, 1})), get_stop_token, pre.get_token()));
  completed.store(true);
  auto ms = std::chrono::duration_cast<std::chrono::milliseconds>(std::chrono::steady_clock::now() - t0).count();
  helper.join();
  std::printf("pre-stopped read: %s after %lld ms (buf=%c)\n", r ? "value" : "done", (long long)ms, buf[0] ? buf[0] : '-');
  close(fds[1]);
  return ms >= 1500 ? 1 : 0;
}
