// io_uring_context::accept_sender::operation -- what happens to the ACCEPTED descriptor when a stop request races the accept's completion.
// A CQE with res >= 0 for IORING_OP_ACCEPT means the kernel has installed a new open descriptor in the process.  C14 ("descriptors ...
// are released exactly once", "completes ... with done if its stop token fired - in which case the context keeps no reference"): that
// descriptor must be wrapped exactly once (async_read_write_file{ctx, res} = safe_file_descriptor{res}) and then either be delivered to the
// receiver or be closed.  If on_accept completed with set_done() because a stop request had arrived although result_ >= 0 (the decoding
// used before fix 371655c: `if (stop_requested()) set_done(); else if (result_ >= 0) ...`), nobody would own the descriptor: it leaks and the
// peer's connection stays established forever.
// This probe is the native counterpart of group specs/uring_accept (obligations "done is delivered for a CQE with res == -ECANCELED only",
// "no leaked OS resource", and the model of the temporary in EV_set_value: whatever the receiver does not move out is closed at the end of
// the full expression).  On the current tree it must print OK and exit 0; compiled against a header with the old decoding it prints DEFECT
// (exit 1):   sed '/^class io_uring_context::accept_sender/,/^class io_uring_context::accept_stream/ s/if (self.result_ >= 0) {/if
//   (get_stop_token(self.receiver_).stop_requested()) { unifex::set_done(std::move(self.receiver_)); } else if (self.result_ >= 0) {/'
//
// Deterministic schedule: two listening sockets, each with one connection already waiting; accept A and accept B are started in one batch
// on the I/O thread, so both CQEs (res = new fd) are in the completion ring when the loop looks; A's receiver requests stop on B's token
// before B's continuation runs: B's stop callback registers a cancellation (refCount_ 1 -> 2, ASYNC_CANCEL -> -ENOENT/-EALREADY), B
// completes from the cancel's CQE with result_ >= 0 and a stopped token.  A third accept C uses a receiver that ignores the value.
//
// g++ -std=c++17 -O1 -g -DNDEBUG -I/repo/include -I/repo/_build/include uring_accept_stop_races_completion_fd.cpp /repo/_build/source/libunifex.a -lpthread
#include <unifex/linux/io_uring_context.hpp>
#include <unifex/inplace_stop_token.hpp>
#include <unifex/manual_lifetime.hpp>
#include <unifex/receiver_concepts.hpp>
#include <unifex/scheduler_concepts.hpp>
#include <unifex/sender_concepts.hpp>
#include <atomic>
#include <cerrno>
#include <chrono>
#include <cstdio>
#include <cstdlib>
#include <optional>
#include <thread>
#include <arpa/inet.h>
#include <dirent.h>
#include <fcntl.h>
#include <netinet/in.h>
#include <poll.h>
#include <sys/socket.h>
#include <unistd.h>
using namespace unifex; using namespace unifex::linuxos;
using namespace std::chrono_literals;
using file_t = io_uring_context::async_read_write_file;

static int open_fds() { int n = 0; DIR* d = opendir("/proc/self/fd"); if (!d) return -1; while (readdir(d)) ++n; closedir(d); return n - 3; /* ., .., the DIR's own fd */ }
static int listener(unsigned short* port) {
  int s = socket(AF_INET, SOCK_STREAM | SOCK_CLOEXEC | SOCK_NONBLOCK, 0); sockaddr_in a{}; a.sin_family = AF_INET; a.sin_addr.s_addr = htonl(INADDR_LOOPBACK); a.sin_port = 0;
  if (s < 0 || bind(s, (sockaddr*)&a, sizeof a) != 0 || listen(s, 8) != 0) { std::perror("listener"); std::exit(2); }
  socklen_t l = sizeof a; getsockname(s, (sockaddr*)&a, &l); *port = ntohs(a.sin_port); return s;
}
static int client(unsigned short port) {
  int s = socket(AF_INET, SOCK_STREAM | SOCK_CLOEXEC, 0); sockaddr_in a{}; a.sin_family = AF_INET; a.sin_addr.s_addr = htonl(INADDR_LOOPBACK); a.sin_port = htons(port);
  if (s < 0 || ::connect(s, (sockaddr*)&a, sizeof a) != 0) { std::perror("connect"); std::exit(2); }
  return s;
}
// has the peer closed its end?  (EOF readable on the client socket)
static bool peer_closed(int c) { pollfd p{c, POLLIN, 0}; if (poll(&p, 1, 200) <= 0) return false; char b; return recv(c, &b, 1, MSG_DONTWAIT) == 0; }

static inplace_stop_source srcB;
static std::atomic<int> aResult{-100}, bResult{-100}, cResult{-100};   // 1: value, -1: done, -2: error
static std::optional<file_t> fileA, fileB;
struct receiver_a {
  void set_value(file_t&& f) && noexcept { fileA.emplace(std::move(f)); srcB.request_stop(); aResult = 1; }   // "the remaining work is unnecessary": stop B
  template <typename E> void set_error(E&&) && noexcept { aResult = -2; }
  void set_done() && noexcept { aResult = -1; }
};
struct receiver_b {
  void set_value(file_t&& f) && noexcept { fileB.emplace(std::move(f)); bResult = 1; }
  template <typename E> void set_error(E&&) && noexcept { bResult = -2; }
  void set_done() && noexcept { bResult = -1; }
  friend inplace_stop_token tag_invoke(tag_t<get_stop_token>, const receiver_b&) noexcept { return srcB.get_token(); }
};
struct receiver_c {     // does not take the file: the temporary built by on_accept still owns the descriptor when set_value returns
  void set_value(file_t&&) && noexcept { cResult = 1; }
  template <typename E> void set_error(E&&) && noexcept { cResult = -2; }
  void set_done() && noexcept { cResult = -1; }
};
static io_uring_context* ctxp; static int lA, lB, lC;
static auto make_a() { return unifex::connect(io_uring_context::accept_sender{*ctxp, lA}, receiver_a{}); }
static auto make_b() { return unifex::connect(io_uring_context::accept_sender{*ctxp, lB}, receiver_b{}); }
static auto make_c() { return unifex::connect(io_uring_context::accept_sender{*ctxp, lC}, receiver_c{}); }
static manual_lifetime<decltype(make_a())> opA;
static manual_lifetime<decltype(make_b())> opB;
static manual_lifetime<decltype(make_c())> opC;
struct starter_receiver {
  void set_value() && noexcept {
    opA.construct_with([] { return make_a(); }); opB.construct_with([] { return make_b(); }); opC.construct_with([] { return make_c(); });
    unifex::start(opA.get()); unifex::start(opB.get()); unifex::start(opC.get());
  }
  template <typename E> void set_error(E&&) && noexcept {}
  void set_done() && noexcept {}
};

int main() {
  io_uring_context ctx; ctxp = &ctx;
  inplace_stop_source runStop;
  std::thread t{[&] { ctx.run(runStop.get_token()); }};
  unsigned short pA, pB, pC; lA = listener(&pA); lB = listener(&pB); lC = listener(&pC);
  int cA = client(pA), cB = client(pB), cC = client(pC);      // three connections wait in the backlogs: each accept completes at once
  std::this_thread::sleep_for(50ms);
  const int base = open_fds();
  auto s = unifex::connect(schedule(ctx.get_scheduler()), starter_receiver{});
  unifex::start(s);
  for (int i = 0; i < 100 && (aResult.load() == -100 || bResult.load() == -100 || cResult.load() == -100); ++i) std::this_thread::sleep_for(20ms);
  auto name = [](int r) { return r == 1 ? "value" : r == -1 ? "done" : r == -2 ? "error" : "none"; };
  std::printf("accept A: %s   accept B (stop requested by A's receiver before B's continuation ran): %s   accept C (receiver ignores the file): %s\n", name(aResult), name(bResult), name(cResult));
  const int held = open_fds() - base;
  std::printf("descriptors open beyond the baseline while the receivers hold their files: %d (A %s, B %s)\n", held, fileA ? "holds 1" : "holds 0", fileB ? "holds 1" : "holds 0");
  fileA.reset(); fileB.reset();
  std::this_thread::sleep_for(50ms);
  const int leaked = open_fds() - base;
  bool eofA = peer_closed(cA), eofB = peer_closed(cB), eofC = peer_closed(cC);
  std::printf("after the receivers dropped their files: %d descriptor(s) still open; peers see EOF: A %s, B %s, C %s\n", leaked, eofA ? "yes" : "NO", eofB ? "yes" : "NO", eofC ? "yes" : "NO");
  bool settled = aResult == 1 && cResult == 1 && (bResult == 1 || bResult == -1);
  bool defect = !settled || leaked != 0 || !eofA || !eofB || !eofC;
  if (bResult == -1 && (leaked != 0 || !eofB))
    std::printf("DEFECT: accept B took a connection (CQE res >= 0) but completed with set_done(): the accepted descriptor has no owner, is never closed, and the peer's connection stays established\n");
  else if (defect) std::printf("DEFECT: an accepted descriptor was neither delivered nor closed (or an accept did not complete)\n");
  else std::printf("OK: every accepted descriptor was delivered to its receiver or closed by the temporary that owned it; none is left open\n");
  std::fflush(stdout);
  runStop.request_stop(); t.join();
  return defect ? 1 : 0;
}
