// C19 / C02: create_basic_sender, body(start) throws after it has handed a callback to another thread.
//
// tag_invoke(start): start_impl() runs body(start) under the lock; when the body throws, start_impl's guard unwinds (unlock) and only
// then the catch block in tag_invoke re-locks, calls set_error(), and sets `completed = true` unconditionally.  A callback that
// completes the operation in the window between the unwinding unlock and the re-lock is not noticed: start() then touches an
// operation that has been completed (and possibly destroyed) by the callback, and delivers the completion a second time.
//
// The schedule is forced with a user-supplied lock factory (a documented customisation point): the guard's unlock on the start thread
// waits, once, until the callback thread has finished.  Nothing in the library is changed.
//   g++ -std=c++20 -g -DNDEBUG [-DDELETE_OP -fsanitize=address] -I/repo/include -I/repo/_build/include X.cpp /repo/_build/source/libunifex.a -lpthread
#include <unifex/create_basic_sender.hpp>
#include <unifex/sender_concepts.hpp>

#include <atomic>
#include <chrono>
#include <cstdio>
#include <functional>
#include <mutex>
#include <stdexcept>
#include <thread>

using namespace unifex;

static std::function<void(int)> g_cb;
static std::function<void()> g_destroy_op;
static std::atomic<bool> g_hold_start_after_unlock{false}, g_cb_done{false};
static std::atomic<int> g_completions{0};
static std::thread::id g_start_thread;
static std::thread g_cb_thread;

struct Ctx { std::recursive_mutex m; };
struct Guard {
  explicit Guard(Ctx& c) noexcept : c_(c) { c_.m.lock(); }
  Guard(const Guard&) = delete;
  ~Guard() {
    c_.m.unlock();
    if (std::this_thread::get_id() == g_start_thread && g_hold_start_after_unlock.exchange(false)) {
      while (!g_cb_done.load()) std::this_thread::yield();       // the callback thread runs to completion right after start's unlock
    }
  }
  Ctx& c_;
};

struct Recv {
  void set_value(int) && noexcept { std::printf("receiver: set_value (#%d)\n", ++g_completions); g_destroy_op(); }
  void set_error(std::exception_ptr) && noexcept { std::printf("receiver: set_error (#%d)\n", ++g_completions); g_destroy_op(); }
  void set_done() && noexcept { std::printf("receiver: set_done (#%d)\n", ++g_completions); g_destroy_op(); }
};

int main() {
  g_start_thread = std::this_thread::get_id();
  auto sender = create_basic_sender<int>(
      [](auto event, auto& op, auto&&...) {
        if constexpr (event.is_start) {
          g_cb = safe_callback<int>(op);
          g_cb_thread = std::thread([] { g_cb(1); g_cb_done.store(true); });   // the async API calls back on its own thread: blocks on the op lock
          std::this_thread::sleep_for(std::chrono::milliseconds(100));
          g_hold_start_after_unlock.store(true);
          throw std::runtime_error("start failed after the request was issued");
        } else if constexpr (event.is_callback) {
          op.set_value(1);
        }
      },
      []() { return Ctx{}; },
      [](Ctx& ctx) noexcept { return Guard{ctx}; });
  using Op = connect_result_t<decltype(sender), Recv>;
  Op* op = new Op(connect(std::move(sender), Recv{}));
#ifdef DELETE_OP
  g_destroy_op = [&] { delete op; op = nullptr; };
#else
  g_destroy_op = [] {};
#endif
  start(*op);
  g_cb_thread.join();
  std::printf("the receiver was completed %d time(s)\n", g_completions.load());
  return g_completions.load() == 1 ? 0 : 1;
}
