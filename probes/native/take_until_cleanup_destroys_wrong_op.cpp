// take_until cleanup: trigger_receiver::set_done destructs sourceOp_ instead of triggerOp_.
// Streams whose cleanup operation states count construction/destruction per stream.
#include <unifex/take_until.hpp>
#include <unifex/for_each.hpp>
#include <unifex/just_done.hpp>
#include <unifex/just.hpp>
#include <unifex/sync_wait.hpp>
#include <unifex/sender_concepts.hpp>
#include <unifex/receiver_concepts.hpp>
#include <cstdio>
using namespace unifex;
struct counters { int ctor = 0, dtor = 0; };
struct cleanup_sender {
  counters* c;
  template <template <typename...> class Variant, template <typename...> class Tuple> using value_types = Variant<>;
  template <template <typename...> class Variant> using error_types = Variant<std::exception_ptr>;
  static constexpr bool sends_done = true;
  static constexpr blocking_kind blocking = blocking_kind::always_inline;
  template <typename R> struct op {
    counters* c; R r;
    op(counters* c, R&& r) : c(c), r((R&&)r) { ++c->ctor; }
    op(op&&) = delete;
    ~op() { ++c->dtor; }
    void start() & noexcept { unifex::set_done(std::move(r)); }
  };
  template <typename R> op<remove_cvref_t<R>> connect(R&& r) const { return op<remove_cvref_t<R>>{c, (R&&)r}; }
};
struct stream {
  counters* c;
  auto next() { return just_done(); }
  auto cleanup() { return cleanup_sender{c}; }
};
int main() {
  counters src, trg;
  sync_wait(for_each(take_until(stream{&src}, stream{&trg}), [](auto&&...) {}));
  std::printf("source cleanup op: constructed %d destroyed %d\ntrigger cleanup op: constructed %d destroyed %d\n", src.ctor, src.dtor, trg.ctor, trg.dtor);
  return (src.ctor == src.dtor && trg.ctor == trg.dtor) ? 0 : 1;
}
