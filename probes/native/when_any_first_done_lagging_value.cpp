// when_any: "The result of the algorithm is always the completion result of the first sender to complete, even if
// done or error.  Lagging senders may complete with set_value in which case their results are discarded."
// (doc/api_reference.md).  The first-result slot (std::once_flag + optional) is claimed only by VALUE completions:
// when the first child to complete signals done (or error + receiver stop), a lagging child that does not honour the
// stop request and completes with a value afterwards still wins call_once, and when_any delivers the LAGGING value.
//
// g++ -std=c++17 -g -DNDEBUG -I/repo/include -I/repo/_build/include when_any_first_done_lagging_value.cpp \
//     /repo/_build/source/libunifex.a -lpthread
#include <unifex/just.hpp>
#include <unifex/just_error.hpp>
#include <unifex/sync_wait.hpp>
#include <unifex/when_any.hpp>
#include <unifex/inplace_stop_token.hpp>
#include <unifex/with_query_value.hpp>

#include <cstdio>
#include <exception>
#include <optional>

using namespace unifex;

static int g_order = 0;          // completion sequence number
static int g_done_at = 0, g_err_at = 0, g_value_at = 0;
static bool g_stop_seen_by_lagging = false;

// completes with set_done from start(), declares an int value type (so it is compatible with just(int))
struct done_int_sender {
  template <template <typename...> class Variant, template <typename...> class Tuple>
  using value_types = Variant<Tuple<int>>;
  template <template <typename...> class Variant>
  using error_types = Variant<std::exception_ptr>;
  static constexpr bool sends_done = true;
  static constexpr blocking_kind blocking = blocking_kind::always_inline;
  template <typename R>
  struct op {
    R r;
    void start() noexcept {
      g_done_at = ++g_order;
      unifex::set_done(std::move(r));
    }
  };
  template <typename R>
  friend op<remove_cvref_t<R>> tag_invoke(tag_t<connect>, done_int_sender, R&& r) {
    return op<remove_cvref_t<R>>{(R&&)r};
  }
};

// completes with set_error from start()
struct error_int_sender {
  template <template <typename...> class Variant, template <typename...> class Tuple>
  using value_types = Variant<Tuple<int>>;
  template <template <typename...> class Variant>
  using error_types = Variant<std::exception_ptr>;
  static constexpr bool sends_done = false;
  static constexpr blocking_kind blocking = blocking_kind::always_inline;
  template <typename R>
  struct op {
    R r;
    void start() noexcept {
      g_err_at = ++g_order;
      unifex::set_error(std::move(r), std::make_exception_ptr(42));
    }
  };
  template <typename R>
  friend op<remove_cvref_t<R>> tag_invoke(tag_t<connect>, error_int_sender, R&& r) {
    return op<remove_cvref_t<R>>{(R&&)r};
  }
};

// a lagging, non-cancellable leaf: completes with a value although stop has been requested on its token
struct lagging_value_sender {
  int v;
  template <template <typename...> class Variant, template <typename...> class Tuple>
  using value_types = Variant<Tuple<int>>;
  template <template <typename...> class Variant>
  using error_types = Variant<std::exception_ptr>;
  static constexpr bool sends_done = false;
  static constexpr blocking_kind blocking = blocking_kind::always_inline;
  template <typename R>
  struct op {
    R r;
    int v;
    void start() noexcept {
      g_stop_seen_by_lagging = get_stop_token(r).stop_requested();
      g_value_at = ++g_order;
      unifex::set_value(std::move(r), (int)v);
    }
  };
  template <typename R>
  friend op<remove_cvref_t<R>> tag_invoke(tag_t<connect>, lagging_value_sender s, R&& r) {
    return op<remove_cvref_t<R>>{(R&&)r, s.v};
  }
};

int main() {
  int bad = 0;
  {
    // child 0 completes with done FIRST (strictly before child 1 is even started); child 1 lags with a value
    std::optional<int> r = sync_wait(when_any(done_int_sender{}, lagging_value_sender{7}));
    std::printf("case 1: first completion = done (#%d), lagging value (#%d, saw stop request: %d) -> when_any result: %s",
                g_done_at, g_value_at, (int)g_stop_seen_by_lagging, r ? "VALUE " : "done\n");
    if (r) { std::printf("%d   <-- documented: done (lagging values are discarded)\n", *r); bad++; }
  }
  {
    // first completion = error, receiver's token already stopped, lagging value
    g_order = 0;
    inplace_stop_source ss;
    ss.request_stop();
    const char* what = "?";
    std::optional<int> r;
    try {
      r = sync_wait(with_query_value(when_any(error_int_sender{}, lagging_value_sender{9}), get_stop_token, ss.get_token()));
      what = r ? "VALUE" : "done";
    } catch (...) {
      what = "error";
    }
    std::printf("case 2: receiver stopped, first completion = error (#%d), lagging value (#%d) -> when_any result: %s", g_err_at, g_value_at, what);
    if (r) { std::printf(" %d   <-- the lagging child's value, neither the first completion (error) nor done\n", *r); bad++; } else std::printf("\n");
  }
  {
    // control: first completion = value, lagging value discarded
    g_order = 0;
    std::optional<int> r = sync_wait(when_any(lagging_value_sender{1}, lagging_value_sender{2}));
    std::printf("control: two values -> %d (expected 1)\n", r ? *r : -1);
  }
  std::printf(bad ? "REPRODUCED (%d)\n" : "not reproduced\n", bad);
  return bad ? 1 : 0;
}
