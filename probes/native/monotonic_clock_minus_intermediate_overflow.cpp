// build: g++ -std=c++17 -fsanitize=signed-integer-overflow -I/repo/include monotonic_clock_minus_intermediate_overflow.cpp && ./a.out
// observed: "runtime error: signed integer overflow: 922337203686 * 10000000 cannot be represented in type long int" (monotonic_clock.hpp:83); the wrapped result is still d.
// operator-(time_point, time_point): the intermediate (a.s - b.s) * 10'000'000 overflows int64 (UB) although
// the mathematical result is representable: (a + d) - a for d = duration::max() when the addition carries a second.
#include <unifex/linux/monotonic_clock.hpp>
#include <cstdio>
#include <limits>
using unifex::linuxos::monotonic_clock;
int main() {
  auto a = monotonic_clock::time_point::from_seconds_and_nanoseconds(0, 600'000'000);
  monotonic_clock::duration d{std::numeric_limits<std::int64_t>::max()};
  auto t = a + d;                       // (922337203686 s, 77580700 ns): exact
  auto back = t - a;                    // 922337203686 * 10^7 = 9223372036860000000 > INT64_MAX
  std::printf("t = (%lld, %lld)  (a + d) - a == d: %s\n", (long long)t.seconds_part(), t.nanoseconds_part(), back == d ? "yes (wrapped)" : "NO");
  return 0;
}
